"""C06 — a failed update leaves the project untouched."""
import itertools, datetime as dt
from . import common, rwcheck, rwgen, project

LEVEL = "proof"
EXTRA_TARGETS = ["Model/Rewrite"]
TRUSTED_BASE = [
    "Coq 8.16.1 kernel + vm_compute",
    "T1 translator: whether rewrite_files iterates over list(iter_rewritten(...)) or the lazy generator (v1 and v2), and that its loop only joins, opens and writes",
    "hand-written Gallina model Model/Rewrite.v (validate_all / rewrite_files_eager / rewrite_files_lazy with explicit read and write effects)",
    "harness: fault enumeration on real temporary projects (every (file, pattern) made non-matching, every file removed, file orders, v1/v2, fake VCS on/off)",
]
ASSUMPTIONS = ["the VCS is a fake git executable first on PATH that logs every invocation"]

MUTATING = {"add_path", "commit", "tag", "push"}


def one_fault_run(rep, impl, spec, order, fault, commit, dry=False):
    """fault = ('nomatch', file index, pattern index) | ('missing', file index)"""
    files = [spec["files"][i] for i in order]
    spec2 = dict(spec, files=files)
    kw = dict(commit=commit, tag=commit, push=False, vcs="fakegit" if commit else None,
              vcs_cfg=dict(tags=[], status="", remote=None) if commit else None, hooks={"pre": "ok", "post": "ok"} if commit else None)
    with rwgen.to_temp_project(project, spec2, **kw) as prj:
        rwgen.write_contents(prj, spec2)
        if prj.cfg_error(impl):
            return None
        target = spec["files"][fault[1]]
        if fault[0] == "missing":
            import os
            os.unlink(prj.path(target.path))
        else:
            # make pattern `fault[2]` non-matching: break every occurrence of it in that file
            segs_text = []
            for segs, term in target.lines:
                for s in segs:
                    if s.kind == "occ" and s.value == fault[2]:
                        segs_text.append("<<removed>>")
                    else:
                        segs_text.append(s.value if s.kind == "text" else prj.render(target.patterns[s.value]))
                segs_text.append(term)
            with open(prj.path(target.path), "wb") as f:
                f.write("".join(segs_text).encode("utf-8"))
        before = prj.snapshot()
        nd = rwgen.avoid_week53(spec["vp"], spec["date"] + dt.timedelta(days=400))
        args = ["update", "--no-fetch", "--date", nd.isoformat()] + spec["flags"] + (["--dry"] if dry else [])
        code, out, logs, exc = prj.run(impl, args)
        after = prj.snapshot()
        vlog = prj.vcs_log() if commit else []
        hooks = prj.hooks_log() if commit else []
        inp = dict(version_pattern=spec["vp"], current_version=spec["old"], args=args, order=[f.path for f in files], fault=list(fault),
                   fault_file=target.path, commit=commit, exit=code, logs=logs[-4:])
        if code == 0:
            rep.violation("update exits 0 although a configured pattern has no match / a file is missing", input=inp, **{"class": "fault-exit0"})
        changed = sorted(p for p in set(before) | set(after) if before.get(p) != after.get(p))
        if changed:
            rep.violation("failed update changed files: %s" % changed, input=dict(inp, changed=changed), **{"class": "partial-write"})
        mut = [e["key"] for e in vlog if e["key"] in MUTATING]
        if mut or hooks:
            rep.violation("failed update ran VCS commands / hooks: %s %s" % (mut, hooks), input=inp, **{"class": "vcs-after-failure"})
        return code


def run(rep, tier, seed, model_ok=True, effort=1):
    from . import impl
    r = common.rng(seed, "c06")
    rep.rule = ("fault enumeration: generated projects of 1..5 files x 1..3 patterns; every (file, pattern) made non-matching and every file removed, "
                "in several (thorough: all) file orders, v2 and legacy engines, commit off and on (fake git + hooks); after the failing `update` all "
                "bytes must be unchanged and no add/commit/tag/push/hook may have run; the same fault under --dry; non-trivial = distinct (project, order, fault)")
    nproj = (5 if tier == "quick" else 40) * effort
    rep.exhaustive = tier == "thorough"
    for pi in range(nproj):
        legacy = pi % 4 == 3
        spec = rwgen.gen_project(r, impl, legacy=legacy, max_files=5 if tier == "thorough" else 4, allow_mixed=False)
        if not spec["old"]:
            continue
        for fs in spec["files"]:
            fs.patterns[:] = fs.patterns[:3]
            fs.lines = [(segs, t) for segs, t in fs.lines if all(s.kind == "text" or s.value < 3 for s in segs)]
            fs.entry_repeated = False
        n = len(spec["files"])
        orders = list(itertools.permutations(range(n)))
        if tier == "quick" or n > 4:
            r.shuffle(orders)
            orders = orders[:2] + [tuple(range(n)), tuple(reversed(range(n)))]
            orders = list(dict.fromkeys(orders))
        faults = [("missing", i) for i in range(n)] + [("nomatch", i, j) for i in range(n) for j in range(len(spec["files"][i].patterns))]
        for order in orders:
            for fault in faults:
                for commit in (False, True):
                    if tier == "quick" and commit and r.random() < 0.5:
                        continue
                    code = one_fault_run(rep, impl, spec, order, fault, commit)
                    if code is None:
                        continue
                    rep.case((pi, order, fault, commit))
                    rep.count("fault=%s" % fault[0])
                    rep.count("commit=%s" % commit)
                    rep.count("engine=%s" % ("v1" if legacy else "v2"))
            # the dry run on the same faults
            for fault in faults[:3]:
                code = one_fault_run(rep, impl, spec, order, fault, False, dry=True)
                if code is not None:
                    rep.case((pi, order, fault, "dry"))
                    rep.count("dry-fault-runs")
        rep.sample(dict(version_pattern=spec["vp"], files=[f.path for f in spec["files"]], patterns=[f.patterns for f in spec["files"]], orders=len(orders), faults=len(faults)))
    # the new version is rejected (lower / equal / PEP 440-lower tag change): nothing may change
    for vp, cur, args_ in [("MAJOR.MINOR.PATCH[-TAG]", "1.2.3", ["--tag", "beta"]), ("MAJOR.MINOR.PATCH[-TAG]", "1.2.3-rc", ["--tag", "beta"]),
                           ("MAJOR.MINOR.PATCH", "1.2.3", ["--set-version", "1.2.3"]), ("MAJOR.MINOR.PATCH", "1.2.3", ["--set-version", "1.2.2"]),
                           ("MAJOR.MINOR.PATCH", "1.2.3", []), ("vYYYY0M.BUILD[-TAG]", "v209901.1001", ["--set-version", "v202001.1001"]),
                           # equal under PEP 440, different as text
                           ("MAJOR.MINOR[.PATCH]", "1.2.0", ["--set-version", "1.2"]), ("MAJOR.MINOR[.PATCH]", "1.2", ["--set-version", "1.2.0"]),
                           ("YYYY.0M[.PATCH]", "2026.10.0", []), ("MAJOR.MINOR.PATCH[PYTAG[NUM]]", "1.2.3rc0", ["--set-version", "1.2.3rc"]),
                           # not a version of the pattern at all: empty, surrounded by whitespace, re-cased literal text
                           ("MAJOR.MINOR.PATCH", "1.2.3", ["--set-version", ""]), ("MAJOR.MINOR.PATCH", "1.2.3", ["--patch", "--set-version", ""]),
                           ("MAJOR.MINOR.PATCH", "1.2.3", ["--set-version", "1.2.4\n"]), ("MAJOR.MINOR.PATCH", "1.2.3", ["--set-version", "1.2.4 "]),
                           ("vYYYY0M.BUILD[-TAG]", "v202401.1001-beta", ["--set-version", "v202402.1002-beta "]), ("vMAJOR.MINOR.PATCH", "v1.2.3", ["--set-version", "V1.2.4"]),
                           ("vMAJOR.MINOR.PATCH[-TAG]", "v1.2.3-beta", ["--set-version", "v1.2.4-BETA"])]:
        for commit in (False, True):
            prj = project.TempProject(vp, cur, files={"a.txt": ["ver = {version}"]}, commit=commit, tag=commit, vcs="fakegit" if commit else None,
                                      vcs_cfg=dict(tags=[], status="", remote=None) if commit else None, hooks={"pre": "ok"} if commit else None)
            with prj:
                before = prj.snapshot()
                args = ["update", "--no-fetch", "--date", "2026-10-01"] + args_
                code, out, logs, exc = prj.run(impl, args)
                after = prj.snapshot()
                mut = [e["key"] for e in prj.vcs_log() if e["key"] in MUTATING] if commit else []
                rep.case(("rejected-version", vp, cur, tuple(args_), commit))
                rep.count("rejected-version-runs")
                inp = dict(version_pattern=vp, current_version=cur, args=args, commit=commit, exit=code, logs=logs[-4:])
                if code == 0 or after != before or mut or (commit and prj.hooks_log()):
                    rep.violation("a rejected new version did not stop the update (exit %s, files changed: %s, vcs: %s)" % (code, after != before, mut), input=inp, **{"class": "rejected-not-stopped"})
    # a file pattern made only of optional text (legacy {release}: the empty string "matches" everywhere) that occurs nowhere in its file is a
    # pattern without a match like any other
    for commit in (False, True):
        prj = project.TempProject("{pycalver}", "v202001.0042-beta", files={"a.txt": ["ver = {pycalver}"], "b.txt": ["{release}"]},
                                  contents={"b.txt": "first line\nnothing that looks like a release tag here\nlast line\n"}, commit=commit, tag=commit,
                                  vcs="fakegit" if commit else None, vcs_cfg=dict(tags=[], status="", remote=None) if commit else None)
        with prj:
            before = prj.snapshot()
            for extra in ([], ["--dry"]):
                code, out, logs, exc = prj.run(impl, ["update", "--no-fetch", "--date", "2020-03-01"] + extra)
                after = prj.snapshot()
                rep.case(("all-optional-pattern", commit, tuple(extra)))
                if code == 0 or after != before:
                    rep.violation("update exits %s although a configured pattern ({release}) has no match in its file%s" % (code, "; files changed" if after != before else ""),
                                  input=dict(version_pattern="{pycalver}", file_patterns={"b.txt": ["{release}"]}, args=["update", "--no-fetch", "--date", "2020-03-01"] + extra, exit=code, logs=logs[-3:]),
                                  **{"class": "fault-exit0"})
                    break
    # the new version already exists as a tag: refused before anything is written, whatever flags accompany --set-version
    for extra in ([], ["--ignore-vcs-tag"], ["--ignore-vcs-tag", "--allow-dirty"]):
        prj = project.TempProject("MAJOR.MINOR.PATCH", "1.0.4", files={"a.txt": ["ver = {version}"]}, commit=True, tag=True, vcs="fakegit",
                                  vcs_cfg=dict(tags=["1.0.5", "1.0.4"], tags_branch=["1.0.4"], status="", remote=None), hooks={"pre": "ok"})
        with prj:
            before = prj.snapshot()
            args = ["update", "--no-fetch", "--set-version", "1.0.5"] + extra
            code, out, logs, exc = prj.run(impl, args)
            after = prj.snapshot()
            mut = [e["key"] for e in prj.vcs_log() if e["key"] in MUTATING]
            rep.case(("existing-tag", tuple(extra)))
            rep.count("rejected-version-runs")
            if code == 0 or after != before or mut or prj.hooks_log():
                rep.violation("a rejected new version (it already exists as a tag) did not stop the update (exit %s, files changed: %s, vcs: %s)" % (code, after != before, mut),
                              input=dict(args=args, tags=["1.0.5", "1.0.4"], exit=code, logs=logs[-4:]), **{"class": "rejected-not-stopped"})
    # one file reached under two names (a symbolic link): the entry with the non-matching pattern must still stop the update
    import os
    for commit in (False, True):
        for first in ("real", "link"):
            for extra in ([], ["--dry"]):
                entries = [("README.md", ["ver {version}"]), ("docs/README.md", ["no-such-text {version}"])]
                if first == "link":
                    entries.reverse()
                prj = project.TempProject("MAJOR.MINOR.PATCH", "1.2.3", files=dict(entries), contents={"README.md": "# readme\nver 1.2.3\n", "docs/README.md": "placeholder\n"},
                                          commit=commit, tag=commit, vcs="fakegit" if commit else None, vcs_cfg=dict(tags=[], status="", remote=None) if commit else None)
                with prj:
                    os.unlink(prj.path("docs/README.md"))
                    os.symlink("../README.md", prj.path("docs/README.md"))
                    before = prj.snapshot()
                    code, out, logs, exc = prj.run(impl, ["update", "--no-fetch", "--patch"] + extra)
                    after = prj.snapshot()
                    mut = [e["key"] for e in prj.vcs_log() if e["key"] in MUTATING] if commit else []
                    rep.case(("symlink-twin", commit, first, tuple(extra)))
                    rep.count("symlink-twin-runs")
                    if code == 0 or after != before or mut:
                        rep.violation("a pattern without a match (entry reached through a symbolic link to an already listed file) did not stop the update",
                                      input=dict(entries=entries, commit=commit, args=["update", "--no-fetch", "--patch"] + extra, exit=code, logs=logs[-4:], vcs=mut),
                                      **{"class": "fault-exit0"})
    # a configured glob entry that matches no file is a missing file
    for commit in (False, True):
        prj = project.TempProject("MAJOR.MINOR.PATCH", "1.2.3", files={"a.txt": ["ver = {version}"], "gone/*.md": ["{version}"]}, commit=commit, tag=commit,
                                  vcs="fakegit" if commit else None, vcs_cfg=dict(tags=[], status="", remote=None) if commit else None)
        with prj:
            before = prj.snapshot()
            for extra in ([], ["--dry"]):
                code, out, logs, exc = prj.run(impl, ["update", "--no-fetch", "--patch"] + extra)
                after = prj.snapshot()
                rep.case(("glob-without-files", commit, tuple(extra)))
                if code == 0 or after != before:
                    rep.violation("a configured glob entry without files did not stop the update", input=dict(args=extra, commit=commit, exit=code, logs=logs[-3:]), **{"class": "missing-glob-ignored"})
    # correspondence: the generated constants say rewrite_files materialises the generator
    if model_ok:
        bad, errs = common.coq_eval("c06", "From BV Require Import Gen.Tables.", "bool", "fun b => b", ["REWRITE_FILES_EAGER_V2", "REWRITE_FILES_EAGER_V1"])
        for i in bad:
            rep.mismatch("rewrite_files consumes the lazy generator while writing (T1 constant is false)", input=dict(engine=["v2", "v1"][i]))
        rep.corr_errors += errs


def search(rep, tier, seed, effort=2):
    run(rep, tier, seed, model_ok=False, effort=effort)


def replay(payload):
    print("replay C06: see violation input (project, file order, fault) in the replay file")
    return 1
