"""Generators for v2 patterns (the documented pattern grammar) and version states, plus Coq encoders."""
import datetime as dt
from .common import cs, cos, cz, cb, rng

CAL_GROUPS = [
    # (pattern fragment, kind)
    ("YYYY", "y"), ("YYYY.0M", "ym"), ("YYYY.MM", "ym"), ("YYYY0M", "ym"), ("YYYY.0M.0D", "ymd"), ("YYYY.MM.DD", "ymd"),
    ("YYYY0M0D", "ymd"), ("YY.0M", "ym2"), ("0Y.0M", "ym2"), ("YY.MM.DD", "ymd2"), ("0Y0M0D", "ymd2"),
    ("YYYY.Q", "yq"), ("YYYYqQ", "yq"), ("YYYY.JJJ", "yj"), ("YYYY.00J", "yj"), ("YYYYd00J", "yj"),
    ("YYYY.WW", "yw"), ("YYYYw0W", "yw"), ("YYYY.UU", "yu"), ("YYYYw0U", "yu"), ("GGGG.VV", "gv"), ("GGGGw0V", "gv"),
    ("GG.0V", "gv2"), ("0G.VV", "gv2"), ("YY.WW", "yw2"), ("0Y.0U", "yu2"), ("YYYY.Q.0M", "yqm"),
]
# combinations that is_valid_week_pattern must reject
BAD_WEEK_GROUPS = ["YYYY.VV", "YYYYw0V", "GGGG.WW", "GGGG.0U", "YY.0V", "0G.UU"]
NUM_GROUPS = ["MAJOR.MINOR.PATCH", "MAJOR.MINOR", "MAJOR", "MAJOR[.MINOR[.PATCH]]", "MAJOR.MINOR[.PATCH]", "BUILD", "BLD",
              "MAJOR.MINOR.PATCH.BUILD", "INC0", "INC1", "MAJOR.INC0", "PATCH.INC1", "MINOR.BLD", "MAJOR.MINOR.INC0"]
TAG_GROUPS = ["", "", "[-TAG]", "-TAG", "[-TAG[NUM]]", "[-TAGNUM]", "[PYTAGNUM]", "[PYTAG[NUM]]", "-TAGNUM", "[.PYTAGNUM]",
              "[-TAG[.NUM]]", "PYTAGNUM", "[+TAG]"]
SEPS = [".", ".", ".", "-", "_", "+", "", " ", "~", "/", ":"]
PREFIXES = ["", "", "v", "v", "ver-", "release_", "r", "x+y ", "(a) ", "*", "a|b ", "\\[x\\] "]
SUFFIXES = ["", "", "", "", " end", "!", ")", "*"]

TAGS = ["final", "alpha", "beta", "rc", "dev", "post", "preview"]
PYTAG = {"final": "", "alpha": "a", "beta": "b", "rc": "rc", "dev": "dev", "post": "post", "preview": "rc"}
NUMS = [0, 0, 1, 2, 9, 10, 11, 99, 100, 101, 999, 1000, 12345]
BIDS = ["1000", "1001", "0001", "0999", "1999", "22000", "0033", "9998", "1", "123", "10000", "8999", "0100", "9", "99", "999"]


# optional groups that start with another optional group ("[[") and sibling groups
SPECIAL_PATTERNS = ["v[[MAJOR.]MINOR.]PATCH", "MAJOR.MINOR[[.PATCH]-TAG]", "vYYYY.BUILD[[-TAG].NUM]", "MAJOR[.MINOR][-TAG]", "vMAJOR[[.MINOR].PATCH]",
                    # the same part twice (the second occurrence gets a suffixed group name)
                    "vYYYY0M.BUILD[-TAG] (c) YYYY", "YYYY.BUILD[-TAG][+bBUILD]", "apiMAJOR/vMAJOR.MINOR.PATCH",
                    # ... and three times (every occurrence needs a group name of its own)
                    "YYYY.0M.0D (0D.0M.YYYY, day 0D)", "MAJOR.MINOR.PATCH (api MAJOR, abi MAJOR)",
                    # a week part alone in an optional group (week 0 is a value, not a zero to be omitted); literal text closing an optional group
                    "vYYYY[.WW]", "YYYY[.UU[.INC0]]", "YYYY[wWW][-TAG]", "MAJOR.MINOR.PATCH[-TAG[.NUM]-x]", "vMAJOR.MINOR[.PATCH[-TAG]+local]",
                    # INC1 restarts at 1, which is not a zero: an optional group holding it is always written
                    "YYYY.MM[.INC1]", "MAJOR.MINOR[.INC1]", "vMAJOR[.MINOR[.INC1]]",
                    # a part next to a longer part whose name contains it, in one bracket-free stretch
                    "vYYYY.MM-YY.BUILD", "GGGGwVV/GG.PATCH", "MAJOR.MINOR.PATCH[-TAG+PYTAGNUM]",
                    # the documented line anchors around a whole pattern
                    "^MAJOR.MINOR.PATCH$", "vYYYY0M.BUILD[-TAG]$", "^vMAJOR.MINOR[.PATCH]"]


def gen_pattern(r, allow_bad_week=False):
    """Returns (raw_pattern, info). info['wf'] is True when the pattern is in the well-formed class
    for which round-trip is claimed (parts separated so that tokenisation is unambiguous)."""
    if r.random() < 0.08:
        pat = r.choice(SPECIAL_PATTERNS)
        two_digit = pat in ("vYYYY.MM-YY.BUILD", "GGGGwVV/GG.PATCH")     # two-digit year parts: claimed for 2001..2099
        return pat, dict(wf=True, bridge=False, cal=("y2" if two_digit else "y") if ("YYYY" in pat or "GGGG" in pat) else None, has_num=True, tag="", prefix="", suffix="", sep=".")
    parts = []
    wf = True
    has_cal = r.random() < 0.6
    cal = None
    if has_cal:
        if allow_bad_week and r.random() < 0.15:
            cal = (r.choice(BAD_WEEK_GROUPS), "bad")
        else:
            cal = r.choice(CAL_GROUPS)
        parts.append(cal[0])
    has_num = r.random() < 0.85 or not has_cal
    if has_num:
        parts.append(r.choice(NUM_GROUPS))
    sep = r.choice(SEPS)
    body = sep.join(parts)
    if sep == "" and len(parts) > 1:
        wf = False  # a numeric part directly after another part: tokenisation is ambiguous
    if sep == " ":
        pass
    tag = r.choice(TAG_GROUPS)
    if tag and tag[0] not in "[-.+":
        wf = False   # e.g. a mandatory PYTAG cannot express a final release, TAG glued to a number is ambiguous
    prefix = r.choice(PREFIXES)
    suffix = r.choice(SUFFIXES) if r.random() < 0.3 else ""
    pat = prefix + body + tag + suffix
    # a literal ending in a digit or containing upper case before a numeric part breaks tokenisation
    if has_cal and cal and cal[0].endswith(("YYYY0M", "YYYY0M0D", "0Y0M0D")):
        pass
    info = dict(wf=wf, cal=cal[1] if cal else None, has_num=has_num, tag=tag, prefix=prefix, suffix=suffix, sep=sep)
    return pat, info


def gen_date(r):
    k = r.random()
    if k < 0.25:
        y = r.choice([2000, 2001, 2016, 2017, 2018, 2019, 2020, 2021, 2024, 2026, 2032, 2099])
        m, d = r.choice([(1, 1), (1, 2), (1, 3), (1, 4), (1, 5), (1, 6), (1, 7), (12, 25), (12, 26), (12, 27), (12, 28), (12, 29), (12, 30), (12, 31), (2, 28), (3, 1)])
        return dt.date(y, m, d)
    if k < 0.35:
        y = r.choice([2000, 2004, 2020, 2024, 2096])
        return dt.date(y, 2, 29)
    if k < 0.8:
        return dt.date(2001, 1, 1) + dt.timedelta(days=r.randrange(0, 36158))
    return dt.date(1000, 1, 1) + dt.timedelta(days=r.randrange(0, 3287181))


def gen_state(r, impl):
    """A version state as a V2VersionInfo built from a date and boundary values."""
    from bumpver import version
    d = gen_date(r)
    c = impl.v2version.cal_info(d)
    tag = r.choice(TAGS)
    num = r.choice(NUMS[:8]) if tag != "final" else 0  # (final, num>0) is not reachable by bumping (see fix 3e3eae5)
    v = version.V2VersionInfo(
        year_y=c.year_y, year_g=c.year_g, quarter=c.quarter, month=c.month, dom=c.dom, doy=c.doy,
        week_w=c.week_w, week_u=c.week_u, week_v=c.week_v,
        major=r.choice(NUMS), minor=r.choice(NUMS), patch=r.choice(NUMS), bid=r.choice(BIDS),
        tag=tag, pytag=PYTAG[tag], githash="", hexhash="", num=num, inc0=r.choice(NUMS[:9]), inc1=r.choice([1, 1, 2, 10, 100]))
    return v, d


def coz(x):
    return "None" if x is None else "(Some %s)" % cz(x)


def cvinfo(v):
    """V2VersionInfo -> Coq term of type vinfo."""
    cal = [v.year_y, v.year_g, v.quarter, v.month, v.dom, v.doy, v.week_w, v.week_u, v.week_v]
    return "(mkv %s %s %s %s %s %s %s %s %s %s %s %s)" % (
        " ".join(coz(x) for x in cal), cz(v.major), cz(v.minor), cz(v.patch), cs(v.bid), cs(v.tag), cs(v.pytag),
        cs(v.githash), cs(v.hexhash), cz(v.num), cz(v.inc0), cz(v.inc1))


def cpres_vinfo(res):
    """('ok', vinfo) | 'PatternError' | 'ValueError' | 'crash' -> Coq pres vinfo"""
    if isinstance(res, tuple):
        return "(POk %s)" % cvinfo(res[1])
    return {"PatternError": "PErr", "ValueError": "PValueErr", "crash": "PCrash"}[res]


def ordinal(d):
    return d.toordinal() - 1


def cflags(fl):
    return "(mkflags %s %s %s %s %s %s %s)" % (cb(fl["major"]), cb(fl["minor"]), cb(fl["patch"]), cos(fl["tag"]),
                                               cb(fl["tag_num"]), cb(fl["pin_increments"]), cb(fl["pin_date"]))


def gen_flags(r):
    k = r.random()
    fl = dict(major=False, minor=False, patch=False, tag=None, tag_num=False, pin_increments=False, pin_date=False)
    if k < 0.15:
        return fl
    for key, p in (("major", 0.2), ("minor", 0.25), ("patch", 0.3), ("tag_num", 0.2), ("pin_increments", 0.2), ("pin_date", 0.25)):
        fl[key] = r.random() < p
    if r.random() < 0.35:
        fl["tag"] = r.choice(["alpha", "beta", "rc", "dev", "post", "final"])
    return fl
