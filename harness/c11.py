"""C11 — uncommitted changes are never swept into the bump commit."""
import os, itertools
from . import common, project
from .common import cs, cb

LEVEL = "proof"
EXTRA_TARGETS = ["Model/Vcs"]
TRUSTED_BASE = [
    "Coq 8.16.1 kernel + vm_compute",
    "hand-written Gallina model Model/Vcs.v (status_items, dirty_files, assert_not_dirty) over Lib/PyStr.v (splitlines, split, strip)",
    "harness: real git repositories in temporary directories; `git status --porcelain` text produced by git itself; exit code, file bytes, git log / git show --stat",
]
ASSUMPTIONS = ["git 2.39 produces the porcelain v1 text; paths without spaces/quotes/' -> ' (git quotes unusual paths, which bumpver does not decode)"]
HDR = "From BV Require Import Model.Vcs."

STATUSES = ["clean", "modified-unstaged", "modified-staged", "both", "added", "deleted", "renamed", "untracked", "typechange"]


def make_status(prj, kind, target):
    """bring `target` ('a.txt' = pattern file, 'other.txt' = unrelated tracked file) into the given state; returns the path that carries the change"""
    p = prj.path(target)
    c = "# " if target.endswith(".toml") else ""     # an edit of the config file must leave it readable
    if kind == "clean":
        return target
    if kind == "modified-unstaged":
        open(p, "a").write(c + "local edit\n")
    elif kind == "modified-staged":
        open(p, "a").write(c + "staged edit\n")
        prj.git("add", target)
    elif kind == "both":
        open(p, "a").write(c + "staged edit\n")
        prj.git("add", target)
        open(p, "a").write(c + "second edit\n")
    elif kind == "deleted":
        os.unlink(p)
    elif kind == "typechange":
        # the tracked regular file is replaced by a symbolic link to a copy of itself (git: ` T path`)
        os.rename(p, p + ".real")
        os.symlink(os.path.basename(p) + ".real", p)
    elif kind == "renamed":
        # the file arrives at its path through a rename that is staged but not committed
        prj.git("mv", target, "tmp_" + target)
        prj.git("commit", "-q", "-m", "move away")
        prj.git("mv", "tmp_" + target, target)
    elif kind in ("added", "untracked"):
        # remove it from the index history: the file exists but was never committed
        prj.git("rm", "-q", "--cached", target)
        prj.git("commit", "-q", "-m", "forget " + target)
        if kind == "added":
            prj.git("add", target)
    return target


def run(rep, tier, seed, model_ok=True, effort=1):
    from . import impl
    from bumpver import vcs as bvcs
    r = common.rng(seed, "c11")
    rep.rule = ("every status git can report for a file (clean, modified-unstaged, modified-staged, both, added, deleted, renamed, untracked) x "
                "{pattern file, unrelated file} x --allow-dirty on/off, plus combinations of two dirty files, in real git repositories: exit code, "
                "file bytes, commit count and `git show --stat` after `bumpver update --commit`; status parsing and the abort rule compared with the Coq model "
                "on the status text git printed; scenarios: `./` spelling, dirty config file, many dirty files, pre-commit hook + --allow-dirty, project in a sub-directory of the repository, "
                "untracked files whose name is a prefix of a pattern file, a pattern file whose name is not valid UTF-8; non-trivial = distinct case with a dirty working tree")
    rep.exhaustive = True
    items, meta = [], []
    # the pattern file is also configured under the spelling "./a.txt" (bumpver normalises configured paths through pathlib's glob;
    # git prints root-relative paths)
    combos = [(k, t, ad, "a.txt") for k in STATUSES for t in ("a.txt", "other.txt") for ad in (False, True)]
    combos += [(k, "a.txt", ad, "./a.txt") for k in STATUSES for ad in (False, True)]
    # the config file itself always carries a pattern (its current_version line)
    combos += [(k, "bumpver.toml", ad, "a.txt") for k in ("modified-unstaged", "modified-staged", "both") for ad in (False, True)]
    extra = [("modified-unstaged", "other.txt", True, "untracked-second"), ("untracked", "other.txt", False, "modified-second")]
    for kind, target, allow_dirty, spelling in combos:
        prj = project.TempProject("MAJOR.MINOR.PATCH", "1.2.3", files={spelling: ["ver = {version}"]}, contents={"other.txt": "unrelated\n"},
                                  commit=True, tag=False, push=False, vcs="git")
        with prj:
            make_status(prj, kind, target)
            status_text = prj.git("status", "--porcelain")
            commits_before = len(prj.git("log", "--oneline").splitlines())
            before = prj.snapshot()
            # (every third case also passes --ignore-vcs-tag: where the starting version comes from has no bearing on the dirty check)
            args = ["update", "--patch", "--no-fetch", "--commit"] + (["--allow-dirty"] if allow_dirty else []) + (["--ignore-vcs-tag"] if len(items) % 3 == 1 else [])
            code, out, logs, exc = prj.run(impl, args)
            after = prj.snapshot()
            commits_after = len(prj.git("log", "--oneline").splitlines())
            rep.case((kind, target, allow_dirty, spelling), nontrivial=kind != "clean")
            rep.count("status=" + kind)
            pattern_file = target in ("a.txt", "bumpver.toml")
            dirty = kind != "clean" and not (kind == "untracked" and not pattern_file)
            expect_abort = (dirty and not allow_dirty) or (kind != "clean" and pattern_file)
            if kind == "deleted" and pattern_file:
                expect_abort = True
            inp = dict(status=kind, file=target, configured_as=spelling, allow_dirty=allow_dirty, git_status=status_text, args=args, exit=code, logs=logs[-4:])
            if expect_abort:
                if code == 0 or commits_after != commits_before:
                    rep.violation("update proceeded although %s is %s" % (target, kind), input=inp, **{"class": "dirty-not-blocked"})
                elif after != before:
                    rep.violation("update aborted but modified files", input=inp, **{"class": "abort-after-write"})
            else:
                if code != 0:
                    rep.violation("update was blocked although only %s (%s) is dirty" % (target, kind), input=inp, **{"class": "blocked-wrongly"})
                else:
                    if commits_after != commits_before + 1:
                        rep.violation("expected exactly one new commit", input=dict(inp, commits=(commits_before, commits_after)), **{"class": "commit-count"})
                    stat = prj.git("show", "--stat", "--format=", "HEAD")
                    files = sorted(l.split("|")[0].strip() for l in stat.splitlines() if "|" in l)
                    if files != ["a.txt", "bumpver.toml"]:
                        staged_unrelated = (not pattern_file) and kind in ("modified-staged", "both", "added", "renamed") and allow_dirty
                        rep.violation("the bump commit contains other files than the configured ones: %s" % files, input=inp,
                                      **{"class": "staged-unrelated-swept-in" if staged_unrelated else "swept-in"})
            # model correspondence on the text git printed
            required = ["a.txt", "bumpver.toml"]
            api = bvcs.VCSAPI("git")
            orig = bvcs.VCSAPI.__call__
            bvcs.VCSAPI.__call__ = lambda self, cmd, env=None, **kw: status_text
            try:
                impl_dirty = api.status(set(required))
            finally:
                bvcs.VCSAPI.__call__ = orig
            impl_abort = (bool(impl_dirty) and not allow_dirty) or bool(set(impl_dirty) & set(required))
            items.append("(%s,[%s],%s,[%s],%s)" % (cs(status_text), ";".join(cs(x) for x in required), cb(allow_dirty),
                                                   ";".join(cs(x) for x in impl_dirty), cb(impl_abort)))
            meta.append(dict(status_text=status_text, allow_dirty=allow_dirty, impl_dirty=impl_dirty))
            rep.sample(dict(status=kind, file=target, allow_dirty=allow_dirty, git_status=status_text, exit=code), limit=10)
    # many dirty files at once: the pattern file is the LAST of 14 entries git reports (sorted by path); --allow-dirty must still abort,
    # and with only the 13 unrelated ones dirty it must go through
    for pattern_dirty in (True, False):
        prj = project.TempProject("MAJOR.MINOR.PATCH", "1.2.3", files={"zz_version.txt": ["ver = {version}"]},
                                  contents=dict(("docs/page%02d.md" % k, "page %d\n" % k) for k in range(13)), commit=True, tag=False, push=False, vcs="git")
        with prj:
            for k in range(13):
                open(prj.path("docs/page%02d.md" % k), "a").write("work in progress\n")
            if pattern_dirty:
                open(prj.path("zz_version.txt"), "a").write("uncommitted note\n")
            status_text = prj.git("status", "--porcelain")
            commits_before = len(prj.git("log", "--oneline").splitlines())
            before = prj.snapshot()
            args = ["update", "--patch", "--no-fetch", "--commit", "--allow-dirty"]
            code, out, logs, exc = prj.run(impl, args)
            after = prj.snapshot()
            commits_after = len(prj.git("log", "--oneline").splitlines())
            rep.case(("many-dirty", pattern_dirty), nontrivial=True)
            inp = dict(status="14 modified files, pattern file last" if pattern_dirty else "13 modified unrelated files", allow_dirty=True,
                       git_status=status_text, args=args, exit=code, logs=logs[-3:])
            if pattern_dirty and (code == 0 or commits_after != commits_before or after != before):
                rep.violation("update proceeded although zz_version.txt (a pattern file) is modified-unstaged", input=inp, **{"class": "dirty-not-blocked"})
            if not pattern_dirty:
                if code != 0:
                    rep.violation("update was blocked although only unrelated files are dirty and --allow-dirty is given", input=inp, **{"class": "blocked-wrongly"})
                else:
                    stat = prj.git("show", "--stat", "--format=", "HEAD")
                    files = sorted(l.split("|")[0].strip() for l in stat.splitlines() if "|" in l)
                    if files != ["bumpver.toml", "zz_version.txt"]:
                        rep.violation("the bump commit contains other files than the configured ones: %s" % files, input=inp, **{"class": "swept-in"})
    # untracked files that merely share a name prefix with a pattern file (README next to README.md) carry no pattern and never block
    for extra_name in ("a", "a.t", "bumpver", "a.txt.orig"):
        prj = project.TempProject("MAJOR.MINOR.PATCH", "1.2.3", files={"a.txt": ["ver = {version}"]}, commit=True, tag=False, push=False, vcs="git")
        with prj:
            open(prj.path(extra_name), "w").write("scratch\n")
            status_text = prj.git("status", "--porcelain")
            code, out, logs, exc = prj.run(impl, ["update", "--patch", "--no-fetch", "--commit"])
            rep.case(("untracked-prefix-name", extra_name), nontrivial=True)
            if code != 0:
                rep.violation("update was blocked although only %s (untracked, carries no pattern) is dirty" % extra_name,
                              input=dict(status="untracked", file=extra_name, allow_dirty=False, git_status=status_text, exit=code, logs=logs[-3:]), **{"class": "blocked-wrongly"})
    # a tracked file WITHOUT a pattern whose name equals a pattern file's name up to letter case (VERSION next to a script `version`) has
    # uncommitted edits: with --allow-dirty the update goes on and leaves that file alone
    prj = project.TempProject("MAJOR.MINOR.PATCH", "1.2.3", files={"VERSION": ["{version}"]}, contents={"VERSION": "1.2.3\n", "version": "#!/bin/sh\necho helper\n"},
                              commit=True, tag=False, push=False, vcs="git")
    with prj:
        if sorted(f for f in os.listdir(prj.dir) if f.lower() == "version") == ["VERSION", "version"]:      # (a case-sensitive file system)
            open(prj.path("version"), "a").write("echo edited\n")
            status_text = prj.git("status", "--porcelain")
            code, out, logs, exc = prj.run(impl, ["update", "--patch", "--no-fetch", "--commit", "--allow-dirty"])
            shown = prj.git("show", "--stat", "--format=", "HEAD")
            rep.case(("case-twin",), nontrivial=True)
            inp = dict(status="modified-unstaged", file="version", configured_as="VERSION", allow_dirty=True, git_status=status_text, exit=code, logs=logs[-3:])
            if code != 0:
                rep.violation("update --allow-dirty was blocked although the only dirty file (`version`) carries no pattern (the pattern file is `VERSION`)", input=inp, **{"class": "blocked-wrongly"})
            elif "version " in shown.replace("VERSION", "") or "echo edited" in prj.git("show", "HEAD"):
                rep.violation("the uncommitted edit of `version` was swept into the bump commit", input=inp, **{"class": "swept-in"})
    # a pattern file (reached through a glob entry) in a directory in which nothing is tracked yet: git shows the directory, not the file, unless asked
    # for every untracked file -- it is an untracked pattern file all the same and blocks the update, with or without --allow-dirty; an unrelated
    # untracked directory next to it never does
    for extra in ([], ["--allow-dirty"]):
        for with_pattern_file in (True, False):
            prj = project.TempProject("MAJOR.MINOR.PATCH", "1.2.3", files={"*/version.txt": ["{version}"]}, contents={"core/version.txt": "1.2.3\n"}, commit=True, tag=False, push=False, vcs="git")
            with prj:
                os.makedirs(prj.path("plugin")); os.makedirs(prj.path("scratch"))
                open(prj.path("scratch/notes.txt"), "w").write("unrelated\n")
                if with_pattern_file:
                    open(prj.path("plugin/version.txt"), "w").write("1.2.3\n")
                else:
                    open(prj.path("plugin/readme.txt"), "w").write("no version here\n")
                status_text = prj.git("status", "--porcelain")
                before = prj.snapshot()
                code, out, logs, exc = prj.run(impl, ["update", "--patch", "--no-fetch", "--commit"] + extra)
                after = prj.snapshot()
            rep.case(("untracked-directory", tuple(extra), with_pattern_file), nontrivial=True)
            inp = dict(status="untracked", file="plugin/version.txt" if with_pattern_file else "plugin/readme.txt", entry="*/version.txt", allow_dirty=bool(extra), git_status=status_text, exit=code, logs=logs[-3:])
            if with_pattern_file and (code == 0 or after != before):
                rep.violation("an untracked pattern file in an untracked directory did not block the update (exit %s, files changed: %s)" % (code, after != before), input=inp, **{"class": "dirty-not-blocked"})
            if not with_pattern_file and extra and code != 0:
                rep.violation("update --allow-dirty was blocked although only untracked files without a pattern are dirty", input=inp, **{"class": "blocked-wrongly"})
    # with a pre-commit hook configured, --allow-dirty still keeps an unrelated modified file out of the bump commit
    prj = project.TempProject("MAJOR.MINOR.PATCH", "1.2.3", files={"a.txt": ["ver = {version}"]}, contents={"other.txt": "unrelated\n"},
                              commit=True, tag=False, push=False, vcs="git", hooks={"pre": "ok"})
    with prj:
        open(prj.path("other.txt"), "a").write("work in progress\n")
        status_text = prj.git("status", "--porcelain")
        args = ["update", "--patch", "--no-fetch", "--commit", "--allow-dirty"]
        code, out, logs, exc = prj.run(impl, args)
        stat = prj.git("show", "--stat", "--format=", "HEAD")
        files = sorted(l.split("|")[0].strip() for l in stat.splitlines() if "|" in l)
        rep.case(("hook+allow-dirty",), nontrivial=True)
        if code != 0 or "other.txt" in files:
            rep.violation("with a pre-commit hook and --allow-dirty the bump commit contains other files than the configured ones: %s (exit %s)" % (files, code),
                          input=dict(status="modified-unstaged", file="other.txt", allow_dirty=True, hooks="pre", git_status=status_text, args=args, exit=code, logs=logs[-3:]), **{"class": "swept-in"})
    # the project lives in a sub-directory of the repository (monorepo): git reports paths relative to the repository root, the configuration
    # names them relative to the project.  Whatever bumpver does there, an uncommitted edit of a pattern file never ends up in a commit it makes
    import tempfile, shutil, subprocess
    root = tempfile.mkdtemp(prefix="bvmono_", dir=project.SCRATCH)
    try:
        sub = os.path.join(root, "services", "api")
        os.makedirs(sub)
        open(os.path.join(sub, "bumpver.toml"), "w").write('[bumpver]\ncurrent_version = "1.2.3"\nversion_pattern = "MAJOR.MINOR.PATCH"\ncommit = true\ntag = false\npush = false\n\n'
                                                            '[bumpver.file_patterns]\n"bumpver.toml" = [\'current_version = "{version}"\']\n"version.txt" = ["ver = {version}"]\n')
        open(os.path.join(sub, "version.txt"), "w").write("ver = 1.2.3\n")
        def g(*a):
            return subprocess.run(["git"] + list(a), cwd=root, capture_output=True, text=True).stdout
        g("init", "-q", "-b", "main"); g("config", "user.email", "t@example.com"); g("config", "user.name", "t"); g("config", "commit.gpgsign", "false")
        g("add", "-A"); g("commit", "-q", "-m", "initial")
        open(os.path.join(sub, "version.txt"), "a").write("uncommitted note\n")
        n0 = len(g("log", "--oneline").splitlines())
        for extra in (["--allow-dirty"], []):
            code, out, exc = impl.run_cli(["update", "--patch", "--no-fetch"] + extra, cwd=sub)
            n1 = len(g("log", "--oneline").splitlines())
            shown = g("show", "HEAD") if n1 > n0 else ""
            rep.case(("monorepo-subdir", tuple(extra)), nontrivial=True)
            if "uncommitted note" in shown:
                rep.violation("an uncommitted edit of a pattern file was swept into the bump commit (project in a sub-directory of the repository)",
                              input=dict(cwd="services/api", args=["update", "--patch", "--no-fetch"] + extra, exit=code, git_status=g("status", "--porcelain")), **{"class": "dirty-not-blocked"})
                break
            n0 = n1
    finally:
        shutil.rmtree(root, ignore_errors=True)
    # a pattern file whose NAME is not valid UTF-8 (latin-1 bytes, reached through a glob entry), git printing names raw (core.quotepath=false):
    # its uncommitted edit never ends up in a bump commit, with or without --allow-dirty
    root = tempfile.mkdtemp(prefix="bvraw_", dir=project.SCRATCH)
    try:
        os.makedirs(os.path.join(root, "docs"))
        open(os.path.join(root, "bumpver.toml"), "w").write('[bumpver]\ncurrent_version = "1.2.3"\nversion_pattern = "MAJOR.MINOR.PATCH"\ncommit = true\ntag = false\npush = false\n\n'
                                                             '[bumpver.file_patterns]\n"bumpver.toml" = [\'current_version = "{version}"\']\n"docs/*.txt" = ["ver = {version}"]\n')
        raw_name = os.path.join(os.fsencode(root), b"docs", b"caf\xe9.txt")
        open(raw_name, "wb").write(b"ver = 1.2.3\n")
        def g(*a):
            return subprocess.run(["git"] + list(a), cwd=root, capture_output=True).stdout.decode("utf-8", "replace")
        g("init", "-q", "-b", "main"); g("config", "user.email", "t@example.com"); g("config", "user.name", "t"); g("config", "commit.gpgsign", "false")
        g("config", "core.quotepath", "false")
        g("add", "-A"); g("commit", "-q", "-m", "initial")
        open(raw_name, "ab").write(b"uncommitted note\n")
        n0 = len(g("log", "--oneline").splitlines())
        for extra in (["--allow-dirty"], []):
            code, out, exc = impl.run_cli(["update", "--patch", "--no-fetch"] + extra, cwd=root)
            n1 = len(g("log", "--oneline").splitlines())
            shown = g("show", "HEAD") if n1 > n0 else ""
            rep.case(("non-utf8-file-name", tuple(extra)), nontrivial=True)
            if "uncommitted note" in shown:
                rep.violation("an uncommitted edit of a pattern file was swept into the bump commit (file name not valid UTF-8, core.quotepath=false)",
                              input=dict(file="docs/caf\\xe9.txt", entry="docs/*.txt", args=["update", "--patch", "--no-fetch"] + extra, exit=code, git_status=g("status", "--porcelain")), **{"class": "dirty-not-blocked"})
                break
            n0 = n1
    finally:
        shutil.rmtree(root, ignore_errors=True)
    # synthetic porcelain lines (all XY codes) for the parser correspondence
    xy = ["  ", " M", "M ", "MM", "A ", "AM", " D", "D ", "R ", "RM", "C ", "??", "!!", "UU", "AA", " T"]
    for a, b in itertools.product(xy, repeat=2):
        if r.random() < (0.25 if tier == "quick" else 1.0):
            text = "%s a.txt\n%s docs/other.md\n" % (a, b)
            if a.startswith("R"):
                text = "%s old.txt -> a.txt\n%s docs/other.md\n" % (a, b)
            api = bvcs.VCSAPI("git")
            orig = bvcs.VCSAPI.__call__
            bvcs.VCSAPI.__call__ = lambda self, cmd, env=None, **kw: text
            try:
                d = api.status({"a.txt", "bumpver.toml"})
            finally:
                bvcs.VCSAPI.__call__ = orig
            for ad in (False, True):
                ab = (bool(d) and not ad) or bool(set(d) & {"a.txt", "bumpver.toml"})
                items.append("(%s,[%s],%s,[%s],%s)" % (cs(text), ";".join(cs(x) for x in ["a.txt", "bumpver.toml"]), cb(ad), ";".join(cs(x) for x in d), cb(ab)))
                meta.append(dict(status_text=text, allow_dirty=ad, impl_dirty=d))
                rep.case(("synthetic", a, b, ad), nontrivial=bool(d))
    if model_ok:
        bad, errs = common.coq_eval("c11", HDR, "list N * list (list N) * bool * list (list N) * bool",
                                    "fun '(out, req, ad, d, ab) => eqb_lstr (dirty_files out req) d && Bool.eqb (match assert_not_dirty out req ad with DirtyAbort => true | DirtyOk => false end) ab",
                                    items, shard=200)
        for i in bad:
            rep.mismatch("status parsing / dirty rule: model differs from implementation", input=meta[i])
        rep.corr_errors += errs


def search(rep, tier, seed, effort=2):
    run(rep, tier, seed, model_ok=False, effort=effort)


def replay(payload):
    print("replay C11: see violation input (status, file, allow_dirty, git status text) in the replay file")
    return 1
