"""C05 — bump semantics follow the documented part rules.  (Also provides the CLI `test` cases used by C01.)"""
import datetime as dt
from . import common, v2gen
from .common import cs, cos, cz, cb

LEVEL = "proof"
EXTRA_TARGETS = ["Model/Cli"]
TRUSTED_BASE = [
    "Coq 8.16.1 kernel + vm_compute",
    "T1 translator (part tables, PART_ZERO_VALUES, V2_FIELD_INITIAL_VALUES, tag maps, VALID_RELEASE_TAG_VALUES)",
    "hand-written Gallina model Model/V2.v (incr, _incr_numeric, _reset_rollover_fields, _parse_pattern_fields, _is_cal_gt, _ver_to_cal_info) and Model/Cli.v (test)",
    "correspondence harness harness/c05.py: `bumpver test OLD PATTERN <flags> --date D` through click's CliRunner vs the model evaluated inside Coq",
]
ASSUMPTIONS = ["the README rule table is re-implemented at part level in harness/c05.py (spec_incr) and compared with what the CLI prints; "
               "the printed version is read back with bumpver's own parse_version_info (validated separately by C02)"]

HDR = "From BV Require Import Lib.Regex Lib.Calendar Model.V2 Model.Pep440 Model.Cli."

PARTS_BY_LEN = None
# (old version, pattern, flags that are on, --date)
CORPUS = [
    # ids below 1000 are raised by 1000 BEFORE the successor is taken (9 -> 1010, 99 -> 1100, 999 -> 22000: no overflow at all-nines)
    ("2020.999", "YYYY.BLD", dict(), "2020-06-01"), ("2020.99", "YYYY.BUILD", dict(), "2020-06-01"), ("v9", "vBLD", dict(), None), ("1.2.999", "MAJOR.MINOR.BUILD", dict(minor=True), None),
    # a selected part the pattern does not have
    ("v2020.1001", "vYYYY.BUILD[-TAG]", dict(major=True), "2020-06-01"), ("2020.10.3", "YYYY.MM.PATCH", dict(minor=True, patch=True), "2020-10-05"),
    ("2020.0.1", "YYYY.WW.PATCH", dict(pin_date=True, patch=True), None),            # week 0 must stay 0 under --pin-date
    ("2020.0.1", "YYYY.UU.PATCH", dict(pin_date=True, patch=True), None),
    ("2021.00.7", "YYYY.0W.PATCH", dict(pin_date=True, patch=True), None),
    ("1.0.0", "MAJOR.MINOR.PATCH[PYTAGNUM]", dict(tag="final", tag_num=True), None),  # --tag-num under a final tag
    ("1.0.0", "MAJOR.MINOR.PATCH[-TAGNUM]", dict(tag="final", tag_num=True), None),
    ("1.2.3", "MAJOR.MINOR.PATCH", dict(major=True, minor=True, patch=True), None),
    ("1.2.3-rc1", "MAJOR.MINOR.PATCH[-TAGNUM]", dict(tag_num=True), None),
    ("1.2.3-rc1", "MAJOR.MINOR.PATCH[-TAGNUM]", dict(tag="rc", tag_num=True), None),
    ("1.2.3-rc1", "MAJOR.MINOR.PATCH[-TAGNUM]", dict(tag="beta"), None),
    ("1.2.3-rc1", "MAJOR.MINOR.PATCH[-TAGNUM]", dict(tag="final"), None),
    ("v2025.1001", "vYYYY.BUILD[-TAG]", dict(), "2024-06-01"),                        # date earlier than the version
    ("v2025.12.1001", "vYYYY.MM.BUILD", dict(), "2025-03-01"),
    ("2020.1.5", "YYYY.INC0.INC1", dict(), "2020-06-01"),
    ("2020.1.5", "YYYY.INC0.INC1", dict(pin_increments=True, pin_date=True), None),
    ("2020.1.5", "YYYY.INC0.INC1", dict(), "2021-01-01"),
    ("1.9.9", "MAJOR.MINOR.PATCH", dict(minor=True), None),
    ("2021.05.3", "YYYY.0W.PATCH", dict(patch=True), "2021-01-02"),                   # new date in week 0 of the year of a version that is ahead
    ("2021.5.3", "YYYY.UU.PATCH", dict(patch=True), "2021-01-01"),
    ("1.2021.03", "MAJOR.YYYY.0W", dict(major=True), "2021-01-02"),
    ("1.2.3-beta3", "MAJOR.MINOR.PATCH[-TAGNUM]", dict(tag="beta", tag_num=True), None),   # same tag again: NUM keeps counting
    ("1.9.99-beta", "MAJOR.MINOR[.PATCH][-TAG]", dict(minor=True), None),
    # %U (weeks from Sunday) and %W (weeks from Monday) differ on Sundays and in years that start on a Monday
    ("2021.0.7", "YYYY.UU.PATCH", dict(patch=True), "2021-01-03"),
    ("2024.5.1", "YYYY.UU.PATCH", dict(patch=True), "2024-02-07"),
    ("2024.05.1", "YYYY.0W.PATCH", dict(patch=True), "2024-02-07"),
    ("2021.0.7", "YYYY.WW.PATCH", dict(patch=True), "2021-01-03"),
    ("2019.50.3", "GGGG.VV.PATCH", dict(pin_date=True, patch=True), None),             # --pin-date keeps an ISO year of the past
    # optional groups that end in literal text, or hold INC1 / a week part: omitted exactly when all their PARTS are zero
    ("1.2.3-rc.1-x", "MAJOR.MINOR.PATCH[-TAG[.NUM]-x]", dict(tag="final"), None),
    ("1.2.3-rc.1-x", "MAJOR.MINOR.PATCH[-TAG[.NUM]-x]", dict(major=True, tag="final"), None),
    ("v1.2.1+local", "vMAJOR.MINOR[.PATCH[-TAG]+local]", dict(minor=True), None),
    ("2020.10.5", "YYYY.MM[.INC1]", dict(), "2020-11-01"),
    ("1.4.7", "MAJOR.MINOR[.INC1]", dict(minor=True), None),
    ("v2020.52", "vYYYY[.WW]", dict(), "2021-01-02"),
    ("2020.10.3", "YYYY.MM.INC0", dict(pin_increments=True), "2020-11-01"),            # a pinned increment is still reset by a rollover to its left
    ("1.5.7", "MAJOR.INC0.INC1", dict(pin_increments=True, major=True), None),
    ("1.2.3-rc.5", "MAJOR.MINOR.PATCH[-TAG[.INC0]]", dict(tag="final"), None),         # the tag moves to an alphabetically smaller value: still a change
    ("v2024.33-beta4", "vYYYY.BLD[-TAGNUM]", dict(), "2024-06-01"),
    # an optional group that mixes parts which have a zero with parts which have none (INC1, BUILD, DD): written unless ALL its parts are zero
    ("1.2.0.4", "MAJOR.MINOR[.PATCH.INC1]", dict(minor=True), None),
    ("1.2.3-rc1.1001", "MAJOR.MINOR.PATCH[-TAGNUM.BUILD]", dict(tag="final"), None),
    ("v2024.6.11-3", "vYYYY.MM[.DD-PATCH]", dict(), "2024-06-12"),
]
RESET_INIT = {"major": 0, "minor": 0, "patch": 0, "num": 0, "inc0": 0, "inc1": 1}
CAL_FIELDS = ["year_y", "year_g", "quarter", "month", "dom", "doy", "week_w", "week_u", "week_v"]


# the README's part table, written down here (NOT read from the implementation): part -> field of the version it shows
SPEC_FIELDS = {"YYYY": "year_y", "YY": "year_y", "0Y": "year_y", "GGGG": "year_g", "GG": "year_g", "0G": "year_g", "Q": "quarter", "MM": "month", "0M": "month",
               "DD": "dom", "0D": "dom", "JJJ": "doy", "00J": "doy", "WW": "week_w", "0W": "week_w", "UU": "week_u", "0U": "week_u", "VV": "week_v", "0V": "week_v",
               "MAJOR": "major", "MINOR": "minor", "PATCH": "patch", "BUILD": "bid", "BLD": "bid", "TAG": "tag", "PYTAG": "pytag", "NUM": "num", "INC0": "inc0", "INC1": "inc1"}
SPEC_PYTAG = {"final": "", "alpha": "a", "beta": "b", "rc": "rc", "dev": "dev", "post": "post", "preview": "rc"}


def spec_cal(date):
    """calendar fields of a date, from datetime/strftime directly: %G ISO year, %W Monday-based week, %U Sunday-based week, %V ISO week"""
    return dict(year_y=date.year, year_g=int(date.strftime("%G")), quarter=(date.month - 1) // 3 + 1, month=date.month, dom=date.day, doy=int(date.strftime("%j")),
                week_w=int(date.strftime("%W")), week_u=int(date.strftime("%U")), week_v=int(date.strftime("%V")))


def tokenise(pattern):
    """Independent left-to-right longest-match tokenisation of a pattern into part names."""
    names = sorted(SPEC_FIELDS, key=len, reverse=True)
    out, i = [], 0
    while i < len(pattern):
        for n in names:
            if pattern.startswith(n, i):
                out.append(n)
                i += len(n)
                break
        else:
            i += 1
    return out


def flag_args(fl, date):
    a = []
    for k, opt in (("major", "--major"), ("minor", "--minor"), ("patch", "--patch"), ("tag_num", "--tag-num"),
                   ("pin_increments", "--pin-increments"), ("pin_date", "--pin-date")):
        if fl[k]:
            a.append(opt)
    if fl["tag"] is not None:
        a += ["--tag", fl["tag"]]
    if date is not None:
        a += ["--date", date]
    return a


def spec_incr(impl, old_v, pattern, fl, date):
    """The README's rules at part level.  Returns dict field -> expected value for fields shown by the pattern,
    'bid' mapped to the marker '>' (must strictly increase), or None when no statement is made."""
    parts = tokenise(pattern)
    fields = []
    for p in parts:
        f = SPEC_FIELDS[p]
        if f not in fields:
            fields.append(f)
    cur = old_v._asdict()
    # calendar: from the date unless pinned; never backwards
    if not fl["pin_date"]:
        c = spec_cal(date)
        old_c = [cur[f] for f in CAL_FIELDS if cur[f] is not None]
        new_c = [c[f] for f in CAL_FIELDS if cur[f] is not None]
        if not (old_c > new_c):
            cur.update(c)
    if fl["major"]:
        cur["major"] += 1
    if fl["minor"]:
        cur["minor"] += 1
    if fl["patch"]:
        cur["patch"] += 1
    if fl["tag_num"]:
        cur["num"] += 1
    if fl["tag"]:
        if fl["tag"] != cur["tag"]:
            cur["num"] = 0
        cur["tag"] = fl["tag"]
        cur["pytag"] = SPEC_PYTAG[fl["tag"]]
    if not fl["pin_increments"]:
        cur["inc0"] += 1
        cur["inc1"] += 1
    cur["bid"] = ">"
    # reset everything resettable to the right of the first changed part
    old = old_v._asdict()
    changed = False
    for f in fields:
        if changed and f in RESET_INIT:
            cur[f] = RESET_INIT[f]
        elif cur[f] != old[f]:
            changed = True
    out = {f: cur[f] for f in fields}
    out["_all"] = dict(cur)
    return out


def spec_render(pattern, v):
    """Independent renderer of the documented pattern language: parts by their documented formats, optional groups omitted exactly when
    all the parts inside them (nested groups included) are zero.  Returns None for patterns outside what it understands."""
    fmt = {
        "YYYY": lambda: "%d" % v.year_y, "YY": lambda: "%d" % (v.year_y % 100), "0Y": lambda: "%02d" % (v.year_y % 100),
        "GGGG": lambda: "%d" % v.year_g, "GG": lambda: "%d" % (v.year_g % 100), "0G": lambda: "%02d" % (v.year_g % 100),
        "Q": lambda: "%d" % v.quarter, "MM": lambda: "%d" % v.month, "0M": lambda: "%02d" % v.month, "DD": lambda: "%d" % v.dom, "0D": lambda: "%02d" % v.dom,
        "JJJ": lambda: "%d" % v.doy, "00J": lambda: "%03d" % v.doy, "WW": lambda: "%d" % v.week_w, "0W": lambda: "%02d" % v.week_w,
        "UU": lambda: "%d" % v.week_u, "0U": lambda: "%02d" % v.week_u, "VV": lambda: "%d" % v.week_v, "0V": lambda: "%02d" % v.week_v,
        "MAJOR": lambda: "%d" % v.major, "MINOR": lambda: "%d" % v.minor, "PATCH": lambda: "%d" % v.patch, "BUILD": lambda: v.bid, "BLD": lambda: "%d" % int(v.bid),
        "TAG": lambda: v.tag, "PYTAG": lambda: v.pytag, "NUM": lambda: "%d" % v.num, "INC0": lambda: "%d" % v.inc0, "INC1": lambda: "%d" % v.inc1,
    }
    zero = {"MAJOR": "0", "MINOR": "0", "PATCH": "0", "NUM": "0", "INC0": "0", "TAG": "final", "PYTAG": ""}
    names = sorted(fmt, key=len, reverse=True)
    pos = [0]

    def group(depth):
        """-> (text, all parts zero?, number of parts)"""
        out, allzero, nparts = [], True, 0
        while pos[0] < len(pattern):
            c = pattern[pos[0]]
            if pattern.startswith("\\[", pos[0]) or pattern.startswith("\\]", pos[0]):
                out.append(pattern[pos[0] + 1]); pos[0] += 2
            elif c == "[":
                pos[0] += 1
                t, z, n = group(depth + 1)
                nparts += n
                if n and z:
                    pass          # omitted
                else:
                    out.append(t)
                    allzero = allzero and (z or n == 0)
                if n and not z:
                    allzero = False
            elif c == "]":
                if depth == 0:
                    raise ValueError("unbalanced")
                pos[0] += 1
                return "".join(out), allzero, nparts
            else:
                for nme in names:
                    if pattern.startswith(nme, pos[0]):
                        try:
                            val = fmt[nme]()
                        except TypeError:
                            raise ValueError("part without value")
                        out.append(val)
                        nparts += 1
                        if zero.get(nme, None) != val:
                            allzero = False
                        pos[0] += len(nme)
                        break
                else:
                    out.append(c); pos[0] += 1
        if depth:
            raise ValueError("unbalanced")
        return "".join(out), allzero, nparts
    try:
        return group(0)[0]
    except (ValueError, TypeError):
        return None


def check_spec(rep, impl, old, pattern, fl, date, new):
    from bumpver import version
    try:
        old_v = impl.v2version.parse_version_info(old, pattern)
        new_v = impl.v2version.parse_version_info(new, pattern)
    except Exception as ex:
        rep.violation("bumped version cannot be read back (%s)" % type(ex).__name__, input=dict(old=old, pattern=pattern, flags=fl, date=str(date), new=new), **{"class": "new-unreadable"})
        return
    # TAG is carried over unless --tag is given -- on the TEXT (not through the implementation's reader): the tag word of the old version is
    # the tag word of the new one
    if fl["tag"] is None and "TAG" in pattern.replace("PYTAG", ""):
        import re as _re
        words = [w for w in ("alpha", "beta", "rc", "dev", "post", "preview") if _re.search(r"(?<![a-z])%s(?![a-z])" % w, old) and not _re.search(r"(?<![a-z])%s(?![a-z])" % w, pattern)]
        if len(words) == 1 and not _re.search(r"(?<![a-z])%s(?![a-z])" % words[0], new):
            rep.violation("the release tag %r of the old version is not carried over (no --tag given)" % words[0],
                          input=dict(old=old, pattern=pattern, flags=fl, date=str(date), new=new), **{"class": "rule-tag"})
            return
    exp = spec_incr(impl, old_v, pattern, fl, date)
    exp.pop("_all", None)
    for f, want in exp.items():
        got = getattr(new_v, f)
        if f == "bid":
            ok = int(got) > int(old_v.bid)
        elif f in ("year_y", "year_g") and not any(x in pattern for x in ("YYYY", "GGGG")):
            ok = (got % 100) == (want % 100)
        elif f == "tag" and "TAG" not in pattern.replace("PYTAG", ""):
            ok = version.PEP440_TAG_BY_TAG[got] == version.PEP440_TAG_BY_TAG[want]
        else:
            ok = got == want
        if not ok:
            rep.violation("part %s is %r, the documented rules give %r" % (f, got, want),
                          input=dict(old=old, pattern=pattern, flags=fl, date=str(date), new=new), **{"class": "rule-" + f})
            return
    # the text: parts in their documented formats, optional groups omitted exactly when all their parts are zero
    want_text = spec_render(pattern, new_v)
    if want_text is not None and want_text != new and "^" not in pattern and "$" not in pattern:
        rep.violation("the new version is written %r, the documented rendering of its parts is %r" % (new, want_text),
                      input=dict(old=old, pattern=pattern, flags=fl, date=str(date), new=new), **{"class": "rule-rendering"})


def expected_success(impl, old, pattern, fl, date):
    """When the documented rules give a valid, strictly greater version, returns its text (else None)."""
    from bumpver import version
    import lexid
    try:
        old_v = impl.v2version.parse_version_info(old, pattern)
    except Exception:
        return None
    if fl["tag"] is not None and fl["tag"] not in ("alpha", "beta", "dev", "rc", "post", "final"):
        return None
    if (fl["major"] and "MAJOR" not in pattern) or (fl["minor"] and "MINOR" not in pattern) or (fl["patch"] and "PATCH" not in pattern):
        return None
    if fl["tag_num"] and (fl["tag"] or old_v.tag) == "final":
        return None
    if not impl.v2version.is_valid_week_pattern(pattern):
        return None
    exp = spec_incr(impl, old_v, pattern, fl, date)
    # the whole record (tag and pytag together, parts the pattern does not show included), as the code carries it
    exp = dict(exp.pop("_all"))
    try:
        bid = old_v.bid
        if int(bid) < 1000:
            bid = str(int(bid) + 1000)
        exp["bid"] = lexid.next_id(bid)
    except Exception:
        return None
    # parts the pattern does not show keep flowing through the record as the code does; only shown fields matter for the text
    try:
        new_v = old_v._replace(**exp)
        text = impl.v2version.format_version(new_v, pattern)
        if not text or text == old:
            return None
        impl.v2version.parse_version_info(text, pattern)
    except Exception:
        return None
    try:
        from packaging import version as pk
        if not (pk.Version(text) > pk.Version(old)):
            return None
    except Exception:
        if not (version.parse_version(text) > version.parse_version(old)):
            return None
    return text


def gen_case(r, impl):
    pat, info = v2gen.gen_pattern(r)
    v, d = v2gen.gen_state(r, impl)
    if not (1001 <= d.year <= 9997):
        d = d.replace(year=r.randrange(2001, 2098))
        v = v._replace(**impl.v2version.cal_info(d)._asdict())
    if info["cal"] and info["cal"].endswith("2") and not (2002 <= d.year <= 2097):
        d = d.replace(year=r.randrange(2002, 2097), day=min(d.day, 28))
        v = v._replace(**impl.v2version.cal_info(d)._asdict())
    old = impl.v2version.format_version(v, pat)
    fl = v2gen.gen_flags(r)
    delta = r.choice([0, 0, 1, 1, 7, 31, 366, 3000, -1, -30, -400, r.randrange(-500, 2000)])
    try:
        nd = d + dt.timedelta(days=delta)
    except OverflowError:       # beyond 9999-12-31 / before 0001-01-01
        nd = d
    if not (1001 <= nd.year <= 9998):
        nd = d
    return pat, info, v, d, old, fl, nd


def run(rep, tier, seed, model_ok=True, effort=1, for_c01=False):
    from . import impl
    r = common.rng(seed, "c05")
    n = (700 if tier == "quick" else 40000) * effort
    rep.rule = ("seeded (grammar pattern, version state, flag set out of 2^7 x tag values, date offset incl. earlier dates): `bumpver test` through "
                "CliRunner; result compared with the Coq model of cli.test and with an independent part-level re-implementation of the README rules; "
                "non-trivial = distinct case whose bump succeeds")
    today = v2gen.ordinal(impl.PINNED_TODAY)
    items, meta = [], []
    cases = []
    # corpus of minimised past failures and boundary cases, run first
    F0 = dict(major=False, minor=False, patch=False, tag=None, tag_num=False, pin_increments=False, pin_date=False)
    for old, pat, upd, date_arg in CORPUS:
        cases.append((pat, dict(wf=True, cal=None), old, dict(F0, **upd), date_arg, None))
    for i in range(n):
        pat, info, v, d, old, fl, nd = gen_case(r, impl)
        if not old:
            continue
        use_date = r.random() < 0.85 and not fl["pin_date"]
        date_arg = nd.isoformat() if use_date else None
        if r.random() < 0.03:
            date_arg = r.choice(["2020-13-01", "yesterday", "2020-02-30"])
        if fl["pin_date"] and r.random() < 0.1:
            date_arg = nd.isoformat()
        cases.append((pat, info, old, fl, date_arg, nd))
    for pat, info, old, fl, date_arg, nd in cases:
        use_date = date_arg is not None
        if nd is None and date_arg is not None:
            try:
                nd = dt.date.fromisoformat(date_arg)
            except ValueError:
                nd = None
        args = ["test", old, pat] + flag_args(fl, date_arg)
        code, out, exc = impl.run_cli(args)
        new = impl.parse_new_version(out) if code == 0 else None
        pep = impl.parse_pep440_line(out) if code == 0 else None
        rep.case((old, pat, tuple(sorted((k, str(x)) for k, x in fl.items())), date_arg), nontrivial=code == 0)
        rep.count("exit=%s" % ("0" if code == 0 else "nonzero"))
        rep.count("flags=%d" % sum(1 for k in fl if fl[k]))
        if code == 0 and new is None:
            rep.violation("exit 0 without announcing a version", input=dict(args=args, out=out), **{"class": "no-announcement"})
        eff_date = nd if (use_date and nd is not None and date_arg == nd.isoformat()) else impl.PINNED_TODAY
        if code == 0 and new:
            # a selected part that the pattern does not have cannot be incremented: no version satisfies the request, the command refuses
            for flag_, part_ in (("major", "MAJOR"), ("minor", "MINOR"), ("patch", "PATCH")):
                if fl[flag_] and part_ not in pat:
                    rep.violation("--%s is accepted although the pattern has no %s part (announced %s)" % (flag_, part_, new),
                                  input=dict(old=old, pattern=pat, flags=fl, date=str(eff_date), new=new), **{"class": "inapplicable-flag"})
                    break
        if code == 0 and new and info["wf"] and (date_arg is None or (nd is not None and date_arg == nd.isoformat())):
            check_spec(rep, impl, old, pat, fl, eff_date, new)
        if code != 0 and info["wf"] and (date_arg is None or (nd is not None and date_arg == nd.isoformat())) and not (fl["pin_date"] and date_arg):
            want = expected_success(impl, old, pat, fl, eff_date)
            if want is not None:
                rep.violation("bump %s although the documented rules give the greater version %r" % ("refused" if exc is None else "crashed (%s)" % type(exc).__name__, want),
                              input=dict(old=old, pattern=pat, flags=fl, date=str(eff_date), new=None), **{"class": "refused"})
        # Coq case
        if date_arg is None:
            cdate = "None"
        else:
            try:
                cdate = "(Some (Some %s))" % cz(v2gen.ordinal(dt.datetime.strptime(date_arg, "%Y-%m-%d").date()))
            except ValueError:
                cdate = "(Some None)"
        if code == 0:
            exp = "(Exit0 %s %s)" % (cs(new), cs(pep if pep is not None else new))
        else:
            exp = "ExitErr"
        items.append("(%s,%s,%s,%s,%s)" % (cs(old), cs(pat), v2gen.cflags(fl), cdate, exp))
        meta.append(dict(args=args, exit=code, new=new, pep440=pep, exc=repr(exc) if exc else None))
        if code == 0:
            rep.sample(dict(args=" ".join(args), new=new))
    if model_ok:
        # What C05's theorems need from the tie is the INCREMENT: whenever the implementation announces a version, the model's incr gives that
        # very version for the same old version, pattern, flags and date; whenever it refuses, the model's whole command refuses too.  Whether the
        # gate accepts a given result is C01's subject (a gate that lets an equal version through changes no part of it).
        chk = ("fun '(o, p, fl, d, e) => match e with "
               "| Exit0 new _ => match incr (%s) o p fl (match d with Some (Some n) => n | _ => (%s) end) with INew n => eqb_str n new | _ => false end "
               "| ExitErr => eqb_cli_res (test_cmd_v2 (%s) o p fl d None) ExitErr end" % (cz(today), cz(today), cz(today)))
        bad, errs = common.coq_eval("c05", HDR, "list N * list N * flags * option (option Z) * cli_res", chk, items, shard=120)
        for i in bad:
            rep.mismatch("bumpver test: the model's increment differs from the implementation", input=meta[i])
        rep.corr_errors += errs


def search(rep, tier, seed, effort=2):
    run(rep, tier, seed, model_ok=False, effort=effort)


def replay(payload):
    from . import impl
    inp = payload["violation"]["input"]
    rep = common.Report("C05")
    if "args" in inp:
        print(impl.run_cli(inp["args"]))
        return 1
    args = ["test", inp["old"], inp["pattern"]] + flag_args(inp["flags"], inp["date"])
    code, out, exc = impl.run_cli(args)
    new = impl.parse_new_version(out)
    print("replay C05:", " ".join(args), "->", code, new)
    if code == 0:
        check_spec(rep, impl, inp["old"], inp["pattern"], inp["flags"], dt.date.fromisoformat(inp["date"]), new)
    for v in rep.violations:
        print("  still failing:", v["what"])
    return 1 if rep.violations else 0
