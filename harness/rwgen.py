"""Generator of project layouts for the rewrite-level checks (C03, C04, C06, C13, C08): files made of
known segments (free text / occurrences of configured patterns), so that the expected bytes after an
update can be computed independently of bumpver's own matching."""
import datetime as dt
from . import common, v2gen

VERSION_PATTERNS = [
    # (pattern, bump flags that always produce a change)
    ("vYYYY0M.BUILD[-TAG]", []), ("YYYY.BUILD[-TAG]", []), ("MAJOR.MINOR.PATCH", ["--patch"]), ("vMAJOR.MINOR.PATCH[-TAG[NUM]]", ["--minor"]),
    ("vYYYY.0M.0D", []), ("MAJOR.MINOR[.PATCH]", ["--patch"]), ("YYYY.MM.INC0", []), ("vYY.0W.PATCH", ["--patch"]),
    ("MAJOR.MINOR.PATCH[PYTAGNUM]", ["--major"]), ("YYYY.0M.BLD", []), ("vGGGG.0V.BUILD", []), ("v0Y.00J.INC1[-TAG]", []),
]
# every version pattern is exercised at least once per run with {version} and {pep440_version} occurrences (week, day-of-year, ISO and two-digit parts included)
CORPUS_PATTERNS = VERSION_PATTERNS + [("YYYY.0W.PATCH", ["--patch"]), ("YYYY.0U.PATCH", ["--patch"]), ("YYYY.WW.BUILD", []), ("YYYY.0M.0D.BUILD", []),
                                      ("YYYY.00J.BUILD", []), ("YYYY.JJJ.BLD", []), ("GGGG.VV.PATCH", ["--patch"]), ("YYYY.Q.BUILD[-TAG]", [])]
V1_PATTERNS = [("{pycalver}", []), ("{semver}", ["--patch"]), ("v{year}{month}{build}{release}", []), ("{year}.{build_no}", [])]

FILLER = ["", "some text", "# comment line", "x = 1", "naïve café — ünïcödé", "tab\tseparated", "  indented  ", "regex .*+?()[]{}|^$\\ chars",
          "1.2.3.4.5", "v0.0", "version = unrelated", "\x0ccontrol\x0b", "日本語テキスト", "Copyright", "ends with space ", "﻿not-a-bom"]


class Seg:
    def __init__(self, kind, value):
        self.kind, self.value = kind, value   # ("text", str) | ("occ", pattern index)


class FileSpec:
    def __init__(self, path, patterns):
        self.path = path
        self.patterns = patterns          # raw patterns configured for this file
        self.lines = []                   # list of (list of Seg, terminator)
        self.entry_repeated = False
        self.glob = None
        self.group = None                 # a recursive glob entry (tree/**/name) through which this file and its twin are configured

    def _text(self, prj_render, idx, version):
        # `known` maps a pattern index to a hand-written rendering (version string -> text) that does not go through bumpver's renderer
        fn = getattr(self, "known", {}).get(idx)
        return fn(version) if fn else prj_render(self.patterns[idx], version)

    def render(self, prj_render, version, old_version=None):
        out = []
        for segs, term in self.lines:
            for s in segs:
                if s.kind == "text":
                    out.append(s.value)
                elif s.kind == "dup":
                    # a second occurrence of the same pattern on the line: never matched (one match per line), so it keeps the OLD text
                    out.append(self._text(prj_render, s.value, old_version or version))
                else:
                    out.append(self._text(prj_render, s.value, version))
            out.append(term)
        return "".join(out)


def file_patterns_for(r, vp, k0, legacy=False):
    """raw patterns with unique literal context"""
    pats = []
    k = k0
    n = r.choice([1, 1, 2, 2, 3, 4])
    has_year = "YYYY" in vp or legacy and ("{year}" in vp or "pycalver" in vp)
    for _ in range(n):
        k += 1
        choice = r.random()
        if choice < 0.4:
            pats.append('ver%d = "{version}"' % k)
        elif choice < 0.6 and (not legacy or vp in ("{pycalver}", "{semver}", "v{year}{month}{build}{release}")):
            pats.append("pep%d: {pep440_version};" % k)
        elif choice < 0.7 and has_year and not legacy:
            pats.append("Copyright (c%d) YYYY" % k)
        elif choice < 0.8 and "MAJOR" in vp and "MINOR" in vp and not legacy:
            pats.append("badge%d-vMAJOR.MINOR-blue.svg?x=(1)|y" % k)
        elif choice < 0.85:
            pats.append("url%d/{version}/dl+me" % k)
        elif choice < 0.92 and (not legacy or vp in ("{pycalver}", "{semver}", "v{year}{month}{build}{release}")):
            pats.append("pip install demo%d=={pep440_version}" % k)
        else:
            pats.append("{version} <- tail%d" % k)
    return pats, k


CFG_PREFIXES = ["", "", "", "[bumpversion]\ncurrent_version = {q}none{q}\n\n", "[tool.other]\nname = {q}x{q}\n\n",
                "[bumpver_old]\ncurrent_version = {q}n/a{q}\nversion_pattern = {q}MAJOR.MINOR.PATCH{q}\n\n", "[metadata]\nversion = {q}1.0{q}\n\n"]


def gen_project(r, impl, legacy=False, max_files=5, allow_mixed=True, n_files=None, allow_dup=False, force=None, tree=False):
    """Returns dict(vp, flags, old, files=[FileSpec], date).  The config file itself is bumpver.toml."""
    vp, flags = force if force else r.choice(V1_PATTERNS if legacy else VERSION_PATTERNS)
    d = dt.date(2001, 1, 1) + dt.timedelta(days=r.randrange(0, 30000))
    if legacy:
        v1 = impl.v1version
        from bumpver import version
        vi = version.V1VersionInfo(year=d.year, quarter=(d.month - 1) // 3 + 1, month=d.month, dom=d.day, doy=d.timetuple().tm_yday,
                                   iso_week=int(d.strftime("%W")), us_week=int(d.strftime("%U")), major=r.choice([0, 1, 9, 10]),
                                   minor=r.choice([0, 2, 99]), patch=r.choice([0, 3, 100]), bid=r.choice(["1001", "0033", "1999", "22000"]),
                                   tag=r.choice(["final", "alpha", "beta", "rc", "dev", "post"]))
        old = v1.format_version(vi, vp)
    else:
        v, _ = v2gen.gen_state(r, impl)
        v = v._replace(**impl.v2version.cal_info(d)._asdict())
        if v.week_w == 53 or v.week_u == 53:
            d = d - dt.timedelta(days=14)
            v = v._replace(**impl.v2version.cal_info(d)._asdict())
        old = impl.v2version.format_version(v, vp)
    nfiles = n_files or r.randrange(1, max_files + 1)
    files = []
    k = 0
    for i in range(nfiles):
        path = r.choice(["a%d.txt", "src/pkg%d/__init__.py", "docs/readme%d.md", "setup%d.py"]) % i
        pats, k = file_patterns_for(r, vp, k, legacy)
        if force and i == 0:
            # corpus projects always carry a {version} and a {pep440_version} occurrence
            k += 2
            pats = ['ver%d = "{version}"' % (k - 1), "pep%d: {pep440_version};" % k] + pats[:1]
        fs = FileSpec(path, pats)
        regime = r.choice(["\n", "\n", "\r\n", "\r", "mixed"] if allow_mixed else ["\n", "\n", "\r\n", "\r"])
        terms = ["\n", "\r\n", "\r"] if regime == "mixed" else [regime]
        # occurrences: each pattern at least once; sometimes twice (distinct lines); sometimes two patterns share a line
        occs = list(range(len(pats)))
        if regime != "mixed":
            occs += [r.randrange(len(pats)) for _ in range(r.choice([0, 0, 1, 2]))]
        r.shuffle(occs)
        lines = []
        if r.random() < 0.15:
            lines.append([Seg("text", "\ufeff// file starting with a UTF-8 byte order mark")])
        for _ in range(r.choice([0, 1, 3])):
            lines.append([Seg("text", r.choice(FILLER))])
        while occs:
            p = occs.pop()
            segs = [Seg("text", r.choice(["", "  ", "prefix ", "// "])), Seg("occ", p)]
            on_line = [p]
            # up to four different patterns share the line (at most one occurrence per pattern per line), in any order of configuration
            while occs and r.random() < (0.3 if len(on_line) == 1 else 0.6) and occs[-1] not in on_line and len(on_line) < 4:
                q_ = occs.pop()
                on_line.append(q_)
                segs += [Seg("text", r.choice([" -- ", " ", "; ", "\t", " | "])), Seg("occ", q_)]
            if allow_dup and r.random() < 0.35:
                segs += [Seg("text", r.choice(["  # was: ", " | ", " and again "])), Seg("dup", p)]
            segs.append(Seg("text", r.choice(["", "", " # trailing", " ."])))
            lines.append(segs)
            for _ in range(r.choice([0, 0, 1, 2])):
                lines.append([Seg("text", r.choice(FILLER))])
        trailing_newline = r.random() < 0.7
        for j, segs in enumerate(lines):
            last = j == len(lines) - 1
            term = "" if (last and not trailing_newline) else r.choice(terms)
            fs.lines.append((segs, term))
        if r.random() < 0.15:
            fs.entry_repeated = True
        files.append(fs)
    # one file reached, together with copies one and two directories deeper, through a single recursive glob entry
    if tree and files and r.random() < 0.3 and not files[0].entry_repeated:
        import copy, os as _os
        f0 = files[0]
        base = _os.path.basename(f0.path)
        tree = "tree%d" % r.randrange(100)
        twin, mid = copy.deepcopy(f0), copy.deepcopy(f0)
        # depth 0, 1 and 2 below the directory the entry names
        f0.path, mid.path, twin.path = tree + "/" + base, tree + "/one/" + base, tree + "/deep/er/" + base
        f0.group = mid.group = twin.group = tree + "/**/" + base
        files += [mid, twin]
    # the configuration lives in any of the supported files (the rewrite must not depend on which)
    cfg_fmt = r.choice(["bumpver.toml", "bumpver.toml", "pyproject.toml", "setup.cfg", ".bumpver.toml"])
    return dict(vp=vp, flags=list(flags), old=old, files=files, date=d, legacy=legacy, fmt=cfg_fmt, cfg_prefix=r.choice(CFG_PREFIXES), key_comment=r.random() < 0.25, dot_slash=r.random() < 0.5)


def avoid_week53(vp, d):
    """strftime %W / %U reach 53 on a few days (2018-12-31, 2035-12-31 ...), which the WW/0W/UU/0U parts cannot render readably: the recorded
    C02 finding.  The rewrite-level checks are not about it: such a bump date is moved on by a week."""
    import datetime as dt
    while (any(x in vp for x in ("WW", "0W")) and d.strftime("%W") == "53") or (any(x in vp for x in ("UU", "0U")) and d.strftime("%U") == "53"):
        d = d + dt.timedelta(days=7)
    return d


def scripted_specs():
    """Hand-built projects that run before the generated ones: layouts found by reading seeded changes that the random
    generator reaches only rarely."""
    import datetime as dt

    def mk(path, pats, lines, term="\n", final_newline=True):
        fs = FileSpec(path, pats)
        for j, segs in enumerate(lines):
            fs.lines.append((segs, "" if (j == len(lines) - 1 and not final_newline) else term))
        return fs
    T, O = (lambda x: Seg("text", x)), (lambda i: Seg("occ", i))
    base = dict(legacy=False, date=dt.date(2024, 5, 1), cfg_prefix="", key_comment=False, dot_slash=False)
    out = []
    # three patterns on one line, the occurrence of the LAST configured pattern between the two others; that pattern also matches elsewhere
    out.append(dict(base, vp="MAJOR.MINOR.PATCH", old="1.2.3", flags=["--patch"], files=[
        mk("notes.txt", ["mypkg v{version}", "released as {version};", "mypkg=={pep440_version}"],
           [[T("intro")], [O(0), T(" | pip install "), O(2), T(" | "), O(1), T(" ACME")], [T("requirements: "), O(2)], [T("end")]])]))
    # two patterns on one line, listed left to right, the left replacement grows (1.9.0 -> 1.10.0); CRLF, non-ASCII, no final newline
    out.append(dict(base, vp="MAJOR.MINOR.PATCH", old="1.9.0", flags=["--minor"], files=[
        mk("README.md", ["badge/version-{version}-blue", "download/v{version}/pkg"],
           [[T("# Project")], [T("")], [T("[![v](https://img.example/"), O(0), T(")](https://example.org/"), O(1), T(".tgz) <- latest \u2713")], [T("no newline at end")]],
           term="\r\n", final_newline=False)]))
    # decomposed (non-NFC) characters to the left of an occurrence, and on unmatched lines
    out.append(dict(base, vp="MAJOR.MINOR.PATCH", old="1.2.3", flags=["--patch"], files=[
        mk("about.txt", ["release {version} (stable)"],
           [[T("Notes")], [T("Cafe\u0301 Mu\u0308nch toolkit, "), O(0), T(" e\u0301")], [T("composed twin: Caf\u00e9 M\u00fcnch; decomposed: A\u030a")]])]))
    # the config file is pyproject.toml and a file of the same NAME in another directory is listed (the config itself is not)
    out.append(dict(base, vp="MAJOR.MINOR.PATCH", old="1.2.3", flags=["--patch"], fmt="pyproject.toml", files=[
        mk("packages/core/pyproject.toml", ['version = "{version}"'], [[T("[project]")], [O(0)], [T('name = "core"')]])]))
    # a form feed / vertical tab / U+2028 right next to the version line (inside the context of the printed diff)
    out.append(dict(base, vp="MAJOR.MINOR.PATCH", old="1.2.3", flags=["--patch"], files=[
        mk("mod.py", ['__version__ = "{version}"'],
           [[T("# header")], [T("\x0c")], [O(0), T("  # page break above\x0b and a vertical tab here")], [T("x = 1 \u2028 y = 2")], [T("last")]])]))
    # CR-only line endings, no terminator after the last line, the same pattern on three lines
    out.append(dict(base, vp="MAJOR.MINOR.PATCH", old="1.2.3", flags=["--patch"], files=[
        mk("NOTES.txt", ["release {version}"], [[T("first "), O(0)], [T("filler")], [T("again "), O(0), T(" here")], [T("and "), O(0)]], term="\r", final_newline=False)]))
    # a glob entry and an explicit entry for one of its files: the explicit entry's extra pattern belongs to that file only; its sibling carries
    # text the extra pattern would match (a historical line) and must keep it
    hist = "pip install demo==1.2.3   <- historical line, not configured for this file"
    out.append(dict(base, vp="MAJOR.MINOR.PATCH", old="1.2.3", flags=["--patch"], raw_entries=[("docs/*.md", ["Version: {version}"]), ("docs/index.md", ["pip install demo=={version}"])], files=[
        mk("docs/index.md", ["Version: {version}", "pip install demo=={version}"], [[O(0)], [T("run "), O(1)]]),
        mk("docs/changelog.md", ["Version: {version}"], [[O(0)], [T(hist)]])]))
    # the same layout for a legacy version pattern
    out.append(dict(base, legacy=True, vp="{semver}", old="1.2.3", flags=["--patch"], raw_entries=[("docs/*.md", ["Version: {version}"]), ("docs/index.md", ["pip install demo=={version}"])], files=[
        mk("docs/index.md", ["Version: {version}", "pip install demo=={version}"], [[O(0)], [T("run "), O(1)]]),
        mk("docs/changelog.md", ["Version: {version}"], [[O(0)], [T(hist)]])]))
    # partial legacy patterns (short month, build number, release tag, year+month) with hand-written renderings of what they denote
    import re as _re
    def pyc(version):
        m = _re.fullmatch(r"v(\d{4})(\d{2})\.(\d+)(?:-(\w+))?", version)
        return int(m.group(1)), int(m.group(2)), m.group(3), m.group(4) or "final"
    fs = mk("NEWS.md", ["Released in {year}-{month_short}", "build {build_no}, {release_tag}", "in {year}{month}", "{version}"],
            [[T("# "), O(3)], [O(0), T(" by the team")], [O(1)], [T("archive "), O(2), T("/")]])
    fs.known = {0: lambda v: "Released in %d-%d" % pyc(v)[:2], 1: lambda v: "build %s, %s" % pyc(v)[2:], 2: lambda v: "in %d%02d" % pyc(v)[:2]}
    out.append(dict(base, legacy=True, vp="{pycalver}", old="v202401.1001-beta", flags=[], date=dt.date(2024, 4, 28), files=[fs]))
    # a configured dot-file next to an unconfigured file of the same name without the dot (and one in the parent's spelling), both carrying the version
    out.append(dict(base, vp="MAJOR.MINOR.PATCH", old="1.2.3", flags=["--patch"], extra_files={"version": "#!/bin/sh\necho 1.2.3\n", "src/version": "1.2.3\n"}, files=[
        mk(".version", ["{version}"], [[O(0)]]), mk("src/.version", ["{version}"], [[O(0)]])]))
    # the file that sorts last consists of the version line and the line terminator only (the last context line of its diff is an empty line)
    out.append(dict(base, vp="MAJOR.MINOR.PATCH", old="1.2.3", flags=["--patch"], files=[
        mk("zz_version.txt", ["{version}"], [[O(0)]]), mk("notes.txt", ["release {version}"], [[T("a")], [O(0)], [T("")], [T("")], [T("end")]])]))
    # two patterns on one line, the one further RIGHT listed first in the configuration, the version grows in length (1.9.0 -> 1.10.0)
    out.append(dict(base, vp="MAJOR.MINOR.PATCH", old="1.9.0", flags=["--minor"], files=[
        mk("INSTALL.txt", ["(tag v{version})", "mylib-{version}.tar.gz"], [[T("download "), O(1), T(" "), O(0), T(" now")], [T("end")]])]))
    # the match of a later pattern ENCLOSES the match of an earlier one on one line (it is then skipped there) and stands apart from it on
    # another line; the version grows in length
    out.append(dict(base, vp="MAJOR.MINOR.PATCH", old="1.2.9", flags=["--patch"], files=[
        mk("conf.py", ["{version}", 'version = "{version}"'],
           [[T('version = "'), O(0), T('"  # keep in sync')], [T("see "), O(0), T(" and "), O(1), T(" below")], [T("end")]])]))
    # a version file that consists of nothing but the version, without a final newline
    out.append(dict(base, vp="MAJOR.MINOR.PATCH", old="1.4.2", flags=["--patch"], files=[
        mk("VERSION", ["{version}"], [[O(0)]], final_newline=False)]))
    return out


def to_temp_project(project, spec, **kw):
    """Build a TempProject from a generated spec."""
    import os
    files, contents, later = {}, {}, {}
    for fs in spec["files"]:
        if fs.group:
            files[fs.group] = list(fs.patterns)
        elif fs.entry_repeated and "/" in fs.path and len(fs.patterns) > 1:
            # the same file reached through a glob entry and an explicit entry
            d, base = os.path.split(fs.path)
            stem, ext = os.path.splitext(base)
            fs.glob = d + "/" + stem + "*" + ext
            # the explicit entry may spell the same file differently (leading "./"); half of the time the two entries are not adjacent and
            # the explicit one comes first
            explicit = ("./" + fs.path) if spec.get("dot_slash") else fs.path
            if len(fs.path) % 2:
                files[fs.glob] = list(fs.patterns[:1])
                later[explicit] = list(fs.patterns[1:])
            else:
                files[explicit] = list(fs.patterns[1:])
                later[fs.glob] = list(fs.patterns[:1])
        else:
            files[fs.path] = list(fs.patterns)
    files.update(later)      # entries for the same file separated by the entries of all other files
    if spec.get("raw_entries"):
        files = dict(spec["raw_entries"])     # the file_patterns section exactly as given (globs, order)
    kw.setdefault("cfg_prefix", spec.get("cfg_prefix", "").format(q='"'))
    kw.setdefault("key_comment", spec.get("key_comment", False))
    if spec.get("fmt"):
        kw.setdefault("fmt", spec["fmt"])
    prj = project.TempProject(version_pattern=spec["vp"], current_version=spec["old"], files=files, **kw)
    return prj


def write_contents(prj, spec, version=None):
    import os
    for fs in spec["files"]:
        text = fs.render(prj.render, version or spec["old"], spec["old"])
        full = prj.path(fs.path)
        os.makedirs(os.path.dirname(full), exist_ok=True)
        with open(full, "wb") as f:
            f.write(text.encode("utf-8"))
    # files that exist in the project without being configured (they must stay as they are)
    for path, text in (spec.get("extra_files") or {}).items():
        full = prj.path(path)
        os.makedirs(os.path.dirname(full), exist_ok=True)
        with open(full, "wb") as f:
            f.write(text.encode("utf-8"))
