"""Shared machinery of the rewrite-level checks: run `bumpver update` on generated projects and compare
bytes with an independent expectation; rfd_from_content correspondence against the Coq model."""
import os, re, datetime as dt
from . import common, v2gen, rwgen, project
from .common import cs, cos, cz

HDR = "From BV Require Import Lib.Regex Model.V2 Model.Rewrite."


def announced(logs):
    new = next((l.split("New Version: ", 1)[1] for l in logs if "New Version: " in l), None)
    old = next((l.split("Old Version: ", 1)[1] for l in logs if "Old Version: " in l), None)
    return old, new


def expected_after(prj, spec, new):
    exp = {}
    for fs in spec["files"]:
        exp[fs.path] = fs.render(prj.render, new, spec["old"]).encode("utf-8")
    cfg = prj.config_text().replace('current_version = "%s"' % spec["old"], 'current_version = "%s"' % new, 1)
    exp[prj.fmt] = cfg.encode("utf-8")
    return exp


def classify_diff(prj, spec, fs, actual, new):
    """'stale' when only occurrence texts differ from the expectation, else 'outside'."""
    def mask(version):
        out = []
        for segs, term in fs.lines:
            for s in segs:
                out.append(s.value if s.kind == "text" else (prj.render(fs.patterns[s.value], spec["old"]) if s.kind == "dup" else "\0"))
            out.append(term)
        return "".join(out)
    try:
        text = actual.decode("utf-8")
    except UnicodeDecodeError:
        return "outside"
    m = mask(new)
    rx = "^" + "".join("(.*?)" if c == "\0" else re.escape(c) for c in m) + "$"
    mm = re.match(rx, text, flags=re.S)
    if not mm:
        return "outside"
    # 'stale' means: every occurrence still shows a rendering of its own pattern (the old one, or another version's); an occurrence slot that
    # holds anything else (extra or missing characters around the rendering) is damage outside the matched span
    occs = [s for segs, _ in fs.lines for s in segs if s.kind == "occ"]
    for s_, got in zip(occs, mm.groups()):
        try:
            if got not in (prj.render(fs.patterns[s_.value], spec["old"]), prj.render(fs.patterns[s_.value], new)):
                pat_ = impl_compile(prj, spec, fs.patterns[s_.value])
                if pat_ is None or not pat_.fullmatch(got):
                    return "outside"
        except Exception:
            return "outside"
    return "stale"


def missing_rendering(prj, spec, fs, actual, new):
    """True when some matched occurrence's rendering of the new version is absent from its line of the actual file"""
    try:
        lines = actual.decode("utf-8").splitlines()
    except UnicodeDecodeError:
        return False
    if len(lines) != len([1 for segs, term in fs.lines]) and len(lines) + 1 != len(fs.lines):
        return False          # the line structure itself is gone: the other check's subject
    for (segs, _), line in zip(fs.lines, lines):
        for s in segs:
            if s.kind == "occ":
                try:
                    if fs._text(prj.render, s.value, new) not in line:
                        return True
                except Exception:
                    return False
    return False


def impl_compile(prj, spec, raw):
    try:
        if spec["legacy"]:
            from bumpver import v1patterns
            return v1patterns.compile_pattern(spec["vp"], raw).regexp
        from bumpver import v2patterns
        return v2patterns.compile_pattern(spec["vp"], raw).regexp
    except Exception:
        return None


def rfd_cases(impl, prj, spec, new, items, meta):
    """model/implementation correspondence items for rfd_from_content of every file"""
    if spec["legacy"]:
        return
    vp = spec["vp"]
    try:
        nv = impl.v2version.parse_version_info(new, vp)
    except Exception:
        return
    from bumpver import v2rewrite, rewrite
    for fs in spec["files"]:
        content = fs.render(prj.render, spec["old"])
        pats = impl.v2patterns.compile_patterns(vp, fs.patterns)
        try:
            rfd = v2rewrite.rfd_from_content(pats, nv, content)
            obs = "(ObsOk %s [%s])" % (cs(rfd.line_sep), ";".join(cs(l) for l in rfd.new_lines))
        except rewrite.NoPatternMatch as ex:
            obs = "ObsGreedy" if "greedy" in str(ex) else "ObsInvalid"
        except Exception:
            obs = "ObsCrash"
        items.append("(%s,[%s],%s,%s,%s)" % (cs(vp), ";".join(cs(p) for p in fs.patterns), v2gen.cvinfo(nv), cs(content), obs))
        meta.append(dict(version_pattern=vp, patterns=fs.patterns, new=new, content=content))


def eval_rfd(rep, items, meta):
    bad, errs = common.coq_eval("rfd_%s" % rep.pid.lower(), HDR, "list N * list (list N) * vinfo * list N * rfd_obs",
                                "fun '(vp, raws, nv, c, e) => eqb_rfd_obs (v2_rfd vp raws nv c) e", items, shard=40)
    for i in bad:
        rep.mismatch("rfd_from_content: model differs from implementation", input=meta[i])
    rep.corr_errors += errs


def run_update_projects(rep, tier, seed, focus, model_ok=True, effort=1, legacy_share=0.2):
    """focus in {'stale','outside'}: which class of byte difference this property owns."""
    from . import impl
    r = common.rng(seed, "rw", focus)
    scripted = rwgen.scripted_specs()
    n = (45 if tier == "quick" else 4000) * effort + len(rwgen.CORPUS_PATTERNS) + len(scripted)
    items, meta = [], []
    for i0 in range(n):
        i = i0 - len(scripted)
        legacy = r.random() < legacy_share
        force = rwgen.CORPUS_PATTERNS[i] if 0 <= i < len(rwgen.CORPUS_PATTERNS) else None
        if force:
            legacy = False
        if i < 0:
            spec = scripted[i0]
            legacy = spec["legacy"]
            rep.count("scripted-projects")
        else:
            spec = rwgen.gen_project(r, impl, legacy=legacy, allow_dup=(focus == "outside"), force=force, max_files=2 if force else 5, tree=True)
        if not spec["old"]:
            continue
        if any(f.group for f in spec["files"]):
            rep.count("projects-with-recursive-glob-entry")
        rep.count("config=%s" % spec.get("fmt", "bumpver.toml"))
        with rwgen.to_temp_project(project, spec) as prj:
            try:
                rwgen.write_contents(prj, spec)
            except Exception as ex:
                rep.notes.append("generator could not render %s: %r" % (spec["vp"], ex))
                continue
            cerr = prj.cfg_error(impl)
            if cerr:
                rep.count("config-rejected")
                if focus == "stale":
                    # generated projects are valid by construction (0 rejections in 480 projects on the pinned tree)
                    rep.violation("the configuration of a project in which every configured file and pattern exists is rejected",
                                  input=dict(version_pattern=spec["vp"], current_version=spec["old"], files={f.path: f.patterns for f in spec["files"]},
                                             entries=sorted(set(f.group or f.path for f in spec["files"])), error=str(cerr)[:300]), **{"class": "unexpected-failure"})
                continue
            if focus == "outside":
                # neighbours of the configured files that a careless "write to a temporary name, then rename" would clobber
                for fs_ in spec["files"][:2]:
                    for suffix in (".tmp", ".bak", "~", ".new"):
                        with open(prj.path(fs_.path + suffix), "w") as fh_:
                            fh_.write("unrelated neighbour of %s\n" % fs_.path)
            before = prj.snapshot()
            nd = rwgen.avoid_week53(spec["vp"], spec["date"] + dt.timedelta(days=r.choice([1, 40, 400])))
            args = ["update", "--no-fetch", "--date", nd.isoformat()] + spec["flags"]
            code, out, logs, exc = prj.run(impl, args)
            after = prj.snapshot()
            old, new = announced(logs)
            shape = dict(files=len(spec["files"]), patterns=sum(len(f.patterns) for f in spec["files"]),
                         shared_lines=sum(1 for f in spec["files"] for segs, _ in f.lines if sum(1 for s in segs if s.kind == "occ") > 1))
            rep.case((spec["vp"], spec["old"], tuple((f.path, tuple(f.patterns)) for f in spec["files"]), i), nontrivial=code == 0)
            rep.count("update-exit=%s" % ("0" if code == 0 else "nonzero"))
            rep.count("engine=%s" % ("v1" if legacy else "v2"))
            rep.count("shared-line-projects", 1 if shape["shared_lines"] else 0)
            inp = dict(version_pattern=spec["vp"], current_version=spec["old"], args=args, exit=code,
                       files={f.path: dict(patterns=f.patterns, content=f.render(prj.render, spec["old"])) for f in spec["files"]}, logs=logs[-5:])
            if code != 0:
                if after != before:
                    rep.violation("update exited non-zero but changed files", input=inp, **{"class": "failed-but-wrote"})
                # a generated project is built so that every pattern matches: a failure here is unexpected
                rep.violation("update failed on a project in which every configured pattern occurs", input=inp, **{"class": "unexpected-failure"})
                continue
            exp = expected_after(prj, spec, new)
            for path, want in exp.items():
                got = after.get(path)
                if got == want:
                    continue
                fs = next((f for f in spec["files"] if f.path == path), None)
                kind = classify_diff(prj, spec, fs, got, new) if fs is not None and got is not None else "outside"
                if path == prj.fmt:
                    kind = "stale" if b"current_version" in (got or b"") else "outside"
                if kind == "outside" and focus == "stale" and fs is not None and got is not None and missing_rendering(prj, spec, fs, got, new):
                    kind = "stale"      # whatever else happened to the bytes, an occurrence does not show the new version on its line
                if kind == focus:
                    what = ("an occurrence was left stale / not rendered as the new version" if kind == "stale"
                            else "bytes outside the matched spans changed")
                    rep.violation("%s in %s" % (what, path), input=dict(inp, new=new, path=path, got=got.decode("utf-8", "replace") if got else None,
                                                                      want=want.decode("utf-8", "replace")), **{"class": kind + "-" + ("cfg" if path == prj.fmt else "file")})
            if focus == "outside":
                extra = (set(after) | set(before)) - set(exp)
                for path in sorted(extra):
                    if after.get(path) != before.get(path):
                        rep.violation("a file not named in the configuration was %s: %s" % ("removed" if path not in after else "written", path), input=inp, **{"class": "unconfigured-write"})
            if focus == "stale":
                c2, out2, _, _ = prj.run(impl, ["show", "--no-fetch"])
                if c2 != 0 or ("Current Version: %s" % new) not in out2:
                    rep.violation("show does not report the announced version after update", input=dict(inp, new=new, show=out2), **{"class": "show-differs"})
            rfd_cases(impl, prj, spec, new, items, meta)
            rep.sample(dict(version_pattern=spec["vp"], old=spec["old"], new=new, **shape))
    if model_ok and items:
        eval_rfd(rep, items, meta)
