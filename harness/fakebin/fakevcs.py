#!/venv/bin/python
"""Fake `git` / `hg` executable for the checks.  Placed first on PATH (as `git` and `hg` symlinks).
Reads $FAKEVCS_DIR/config.json, appends one JSON line per invocation to $FAKEVCS_DIR/argv.log and
emulates just enough output for bumpver.  `fail` lists step keys that must exit 1."""
import json, os, sys

d = os.environ.get("FAKEVCS_DIR")
name = os.path.basename(sys.argv[0])
argv = sys.argv[1:]
if not d:
    sys.stderr.write("fakevcs: FAKEVCS_DIR not set\n")
    sys.exit(97)
cfg = json.load(open(os.path.join(d, "config.json")))


def key():
    a = argv
    if name == "git":
        if a[:1] == ["rev-parse"]:
            return "is_usable"
        if a[:1] == ["fetch"]:
            return "fetch"
        if a[:2] == ["tag", "--list"]:
            return "ls_tags_branch" if "--merged" in a else "ls_tags"
        if a[:1] == ["status"]:
            return "status"
        if a[:1] == ["add"]:
            return "add_path"
        if a[:1] == ["commit"]:
            return "commit"
        if a[:1] == ["tag"]:
            return "tag"
        if a[:1] == ["push"]:
            return "push"
        if a[:1] == ["config"]:
            return "show_remotes"
        if a[:1] == ["branch"]:
            return "ls_branches"
    else:
        if a[:1] == ["root"]:
            return "is_usable"
        if a[:1] == ["pull"]:
            return "fetch"
        if a[:1] == ["tags"]:
            return "ls_tags"
        if a[:1] == ["log"]:
            return "ls_tags_branch"
        if a[:1] == ["status"]:
            return "status"
        if a[:1] == ["add"]:
            return "add_path"
        if a[:1] == ["commit"]:
            return "commit"
        if a[:1] == ["tag"]:
            return "tag"
        if a[:1] == ["push"]:
            return "push"
        if a[:1] == ["paths"]:
            return "show_remotes"
    return "unknown"


k = key()
rec = dict(vcs=name, key=k, argv=argv)
if name == "hg":
    rec["hgencoding"] = os.environ.get("HGENCODING")
if name == "hg" and k == "commit" and "--logfile" in argv:
    try:
        rec["logfile_bytes"] = open(argv[argv.index("--logfile") + 1], "rb").read().decode("utf-8", "surrogateescape")
    except Exception as ex:
        rec["logfile_error"] = repr(ex)
if cfg.get("watch"):
    import hashlib
    try:
        rec["watch"] = hashlib.sha1(open(cfg["watch"], "rb").read()).hexdigest()
    except OSError:
        rec["watch"] = None
with open(os.path.join(d, "argv.log"), "a", encoding="utf-8", errors="surrogateescape") as f:
    f.write(json.dumps(rec) + "\n")

if k in cfg.get("fail", []) or any(sub in argv for sub in cfg.get("fail_argv", [])):
    if not cfg.get("fail_silent"):
        sys.stderr.write("fakevcs: forced failure of %s\n" % k)
    sys.exit(1)
out = ""
if k == "is_usable":
    if not cfg.get("usable", True):
        sys.exit(1)
    out = ".git\n"
elif k == "fetch":
    open(os.path.join(d, "fetched"), "w").write("1")
elif k == "ls_tags":
    tags = cfg.get("tags", [])
    if os.path.exists(os.path.join(d, "fetched")):
        tags = tags + cfg.get("tags_after_fetch", [])
    out = "".join((t + "\n") if name == "git" else ("%-30s 1:abcdef\n" % t) for t in tags)
elif k == "ls_tags_branch":
    out = "".join(t + "\n" for t in cfg.get("tags_branch", cfg.get("tags", [])))
elif k == "status":
    out = cfg.get("status", "")
elif k == "show_remotes":
    if cfg.get("remote"):
        out = ("git@example.com:x/y.git\n" if name == "git" else "default = ssh://example.com/x\n")
    elif name == "git":
        sys.exit(1)
elif k == "ls_branches":
    if cfg.get("remote"):
        out = "* main abc1234 [%s/main] message\n" % cfg["remote"]
    else:
        out = "* main abc1234 message\n"
sys.stdout.write(out)
sys.exit(0)
