"""C19 — `init` always produces a configuration that bumpver itself can use."""
import os, itertools, shutil, tempfile
from . import common, project
from .common import cs, cos, cb

LEVEL = "proof"
EXTRA_TARGETS = ["Model/Config"]
TRUSTED_BASE = [
    "Coq 8.16.1 kernel + vm_compute (the layout space is evaluated in the kernel)",
    "T1 translator: SUPPORTED_CONFIGS, candidate order and section test of _pick_config_filepath, all DEFAULT_* templates and the per-format block tables of default_config",
    "hand-written Gallina model Model/Config.v (pick_config, default_config, init_cmd)",
    "harness: real `bumpver init [--dry]`, `show` and a second `init` in temporary directories for each layout; file bytes compared with the model inside Coq",
]
ASSUMPTIONS = ["whether configparser / toml accept a file (and so whether a project counts as configured) is an input of the model"]
HDR = "From BV Require Import Model.V1 Model.Config."

CONFIG_FILES = ["setup.cfg", "pyproject.toml", "bumpver.toml", ".bumpver.toml", "pycalver.toml"]
OTHER_FILES = ["README.md", "README.rst", "setup.py"]
# prior content of other tools, in the syntaxes those tools accept: `key: value` options in setup.cfg, [tool.*] tables in TOML files
UNRELATED = {"setup.cfg": "[metadata]\nname = demo\nlicense: MIT\n\n[flake8]\nmax-line-length: 100\n",
             "pyproject.toml": "[build-system]\nrequires = [\"setuptools\"]\n\n[tool.black]\nline-length = 100\n",
             "bumpver.toml": "[other]\nx = 1\n\n[tool.isort]\nprofile = \"black\"\n",
             ".bumpver.toml": "# nothing here\n[tool.coverage.run]\nbranch = true\n", "pycalver.toml": "[misc]\ny = 2\n\n[tool.black]\nline-length = 88"}
SECTION = {"setup.cfg": "[metadata]\nname = demo\n\n[bumpver]\ncurrent_version = 1.2.3\nversion_pattern = MAJOR.MINOR.PATCH\n",
           "pyproject.toml": "[tool.bumpver]\ncurrent_version = \"1.2.3\"\nversion_pattern = \"MAJOR.MINOR.PATCH\"\n",
           "bumpver.toml": "[bumpver]\ncurrent_version = \"1.2.3\"\nversion_pattern = \"MAJOR.MINOR.PATCH\"\n",
           ".bumpver.toml": "[bumpver]\ncurrent_version = \"1.2.3\"\nversion_pattern = \"MAJOR.MINOR.PATCH\"\n",
           "pycalver.toml": "[pycalver]\ncurrent_version = \"v202001.0001\"\nversion_pattern = \"{pycalver}\"\n"}


def layouts():
    for kinds in itertools.product(["absent", "empty", "unrelated", "section"], repeat=len(CONFIG_FILES)):
        for others in itertools.product([False, True], repeat=len(OTHER_FILES)):
            yield kinds, others


def materialise(d, kinds, others):
    files = {}
    for f, k in zip(CONFIG_FILES, kinds):
        if k == "empty":
            files[f] = ""
        elif k == "unrelated":
            files[f] = UNRELATED[f]
        elif k == "section":
            files[f] = SECTION[f]
    for f, present in zip(OTHER_FILES, others):
        if present:
            files[f] = "placeholder of %s\n" % f
    for f, text in files.items():
        with open(os.path.join(d, f), "w", encoding="utf-8", newline="") as fh:
            fh.write(text)
    return files


def snapshot(d):
    return {f: open(os.path.join(d, f), "rb").read() for f in sorted(os.listdir(d))}


def run(rep, tier, seed, model_ok=True, effort=1):
    from . import impl
    from bumpver import utils
    r = common.rng(seed, "c19")
    allv = list(layouts())
    rep.rule = ("project layouts = every combination of {absent, empty, unrelated content, existing bumpver section} for the five config-capable files x every "
                "subset of README.md / README.rst / setup.py (8192 layouts; quick: a seeded sample plus all single-file layouts): `init --dry` (no write), "
                "`init` (append-only, prior content a prefix), `show` (reads this year's initial version from the same file), second `init` (refuses, no "
                "change); a file with a section is preferred; picked file and resulting bytes compared with the Coq model; non-trivial = distinct layout in which init writes")
    if tier == "quick":
        sample = [l for l in allv if sum(1 for k in l[0] if k != "absent") <= 1 and sum(l[1]) in (0, 3)]
        sample += r.sample(allv, 110 * effort)
    else:
        sample = list(allv)     # every one of the 8192 layouts
        rep.exhaustive = len(sample) == len(allv)
    import datetime as dt
    items, meta = [], []
    seen = set()
    # "this year's initial version": the clock bumpver reads (utils.now) is also pinned to days around New Year, where the
    # ISO / week-based years differ from the calendar year
    pins = [dt.datetime(2024, 12, 30, 12, 0), dt.datetime(2027, 1, 1, 0, 30), dt.datetime(2028, 1, 2, 23, 0), dt.datetime(2026, 12, 31, 23, 59), dt.datetime(2021, 1, 3, 9, 0)]
    unconfigured = [l for l in sample if "section" not in l[0]]
    jobs = [(k, o, None) for k, o in sample] + [(k, o, pins[i % len(pins)]) for i, (k, o) in enumerate(unconfigured[:10 * effort])]
    real_now = utils.now
    for kinds, others, pinned in jobs:
        if (kinds, others, pinned) in seen:
            continue
        seen.add((kinds, others, pinned))
        year = (pinned or real_now()).year
        iv = "%04d.1001-alpha" % year
        utils.now = (lambda p=pinned: p) if pinned else real_now
        d = tempfile.mkdtemp(prefix="bvinit_", dir=project.SCRATCH)
        try:
            files = materialise(d, kinds, others)
            before = snapshot(d)
            has_section = [f for f, k in zip(CONFIG_FILES, kinds) if k == "section"]
            inp = dict(layout=dict(zip(CONFIG_FILES, kinds)), others=[f for f, p in zip(OTHER_FILES, others) if p], clock=str(pinned) if pinned else "system")
            c0, o0, e0 = impl.run_cli(["init", "--dry"], cwd=d)
            if snapshot(d) != before:
                rep.violation("init --dry wrote to the project", input=inp, **{"class": "dry-wrote"})
            c1, o1, e1 = impl.run_cli(["init"], cwd=d)
            after = snapshot(d)
            rep.case((kinds, others, str(pinned)), nontrivial=c1 == 0)
            rep.count("init-exit=%s" % ("0" if c1 == 0 else "nonzero"))
            picked = next((l.split("Updated ", 1)[1].strip() for l in o1.splitlines() if l.startswith("Updated ")), None)
            if has_section:
                # already configured: refuse, change nothing
                if c1 == 0 or after != before:
                    rep.violation("init did not refuse although a bumpver section exists in %s" % has_section, input=dict(inp, out=o1[-200:]), **{"class": "no-refusal"})
                # ... and --dry says the same as the real run: it does not announce a configuration it would write
                if c1 != 0 and (c0 == 0 or "Would have written" in o0):
                    rep.violation("init --dry does not refuse (exit %s) although init refuses: a bumpver section exists in %s" % (c0, has_section), input=dict(inp, out=o0[-200:]), **{"class": "no-refusal"})
                configured = True
            else:
                configured = False
                if c1 != 0 or picked is None:
                    rep.violation("init failed in an unconfigured project", input=dict(inp, out=o1[-300:], exc=repr(e1)), **{"class": "init-fails"})
                else:
                    changed = [f for f in after if after.get(f) != before.get(f)]
                    if changed != [picked]:
                        rep.violation("init changed %s, announced %s" % (changed, picked), input=inp, **{"class": "wrong-file-written"})
                    elif not after[picked].startswith(before.get(picked, b"")):
                        rep.violation("init did not keep the prior content of %s as a prefix" % picked, input=inp, **{"class": "not-append-only"})
                    if c0 != 0:
                        rep.violation("init --dry failed where init succeeds", input=inp, **{"class": "dry-fails"})
                    c2, o2, e2 = impl.run_cli(["show", "--no-fetch"], cwd=d)
                    if c2 != 0 or ("Current Version: %s" % iv) not in o2:
                        rep.violation("show does not report this year's initial version (%s) from the configuration init wrote to %s" % (iv, picked), input=dict(inp, out=o2[-300:], exc=repr(e2)), **{"class": "show-after-init"})
                    # the same file is selected again
                    from bumpver import config, pathlib as pl
                    old = os.getcwd(); os.chdir(d)
                    try:
                        again = config._pick_config_filepath(pl.Path("."))
                    finally:
                        os.chdir(old)
                    if str(again) != picked:
                        rep.violation("after init %s is selected instead of %s" % (again, picked), input=inp, **{"class": "not-self-selecting"})
                    mid = snapshot(d)
                    c3, o3, e3 = impl.run_cli(["init"], cwd=d)
                    if c3 == 0 or snapshot(d) != mid:
                        rep.violation("a second init did not refuse / changed files", input=inp, **{"class": "second-init"})
                    c4, o4, e4 = impl.run_cli(["init", "--dry"], cwd=d)
                    if c4 == 0 or "Would have written" in o4 or snapshot(d) != mid:
                        rep.violation("a second init --dry did not refuse (exit %s) / announced a configuration to write" % c4, input=dict(inp, out=o4[-200:]), **{"class": "second-init"})
            # a file with a section is preferred
            if has_section and not configured:
                pass
            cdir = "[%s]" % ";".join("(%s,%s)" % (cs(f), cs(t)) for f, t in files.items())
            if configured:
                exp = "InitRefused"
            elif c1 == 0 and picked:
                exp = "(InitWrote %s %s)" % (cs(picked), cs(after[picked].decode("utf-8")))
            else:
                exp = "InitError"
            items.append("(%s,%s,%s,%s)" % (cdir, cb(configured), cs(iv), exp))
            meta.append(inp)
            if c1 == 0:
                rep.sample(dict(layout=inp["layout"], others=inp["others"], picked=picked), limit=6)
        finally:
            utils.now = real_now
            shutil.rmtree(d, ignore_errors=True)
    special_layouts(rep, impl)
    if model_ok:
        eq = ("fun a b => match a, b with InitRefused, InitRefused | InitError, InitError => true "
              "| InitWrote f c, InitWrote f' c' => eqb_str f f' && eqb_str c c' | _, _ => false end")
        bad, errs = common.coq_eval("c19", HDR, "list (list N * list N) * bool * list N * init_res",
                                    "fun '(d, conf, iv, e) => (%s) (init_cmd d conf false iv) e" % eq, items, shard=60)
        for i in bad:
            rep.mismatch("init: model differs from implementation (picked file or written bytes)", input=meta[i])
        rep.corr_errors += errs


def special_layouts(rep, impl):
    """Layouts the product does not contain: long prior content and a config-capable file that appears AFTER init; a non-UTF-8 process locale."""
    import subprocess
    from bumpver import utils
    year = utils.now().year
    iv = "%04d.1001-alpha" % year
    # (1) setup.cfg with more than 4 KiB of other tools' options is configured by init; later a pyproject.toml without a bumpver section appears
    d = tempfile.mkdtemp(prefix="bvinit_", dir=project.SCRATCH)
    try:
        long_cfg = "[metadata]\nname = demo\n" + "".join("# %s\n" % ("filler line %03d " % k * 3) for k in range(120)) + "\n[flake8]\nmax-line-length = 100\n"
        open(os.path.join(d, "setup.cfg"), "w").write(long_cfg)
        c1, o1, e1 = impl.run_cli(["init"], cwd=d)
        open(os.path.join(d, "pyproject.toml"), "w").write('[build-system]\nrequires = ["setuptools"]\n')
        c2, o2, e2 = impl.run_cli(["show", "--no-fetch"], cwd=d)
        before = snapshot(d)
        c3, o3, e3 = impl.run_cli(["init"], cwd=d)
        rep.case(("long-prior-content",), nontrivial=c1 == 0)
        inp = dict(layout="setup.cfg with %d bytes of prior content, configured by init; pyproject.toml ([build-system] only) added afterwards" % len(long_cfg), init_exit=c1, show_exit=c2, show=o2[-200:], second_init_exit=c3)
        if c1 != 0 or c2 != 0 or ("Current Version: %s" % iv) not in o2:
            rep.violation("show does not report this year's initial version (%s) from the configuration init wrote to setup.cfg" % iv, input=inp, **{"class": "show-after-init"})
        elif c3 == 0 or snapshot(d) != before:
            rep.violation("a second init did not refuse / changed files", input=inp, **{"class": "second-init"})
    finally:
        shutil.rmtree(d, ignore_errors=True)
    # (2) init and show as real processes under an ASCII locale, with non-ASCII text in the file init appends to
    env = dict(os.environ, LC_ALL="C", LANG="C", PYTHONUTF8="0", PYTHONCOERCECLOCALE="0", PYTHONPATH=os.path.join(os.environ.get("VERIF_REPO", "/repo"), "src"))
    for fname, prior in (("setup.cfg", "[metadata]\nname = demo\nauthor = Jos\u00e9 M\u00fcller\n"), ("pyproject.toml", '[project]\nname = "demo"\nauthors = [{name = "Jos\u00e9 M\u00fcller"}]\n')):
        d = tempfile.mkdtemp(prefix="bvinit_", dir=project.SCRATCH)
        try:
            open(os.path.join(d, fname), "w", encoding="utf-8").write(prior)
            p1 = subprocess.run(["/venv/bin/python", "-m", "bumpver", "init"], cwd=d, env=env, capture_output=True)
            p2 = subprocess.run(["/venv/bin/python", "-m", "bumpver", "show", "--no-fetch"], cwd=d, env=env, capture_output=True)
            mid = snapshot(d)
            p3 = subprocess.run(["/venv/bin/python", "-m", "bumpver", "init"], cwd=d, env=env, capture_output=True)
            rep.case(("ascii-locale", fname), nontrivial=p1.returncode == 0)
            out2 = p2.stdout.decode("utf-8", "replace") + p2.stderr.decode("utf-8", "replace")
            inp = dict(layout="%s with non-ASCII prior content; LC_ALL=C, UTF-8 mode off" % fname, init_exit=p1.returncode, show_exit=p2.returncode, show=out2[-300:], second_init_exit=p3.returncode)
            if not open(os.path.join(d, fname), "rb").read().startswith(prior.encode("utf-8")):
                rep.violation("init did not keep the prior content of %s as a prefix" % fname, input=inp, **{"class": "not-append-only"})
            elif p1.returncode != 0 or p2.returncode != 0 or ("Current Version: %s" % iv) not in out2:
                rep.violation("show does not report this year's initial version (%s) from the configuration init wrote to %s" % (iv, fname), input=inp, **{"class": "show-after-init"})
            elif p3.returncode == 0 or snapshot(d) != mid:
                rep.violation("a second init did not refuse / changed files", input=inp, **{"class": "second-init"})
        finally:
            shutil.rmtree(d, ignore_errors=True)


    # (3) configured files that were edited by hand (still valid): indented keys with an entry for the file itself; a section header followed by
    # blanks or a tab.  `show` reads them, `init` refuses and changes nothing
    hand = [("pyproject.toml", '[tool.bumpver]\n    current_version = "1.2.3"\n    version_pattern = "MAJOR.MINOR.PATCH"\n\n[tool.bumpver.file_patterns]\n    "pyproject.toml" = [\'current_version = "{version}"\']\n', []),
            # ... and without an entry for the file itself (the own current_version line has to be found in the text)
            ("pyproject.toml", '[tool.bumpver]\n    current_version = "1.2.3"\n    version_pattern = "MAJOR.MINOR.PATCH"\n\n[tool.bumpver.file_patterns]\n    "README.md" = ["{version}"]\n', []),
            ("pyproject.toml", '[tool.bumpver] # managed by hand\ncurrent_version = "1.2.3"\nversion_pattern = "MAJOR.MINOR.PATCH"\n\n[tool.bumpver.file_patterns]\n"README.md" = ["{version}"]\n', ["setup.cfg"]),
            ("bumpver.toml", '[bumpver] \ncurrent_version = "1.2.3"\nversion_pattern = "MAJOR.MINOR.PATCH"\n\n[bumpver.file_patterns]\n"README.md" = ["{version}"]\n', ["pyproject.toml"]),
            ("setup.cfg", '[bumpver]\t\ncurrent_version = 1.2.3\nversion_pattern = MAJOR.MINOR.PATCH\n\n[bumpver:file_patterns]\nREADME.md =\n    {version}\n', []),
            ("setup.cfg", '[metadata]\nname = demo\n\n[bumpver]  \ncurrent_version = "1.2.3"\nversion_pattern = "MAJOR.MINOR.PATCH"\n\n[bumpver:file_patterns]\nREADME.md =\n    {version}\n', ["pyproject.toml"])]
    for fname, text, empties in hand:
        d = tempfile.mkdtemp(prefix="bvinit_", dir=project.SCRATCH)
        try:
            open(os.path.join(d, fname), "w").write(text)
            open(os.path.join(d, "README.md"), "w").write("demo 1.2.3\n")
            for e in empties:
                open(os.path.join(d, e), "w").write("")
            c2, o2, e2 = impl.run_cli(["show", "--no-fetch"], cwd=d)
            before = snapshot(d)
            c3, o3, e3 = impl.run_cli(["init"], cwd=d)
            rep.case(("hand-edited", fname, text[:24]), nontrivial=True)
            inp = dict(layout="%s edited by hand: %r%s" % (fname, text[:60], (" next to empty %s" % empties) if empties else ""), show_exit=c2, show=o2[-200:], init_exit=c3)
            if c2 != 0 or "Current Version: 1.2.3" not in o2:
                rep.violation("show does not read a hand-edited (valid) configuration", input=inp, **{"class": "show-after-init"})
            elif c3 == 0 or snapshot(d) != before:
                rep.violation("init did not refuse an already configured project / changed files", input=inp, **{"class": "second-init"})
        finally:
            shutil.rmtree(d, ignore_errors=True)


def search(rep, tier, seed, effort=2):
    run(rep, tier, seed, model_ok=False, effort=effort)


def replay(payload):
    print("replay C19: see violation input (layout) in the replay file")
    return 1
