"""Regenerates MANIFEST.json from the table below (run: /venv/bin/python harness/manifest_gen.py)."""
import json, os
HERE = os.path.dirname(os.path.dirname(os.path.abspath(__file__)))
props = [json.loads(l) for l in open(os.path.join(HERE, "properties.jsonl"))]

CHECKS = {
    "C01": dict(
        text="Coq model of cli.test/_is_valid_version over the v2 engine and the PEP 440 order (Model/Cli.v, V2.v, Pep440.v), with theorems on the gate, "
             "tied to the code by in-Coq correspondence of `bumpver test` (increment and every kind of --set-version target) via CliRunner; "
             "`update [--dry]` runs in temporary projects checked directly.",
        note="Trusted: Coq kernel+vm_compute, T1, hand models (Cli/V2/Pep440/Regex), harness. Uniqueness against tags is covered by C09.",
        technique="Coq proof over the CLI gate model + model/implementation correspondence evaluated inside Coq",
        ref="6/C01"),
    "C05": dict(
        text="Coq model of v2version.incr (_incr_numeric, rollover reset, calendar guard) with theorems, tied to the code by in-Coq correspondence of "
             "`bumpver test OLD PATTERN <flags> --date D`; an independent part-level re-implementation of the README rules is compared with the CLI output.",
        note="Trusted: Coq kernel+vm_compute, T1, hand models, harness (incl. its README-rule oracle).",
        technique="Coq proof over the incr model + model/implementation correspondence evaluated inside Coq",
        ref="6/C05"),
    "C16": dict(
        text="Coq theorems: the key comparison is a total order on all keys, lifted to all strings through version_key; legacy keys sort below PEP 440 keys; "
             "the PEP 440 suffix/epoch/local/trailing-zero rules hold for all numbers. The model runs the VERSION_PATTERN extracted from the source (T1) "
             "and is tied to the code by in-Coq correspondence of keys, str() and pairwise comparisons; packaging.version is a secondary oracle.",
        note="Trusted: Coq kernel+vm_compute, T1, hand model Pep440.v + regex engine, harness. Known finding: non-ASCII case folding (IGNORECASE without ASCII).",
        technique="Coq proof (total order by induction on keys) + model/implementation correspondence evaluated inside Coq",
        ref="6/C16"),
    "C02": dict(
        text="Coq theorems over the v2 model (Model/V2.v: compile_pattern, format_version, parse_version_info, with part tables regenerated "
             "from /repo by T1) tied to the code by in-Coq differential correspondence on grammar patterns x version states; round trip "
             "also searched directly on the implementation.",
        note="Trusted: Coq kernel+vm_compute, T1 translator, hand models of Python re (subset) and of v2patterns/v2version, harness. "
             "Known finding: week 53 for WW/0W/UU/0U.",
        technique="Coq proof over regenerated part tables + model/implementation correspondence evaluated inside Coq",
        ref="6/C02"),
    "C14": dict(
        text="Coq theorems: cal_periodic, monotonicity of every coherent year x sub-part key for all days (one era by vm_compute in the kernel, "
             "lifted by periodicity), strictness of the nine-field tuple, witnesses for every rejected pairing; calendar model tied to "
             "v2version.cal_info by range checksums evaluated inside Coq; rendered versions compared with parse_version on the implementation.",
        note="Trusted: Coq kernel+vm_compute, hand calendar model (Lib/Calendar.v), harness, CPython datetime/strftime.",
        technique="Coq proof (finite era sweep in the kernel + periodicity lemma) + checksum correspondence",
        ref="6/C14"),
    "C17": dict(
        text="Theorems in Coq over Model/Lexid.v (lexid.next_id + the BUILD branch of _incr_numeric) for every digit string; "
             "the model is tied to the code by exhaustive correspondence over all ids of 1..4 (thorough 1..5) digits and bump chains.",
        note="Trusted: Coq kernel+vm_compute, the hand model of lexid.next_id/_incr_numeric (bid branch), the correspondence harness, CPython int/str.",
        technique="Coq proof by induction on digit strings + exhaustive model/implementation correspondence",
        ref="6/C17"),
}

REASON_PENDING = "check not built yet in this revision of /verif (planned in DESIGN.md section 6); no claim is made"

manifest = dict(
    version=1,
    setup_cmd="cd /verif && ./setup.sh",
    hooks=dict(guard="BUMPVER_VERIF", enable="no source hooks are needed; checks observe public functions, the CLI and PATH",
               baseline_off_cmd="cd /repo && /venv/bin/python -m pytest -ra -q -p no:cacheprovider --timeout=900 --continue-on-collection-errors",
               source_commits=[], add_only=True),
    engines=[dict(name="coq-proof+correspondence", path="check", serves_properties=sorted(CHECKS),
                  kind_free_text="Coq 8.16.1 theorems over hand-written/generated Gallina models; T1 ast translator; in-Coq differential correspondence against /repo")],
    checks=[], not_applicable=[],
    notes="See DESIGN.md. Every check: ./check <ID> quick|thorough. Known findings: known_findings.json.",
)
for p in props:
    pid = p["id"]
    if pid in CHECKS:
        c = CHECKS[pid]
        manifest["checks"].append(dict(
            property_id=pid, quick_cmd="./check %s quick" % pid, thorough_cmd="./check %s thorough" % pid,
            evidence_file="/verif/evidence/%s.json" % pid, replay_cmd_template="./check %s --replay {path}" % pid,
            engine="coq-proof+correspondence",
            level_claimed=dict(category="proof", text=c["text"], design_ref=c["ref"]),
            level_note=c["note"], technique=c["technique"]))
    else:
        manifest["not_applicable"].append(dict(property_id=pid, reason=REASON_PENDING))
json.dump(manifest, open(os.path.join(HERE, "MANIFEST.json"), "w"), indent=1)
print("MANIFEST.json: %d checks, %d not claimed" % (len(manifest["checks"]), len(manifest["not_applicable"])))
