"""Regenerates MANIFEST.json from the table below (run: /venv/bin/python harness/manifest_gen.py)."""
import json, os
HERE = os.path.dirname(os.path.dirname(os.path.abspath(__file__)))
props = [json.loads(l) for l in open(os.path.join(HERE, "properties.jsonl"))]

CHECKS = {
    "C17": dict(
        text="Theorems in Coq over Model/Lexid.v (lexid.next_id + the BUILD branch of _incr_numeric) for every digit string; "
             "the model is tied to the code by exhaustive correspondence over all ids of 1..4 (thorough 1..5) digits and bump chains.",
        note="Trusted: Coq kernel+vm_compute, the hand model of lexid.next_id/_incr_numeric (bid branch), the correspondence harness, CPython int/str.",
        technique="Coq proof by induction on digit strings + exhaustive model/implementation correspondence",
        ref="6/C17"),
}

REASON_PENDING = "check not built yet in this revision of /verif (planned in DESIGN.md section 6); no claim is made"

manifest = dict(
    version=1,
    setup_cmd="cd /verif && ./setup.sh",
    hooks=dict(guard="BUMPVER_VERIF", enable="no source hooks are needed; checks observe public functions, the CLI and PATH",
               baseline_off_cmd="cd /repo && /venv/bin/python -m pytest -ra -q -p no:cacheprovider --timeout=900 --continue-on-collection-errors",
               source_commits=[], add_only=True),
    engines=[dict(name="coq-proof+correspondence", path="check", serves_properties=sorted(CHECKS),
                  kind_free_text="Coq 8.16.1 theorems over hand-written/generated Gallina models; T1 ast translator; in-Coq differential correspondence against /repo")],
    checks=[], not_applicable=[],
    notes="See DESIGN.md. Every check: ./check <ID> quick|thorough. Known findings: known_findings.json.",
)
for p in props:
    pid = p["id"]
    if pid in CHECKS:
        c = CHECKS[pid]
        manifest["checks"].append(dict(
            property_id=pid, quick_cmd="./check %s quick" % pid, thorough_cmd="./check %s thorough" % pid,
            evidence_file="/verif/evidence/%s.json" % pid, replay_cmd_template="./check %s --replay {path}" % pid,
            engine="coq-proof+correspondence",
            level_claimed=dict(category="proof", text=c["text"], design_ref=c["ref"]),
            level_note=c["note"], technique=c["technique"]))
    else:
        manifest["not_applicable"].append(dict(property_id=pid, reason=REASON_PENDING))
json.dump(manifest, open(os.path.join(HERE, "MANIFEST.json"), "w"), indent=1)
print("MANIFEST.json: %d checks, %d not claimed" % (len(manifest["checks"]), len(manifest["not_applicable"])))
