"""Shared machinery for the /verif checks: Coq build, in-Coq evaluation of model cases,
evidence, replay files, known findings.  Run under /venv/bin/python with PYTHONPATH=/repo/src."""
import os, sys, json, re, time, hashlib, subprocess, fcntl, random, concurrent.futures as cf

VERIF = os.path.dirname(os.path.dirname(os.path.abspath(__file__)))
REPO = os.environ.get("VERIF_REPO", "/repo")
COQ = os.path.join(VERIF, "coq")
CASES = os.path.join(COQ, "Cases")
EVID = os.path.join(VERIF, "evidence")
REPLAYS = os.path.join(VERIF, "replays")
PY = "/venv/bin/python"
NCPU = os.cpu_count() or 4

FORBIDDEN = re.compile(r"\b(Admitted|admit|Axiom|Axioms|Parameter|Parameters|Conjecture|Hypothesis|Variable|Variables)\b|Unset Guard|bypass_check|type-in-type|impredicative-set|Admit Obligations|Unset Universe|Unset Positivity")


# ------------------------------------------------------------------ Coq literals
def cs(s):
    """Python str -> Coq list N literal (code points)."""
    if s is None:
        raise ValueError("None string")
    return "[" + ";".join(str(ord(c)) for c in s) + "]"


def cos(s):
    return "None" if s is None else "(Some " + cs(s) + ")"


def cn(n):
    return str(int(n))


def con(n):
    return "None" if n is None else "(Some %d)" % int(n)


def cz(n):
    n = int(n)
    return "(%d)%%Z" % n


def cb(b):
    return "true" if b else "false"


def clist(items):
    return "[" + ";".join(items) + "]"


def ctuple(*items):
    return "(" + ",".join(items) + ")"


# ------------------------------------------------------------------ gate, translate, build
def grep_gate():
    """No Admitted/Axiom/... anywhere in the development (Section variables are allowed only
    inside Sections; checked by looking for an enclosing Section)."""
    bad = []
    # the development is what _CoqProject lists (plus the generated tables); files that are not listed are not built
    listed = set()
    try:
        for line in open(os.path.join(COQ, "_CoqProject")):
            line = line.strip()
            if line.endswith(".v"):
                listed.add(os.path.normpath(os.path.join(COQ, line)))
    except OSError:
        pass
    for root, _dirs, files in os.walk(COQ):
        if "/Cases" in root:
            continue
        for fn in files:
            if not fn.endswith(".v"):
                continue
            path = os.path.join(root, fn)
            if listed and os.path.normpath(path) not in listed:
                continue
            depth = 0
            in_comment = 0
            for lineno, line in enumerate(open(path, encoding="utf-8"), 1):
                code = re.sub(r"\(\*.*?\*\)", "", line)
                if re.match(r"\s*Section\b", code):
                    depth += 1
                if re.match(r"\s*End\b", code) and depth > 0:
                    depth -= 1
                m = FORBIDDEN.search(code)
                if m:
                    word = m.group(0)
                    if word in ("Variable", "Variables", "Hypothesis") and depth > 0:
                        continue
                    if "(*" in line and line.index("(*") < line.index(word):
                        continue
                    bad.append("%s:%d: %s" % (os.path.relpath(path, VERIF), lineno, line.strip()))
    return bad


def _locked(fn):
    def wrapper(*a, **kw):
        os.makedirs(CASES, exist_ok=True)
        with open(os.path.join(COQ, ".build.lock"), "w") as lk:
            fcntl.flock(lk, fcntl.LOCK_EX)
            try:
                return fn(*a, **kw)
            finally:
                fcntl.flock(lk, fcntl.LOCK_UN)
    return wrapper


# which properties rest on which T1 section (theorems quantified over its tables, or models that read them)
_ALL = ["C%02d" % i for i in range(1, 21)]
SECTION_PROPS = {
    "core": [p for p in _ALL if p not in ("C08", "C10", "C11", "C12", "C16", "C18", "C19")],
    "pep440": ["C01", "C05", "C09", "C14", "C15", "C16", "C20"],
    "rewrite": ["C03", "C04", "C06", "C13"],
    "v1": ["C01", "C06", "C13", "C20"],
    "vcs": ["C10", "C12"],
    "config_pick": ["C19"],
    "config_bool": ["C18"],
    "config_templates": ["C19"],
    "config_init": ["C19"],
    "order_cli_update": ["C01", "C09", "C10", "C13"],
    "order_cli__update": ["C06", "C10", "C11"],
    "order_cli_test": ["C01"],
    "order_vcs_commit": ["C10"],
    "order_vcs_assert_not_dirty": ["C11"],
    "order_cli_init": ["C19"],
}


@_locked
def translate():
    """Run T1 from /repo's working tree into coq/Gen.  Returns (ok, message, failed) where failed maps the
    sections that could not be extracted (their last recorded text was emitted instead) to the reason.
    ok is False only when nothing could be produced."""
    p = subprocess.run([PY, os.path.join(VERIF, "translate", "t1_tables.py"), REPO, os.path.join(COQ, "Gen")],
                       capture_output=True, text=True)
    failed = {}
    if p.returncode == 3:
        try:
            failed = json.load(open(os.path.join(COQ, "Gen", "t1_status.json")))["failed"]
        except Exception as ex:
            return False, "T1 status unreadable: %s" % ex, {}
    return p.returncode in (0, 3), (p.stdout + p.stderr).strip(), failed


@_locked
def build(targets, timeout=1500):
    """make the given .vo targets (relative to coq/).  Returns (ok, log)."""
    if not os.path.exists(os.path.join(COQ, "Makefile")):
        subprocess.run(["coq_makefile", "-f", "_CoqProject", "-o", "Makefile"], cwd=COQ, capture_output=True)
    try:
        p = subprocess.run(["make", "-j%d" % NCPU] + list(targets), cwd=COQ, capture_output=True, text=True, timeout=timeout)
        return p.returncode == 0, p.stdout[-6000:] + p.stderr[-6000:]
    except subprocess.TimeoutExpired as ex:
        return False, "make timed out after %ss" % timeout


def props_report(pid, timeout=600):
    """Re-compile Props/<pid>.v alone (its dependencies are built) to count theorems and capture
    Print Assumptions output.  Returns dict(obligations, discharged, assumptions, ok, log)."""
    path = os.path.join(COQ, "Props", pid + ".v")
    src = open(path, encoding="utf-8").read()
    src_nc = re.sub(r"\(\*.*?\*\)", "", src, flags=re.S)
    names = re.findall(r"^\s*(?:Theorem|Example|Lemma|Corollary)\s+(\w+)", src_nc, flags=re.M)
    try:
        tmpd = os.path.join(CASES, "props_%s_%d" % (pid, os.getpid()))
        os.makedirs(tmpd, exist_ok=True)
        p = subprocess.run(["coqc", "-Q", ".", "BV", "-o", os.path.join(tmpd, pid + ".vo"), os.path.join("Props", pid + ".v")], cwd=COQ,
                           capture_output=True, text=True, timeout=timeout)
        import shutil
        shutil.rmtree(tmpd, ignore_errors=True)
        ok = p.returncode == 0
        out = p.stdout + p.stderr
    except subprocess.TimeoutExpired:
        ok, out = False, "coqc timed out"
    closed = out.count("Closed under the global context")
    axioms = sorted(set(re.findall(r"^([\w.]+)\s*:", out.split("Axioms:")[-1], flags=re.M))) if "Axioms:" in out else []
    return dict(obligations=len(names), discharged=len(names) if ok else 0, theorems=names, closed=closed,
                axioms=axioms, ok=ok, log=out[-3000:])


# ------------------------------------------------------------------ in-Coq evaluation of cases
def _run_shard(args):
    name, k, header, typ, chk, items, timeout = args
    path = os.path.join(CASES, "%s_%d.v" % (name, k))
    with open(path, "w", encoding="utf-8") as f:
        f.write("From Coq Require Import List Bool NArith ZArith.\nFrom BV Require Import Lib.PyStr Lib.Harness.\n")
        f.write(header + "\n")
        f.write("Import ListNotations.\nLocal Open Scope bool_scope.\nLocal Open Scope N_scope.\n")
        f.write("Definition cases : list (%s) := [\n" % typ)
        f.write(";\n".join(items))
        f.write("\n].\n")
        f.write("Definition chk : (%s) -> bool := %s.\n" % (typ, chk))
        f.write("Eval vm_compute in (mismatches chk cases).\n")
    try:
        p = subprocess.run("ulimit -s unlimited 2>/dev/null; exec coqc -Q . BV Cases/%s_%d.v" % (name, k),
                           shell=True, cwd=COQ, capture_output=True, text=True, timeout=timeout)
    except subprocess.TimeoutExpired:
        return k, None, "timeout"
    finally:
        pass
    if p.returncode != 0:
        return k, None, (p.stdout + p.stderr)[-2000:]
    m = re.search(r"=\s*(\[.*?\])\s*:\s*list N", p.stdout, flags=re.S)
    if not m:
        return k, None, "unparsable: " + p.stdout[-500:]
    idx = [int(x) for x in re.findall(r"\d+", m.group(1).replace("%N", ""))]
    for ext in (".v", ".vo", ".vok", ".vos", ".glob"):
        try:
            os.unlink(path[:-2] + ext)
        except OSError:
            pass
    try:
        os.unlink(os.path.join(CASES, ".%s_%d.aux" % (name, k)))
    except OSError:
        pass
    return k, idx, ""


def coq_eval(name, header, typ, chk, items, shard=400, timeout=600):
    """Evaluate `chk` on every item inside Coq (vm_compute).  items: list of Coq terms of type typ.
    Returns (bad_indices, errors).  Shards run in parallel."""
    os.makedirs(CASES, exist_ok=True)
    name = "%s_p%d" % (name, os.getpid())     # concurrent runs of the same check must not share case files
    jobs = []
    for k in range(0, len(items), shard):
        jobs.append((name, k // shard, header, typ, chk, items[k:k + shard], timeout))
    bad, errors = [], []
    with cf.ThreadPoolExecutor(max_workers=NCPU) as ex:
        for k, idx, err in ex.map(_run_shard, jobs):
            if idx is None:
                errors.append("shard %d: %s" % (k, err))
            else:
                bad.extend(k * shard + i for i in idx)
    return sorted(bad), errors


# ------------------------------------------------------------------ report / evidence / verdict
class Report:
    def __init__(self, pid):
        self.pid = pid
        self.evaluations = 0
        self.nontrivial = set()
        self.samples = []
        self.rule = ""
        self.violations = []       # concrete failing inputs on the implementation
        self.corr = []             # model/implementation disagreements
        self.corr_errors = []      # shards that did not evaluate
        self.distribution = {}
        self.assumptions = []
        self.exhaustive = False
        self.notes = []

    def count(self, key, n=1):
        self.distribution[key] = self.distribution.get(key, 0) + n

    def case(self, canonical, nontrivial=True):
        self.evaluations += 1
        if nontrivial:
            self.nontrivial.add(canonical if isinstance(canonical, (str, int, tuple)) else json.dumps(canonical, sort_keys=True, default=str))

    def sample(self, x, limit=6):
        if len(self.samples) < limit:
            self.samples.append(x)

    def violation(self, what, **data):
        self.violations.append(dict(what=what, **data))

    def mismatch(self, what, **data):
        self.corr.append(dict(what=what, **data))


def load_known():
    path = os.path.join(VERIF, "known_findings.json")
    if not os.path.exists(path):
        return []
    return json.load(open(path))["findings"]


def write_replay(pid, payload):
    os.makedirs(REPLAYS, exist_ok=True)
    blob = json.dumps(payload, sort_keys=True, default=str, indent=1, ensure_ascii=False)
    h = hashlib.sha1(blob.encode("utf-8")).hexdigest()[:10]
    path = os.path.join(REPLAYS, "%s-%s.json" % (pid, h))
    with open(path, "w", encoding="utf-8") as f:
        f.write(blob)
    return path


def rng(seed, *salt):
    return random.Random("%s|%s" % (seed, "|".join(map(str, salt))))
