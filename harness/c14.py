"""C14 — calendar versions never run backwards as the date advances."""
import datetime as dt, itertools
from . import common, v2gen
from .common import cs, cz, cb

LEVEL = "proof"
EXTRA_TARGETS = ["Model/V2"]
TRUSTED_BASE = [
    "Coq 8.16.1 kernel + vm_compute (one 400-year era evaluated in the kernel, lifted by the proved cal_periodic)",
    "hand-written Gallina model Lib/Calendar.v of datetime.date / strftime %G %j %W %U %V and Model/CalKeys.v (pairings)",
    "correspondence harness harness/c14.py: v2version.cal_info vs cal_of by range checksums evaluated inside Coq; is_valid_week_pattern vs model",
]
ASSUMPTIONS = ["CPython's datetime/strftime (the model is compared with it on every run)",
               "monotonicity theorems are about the numeric key (fields in pattern order); the rendered strings are compared on the implementation with parse_version"]

HDR = "From BV Require Import Lib.Calendar Model.CalKeys Model.V2."

YEARS4 = ["YYYY"]
SUBS_Y = [["MM"], ["0M"], ["MM", "DD"], ["0M", "0D"], ["0M", "DD"], ["JJJ"], ["00J"], ["Q"], ["Q", "0M"], ["WW"], ["0W"], ["UU"], ["0U"], []]
SUBS_G = [["VV"], ["0V"], []]


def coherent_patterns():
    pats = []
    for y in ("YYYY", "YY", "0Y"):
        for sub in SUBS_Y:
            pats.append((".".join([y] + sub), y != "YYYY"))
    for g in ("GGGG", "GG", "0G"):
        for sub in SUBS_G:
            pats.append((".".join([g] + sub), g != "GGGG"))
    return pats   # 42 + 9 = 51 dotted pairings (padded and unpadded)


def rejected_patterns():
    out = []
    for y in ("YYYY", "YY", "0Y"):
        for v in ("VV", "0V"):
            out.append(y + "." + v)
    for g in ("GGGG", "GG", "0G"):
        for w in ("WW", "0W", "UU", "0U"):
            out.append(g + "." + w)
    # both kinds of year in one pattern: whatever the week part is, it mismatches one of them
    for y in ("YYYY", "YY", "0Y"):
        for g in ("GGGG", "GG", "0G"):
            for w in ("WW", "0U", "VV", "0V"):
                out.append(y + "." + w + "." + g)
                out.append(g + "." + w + "." + y)
    return out


def impl_ck(impl, start, n):
    acc = 0
    d0 = dt.date.fromordinal(start + 1)
    ci = impl.v2version.cal_info
    for k in range(n):
        c = ci(d0 + dt.timedelta(days=k))
        for x in c:
            acc = (acc * 31 + x + 7) % 1000003
    return acc


def render(impl, pat, d):
    from bumpver import version
    c = impl.v2version.cal_info(d)
    v = version.V2VersionInfo(*c, 0, 0, 0, "1000", "final", "", "", "", 0, 0, 1)
    return impl.v2version.format_version(v, pat)


def run(rep, tier, seed, model_ok=True, effort=1):
    from . import impl
    from bumpver import version
    r = common.rng(seed, "c14")
    rep.rule = ("(1) cal_info vs model: range checksums over whole day ranges evaluated inside Coq; (2) every dotted coherent pairing "
                "(51 patterns) rendered on consecutive days and compared with version.parse_version; (3) every rejected pairing must be refused "
                "by incr and shown non-monotone; (4) bump-level: incr with later/earlier dates never lowers the calendar parts (turn of every year, day 366, week 0, successive run days without --date in one process); "
                "non-trivial = distinct (pattern, day) whose rendering differs from the previous day")
    pv = version.parse_version
    # ---- (1) calendar correspondence by checksums
    ranges = []
    if tier == "quick":
        ranges = [(v2gen.ordinal(dt.date(2016, 1, 1)), 3000), (v2gen.ordinal(dt.date(1999, 12, 1)), 800),
                  (v2gen.ordinal(dt.date(2098, 6, 1)), 800), (v2gen.ordinal(dt.date(1000, 1, 1)), 400), (v2gen.ordinal(dt.date(9998, 6, 1)), 579)]
        for _ in range(8):
            ranges.append((r.randrange(364877, 3650000), 300))
    else:
        start = v2gen.ordinal(dt.date(1900, 1, 1))
        for k in range(0, 146097, 4566):
            ranges.append((start + k, min(4566, 146097 - k)))
        for _ in range(32):
            ranges.append((r.randrange(364877, 3650000), 1000))
    items = []
    for a, n in ranges:
        items.append("(%s,%d,%s)" % (cz(a), n, cz(impl_ck(impl, a, n))))
        rep.count("cal-days", n)
        rep.evaluations += n
    rep.sample(dict(calendar_ranges=ranges[:3]))
    # ---- (2) monotonicity of rendered versions on the implementation
    pats = coherent_patterns()
    if tier == "quick":
        spans = [(dt.date(2018, 12, 20), 30), (dt.date(2020, 2, 20), 20), (dt.date(2023, 12, 25), 380)]
        # every turn of the year 2001..2098 (all seven weekdays of January 1st, leap and common years): week and ISO-year parts move here
        spans += [(dt.date(y, 12, 22), 20) for y in range(2001, 2099)]
    else:
        spans = [(dt.date(2001, 1, 1), 36158)]
    for pat, two_digit in pats:
        for d0, n in spans:
            prev = None
            for k in range(n + 1):
                d = d0 + dt.timedelta(days=k)
                s = render(impl, pat, d)
                if prev is not None:
                    changed = s != prev[1]
                    rep.case((pat, str(d)), nontrivial=changed)
                    if changed and not (pv(prev[1]) <= pv(s)):
                        rep.violation("rendered version runs backwards: %s (%s) -> %s (%s)" % (prev[1], prev[0], s, d),
                                      input=dict(pattern=pat, day1=str(prev[0]), day2=str(d), v1=prev[1], v2=s), **{"class": "cal-backwards"})
                        break
                prev = (d, s)
        rep.count("coherent-patterns")
    # ---- (2b) the same for the PEP 440 form written for {pep440_version}: a second rendering of the same calendar parts, over a whole year
    for pat, two_digit in pats:
        try:
            pep_pat = impl.v2patterns.normalize_pattern(pat, "{pep440_version}")
        except Exception:
            continue
        prev = None
        for k in range(0, 400, 1 if tier == "thorough" else 3):
            d = dt.date(2023, 12, 20) + dt.timedelta(days=k)
            try:
                s = render(impl, pep_pat, d)
            except Exception:
                s = None
            if s is None:
                break
            rep.case(("pep440-form", pat, str(d)), nontrivial=prev is not None and s != prev[1])
            if prev is not None and s != prev[1] and not (pv(prev[1]) <= pv(s)):
                rep.violation("the PEP 440 form of the rendered version runs backwards: %s (%s) -> %s (%s)" % (prev[1], prev[0], s, d),
                              input=dict(pattern=pat, pep440_pattern=pep_pat, day1=str(prev[0]), day2=str(d), v1=prev[1], v2=s), **{"class": "cal-backwards"})
                break
            prev = (d, s)
    rep.sample(dict(pattern=pats[3][0], d1="2018-12-30", v1=render(impl, pats[3][0], dt.date(2018, 12, 30)), v2=render(impl, pats[3][0], dt.date(2018, 12, 31))))
    # ---- (3) rejected pairings: refused, and really non-monotone
    wk_items = []
    for pat in rejected_patterns():
        old = render(impl, pat, dt.date(2018, 6, 1))
        res = impl.v2version.incr(old, pat, maybe_date=dt.date(2018, 6, 20))
        rep.case(("rejected", pat))
        if res is not None:
            rep.violation("incoherent week pattern accepted by incr", input=dict(pattern=pat, old=old, new=res), **{"class": "bad-week-accepted"})
        found = False
        for y in (2018, 2019, 2020, 2021, 2024, 2026, 2027):
            for k in range(-8, 9):
                d = dt.date(y, 1, 1) + dt.timedelta(days=k)
                a, b = render(impl, pat, d), render(impl, pat, d + dt.timedelta(days=1))
                if pv(a) > pv(b):
                    found = True
        if not found:
            rep.notes.append("rejected pattern %s was not observed to run backwards near New Year" % pat)
        rep.count("rejected-patterns")
    for _ in range(300 if tier == "quick" else 3000):
        pat, info = v2gen.gen_pattern(r, allow_bad_week=True)
        ok = impl.v2version.is_valid_week_pattern(pat)
        wk_items.append("(%s,%s)" % (cs(pat), cb(ok)))
        rep.case(("weekpat", pat), nontrivial=not ok)
    for pat, _ in pats:
        wk_items.append("(%s,%s)" % (cs(pat), cb(impl.v2version.is_valid_week_pattern(pat))))
    for pat in rejected_patterns():
        wk_items.append("(%s,%s)" % (cs(pat), cb(impl.v2version.is_valid_week_pattern(pat))))
    # ---- (4) bumping never moves calendar parts backwards
    nb = (300 if tier == "quick" else 5000) * effort
    for _ in range(nb):
        pat, two = r.choice(pats)
        d_old = v2gen.gen_date(r)
        if two and not (2001 < d_old.year < 2098):
            d_old = d_old.replace(year=r.randrange(2002, 2098), day=min(d_old.day, 28))
        if not (1001 < d_old.year < 9998):
            continue
        delta = r.choice([0, 1, 7, 30, 365, -1, -7, -40, -400, r.randrange(-800, 800)])
        d_new = d_old + dt.timedelta(days=delta)
        if two and not (2001 <= d_new.year <= 2099):
            continue
        pat2 = pat + ".BUILD"
        old = render(impl, pat2, d_old)
        new = impl.v2version.incr(old, pat2, maybe_date=d_new)
        rep.case(("bump", pat2, str(d_old), delta), nontrivial=new is not None)
        rep.count("bump-delta-" + ("neg" if delta < 0 else "nonneg"))
        if new is None:
            continue
        cal_old, cal_new = old.rsplit(".", 1)[0], new.rsplit(".", 1)[0]
        if pv(cal_new) < pv(cal_old):
            rep.violation("bump moved calendar parts backwards", input=dict(pattern=pat2, old=old, new=new, date=str(d_new)), **{"class": "bump-backwards"})
    # ---- (4a) a version made on the last day of a leap year (day 366), then bumped on the same day, a day later, from the future, and with --pin-date
    for pat2 in ("YYYY.JJJ.BUILD", "YYYY.00J.BUILD", "YYYY.0M.0D.BUILD"):
        for y in (2024, 2028, 2000, 2096):
            d_old = dt.date(y, 12, 31)
            old = render(impl, pat2, d_old)
            for d_new in (d_old, d_old + dt.timedelta(days=1), d_old - dt.timedelta(days=30), None):
                try:
                    new = impl.v2version.incr(old, pat2, maybe_date=d_new) if d_new else impl.v2version.incr(old, pat2, pin_date=True)
                except Exception as ex:
                    new = "<%s>" % type(ex).__name__
                rep.case(("bump-leap-day", pat2, str(d_old), str(d_new)), nontrivial=bool(new))
                rep.count("bump-leap-day")
                inp = dict(pattern=pat2, old=old, new=new, date=str(d_new) if d_new else "--pin-date")
                if not new or new.startswith("<"):
                    rep.violation("bump of a version made on day 366 of a leap year fails", input=inp, **{"class": "bump-backwards"})
                elif pv(new.rsplit(".", 1)[0]) < pv(old.rsplit(".", 1)[0]):
                    rep.violation("bump moved calendar parts backwards", input=inp, **{"class": "bump-backwards"})
    # ---- (4b) boundary: the new date lies in week 0 (%W / %U) of the year of a version that is already ahead
    for y in ((2019, 2021, 2022, 2026) if tier == "quick" else range(2002, 2098)):
        for wk in ("WW", "0W", "UU", "0U"):
            for yp in ("YYYY", "YY"):
                pat2 = "%s.%s.BUILD" % (yp, wk)
                d_old = dt.date(y, 1, 20) + dt.timedelta(days=r.randrange(0, 200))
                for day in (1, 2, 3):
                    d_new = dt.date(y, 1, day)
                    wnew = int(d_new.strftime("%W" if wk.endswith("W") else "%U"))
                    old = render(impl, pat2, d_old)
                    new = impl.v2version.incr(old, pat2, maybe_date=d_new)
                    rep.case(("bump-week0", pat2, str(d_old), str(d_new)), nontrivial=new is not None and wnew == 0)
                    rep.count("bump-week0")
                    if new is None:
                        continue
                    if pv(new.rsplit(".", 1)[0]) < pv(old.rsplit(".", 1)[0]):
                        rep.violation("bump moved calendar parts backwards", input=dict(pattern=pat2, old=old, new=new, date=str(d_new)), **{"class": "bump-backwards"})
    # ---- (4d) through the CLI with VCS tags: the newest tag is OLDER than the config's version (unpadded parts across 9 -> 10); the update goes on from
    # the config's version, its calendar parts never move backwards
    from . import project
    for pat2, cfgv, tag, args_ in (("YYYY.MM.INC0", "2021.10.0", "2021.9.3", ["--pin-date"]), ("YYYY.MM.INC0", "2021.10.0", "2021.9.3", ["--date", "2021-09-28"]),
                                   ("YYYY.MM.DD.INC0", "2021.3.10.0", "2021.3.9.2", ["--pin-date"]), ("YYYY.WW.INC0", "2021.10.0", "2021.9.5", ["--date", "2021-03-01"])):
        prj = project.TempProject(pat2, cfgv, files={"a.txt": ["ver = {version}"]}, commit=True, tag=True, push=False, vcs="fakegit", vcs_cfg=dict(tags=[tag], status="", remote=None))
        with prj:
            code, out, logs, exc = prj.run(impl, ["update", "--no-fetch", "--dry"] + args_)
            new = next((l.split("New Version: ", 1)[1].strip() for l in logs if "New Version: " in l), None)
        rep.case(("bump-older-tag", pat2, cfgv, tag, tuple(args_)), nontrivial=code == 0)
        rep.count("bump-older-tag")
        if code == 0 and new is not None and pv(new.rsplit(".", 1)[0]) < pv(cfgv.rsplit(".", 1)[0]):
            rep.violation("bump moved calendar parts backwards (an older VCS tag replaced the newer configured version)", input=dict(pattern=pat2, old=cfgv, tag=tag, new=new, args=args_), **{"class": "bump-backwards"})
    # ---- (4c) bumps without --date use the day on which they run: a sequence of days in one process (any order), each bump shows its own day
    saved_today = impl.bv_version.TODAY
    try:
        for pat2 in ("YYYY.0M.0D.BUILD", "YYYY.JJJ.BUILD", "GGGG.0V.BUILD", "YYYY.WW.BUILD"):
            old = render(impl, pat2, dt.date(2019, 2, 3))
            for d_run in (dt.date(2023, 3, 14), dt.date(2021, 6, 7), dt.date(2024, 12, 31), dt.date(2020, 1, 1)):
                impl.set_today(d_run)
                new = impl.v2version.incr(old, pat2)
                want = render(impl, pat2, d_run).rsplit(".", 1)[0]
                rep.case(("bump-today", pat2, str(d_run)), nontrivial=new is not None)
                rep.count("bump-today")
                if new is None or new.rsplit(".", 1)[0] != want:
                    rep.violation("a bump without --date does not show the day on which it runs", input=dict(pattern=pat2, old=old, new=new, today=str(d_run), want_calendar=want), **{"class": "bump-today"})
    finally:
        impl.set_today(saved_today)
    if model_ok:
        bad, errs = common.coq_eval("c14cal", HDR, "Z * N * Z", "fun '(a, n, ck) => Z.eqb (checksum a n) ck", items, shard=2)
        for i in bad:
            a, n = ranges[i]
            # locate the first differing day
            day = None
            for k in range(n):
                d = dt.date.fromordinal(a + k + 1)
                c = impl.v2version.cal_info(d)
                iso = d.isocalendar()
                want = (d.year, iso[0], (d.month - 1) // 3 + 1, d.month, d.day, d.timetuple().tm_yday, int(d.strftime("%W")), int(d.strftime("%U")), iso[1])
                if tuple(c) != want:
                    day = (str(d), tuple(c), want)
                    break
            rep.mismatch("cal_info differs from the calendar model on a day range", input=dict(start=a, days=n, first_differing_day=day))
        rep.corr_errors += errs
        bad, errs = common.coq_eval("c14wk", HDR, "list N * bool", "fun '(p, e) => Bool.eqb (is_valid_week_pattern p) e", wk_items, shard=400)
        for i in bad:
            rep.mismatch("is_valid_week_pattern: model differs from implementation", input=dict(item=wk_items[i][:200]))
        rep.corr_errors += errs


def search(rep, tier, seed, effort=2):
    run(rep, tier, seed, model_ok=False, effort=effort)


def replay(payload):
    from . import impl
    from bumpver import version
    inp = payload["violation"]["input"]
    pv = version.parse_version
    if "day1" in inp:
        a = render(impl, inp["pattern"], dt.date.fromisoformat(inp["day1"]))
        b = render(impl, inp["pattern"], dt.date.fromisoformat(inp["day2"]))
        bad = pv(a) > pv(b)
        print("replay C14: %s -> %s : %s" % (a, b, "FAIL" if bad else "pass"))
        return 1 if bad else 0
    if "date" in inp:
        new = impl.v2version.incr(inp["old"], inp["pattern"], maybe_date=dt.date.fromisoformat(inp["date"]))
        bad = new is not None and pv(new.rsplit(".", 1)[0]) < pv(inp["old"].rsplit(".", 1)[0])
        print("replay C14: incr %s -> %s : %s" % (inp["old"], new, "FAIL" if bad else "pass"))
        return 1 if bad else 0
    return 0
