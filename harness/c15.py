"""C15 — {pep440_version} always denotes the same version as {version}."""
import re
from . import common, v2gen
from .common import cs, cos

LEVEL = "proof"
EXTRA_TARGETS = ["Model/V2", "Model/Pep440"]
TRUSTED_BASE = [
    "Coq 8.16.1 kernel + vm_compute",
    "T1 translator: PEP440_PART_SUBSTITUTIONS, PATTERN_PART_FIELDS, tag maps, VERSION_PATTERN",
    "hand-written Gallina model Model/V2.v (convert_to_pep440, normalize_pattern, format_version) and Model/Pep440.v",
    "harness: _convert_to_pep440 and the text written for {pep440_version} compared with the model inside Coq; equality of versions checked with parse_version",
]
ASSUMPTIONS = ["claimed for patterns with prefix '' or 'v' whose {version} text is itself a valid PEP 440 version (as the property states)"]
HDR = "From BV Require Import Lib.Regex Model.V2 Model.Pep440."

BODIES = ["YYYY.BUILD", "YYYY0M.BUILD", "YYYY.0M.0D", "YYYY.MM.DD", "YYYY.0M.BUILD", "MAJOR.MINOR.PATCH", "MAJOR.MINOR", "YYYY.0W.PATCH",
          "YYYY.00J.BLD", "YY.0M.PATCH", "YYYY.0M", "MAJOR.MINOR.PATCH.BUILD", "YYYY.MM.INC0", "GGGG.0V.INC1", "YYYY.Q.PATCH", "0Y.0M.0D",
          "MAJOR[.MINOR[.PATCH]]", "YYYY.0U.MINOR",
          # two calendar parts in one dot-separated component: only a part that STARTS a component loses its padding
          "YYYY.0M0D", "YYYY.MM0D.PATCH", "YY0M.0D.BUILD"]
TAGS = ["", "[-TAG]", "[-TAGNUM]", "[-TAG[NUM]]", "[PYTAGNUM]", "[PYTAG[NUM]]", "-TAG", "-TAGNUM", "[.TAGNUM]", "[-TAG.NUM]"]


def run(rep, tier, seed, model_ok=True, effort=1):
    from . import impl
    from bumpver import version, v2patterns
    from bumpver import setuptools_v65_version as sv
    r = common.rng(seed, "c15")
    n = (800 if tier == "quick" else 60000) * effort
    rep.rule = ("version patterns (prefix ''/'v') x (dot separated numeric/calendar parts) x every tag group shape x all tags x NUM values x states: "
                "text written for {version} and for {pep440_version}; when the former is a valid PEP 440 version the latter must be a valid PEP 440 "
                "version with an equal key, be accepted by the derived pattern, carry no 'v', no zero-padded component after the first, short tag + number, "
                "and agree with the `PEP440` line of `test`; _convert_to_pep440 and both texts compared with the Coq model; non-trivial = distinct "
                "(pattern, {version} text) that is PEP 440-valid")
    conv_items, conv_meta, txt_items, txt_meta = [], [], [], []
    seen = set()
    for i in range(n):
        vp = r.choice(["", "v"]) + r.choice(BODIES) + r.choice(TAGS)
        if r.random() < 0.1:
            vp, _info = v2gen.gen_pattern(r)
            if not _info["wf"]:
                continue       # parts glued together without a separator (`WWMAJOR`): which digits belong to which part is not defined, no claim is made there
        v, d = v2gen.gen_state(r, impl)
        if ("YY" in vp.replace("YYYY", "") or "0Y" in vp) and not (2001 <= v.year_y <= 2099):
            continue
        if not (1000 <= v.year_y <= 9999):
            continue
        if v.week_w == 53 or v.week_u == 53:
            continue
        try:
            pp = v2patterns._convert_to_pep440(vp)
        except Exception:
            pp = None
        if vp not in seen:
            seen.add(vp)
            conv_items.append("(%s,%s)" % (cs(vp), cos(pp)))
            conv_meta.append(vp)
        if pp is None:
            continue
        # `update` renders the file patterns from the re-parsed announced version, so parts the version
        # pattern does not show (e.g. NUM under [-TAG]) are at their defaults
        try:
            v = impl.v2version.parse_version_info(impl.v2version.format_version(v, vp), vp)
        except Exception:
            rep.count("state-not-readable")
            continue
        try:
            s = impl.v2version.format_version(v, v2patterns.normalize_pattern(vp, "{version}"))
            p = impl.v2version.format_version(v, v2patterns.normalize_pattern(vp, "{pep440_version}"))
        except Exception as ex:
            rep.violation("rendering raised %r" % ex, input=dict(version_pattern=vp, state=v._asdict()), **{"class": "render-raises"})
            continue
        # one search pattern may carry both placeholders: each stands for its own text
        try:
            both = impl.v2version.format_version(v, v2patterns.normalize_pattern(vp, "Latest: {version} (PyPI: {pep440_version});"))
        except Exception as ex:
            both = "<%s>" % type(ex).__name__
        if both != "Latest: %s (PyPI: %s);" % (s, p) and "^" not in vp and "$" not in vp:
            rep.violation("a pattern carrying {version} and {pep440_version} together is not written as the two texts", input=dict(version_pattern=vp, version_text=s, pep440_text=p, written=both),
                          **{"class": "both-placeholders"})
        txt_items.append("(%s,%s,%s,%s)" % (v2gen.cvinfo(v), cs(vp), cs(s), cs(p)))
        txt_meta.append((vp, s, p))
        ks = version.parse_version(s)
        valid = isinstance(ks, sv.Version) and s != ""
        # '+' starts a PEP 440 local version label: a pattern that puts the release tag behind '+' is outside the claim
        standard = vp.startswith(("v", "Y", "M", "G", "0")) and " " not in vp and "+" not in vp
        # the claim is about dot separated numeric parts followed by one tag group (README normalisation rules)
        body = re.split(r"\[|-TAG|PYTAG", vp, 1)[0]
        standard = standard and re.fullmatch(r"v?[A-Z0-9]+(\.[A-Z0-9]+)*", body) is not None
        rep.case((vp, s), nontrivial=valid)
        rep.count("pep440-valid=%s" % valid)
        if not (valid and standard):
            continue
        inp = dict(version_pattern=vp, pep440_pattern=pp, version_text=s, pep440_text=p, state={k: x for k, x in v._asdict().items() if x not in (None, "")})
        kp = version.parse_version(p)
        if not isinstance(kp, sv.Version):
            rep.violation("{pep440_version} text is not a valid PEP 440 version", input=inp, **{"class": "pep440-invalid"})
            continue
        if kp != ks:
            rep.violation("{pep440_version} denotes a different version than {version}", input=inp, **{"class": "pep440-differs"})
            continue
        if p.startswith("v"):
            rep.violation("{pep440_version} text carries a v prefix", input=inp, **{"class": "pep440-v-prefix"})
        comps = re.split(r"[^0-9]+", p)
        if any(len(c) > 1 and c.startswith("0") for c in comps[1:] if c):
            # BUILD ids are strings: only flag components that the normalisation rules cover (dot separated numeric parts)
            dotted = p.split("+")[0].split(".")
            if any(re.fullmatch(r"0[0-9]+", c) for c in dotted[1:]):
                rep.violation("{pep440_version} text has a zero-padded component after the first", input=inp, **{"class": "pep440-zero-padded"})
        try:
            impl.v2version.parse_version_info(p, pp)
        except Exception as ex:
            rep.violation("{pep440_version} text is rejected by the derived search pattern (%s)" % type(ex).__name__, input=inp, **{"class": "pep440-pattern-rejects"})
        if version.parse_version(version.to_pep440(s)) != kp:
            rep.violation("{pep440_version} text differs from to_pep440 beyond normalisation", input=inp, **{"class": "pep440-vs-cli"})
        # the same comparisons with an independent PEP 440 reader (packaging), for strings it accepts: the value the CLI prints and the text
        # written for {pep440_version} denote the version {version} denotes
        try:
            import packaging.version as _pk
            ref_s, ref_p, ref_cli = _pk.Version(s), _pk.Version(p), _pk.Version(version.to_pep440(s))
        except Exception:
            ref_s = None
        if ref_s is not None:
            if ref_p != ref_s:
                rep.violation("{pep440_version} denotes a different version than {version} (packaging.version)", input=inp, **{"class": "pep440-differs"})
            elif ref_cli != ref_s:
                rep.violation("the PEP440 value the CLI prints (%s) denotes a different version than {version} (packaging.version)" % version.to_pep440(s), input=inp, **{"class": "pep440-vs-cli"})
        rep.sample(dict(pattern=vp, version=s, pep440=p))
    show_streams(rep, impl)
    update_streams(rep, impl)
    if model_ok:
        bad, errs = common.coq_eval("c15conv", HDR, "list N * option (list N)",
                                    "fun '(p, e) => match e with Some x => eqb_str (convert_to_pep440 p) x | None => true end", conv_items, shard=400)
        for i in bad:
            rep.mismatch("_convert_to_pep440: model differs from implementation", input=dict(version_pattern=conv_meta[i]))
        rep.corr_errors += errs
        bad, errs = common.coq_eval("c15txt", HDR, "vinfo * list N * list N * list N",
                                    "fun '(v, vp, s, p) => eqb_ostr (format_version v (normalize_pattern vp s_version_ph)) (Some s) && eqb_ostr (format_version v (normalize_pattern vp s_pep440_ph)) (Some p)",
                                    txt_items, shard=300)
        for i in bad:
            rep.mismatch("text for {version}/{pep440_version}: model differs from implementation", input=dict(zip(("version_pattern", "version_text", "pep440_text"), txt_meta[i])))
        rep.corr_errors += errs


def update_streams(rep, impl):
    """after `bumpver update`, every written {version} text and every written {pep440_version} text in the files denote the announced version,
    whichever way the two stand to each other on a line (PEP 440 form left or right of the plain form, alone, repeated)"""
    import packaging.version as pv
    from . import project
    # (the patterns carry context: a bare {pep440_version} also matches inside the text of a bare {version}, and only the first match of a
    #  pattern on a line is considered -- that ambiguity is not what this stream is about)
    PV, PP = "release {version}", "demo=={pep440_version}"
    layouts = [
        ("pep-left-of-version", ['pip install "%s"   # %s' % (PP, PV), "- %s" % PP, "- %s" % PV]),
        ("version-left-of-pep", ["%s (wheel for %s)" % (PV, PP), "- %s" % PP, "- %s" % PV]),
        ("adjacent", ["%s,%s" % (PP, PV), "%s;%s" % (PV, PP)]),
        ("separate-lines", ["- %s" % PP, "- %s" % PV]),
    ]
    for vp, cur, args in (("vMAJOR.MINOR.PATCH[-TAGNUM]", "v1.2.3-rc1", ["--tag-num"]), ("vYYYY0M.BUILD[-TAG]", "v202401.1009-beta", ["--date", "2024-03-05"]),
                          ("MAJOR.MINOR.PATCH", "1.9.9", ["--minor"])):
        for lname, lines in layouts:
            for order in ([PV, PP], [PP, PV]):
                prj = project.TempProject(vp, cur, files={"a.txt": order})
                with prj:
                    def both(v):
                        return "".join(l.replace("{version}", prj.render("{version}", v)).replace("{pep440_version}", prj.render("{pep440_version}", v)) + "\n" for l in lines)
                    open(prj.path("a.txt"), "w").write(both(cur))
                    code, out, logs, exc = prj.run(impl, ["update", "--no-fetch"] + args)
                    new = next((l.split("New Version: ", 1)[1] for l in logs if "New Version: " in l), None)
                    got = open(prj.path("a.txt")).read()
                    rep.case(("update-both", vp, lname, order[0]), nontrivial=code == 0)
                    rep.count("update-both-placeholders")
                    inp = dict(version_pattern=vp, current_version=cur, args=["update", "--no-fetch"] + args, patterns=order, layout=lname, exit=code, new=new, file_after=got)
                    if code != 0 or not new:
                        rep.violation("update fails on a file that holds both {version} and {pep440_version}", input=dict(inp, logs=logs[-3:]), **{"class": "update-both-fails"})
                        continue
                    if got != both(new):
                        rep.violation("after update the {version} and {pep440_version} texts of the file do not all denote the announced version", input=dict(inp, want=both(new)), **{"class": "pep440-stale"})


def show_streams(rep, impl):
    """the PEP440 value `show` prints -- plain, --environ and the deprecated -e -- is the PEP 440 form of the version it prints next to it, also
    when that version comes from a VCS tag newer than the config"""
    import packaging.version as pv
    from . import project
    for vp, cfgv, tag in (("vMAJOR.MINOR.PATCH[-TAG]", "v1.2.3-beta", "v1.2.4-beta"), ("MAJOR.MINOR.PATCH[PYTAGNUM]", "1.2.3rc0", "1.3.0a1"),
                          ("vYYYY0M.BUILD[-TAG]", "v202401.1001-beta", "v202403.1002-rc"), ("{pycalver}", "v202001.0042-beta", "v202002.0043")):
        for tags in ([], [tag, cfgv]):
            prj = project.TempProject(vp, cfgv, files={}, commit=True, tag=True, push=False, vcs="fakegit", vcs_cfg=dict(tags=tags, status="", remote=None))
            with prj:
                for flags in ([], ["--environ"], ["-e"]):
                    code, out, logs, exc = prj.run(impl, ["show", "--no-fetch"] + flags)
                    text = out + "\n" + "\n".join(logs)
                    cur = next((l.split("=", 1)[1] if "=" in l.split(":")[0] else l.split(": ", 1)[1] for l in text.splitlines()
                                if l.startswith(("Current Version:", "CURRENT_VERSION="))), None)
                    pep = next((l.split("=", 1)[1] if l.startswith("PEP440_VERSION=") else l.split(": ", 1)[1] for l in text.splitlines()
                                if l.startswith(("PEP440_VERSION=", "PEP440"))), None)
                    rep.case(("show", vp, bool(tags), tuple(flags)), nontrivial=code == 0)
                    rep.count("show-runs")
                    inp = dict(version_pattern=vp, config_version=cfgv, tags=tags, args=["show", "--no-fetch"] + flags, exit=code, current=cur, pep440=pep)
                    if code != 0 or cur is None or pep is None:
                        if flags != ["-e"]:      # the deprecated spelling may be gone; the documented ones must work
                            rep.violation("`bumpver show` does not print the current version and its PEP 440 form", input=dict(inp, out=text[-300:]), **{"class": "show-fails"})
                        continue
                    cur, pep = cur.strip(), pep.strip()
                    want = tag if tags else cfgv
                    try:
                        same = pv.Version(pep) == pv.Version(cur)
                    except Exception:
                        same = False
                    if cur != want or not same:
                        rep.violation("`show` prints PEP440 %r next to version %r (expected the version %r and its PEP 440 form)" % (pep, cur, want), input=inp, **{"class": "pep440-vs-cli"})


def search(rep, tier, seed, effort=2):
    run(rep, tier, seed, model_ok=False, effort=effort)


def replay(payload):
    print("replay C15: see violation input in the replay file")
    return 1
