"""Fingerprints of the hand-modelled functions: sha1 of the docstring-free AST of every function/class method and of the
module-level statements of each source file.  A changed fingerprint is NOT a violation; it makes the check spend more
effort on the files that moved (the correspondence and the search run with a larger budget)."""
import ast, hashlib, json, os

HERE = os.path.dirname(os.path.dirname(os.path.abspath(__file__)))
FILE = os.path.join(HERE, "model_fingerprints.json")
FILES = ["cli.py", "config.py", "hooks.py", "parse.py", "patterns.py", "rewrite.py", "setuptools_v65_version.py", "utils.py", "v1patterns.py", "v1rewrite.py",
         "v1version.py", "v2patterns.py", "v2rewrite.py", "v2version.py", "vcs.py", "version.py"]


def _strip_doc(node):
    for n in ast.walk(node):
        body = getattr(n, "body", None)
        if isinstance(body, list) and body and isinstance(body[0], ast.Expr) and isinstance(getattr(body[0], "value", None), ast.Constant) and isinstance(body[0].value.value, str):
            n.body = body[1:] or [ast.Pass()]
    return node


def compute(repo):
    out = {}
    for fn in FILES:
        path = os.path.join(repo, "src", "bumpver", fn)
        try:
            tree = _strip_doc(ast.parse(open(path, encoding="utf-8").read()))
        except (OSError, SyntaxError):
            out[fn] = "unreadable"
            continue
        out[fn] = hashlib.sha1(ast.dump(tree).encode("utf-8")).hexdigest()
    return out


def changed_files(repo):
    try:
        ref = json.load(open(FILE))
    except (OSError, ValueError):
        return []
    cur = compute(repo)
    return sorted(f for f in cur if ref.get(f) != cur[f])


if __name__ == "__main__":
    import sys
    json.dump(compute(sys.argv[1] if len(sys.argv) > 1 else "/repo"), open(FILE, "w"), indent=1, sort_keys=True)
    print("wrote", FILE)
