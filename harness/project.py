"""Temporary bumpver projects for the CLI-level checks (update / show / init), with optional fake or real VCS."""
import os, io, json, shutil, tempfile, logging, subprocess, contextlib

FAKEBIN = os.path.join(os.path.dirname(os.path.abspath(__file__)), "fakebin")
SCRATCH = os.environ.get("VERIF_SCRATCH", tempfile.gettempdir())


class _Capture(logging.Handler):
    def __init__(self):
        super().__init__(level=logging.DEBUG)
        self.lines = []

    def emit(self, record):
        try:
            self.lines.append("%s:%s" % (record.levelname, record.getMessage()))
        except Exception:
            pass


def toml_str(s):
    out = []
    for c in s:
        if c == "\\":
            out.append("\\\\")
        elif c == '"':
            out.append('\\"')
        elif ord(c) < 32 or ord(c) == 127:
            out.append("\\u%04x" % ord(c))
        else:
            out.append(c)
    return '"' + "".join(out) + '"'


def toml_key(s):
    """quoted TOML key; the `toml` package does not unescape basic-string keys, so prefer a literal-string key"""
    if "'" not in s and all(ord(c) >= 32 for c in s):
        return "'" + s + "'"
    return toml_str(s)


class TempProject:
    """A project directory with a bumpver config and files carrying version patterns.

    files: {path: [raw_pattern, ...]} -- each file gets one line per pattern, rendered for current_version
           (or explicit content via contents={path: text}).
    """

    def __init__(self, version_pattern, current_version, files=None, contents=None, fmt="bumpver.toml", commit=False, tag=False,
                 push=False, tag_scope=None, vcs=None, vcs_cfg=None, hooks=None, commit_message=None, tag_message=None,
                 line_sep="\n", extra_cfg_lines=(), quote_cfg=True, cfg_prefix="", key_comment=False, git_file=False):
        self.version_pattern = version_pattern
        self.current_version = current_version
        self.files = dict(files or {})
        self.contents = dict(contents or {})
        self.fmt = fmt
        self.opts = dict(commit=commit, tag=tag, push=push)
        self.tag_scope = tag_scope
        self.vcs = vcs            # None | "fakegit" | "fakehg" | "git"
        self.vcs_cfg = dict(vcs_cfg or {})
        self.hooks = dict(hooks or {})   # {"pre": "ok"|"fail", "post": ...}
        self.commit_message = commit_message
        self.tag_message = tag_message
        self.line_sep = line_sep
        self.extra_cfg_lines = list(extra_cfg_lines)
        self.quote_cfg = quote_cfg
        self.cfg_prefix = cfg_prefix     # text placed before the bumpver section (other tools' sections)
        self.key_comment = key_comment   # a commented-out old current_version line above the live key
        self.git_file = git_file         # fake git only: .git is a FILE ("gitdir: ..."), as in a linked worktree or a submodule
        self.dir = None

    # ------------------------------------------------------------------ construction
    def __enter__(self):
        self.dir = tempfile.mkdtemp(prefix="bvprj_", dir=SCRATCH)
        self.fakedir = os.path.join(self.dir, ".fakevcs")
        self._write_all()
        return self

    def __exit__(self, *a):
        shutil.rmtree(self.dir, ignore_errors=True)

    def path(self, rel):
        return os.path.join(self.dir, rel)

    def render(self, raw_pattern, version=None):
        from bumpver import v2patterns, v2version, v1patterns, v1version
        ver = version or self.current_version
        if "{" in self.version_pattern or "}" in self.version_pattern:
            vinfo = v1version.parse_version_info(ver, self.version_pattern)
            return v1version.format_version(vinfo, v1patterns._normalized_pattern(self.version_pattern, raw_pattern))
        vinfo = v2version.parse_version_info(ver, self.version_pattern)
        norm = v2patterns.normalize_pattern(self.version_pattern, raw_pattern)
        return v2version.format_version(vinfo, norm)

    def config_text(self):
        o = self.opts
        hooks = {}
        for which in ("pre", "post"):
            if which in self.hooks and not getattr(self, "hooks_via_cli", False):
                hooks[which] = "%s_hook.sh" % which
        if self.fmt.endswith(".toml"):
            sec = "tool.bumpver" if self.fmt == "pyproject.toml" else "bumpver"
            b = lambda x: "true" if x else "false"
            lines = ["[%s]" % sec] + (['# current_version = "0.0.1-old"'] if self.key_comment else []) + [
                "current_version = %s" % toml_str(self.current_version), "version_pattern = %s" % toml_str(self.version_pattern)]
            if self.commit_message is not None:
                lines.append("commit_message = %s" % toml_str(self.commit_message))
            if self.tag_message is not None:
                lines.append("tag_message = %s" % toml_str(self.tag_message))
            if self.tag_scope:
                lines.append("tag_scope = %s" % toml_str(self.tag_scope))
            for which, p in hooks.items():
                lines.append("%s_commit_hook = %s" % (which, toml_str(p)))
            lines += ["commit = %s" % b(o["commit"]), "tag = %s" % b(o["tag"]), "push = %s" % b(o["push"])]
            lines += self.extra_cfg_lines
            lines += ["", "[%s.file_patterns]" % sec]
            for path, pats in self.files.items():
                lines.append("%s = [" % toml_key(path))
                for p in pats:
                    lines.append("    %s," % toml_str(p))
                lines.append("]")
        else:
            b = lambda x: "True" if x else "False"
            qq = (lambda s: '"%s"' % s) if self.quote_cfg else (lambda s: s)
            lines = ["[bumpver]", "current_version = %s" % qq(self.current_version), "version_pattern = %s" % qq(self.version_pattern)]
            if self.commit_message is not None:
                lines.append("commit_message = %s" % qq(self.commit_message))
            if self.tag_message is not None:
                lines.append("tag_message = %s" % qq(self.tag_message))
            if self.tag_scope:
                lines.append("tag_scope = %s" % self.tag_scope)
            for which, p in hooks.items():
                lines.append("%s_commit_hook = %s" % (which, p))
            lines += ["commit = %s" % b(o["commit"]), "tag = %s" % b(o["tag"]), "push = %s" % b(o["push"])]
            lines += self.extra_cfg_lines
            lines += ["", "[bumpver:file_patterns]"]
            for k_, (path, pats) in enumerate(self.files.items()):
                # both ini layouts: all patterns on continuation lines / the first pattern on the key's own line
                same_line = k_ % 2 == 1 and pats and not pats[0].startswith((" ", "#", ";")) and pats[0].strip() == pats[0]
                lines.append("%s = %s" % (path, pats[0]) if same_line else "%s =" % path)
                for p in (pats[1:] if same_line else pats):
                    lines.append("    %s" % p)
        return self.cfg_prefix + "\n".join(lines) + "\n"

    def _write_all(self):
        with open(self.path(self.fmt), "w", encoding="utf-8", newline="") as f:
            f.write(self.config_text())
        for path, pats in self.files.items():
            if path in self.contents or path == self.fmt or "*" in path:
                continue
            lines = ["# header of %s" % path]
            for p in pats:
                try:
                    lines.append("prefix " + self.render(p) + " suffix")
                except Exception:
                    lines.append("prefix <unrenderable> suffix")
            lines.append("trailer")
            full = os.path.normpath(self.path(path))
            os.makedirs(os.path.dirname(full), exist_ok=True)
            with open(full, "w", encoding="utf-8", newline="") as f:
                f.write(self.line_sep.join(lines) + self.line_sep)
        for path, text in self.contents.items():
            full = self.path(path)
            os.makedirs(os.path.dirname(full), exist_ok=True)
            with open(full, "wb") as f:
                f.write(text if isinstance(text, bytes) else text.encode("utf-8"))
        for which, behaviour in self.hooks.items():
            p = self.path("%s_hook.sh" % which)
            watch = self.path(self.vcs_cfg.get("watch") or self.fmt)
            os.makedirs(self.fakedir, exist_ok=True)
            with open(p, "w") as f:
                f.write("#!/bin/sh\n"
                        "h=$(sha1sum \"%s\" | cut -d' ' -f1)\n"
                        "printf '{\"key\": \"hook\", \"which\": \"%s\", \"watch\": \"%%s\", \"argv\": []}\\n' \"$h\" >> \"%s\"\n"
                        "echo \"%s $BUMPVER_OLD_VERSION $BUMPVER_NEW_VERSION\" >> \"%s\"\n%s\n"
                        % (watch, which, os.path.join(self.fakedir, "argv.log"), which, self.path(".hooks.log"),
                           "exit 0" if behaviour == "ok" else ("kill -KILL $$" if behaviour == "kill" else "exit 3")))
            os.chmod(p, 0o755)
        if self.vcs in ("fakegit", "fakehg"):
            if self.vcs == "fakegit" and self.git_file:
                with open(self.path(".git"), "w") as f:
                    f.write("gitdir: /somewhere/else/.git/worktrees/wt\n")
            else:
                os.makedirs(self.path(".git" if self.vcs == "fakegit" else ".hg"), exist_ok=True)
            os.makedirs(self.fakedir, exist_ok=True)
            self.set_vcs_cfg(**self.vcs_cfg)
        elif self.vcs == "git":
            self.git("init", "-q", "-b", "main")
            self.git("config", "user.email", "t@example.com")
            self.git("config", "user.name", "t")
            self.git("config", "commit.gpgsign", "false")
            self.git("config", "tag.gpgsign", "false")
            self.git("add", "-A")
            self.git("commit", "-q", "-m", "initial")

    # ------------------------------------------------------------------ VCS helpers
    def set_vcs_cfg(self, **kw):
        self.vcs_cfg.update(kw)
        with open(os.path.join(self.fakedir, "config.json"), "w") as f:
            json.dump(self.vcs_cfg, f)

    def vcs_log(self):
        p = os.path.join(self.fakedir, "argv.log")
        if not os.path.exists(p):
            return []
        return [json.loads(l) for l in open(p, encoding="utf-8", errors="surrogateescape") if l.strip()]

    def hooks_log(self):
        p = self.path(".hooks.log")
        return open(p).read().splitlines() if os.path.exists(p) else []

    def git(self, *args, check=True):
        env = dict(os.environ, GIT_CONFIG_GLOBAL="/dev/null", GIT_CONFIG_SYSTEM="/dev/null", GIT_AUTHOR_DATE="2026-01-01T00:00:00",
                   GIT_COMMITTER_DATE="2026-01-01T00:00:00", LC_ALL="C")
        env["PATH"] = os.pathsep.join(p for p in env.get("PATH", "").split(os.pathsep) if p != FAKEBIN)
        p = subprocess.run(["git"] + list(args), cwd=self.dir, env=env, capture_output=True)
        if check and p.returncode != 0:
            raise RuntimeError("git %s failed: %s" % (args, p.stderr.decode("utf-8", "replace")))
        return p.stdout.decode("utf-8", "replace")

    # ------------------------------------------------------------------ observation
    def snapshot(self):
        """{relative path: bytes} of every file except VCS internals and harness logs."""
        out = {}
        for root, dirs, files in os.walk(self.dir):
            dirs[:] = [x for x in dirs if x not in (".git", ".hg", ".fakevcs")]
            for fn in files:
                if fn in (".hooks.log", ".git"):
                    continue
                full = os.path.join(root, fn)
                out[os.path.relpath(full, self.dir)] = open(full, "rb").read()
        return out

    def cfg_error(self, impl):
        """None when bumpver accepts the configuration."""
        old = os.getcwd()
        os.chdir(self.dir)
        try:
            from bumpver import config
            _, cfg = config.init(project_path=".")
            return None if cfg is not None else "config rejected"
        except Exception as ex:
            return repr(ex)
        finally:
            os.chdir(old)

    @contextlib.contextmanager
    def _env(self):
        old_path = os.environ.get("PATH", "")
        old_fake = os.environ.get("FAKEVCS_DIR")
        parts = [p for p in old_path.split(os.pathsep) if p != FAKEBIN]
        if self.vcs in ("fakegit", "fakehg"):
            os.environ["PATH"] = os.pathsep.join([FAKEBIN] + parts)
            os.environ["FAKEVCS_DIR"] = self.fakedir
        else:
            os.environ["PATH"] = os.pathsep.join(parts)
        for k, v in (("GIT_CONFIG_GLOBAL", "/dev/null"), ("GIT_CONFIG_SYSTEM", "/dev/null")):
            os.environ[k] = v
        try:
            yield
        finally:
            os.environ["PATH"] = old_path
            if old_fake is None:
                os.environ.pop("FAKEVCS_DIR", None)
            else:
                os.environ["FAKEVCS_DIR"] = old_fake

    def run(self, impl, args):
        """Run `bumpver <args>` in-process in the project directory.  Returns (exit_code, stdout, log_lines, exception)."""
        cap = _Capture()
        lg = logging.getLogger("bumpver")
        old_level = lg.level
        lg.setLevel(logging.DEBUG)
        lg.addHandler(cap)
        logging.disable(logging.NOTSET)
        try:
            with self._env():
                code, out, exc = impl.run_cli(args, cwd=self.dir)
        finally:
            logging.disable(logging.CRITICAL)
            lg.removeHandler(cap)
            lg.setLevel(old_level)
        return code, out, cap.lines, exc

    def run_subprocess(self, args, env_extra=None):
        """Run `python -m bumpver <args>` as a real process (for locale-dependent behaviour)."""
        with self._env():
            env = dict(os.environ)
        env.update(env_extra or {})
        env["PYTHONPATH"] = os.path.join(os.environ.get("VERIF_REPO", "/repo"), "src")
        p = subprocess.run(["/venv/bin/python", "-m", "bumpver"] + list(args), cwd=self.dir, env=env, capture_output=True)
        return p.returncode, p.stdout, p.stderr
