"""C18 — the same configuration means the same thing in every config format."""
import io, os, shutil, tempfile
from . import common, project
from .common import cs, cos, cb

LEVEL = "proof"
EXTRA_TARGETS = ["Model/Config"]
TRUSTED_BASE = [
    "Coq 8.16.1 kernel + vm_compute",
    "T1 translator: BOOL_OPTIONS defaults, the truthy spellings of _parse_cfg, default messages, config candidate order",
    "hand-written Gallina model Model/Config.v (ini_bool / toml_bool, parse_config, self_pattern)",
    "harness: sibling projects that differ only in config syntax, parsed with config.init and exercised with `show` / `update --dry`; raw values as delivered by configparser / toml fed to the model inside Coq",
]
ASSUMPTIONS = ["configparser and toml themselves (what they deliver for a given text) are not modelled"]
HDR = "From BV Require Import Model.V1 Model.Config."

TRUE_SPELLINGS = ["True", "true", "yes", "YES", "on", "1", "TRUE", "On"]
FALSE_SPELLINGS = ["False", "false", "no", "off", "0", "NO"]


def gen_abstract(r):
    vp, cv = r.choice([("MAJOR.MINOR.PATCH", "1.2.3"), ("vYYYY0M.BUILD[-TAG]", "v202401.1001-beta"), ("YYYY.BUILD[-TAG]", "2024.1001"),
                       ("{pycalver}", "v202401.0033-rc"), ("{semver}", "0.9.10"), ("vMAJOR.MINOR[.PATCH]", "v1.2")])
    commit = r.random() < 0.6
    c = dict(current_version=cv, version_pattern=vp,
             commit_message=r.choice([None, "bump {old_version} -> {new_version}", "release: {new_version}", "it's {new_version}",
                                      "release {new_version} ; was {old_version}", "bump to {new_version} # automated", "release {new_version} (100% tested, %(x)s)"]),
             tag_message=r.choice([None, "{new_version}", "v {new_version}", "{new_version} ; stable", "tag #{new_version}"]),
             tag_scope=r.choice([None, "default", "global", "branch"]),
             pre_commit_hook=r.choice([None, None, "hook.sh"]), post_commit_hook=r.choice([None, None, "hook.sh"]),
             commit=commit, tag=(r.random() < 0.5) if commit else r.choice([False, None]), push=(r.random() < 0.5) if commit else r.choice([False, None]))
    if r.random() < 0.2:
        c["commit"] = None      # missing optional key
    files = {}
    for i in range(r.choice([0, 1, 2, 3, 6])):
        name = r.choice(["a%d.txt", "src/m%d.py", "docs/r%d.md", "Docs/ReadMe%d.MD", "SRC/Pkg%d/__init__.py", "VERSION%d", "Makefile%d", "pkg%d/setup.cfg", "pkg%d/pyproject.toml", "pkg%d/bumpver.toml"]) % i   # file names are case sensitive
        files[name] = [r.choice(['__version__ = "{version}"', "{version}", "{pep440_version}", 'v = "{pep440_version}"', "Copyright YYYY" if "{" not in vp else "{version} ",
                                 'version = "{version}"  # managed by bumpver', "{version} ; stable", "badge%20v{version}", "100%% {version}"])
                       for _ in range(r.choice([1, 1, 2, 4]))]
        files[name] = list(dict.fromkeys(p.strip() for p in files[name]))
    c["files"] = files
    # sections of other tools next to bumpver's (they must not change what the configuration means)
    c["noise"] = r.choice([None, None, "before", "after"])
    c["omit_empty_table"] = r.random() < 0.7       # without files the file_patterns table may be left out altogether
    # a leftover configuration of a similarly named tool (bump2version / bump-my-version) in ANOTHER file of the project
    c["leftover"] = r.random() < 0.3
    return c


NOISE_INI = "[flake8]\nmax-line-length = 100\n\n[tool:pytest]\naddopts = -q\n"
NOISE_TOML = '[tool.black]\nline-length = 100\n\n[build-system]\nrequires = ["setuptools"]\n'


def with_noise(text, kind, where):
    noise = NOISE_INI if kind == "ini" else NOISE_TOML
    if where == "before":
        return noise + "\n" + text
    if where == "after":
        return text + "\n" + noise
    return text


def render_ini(c, r, section="bumpver", quote="all"):
    def qv(s, key):
        if quote == "all" or (quote == "mixed" and key in ("current_version",)):
            return '"%s"' % s
        if quote == "single" and "'" not in s:
            return "'%s'" % s
        return s
    lines = ["[%s]" % section, "current_version = %s" % qv(c["current_version"], "current_version"), "version_pattern = %s" % qv(c["version_pattern"], "version_pattern")]
    if quote == "colon":
        # the other key/value delimiter of the ini syntax
        lines = ["[%s]" % section, "current_version: %s" % c["current_version"], "version_pattern: %s" % c["version_pattern"]]
    for k in ("commit_message", "tag_message", "tag_scope", "pre_commit_hook", "post_commit_hook"):
        if c[k] is not None:
            lines.append("%s = %s" % (k, qv(c[k], k)))
    for k in ("commit", "tag", "push"):
        if c[k] is not None:
            lines.append("%s = %s" % (k, r.choice(TRUE_SPELLINGS if c[k] else FALSE_SPELLINGS)))
    if c["files"] or not c.get("omit_empty_table"):
        lines += ["", "[%s:file_patterns]" % section]
    for path, pats in c["files"].items():
        if quote == "none" and pats:
            # first pattern on the same line as the file name (configparser joins continuation lines)
            lines.append("%s = %s" % (path, pats[0]))
            rest = pats[1:]
        else:
            lines.append("%s =" % path)
            rest = pats
        for p in rest:
            lines.append("    %s" % p)
    return "\n".join(lines) + "\n"


def render_toml(c, section="bumpver", style=None):
    text = _render_toml(c, section)
    if style == "indented":          # keys indented under their table headers (valid TOML, a common hand-formatted style)
        text = "".join((l if (l.startswith("[") or not l.strip()) else "    " + l) for l in text.splitlines(True))
    if style == "header-comment":    # a comment after the table headers
        text = "".join((l.rstrip("\n") + "  # managed by bumpver\n" if l.startswith("[") else l) for l in text.splitlines(True))
    return text


def _render_toml(c, section="bumpver"):
    t = project.toml_str
    lines = ["[%s]" % section, "current_version = %s" % t(c["current_version"]), "version_pattern = %s" % t(c["version_pattern"])]
    for k in ("commit_message", "tag_message", "tag_scope", "pre_commit_hook", "post_commit_hook"):
        if c[k] is not None:
            lines.append("%s = %s" % (k, t(c[k])))
    for k in ("commit", "tag", "push"):
        if c[k] is not None:
            lines.append("%s = %s" % (k, "true" if c[k] else "false"))
    if c["files"] or not c.get("omit_empty_table"):
        lines += ["", "[%s.file_patterns]" % section]
    for path, pats in c["files"].items():
        lines.append("%s = [" % project.toml_key(path))
        for p in pats:
            lines.append("    %s," % t(p))
        lines.append("]")
    return "\n".join(lines) + "\n"


SIBLINGS = [("setup.cfg", "ini", "bumpver", "all"), ("setup.cfg", "ini", "bumpver", "none"), ("setup.cfg", "ini", "bumpver", "mixed"), ("setup.cfg", "ini", "bumpver", "single"),
            ("setup.cfg", "ini", "pycalver", "all"), ("setup.cfg", "ini", "bumpver", "colon"), ("pyproject.toml", "toml", "tool.bumpver", None), ("bumpver.toml", "toml", "bumpver", None),
            (".bumpver.toml", "toml", "bumpver", None), ("pycalver.toml", "toml", "pycalver", None),
            # the same TOML text formatted by hand
            ("pyproject.toml", "toml", "tool.bumpver", "indented"), ("bumpver.toml", "toml", "bumpver", "header-comment")]


def canon(cfg, cfg_name):
    if cfg is None:
        return None
    fp = {}
    for path, pats in cfg.file_patterns.items():
        key = "<CONFIG>" if path == cfg_name else path
        fp[key] = sorted(p.raw_pattern for p in pats)
    own = fp.pop("<CONFIG>", None)
    d = dict(current_version=cfg.current_version, version_pattern=cfg.version_pattern, pep440_version=cfg.pep440_version, commit_message=cfg.commit_message,
             tag_message=cfg.tag_message, tag_scope=cfg.tag_scope.value, pre_commit_hook=cfg.pre_commit_hook, post_commit_hook=cfg.post_commit_hook,
             commit=cfg.commit, tag=cfg.tag, push=cfg.push, is_new_pattern=cfg.is_new_pattern, file_patterns=fp)
    return d, own


def crawv(v):
    if isinstance(v, bool):
        return "(RBool %s)" % cb(v)
    return "(RStr %s)" % cs(v)


def ceff(d):
    if d is None:
        return "None"
    return "(Some (mkeff %s %s %s %s %s %s %s %s %s %s %s))" % (cs(d["current_version"]), cs(d["version_pattern"]), cs(d["commit_message"]), cs(d["tag_message"]),
                                                               cs(d["tag_scope"]), cs(d["pre_commit_hook"]), cs(d["post_commit_hook"]), cb(d["commit"]), cb(d["tag"]),
                                                               cb(d["push"]), cb(d["is_new_pattern"]))


def run(rep, tier, seed, model_ok=True, effort=1):
    from . import impl
    from bumpver import config
    import toml
    r = common.rng(seed, "c18")
    n = (40 if tier == "quick" else 800) * effort
    rep.rule = ("abstract configurations (v2 and legacy patterns, optional keys present/missing, all tag scopes, hooks, every boolean spelling, messages and patterns containing ' #' and ' ;', sections of other tools before/after, 0..6 files x 1..4 "
                "patterns) written as 12 siblings (two of them TOML formatted by hand: indented keys, comments after the table headers): setup.cfg [bumpver] with double-quoted / unquoted / mixed / single-quoted strings, setup.cfg [pycalver], pyproject.toml, bumpver.toml, "
                ".bumpver.toml, pycalver.toml; the parsed Config of all siblings must be equal (own current_version line aside, which must be found by its "
                "own pattern), `update --dry` must announce the same version; raw library values fed to the Coq model of _parse_config; non-trivial = distinct "
                "configuration accepted by at least one sibling")
    items, meta, self_items, self_meta = [], [], [], []
    for i in range(n):
        c = gen_abstract(r)
        results = []
        for fname, kind, section, quote in SIBLINGS:
            d = tempfile.mkdtemp(prefix="bvcfg_", dir=project.SCRATCH)
            try:
                text = with_noise(render_ini(c, r, section, quote) if kind == "ini" else render_toml(c, section, quote), kind, c.get("noise"))
                open(os.path.join(d, fname), "w", encoding="utf-8").write(text)
                open(os.path.join(d, "hook.sh"), "w").write("#!/bin/sh\n")
                if c.get("leftover"):
                    other = "pyproject.toml" if fname != "pyproject.toml" else "setup.cfg"
                    open(os.path.join(d, other), "w").write('[tool.bumpversion]\ncurrent_version = "0.1.0"\n\n[bumpversion]\ncurrent_version = "0.1.0"\n' if other.endswith(".toml")
                                                             else "[bumpversion]\ncurrent_version = 0.1.0\n\n[bumpversion:file:setup.py]\n")
                renderer = project.TempProject(c["version_pattern"], c["current_version"])
                for path, pats in c["files"].items():
                    os.makedirs(os.path.dirname(os.path.join(d, path)) or d, exist_ok=True)
                    with open(os.path.join(d, path), "w") as fh:
                        for pat_ in pats:
                            try:
                                fh.write("line: %s ;\n" % renderer.render(pat_))
                            except Exception:
                                fh.write("line: <unrenderable> ;\n")
                old = os.getcwd()
                os.chdir(d)
                try:
                    try:
                        ctx, cfg = config.init(project_path=".")
                        err = None
                    except Exception as ex:
                        ctx, cfg, err = None, None, repr(ex)
                    res = canon(cfg, fname)
                    # raw values for the model
                    try:
                        if kind == "ini":
                            cp = config._ConfigParser()
                            cp.read_file(io.StringIO(text))
                            raw = dict(cp.items(section))
                        else:
                            full = toml.loads(text)
                            raw = full
                            for part in section.split("."):
                                raw = raw[part]
                            raw = {k: v for k, v in raw.items() if k != "file_patterns"}
                        raw = {k: v for k, v in raw.items() if isinstance(v, (str, bool))}
                        citem = "(%s,[%s],%s)" % (cb(kind == "ini"), ";".join("(%s,%s)" % (cs(k), crawv(v)) for k, v in raw.items()), ceff(res[0] if res else None))
                        # the model does not look at the file system or compile patterns: only compare when the implementation accepted, or rejected for a modelled reason
                        items.append(citem)
                        meta.append(dict(file=fname, section=section, quote=quote, raw=raw, impl=res[0] if res else None, err=err))
                        if res and res[1]:
                            self_items.append("(%s,%s,%s,%s)" % (cs(raw["current_version"]), cs(raw["version_pattern"]), cs(text), cos(res[1][0] if len(res[1]) == 1 else None)))
                            self_meta.append(dict(file=fname, text=text, own=res[1]))
                    except Exception as ex:
                        rep.notes.append("raw extraction failed: %r" % ex)
                    # the own line must be found by the own pattern
                    if cfg is not None:
                        code, out, exc = impl.run_cli(["update", "--dry", "--no-fetch", "--patch"] if "MAJOR" in c["version_pattern"] or "semver" in c["version_pattern"] else ["update", "--dry", "--no-fetch"])
                    else:
                        code, out = None, ""
                finally:
                    os.chdir(old)
                own_ok = None
                if cfg is not None and fname in cfg.file_patterns:
                    own_ok = any(p_.regexp.search(line) for p_ in cfg.file_patterns[fname] for line in text.splitlines() if line.strip().startswith("current_version"))
                results.append((fname, section, quote, res, err, code, out, own_ok))
            finally:
                shutil.rmtree(d, ignore_errors=True)
        accepted = [x for x in results if x[3] is not None]
        rep.case(str(sorted((k, str(v)) for k, v in c.items())), nontrivial=bool(accepted))
        rep.count("accepted-siblings=%d" % len(accepted))
        inp = dict(config=c)
        if accepted and len(accepted) != len(results):
            rej = [(x[0], x[1], x[2], x[4]) for x in results if x[3] is None]
            rep.violation("the same configuration is accepted in some formats and rejected in others: %s" % rej, input=inp, **{"class": "accepted-differs"})
            continue
        if not accepted:
            continue
        base = accepted[0]
        for x in accepted[1:]:
            if x[3][0] != base[3][0]:
                diff = {k: (base[3][0][k], x[3][0][k]) for k in base[3][0] if base[3][0][k] != x[3][0][k]}
                rep.violation("effective settings differ between %s[%s,%s] and %s[%s,%s]: %s" % (base[0], base[1], base[2], x[0], x[1], x[2], diff), input=inp, **{"class": "settings-differ"})
                break
        for x in accepted:
            if not x[3][1]:
                rep.violation("the config file's own current_version line is not among the file patterns (%s)" % x[0], input=inp, **{"class": "no-self-pattern"})
            if (x[5] == 0) != (base[5] == 0):
                rep.violation("`update --dry` succeeds in one format and fails in another: %s[%s,%s] exit %s vs %s[%s,%s] exit %s" % (base[0], base[1], base[2], base[5], x[0], x[1], x[2], x[5]),
                              input=inp, **{"class": "dry-differs"})
            if x[7] is False:
                rep.violation("the pattern derived for the config file's own current_version line does not match that line (%s[%s,%s])" % (x[0], x[1], x[2]), input=inp, **{"class": "self-pattern-no-match"})
        rep.sample(dict(version_pattern=c["version_pattern"], commit=c["commit"], tag=c["tag"], push=c["push"], files=len(c["files"])))
    # TOML: a current_version written without quotes is a number, not a version string: the configuration is refused -- or, if it is read,
    # to the text that stands in the file (2020.1100 is not 2020.11)
    for fmt_, sec_ in (("bumpver.toml", "bumpver"), ("pyproject.toml", "tool.bumpver")):
        d_ = tempfile.mkdtemp(prefix="bvcfg_", dir=project.SCRATCH)
        try:
            open(os.path.join(d_, fmt_), "w").write('[%s]\ncurrent_version = 2020.1100\nversion_pattern = "YYYY.BUILD"\n\n[%s.file_patterns]\n"%s" = ["current_version = {version}"]\n' % (sec_, sec_, fmt_))
            c_, o_, e_ = impl.run_cli(["show", "--no-fetch"], cwd=d_)
            cur_ = next((l.split("Current Version: ", 1)[1].strip() for l in o_.splitlines() if l.startswith("Current Version: ")), None)
            rep.case(("toml-number-version", fmt_), nontrivial=True)
            if c_ == 0 and cur_ != "2020.1100":
                rep.violation("an unquoted TOML current_version (a number) is read as %r; the file says 2020.1100" % cur_, input=dict(config=fmt_, text="current_version = 2020.1100", show_exit=c_, current=cur_), **{"class": "settings-differ"})
        finally:
            shutil.rmtree(d_, ignore_errors=True)
    # a glob entry that covers several files -- in the TOML formats also the config file itself, which carries its own current_version entry:
    # every format reads the entry to the same (file, pattern) pairs for the other files, and `update` rewrites them alike
    outcomes = {}
    for fmt_ in ("setup.cfg", "bumpver.toml", "pyproject.toml", ".bumpver.toml"):
        prefix_ = '[project]\npkgver = "1.2.3"\n\n' if fmt_.endswith(".toml") else "[metadata]\nname = demo\n\n"
        prj = project.TempProject("MAJOR.MINOR.PATCH", "1.2.3", files={"*.toml": ['pkgver = "{version}"']}, fmt=fmt_, cfg_prefix=prefix_,
                                  contents={"Cargo.toml": '[package]\npkgver = "1.2.3"\n', "pixi.toml": '[workspace]\npkgver = "1.2.3"\n'})
        with prj:
            code_, out_, logs_, exc_ = prj.run(impl, ["update", "--no-fetch", "--patch"])
            snap_ = prj.snapshot()
        outcomes[fmt_] = (code_, snap_.get("Cargo.toml"), snap_.get("pixi.toml"), logs_[-2:])
        rep.case(("glob-over-config", fmt_), nontrivial=code_ == 0)
    ref_ = outcomes["setup.cfg"]
    for fmt_, oc_ in outcomes.items():
        if oc_[:3] != ref_[:3] or oc_[0] != 0 or b"1.2.4" not in (oc_[1] or b""):
            rep.violation("the glob entry *.toml is read differently from %s than from setup.cfg (exit %s vs %s; the other files rewritten: %s vs %s)" % (fmt_, oc_[0], ref_[0], b"1.2.4" in (oc_[1] or b""), b"1.2.4" in (ref_[1] or b"")),
                          input=dict(entry={"*.toml": ['pkgver = "{version}"']}, files=["Cargo.toml", "pixi.toml"], config=fmt_, exit=oc_[0], logs=oc_[3]), **{"class": "dry-differs"})
    if model_ok:
        bad, errs = common.coq_eval("c18", HDR, "bool * list (list N * rawv) * option effcfg",
                                    "fun '(ini, raw, e) => match e with Some x => match (if ini then parse_config_ini raw else parse_config_toml raw) with Some y => eqb_effcfg x y | None => false end | None => true end",
                                    items, shard=200)
        for i in bad:
            rep.mismatch("_parse_config: model differs from implementation", input=meta[i])
        rep.corr_errors += errs
        bad, errs = common.coq_eval("c18self", HDR, "list N * list N * list N * option (list N)",
                                    "fun '(cv, vp, text, e) => match e with Some x => eqb_ostr (self_pattern cv vp text) (Some x) | None => true end", self_items, shard=100)
        for i in bad:
            rep.mismatch("own current_version pattern: model differs from implementation", input=self_meta[i])
        rep.corr_errors += errs


def search(rep, tier, seed, effort=2):
    run(rep, tier, seed, model_ok=False, effort=effort)


def replay(payload):
    print("replay C18: see violation input (abstract configuration) in the replay file")
    return 1
