"""C03 — after an update no configured occurrence is left stale."""
from . import common, rwcheck

LEVEL = "proof"
EXTRA_TARGETS = ["Model/Rewrite"]
TRUSTED_BASE = [
    "Coq 8.16.1 kernel + vm_compute",
    "T1 translator (part tables, escapes)",
    "hand-written Gallina model Model/Rewrite.v (parse.iter_matches, rewrite_lines, rfd_from_content, detect_line_sep) over Model/V2.v",
    "harness: generated projects whose expected bytes are computed independently from known segments; rfd_from_content compared with the model inside Coq",
]
ASSUMPTIONS = ["in files with mixed line endings each pattern occurs once (a 'line' is what bumpver splits on)",
               "for a non-canonical --set-version spelling, 'equal' means equality of parts"]


def run(rep, tier, seed, model_ok=True, effort=1):
    rep.rule = ("generated projects of 1..5 files x 1..4 context-anchored patterns ({version}, {pep440_version}, partial patterns), occurrences on distinct "
                "and shared lines, all line-ending regimes, globbed + repeated entries, v2 and legacy engines: real `bumpver update` then byte comparison with "
                "the independently computed expectation, `show`, and rfd_from_content correspondence in Coq; non-trivial = distinct project whose update succeeds")
    rwcheck.run_update_projects(rep, tier, seed, "stale", model_ok=model_ok, effort=effort)
    config_under_glob(rep)
    shadowed_pattern(rep)


def shadowed_pattern(rep):
    """An earlier pattern whose match swallows every match of a later one (a bare {pep440_version} listed before {version}): either the
    update refuses and leaves the files alone, or every occurrence shows the new version through its own pattern."""
    from . import impl, project
    content = "Current release: v202401.1001-beta\n"
    prj = project.TempProject("vYYYY0M.BUILD[-TAG]", "v202401.1001-beta", files={"README.md": ["{pep440_version}", "{version}"]}, contents={"README.md": content})
    with prj:
        before = prj.snapshot()
        code, out, logs, exc = prj.run(impl, ["update", "--no-fetch", "--date", "2024-01-20"])
        after = prj.snapshot()
    rep.case(("shadowed-pattern",), nontrivial=True)
    got = after.get("README.md", b"").decode("utf-8", "replace")
    if code != 0:
        if after != before:
            rep.violation("update exited non-zero but changed files", input=dict(patterns=["{pep440_version}", "{version}"], content=content, exit=code), **{"class": "failed-but-wrote"})
    elif got != "Current release: v202401.1002-beta\n":
        rep.violation("an occurrence was left stale / not rendered as the new version in README.md", input=dict(patterns=["{pep440_version}", "{version}"], content=content, got=got, exit=code,
                      logs=logs[-3:]), **{"class": "stale-file"})


def config_under_glob(rep):
    """A glob entry that covers the config file itself (with a pattern for another line of it) does not stand in for the config's own
    current_version line: after the update the config says the new version, and a second update starts from it."""
    from . import impl, project
    for fmt, glob_key in (("pyproject.toml", "*.toml"), ("bumpver.toml", "*.toml"), ("setup.cfg", "*.cfg")):
        ext = fmt.rsplit(".", 1)[1]
        line = 'pkgver = "1.2.3"' if ext == "toml" else "pkgver = 1.2.3"
        pat = 'pkgver = "{version}"' if ext == "toml" else "pkgver = {version}"
        prefix = ("[project]\n%s\n\n" if ext == "toml" else "[metadata]\n%s\n\n") % line
        prj = project.TempProject("MAJOR.MINOR.PATCH", "1.2.3", files={glob_key: [pat]}, contents={"other." + ext: ("[x]\n" + line + "\n")}, fmt=fmt, cfg_prefix=prefix, quote_cfg=False)
        with prj:
            err = prj.cfg_error(impl)
            code, out, logs, exc = prj.run(impl, ["update", "--no-fetch", "--patch"]) if not err else (1, "", [str(err)], None)
            after = prj.snapshot()
            c2, o2, _, _ = prj.run(impl, ["show", "--no-fetch"])
        rep.case(("config-under-glob", fmt), nontrivial=code == 0)
        cfg_text = after.get(fmt, b"").decode("utf-8", "replace")
        inp = dict(config_file=fmt, file_patterns={glob_key: [pat]}, exit=code, logs=logs[-3:], config_after=cfg_text[:400], show=o2[-120:])
        if code != 0:
            rep.violation("update failed on a project whose config file is also covered by a glob entry", input=inp, **{"class": "unexpected-failure"})
            continue
        stale = [l for l in cfg_text.splitlines() if l.startswith("current_version") and "1.2.4" not in l]
        if stale or "1.2.3" in cfg_text or "1.2.3" in after.get("other." + ext, b"").decode() or "Current Version: 1.2.4" not in o2:
            rep.violation("an occurrence was left stale: the config file (covered by a glob entry) still shows the old version", input=inp, **{"class": "stale-cfg"})


def search(rep, tier, seed, effort=2):
    run(rep, tier, seed, model_ok=False, effort=effort)


def replay(payload):
    print("replay C03: see violation input (project files and args) in the replay file")
    return 1
