"""C03 — after an update no configured occurrence is left stale."""
from . import common, rwcheck

LEVEL = "proof"
EXTRA_TARGETS = ["Model/Rewrite"]
TRUSTED_BASE = [
    "Coq 8.16.1 kernel + vm_compute",
    "T1 translator (part tables, escapes)",
    "hand-written Gallina model Model/Rewrite.v (parse.iter_matches, rewrite_lines, rfd_from_content, detect_line_sep) over Model/V2.v",
    "harness: generated projects whose expected bytes are computed independently from known segments; rfd_from_content compared with the model inside Coq",
]
ASSUMPTIONS = ["in files with mixed line endings each pattern occurs once (a 'line' is what bumpver splits on)",
               "for a non-canonical --set-version spelling, 'equal' means equality of parts"]


def run(rep, tier, seed, model_ok=True, effort=1):
    rep.rule = ("generated projects of 1..5 files x 1..4 context-anchored patterns ({version}, {pep440_version}, partial patterns), occurrences on distinct "
                "and shared lines, all line-ending regimes, globbed + repeated entries, v2 and legacy engines: real `bumpver update` then byte comparison with "
                "the independently computed expectation, `show`, and rfd_from_content correspondence in Coq; non-trivial = distinct project whose update succeeds")
    rwcheck.run_update_projects(rep, tier, seed, "stale", model_ok=model_ok, effort=effort)


def search(rep, tier, seed, effort=2):
    run(rep, tier, seed, model_ok=False, effort=effort)


def replay(payload):
    print("replay C03: see violation input (project files and args) in the replay file")
    return 1
