"""C16 — version comparison is a total order that agrees with PEP 440."""
import itertools
from . import common
from .common import cs, cn

LEVEL = "proof"
EXTRA_TARGETS = ["Model/Pep440"]
TRUSTED_BASE = [
    "Coq 8.16.1 kernel + vm_compute",
    "T1 translator: VERSION_PATTERN, Version._regex prefix/suffix/flags, legacy component regex and replacement map copied from /repo by ast",
    "hand-written Gallina model Model/Pep440.v (_cmpkey, _legacy_cmpkey, _parse_letter_version, _parse_local_version, Version.__str__, tuple comparison with the Infinity sentinels) "
    "and the generic regex engine Lib/Regex.v running the extracted pattern",
    "correspondence harness harness/c16.py: keys, str() and pairwise comparison results compared inside Coq",
]
ASSUMPTIONS = ["non-ASCII case folding / Unicode digits and spaces of CPython's re are outside the model (ASCII-only IGNORECASE); strings exercising them are handled as the known finding class",
               "packaging.version (26.3, in /venv) is used as a secondary oracle for strings it accepts"]

HDR = "From BV Require Import Lib.Regex Model.Pep440."

PRE = ["a", "b", "c", "rc", "alpha", "beta", "pre", "preview", "A", "RC", "Alpha", "BETA"]
POST = ["post", "rev", "r", "POST", "Rev"]
SEP = ["", "", ".", "-", "_"]


def gen_pep440(r):
    s = ""
    if r.random() < 0.15:
        s += r.choice(["v", "V"])
    if r.random() < 0.2:
        s += str(r.choice([0, 1, 2, 10])) + "!"
    n = r.choice([1, 1, 2, 2, 3, 3, 3, 4, 6])
    segs = []
    for _ in range(n):
        k = r.choice([0, 0, 1, 2, 9, 10, 12, 99, 100, 2024, 202401, 1001])
        segs.append(("0" * r.choice([0, 0, 0, 1, 2])) + str(k))
    s += ".".join(segs)
    if r.random() < 0.45:
        s += r.choice(SEP) + r.choice(PRE) + r.choice(SEP) + (str(r.choice([0, 1, 2, 10, 0o7])) if r.random() < 0.8 else "")
    k = r.random()
    if k < 0.2:
        s += r.choice(SEP) + r.choice(POST) + r.choice(SEP) + (str(r.choice([0, 1, 2, 11])) if r.random() < 0.8 else "")
    elif k < 0.28:
        s += "-" + str(r.choice([0, 1, 5]))
    if r.random() < 0.25:
        s += r.choice(SEP) + r.choice(["dev", "DEV", "Dev"]) + r.choice(SEP) + (str(r.choice([0, 1, 3])) if r.random() < 0.8 else "")
    if r.random() < 0.15:
        s += "+" + r.choice(["abc", "1", "abc.1", "Ubuntu-3", "001", "a_b.7", "deadbeef", "1.a"])
    if r.random() < 0.08:
        s = r.choice([" ", "\t", "\n"]) + s
    if r.random() < 0.08:
        s = s + r.choice([" ", "\n", " \n"])
    return s


def gen_legacy(r):
    k = r.random()
    if k < 0.3:
        return "v%dq%d.%d" % (r.choice([2017, 2018, 2024]), r.choice([1, 2, 3, 4]), r.choice([1, 54321, 10000, 999]))
    if k < 0.5:
        base = gen_pep440(r)
        j = r.randrange(len(base) + 1)
        return base[:j] + r.choice(["x", "..", "-", "_", "~", "final", "dev", "@", " ", "é"]) + base[j:]
    if k < 0.7:
        return r.choice(["", ".", "-", "final", "dev", "1.0-final", "1.0final", "1.0-", "1.0.", "1.0--1", "1.0pre-", "abc", "1.0-rc-final", "rc", "1.0.0.0-", "0", "00", "1.0+", "1.0+.", "1!", "!1", "2017.q1", "v", "vv1", "1.0-x-1", "1.0 final"])
    n = r.choice([1, 2, 3, 5, 8, 14])
    return "".join(r.choice("0123456789abcxyz.-_+!~ vABC") for _ in range(n))


SPECIAL_CASEFOLD = ["1.0.poſt1", "1.0.poſt2", "1.0prevıew1", "1.0.K", "1.0ſ"]


def pkey(k):
    """implementation key tuple -> Coq term of type key"""
    def inf(x):
        return type(x).__name__
    if k[0] == -1 and isinstance(k[1], tuple) and (len(k) == 2):
        return "(KLegacy %s)" % ("[" + ";".join(cs(p) for p in k[1]) + "]")
    epoch, rel, pre, post, dev, local = k

    def ppd(x):
        if inf(x) == "InfinityType":
            return "PPosInf"
        if inf(x) == "NegativeInfinityType":
            return "PNegInf"
        return "(PTag %s %d)" % (cs(x[0]), x[1])
    if inf(local) == "NegativeInfinityType":
        loc = "None"
    else:
        parts = []
        for a, b in local:
            if inf(a) == "NegativeInfinityType":
                parts.append("(LStr %s)" % cs(b))
            else:
                parts.append("(LNum %d)" % a)
        loc = "(Some [" + ";".join(parts) + "])"
    return "(KVer %d %s %s %s %s %s)" % (epoch, "[" + ";".join(str(x) for x in rel) + "]", ppd(pre), ppd(post), ppd(dev), loc)


def is_ascii_model_scope(s):
    return all(ord(c) < 128 or c in "é中" for c in s)


def run(rep, tier, seed, model_ok=True, effort=1):
    from . import impl
    from bumpver import version as bv
    from bumpver import setuptools_v65_version as sv
    try:
        from packaging import version as pk
    except Exception:
        pk = None
    r = common.rng(seed, "c16")
    n = (1500 if tier == "quick" else 20000) * effort
    rep.rule = ("seeded PEP 440 strings (epochs, pre/post/dev/local, alternate spellings, separators, leading zeros, case, whitespace) and "
                "legacy strings (bumpver-style, mutated PEP 440, arbitrary text): key and str() compared with the model inside Coq, "
                "pairwise comparison results compared with cmp_key, order laws on triples, packaging.version as secondary oracle; every string parsed twice (same key); "
                "non-trivial = distinct string; pairs/triples counted separately in the distribution")
    strs = []
    seen = set()
    # systematic family: every suffix combination on a few releases (the PEP 440 ordering table)
    fam = []
    for rel in ("1.0", "1.0.1", "2020.1003"):
        for pre in ("", "a1", "b2", "rc1"):
            for post in ("", ".post1", ".post2"):
                for dev in ("", ".dev0", ".dev3"):
                    for loc in ("", "+abc"):
                        fam.append(rel + pre + post + dev + loc)
    # digits outside ASCII: PEP 440 numbers are [0-9] only, such strings are legacy versions (the extracted pattern spells the class out)
    fam += ["1.\u0663", "v2017.\uff15\uff14\uff13\uff12\uff11", "\u0661.\u0662.\u0663", "1.0a\u0662", "1.0.post\u0663", "1.0.dev\u0969"]   # (not: such digits next to "!" or "+", where the legacy key's \d+ component regex sees them -- outside the ASCII model)
    # text spanning several lines of which one line is a PEP 440 version: not a version (the whole string has to be one)
    fam += ["1.0\nfoo", "foo\n1.0", "v2017q1.54321\n2017.54321", "1.0\n2.0", "1.0\r\nx", "x\n1.0\ny"]
    for i in range(n + len(fam)):
        s = fam[i - n] if i >= n else (gen_pep440(r) if r.random() < 0.6 else gen_legacy(r))
        if s in seen:
            continue
        seen.add(s)
        strs.append(s)
    key_items, meta = [], []
    objs = {}
    for s in list(strs):
        try:
            v = bv.parse_version(s)
        except Exception as ex:
            rep.violation("parse_version raised %r" % ex, input=dict(s=s), **{"class": "parse-raises"})
            strs.remove(s)
            continue
        if not isinstance(v, (sv.Version, sv.LegacyVersion)):
            # every version string is ordered by ONE class family (the vendored one): objects of another library do not compare with it
            try:
                mixed_ok = (v < bv.parse_version("not a pep440 version")) in (True, False)
            except Exception as ex:
                mixed_ok = False
            rep.violation("parse_version returns %s.%s, which %s" % (type(v).__module__, type(v).__name__, "cannot be compared with non-PEP 440 versions" if not mixed_ok else "is not the vendored class"),
                          input=dict(s=s), **{"class": "foreign-class"})
            strs.remove(s)
            continue
        objs[s] = v
        try:
            v_again = bv.parse_version(s)
            if v_again._key != v._key or not (v_again == v) or str(v_again) != str(v):
                rep.violation("parsing the same string twice gives different versions", input=dict(s=s, first=repr(v._key), second=repr(v_again._key)), **{"class": "parse-not-stable"})
        except Exception as ex:
            rep.violation("parse_version raised %r on the second parse of a string" % ex, input=dict(s=s), **{"class": "parse-raises"})
        is_ver = isinstance(v, sv.Version)
        rep.case(s)
        rep.count("class=" + ("pep440" if is_ver else "legacy"))
        try:
            key_items.append("(%s,%s,%s)" % (cs(s), pkey(v._key), cs(str(v))))
        except Exception as ex:
            # the sort key is not of the documented shape (e.g. an epoch that is not a number): comparisons with other versions break
            rep.violation("the sort key of a parsed version is malformed (%s: %s)" % (type(ex).__name__, ex), input=dict(s=s, key=repr(v._key)), **{"class": "compare-raises"})
            strs.remove(s)
            objs.pop(s, None)
            continue
        meta.append(s)
        if pk is not None:
            try:
                pv = pk.Version(s)
            except pk.InvalidVersion:
                pv = None
            if pv is not None and is_ver and str(pv) != str(v):
                rep.violation("str() is not the PEP 440 canonical form", input=dict(s=s, got=str(v), want=str(pv)), **{"class": "not-canonical"})
            if pv is not None and not is_ver:
                rep.violation("PEP 440-valid string classified as legacy", input=dict(s=s), **{"class": "valid-as-legacy"})
            if pv is None and is_ver:
                rep.violation("string rejected by packaging accepted as PEP 440", input=dict(s=s), **{"class": "invalid-as-pep440"})
        if len(rep.samples) < 5:
            rep.sample(dict(s=s, key=repr(v._key), str=str(v)))
    # pairs: comparison result vs packaging and vs model
    pair_items, pair_meta = [], []
    npairs = (3000 if tier == "quick" else 40000) * effort
    for _ in range(npairs):
        a, b = r.choice(strs), r.choice(strs)
        va, vb = objs[a], objs[b]
        try:
            code = 0 if va < vb else (1 if va == vb else 2)
            _ = (va <= vb, va > vb, va >= vb, va != vb)
        except Exception as ex:
            rep.violation("comparing two version strings raised %r" % ex, input=dict(a=a, b=b), **{"class": "compare-raises"})
            continue
        if (va <= vb) != (code <= 1) or (va > vb) != (code == 2) or (va >= vb) != (code >= 1) or (va != vb) != (code != 1):
            rep.violation("comparison operators are inconsistent", input=dict(a=a, b=b), **{"class": "ops-inconsistent"})
        if (va == vb) != (va._key == vb._key):
            rep.violation("equality differs from key equality", input=dict(a=a, b=b), **{"class": "eq-not-key"})
        ia, ib = isinstance(va, sv.Version), isinstance(vb, sv.Version)
        if ia and not ib and not (vb < va):
            rep.violation("legacy string not below a PEP 440 version", input=dict(pep440=a, legacy=b), **{"class": "legacy-not-below"})
        if pk is not None and ia and ib:
            try:
                pa, pb = pk.Version(a), pk.Version(b)
                pcode = 0 if pa < pb else (1 if pa == pb else 2)
                if pcode != code:
                    rep.violation("order differs from PEP 440 (packaging.version)", input=dict(a=a, b=b, got=code, want=pcode), **{"class": "order-differs"})
            except pk.InvalidVersion:
                pass
        rep.count("pairs")
        pair_items.append("(%s,%s,%d)" % (cs(a), cs(b), code))
        pair_meta.append((a, b, code))
    # triples: transitivity / totality
    for _ in range((2000 if tier == "quick" else 30000) * effort):
        a, b, c = (objs[r.choice(strs)] for _ in range(3))
        if a <= b and b <= c and not (a <= c):
            rep.violation("transitivity fails", input=dict(a=str(a), b=str(b), c=str(c)), **{"class": "not-transitive"})
        if not (a <= b or b <= a):
            rep.violation("totality fails", input=dict(a=str(a), b=str(b)), **{"class": "not-total"})
        if not (a <= a):
            rep.violation("reflexivity fails", input=dict(a=str(a)), **{"class": "not-reflexive"})
        rep.count("triples")
    # every adjacent pair of the whole corpus under the reference order must be ordered the same way by the implementation
    if pk is not None:
        valid = []
        for s_ in strs:
            try:
                valid.append((pk.Version(s_), s_))
            except pk.InvalidVersion:
                pass
        valid.sort(key=lambda t: t[0])
        for (pa, a), (pb, b) in zip(valid, valid[1:]):
            va, vb = objs[a], objs[b]
            rep.count("adjacent-pairs")
            if not isinstance(va, sv.Version) or not isinstance(vb, sv.Version):
                continue
            if (pa < pb and not (va < vb)) or (pa == pb and not (va == vb)):
                rep.violation("order differs from PEP 440 (packaging.version) on adjacent versions", input=dict(a=a, b=b), **{"class": "order-differs"})
                break
    # sort a whole batch with the implementation and check it is sorted under the pairwise order
    batch = [r.choice(strs) for _ in range(200)]
    sb = sorted(batch, key=bv.parse_version)
    for x, y in zip(sb, sb[1:]):
        if objs[x] > objs[y]:
            rep.violation("sorted() output is not ordered", input=dict(a=x, b=y), **{"class": "sort-unordered"})
    # known finding class: non-ASCII characters that case-fold to ASCII letters
    for s in SPECIAL_CASEFOLD:
        v = bv.parse_version(s)
        rep.case(("casefold", s))
        if isinstance(v, sv.Version):
            rep.violation("non-PEP 440 string (non-ASCII letter) parsed as a PEP 440 version", input=dict(s=s, key=repr(v._key)), **{"class": "nonascii-casefold"})
    if model_ok:
        bad, errs = common.coq_eval("c16key", HDR, "list N * key * list N",
                                    "fun '(s, k, t) => eqb_key (version_key s) k && eqb_str (to_pep440 s) t", key_items, shard=150)
        for i in bad:
            s = meta[i]
            rep.mismatch("version key / str(): model differs from implementation", input=dict(s=s, impl_key=repr(objs[s]._key), impl_str=str(objs[s])))
        rep.corr_errors += errs
        bad, errs = common.coq_eval("c16cmp", HDR, "list N * list N * N",
                                    "fun '(a, b, c) => N.eqb (cmp_code (cmp_key (version_key a) (version_key b))) c", pair_items, shard=250)
        for i in bad:
            rep.mismatch("comparison: model differs from implementation", input=dict(a=pair_meta[i][0], b=pair_meta[i][1], impl=pair_meta[i][2]))
        rep.corr_errors += errs


def search(rep, tier, seed, effort=2):
    run(rep, tier, seed, model_ok=False, effort=effort)


def replay(payload):
    from . import impl
    from bumpver import version as bv
    inp = payload["violation"]["input"]
    print("replay C16:", {k: (repr(bv.parse_version(v)._key) if isinstance(v, str) else v) for k, v in inp.items()})
    return 1
