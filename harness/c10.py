"""C10 — VCS steps run only as configured, in order, and stop at the first failure."""
import os, hashlib, itertools
from . import common, project
from .common import cb

LEVEL = "proof"
EXTRA_TARGETS = ["Model/Vcs"]
TRUSTED_BASE = [
    "Coq 8.16.1 kernel + vm_compute (the whole configuration product is evaluated in the kernel)",
    "T1 translator: VCS command templates, split-before-format flag",
    "hand-written Gallina model Model/Vcs.v (parse_vcs_options, update_trace: dirty check, rewrite, hooks, add/commit, tag, push with failure injection)",
    "harness: fake git/hg executables first on PATH log every invocation (and the hash of a watched file, to place the rewrite in the sequence); generated hook scripts log order and environment",
]
ASSUMPTIONS = ["process spawning and hook execution are the runtime's; failures are injected by making the fake VCS command exit 1",
               "hg reports untracked files as '?', which bumpver counts as dirty (differs from git's '??'); modelled as such"]
HDR = "From BV Require Import Model.Vcs."

EV = ["EFetch", "EStatus", "EWrite", "EHookPre", "EAdd", "ECommit", "EHookPost", "ETagAnnotated", "ETagLight", "EPushTag", "EPush"]
FAILABLE = [None, "fetch", "status", "add_path", "commit", "tag", "push"]
FAIL_EV = {"fetch": "EFetch", "status": "EStatus", "add_path": "EAdd", "commit": "ECommit", "tag": None, "push": None}


def cob(x):
    return "None" if x is None else "(Some %s)" % cb(x)


def observe(prj, before_hash, vcs):
    """implementation trace as event names, from the fake VCS log + hooks log"""
    trace = []
    wrote = False
    observe.push_argvs = []
    for e in prj.vcs_log():
        k = e["key"]
        h = e.get("watch")
        if h is not None and h != before_hash and not wrote:
            trace.append("EWrite")
            wrote = True
        if k == "fetch":
            trace.append("EFetch")
        elif k == "status":
            trace.append("EStatus")
        elif k == "add_path":
            trace.append("EAdd")
        elif k == "commit":
            trace.append("ECommit")
        elif k == "tag":
            trace.append("ETagAnnotated" if "--message" in e["argv"] else "ETagLight")
        elif k == "push":
            argv = e["argv"]
            observe.push_argvs.append(list(argv))
            has_tag = ("--follow-tags" in argv) if vcs == "fakegit" else (len(argv) > 1)
            trace.append("EPushTag" if has_tag else "EPush")
        elif k == "hook":
            trace.append("EHookPre" if e["which"] == "pre" else "EHookPost")
    return trace, wrote


def _h(x):
    """a hash that does not depend on the interpreter's string-hash seed (choices must be the same on every run)"""
    import zlib
    return zlib.crc32(repr(x).encode("utf-8"))


def run_config(rep, impl, cfg, opts, world, vcs, tags=(), kill=False):
    """cfg=(commit,tag,push,pre,post) opts=(ocommit,otag,opush,dry,allow_dirty,fetch,ignore) world=(has_vcs,remote,dirty,tagmsg_empty,fail)"""
    commit, tag, push, pre, post = cfg
    ocommit, otag, opush, dry, allow_dirty, fetch, ignore = opts
    has_vcs, remote, dirty, tagmsg_empty, fail = world
    hooks = {}
    if pre != "absent":
        hooks["pre"] = "ok" if pre == "ok" else ("kill" if kill else "fail")
    if post != "absent":
        hooks["post"] = "ok" if post == "ok" else ("kill" if kill else "fail")
    status = {0: "", 1: " M other.txt\n", 2: " M a.txt\n", 3: "?? other.txt\n"}[dirty]
    if vcs == "fakehg":
        status = {0: "", 1: "M other.txt\n", 2: "M a.txt\n", 3: "? other.txt\n"}[dirty]
    # a failing VCS command may or may not say something on stderr
    vcs_cfg = dict(tags=list(tags), status=status, remote="origin" if remote else None, fail=[fail] if fail else [], fail_silent=_h((cfg, opts, world)) % 2 == 0, usable=True, watch="a.txt")
    # some git projects are laid out like a linked worktree / submodule (.git is a file); the steps are the same
    git_file = vcs == "fakegit" and (_h((cfg, opts, world)) % 4 == 0)
    # every third configuration spells the file entry "./a.txt" (the VCS reports "a.txt"): the steps are the same
    fkey = "./a.txt" if _h((cfg, opts, world, "dot")) % 3 == 0 else "a.txt"
    prj = project.TempProject("MAJOR.MINOR.PATCH", "1.2.3", files={fkey: ["ver = {version}"]}, contents={"a.txt": "ver = 1.2.3\n"}, commit=commit, tag=tag, push=push,
                              vcs=vcs if has_vcs else None, vcs_cfg=vcs_cfg if has_vcs else None, hooks=hooks, git_file=git_file,
                              tag_message="" if tagmsg_empty else "tag {new_version}")
    # every third configuration names its hooks on the command line (--pre-commit-hook / --post-commit-hook) instead of in the config file
    via_cli = bool(hooks) and _h((cfg, opts, world, "cli")) % 3 == 0
    prj.hooks_via_cli = via_cli
    with prj:
        if not has_vcs:
            os.makedirs(prj.fakedir, exist_ok=True)
        before = prj.snapshot()
        before_hash = hashlib.sha1(before["a.txt"]).hexdigest()
        args = ["update", "--patch"]
        for val, name in ((ocommit, "commit"), (otag, "tag-commit"), (opush, "push")):
            if val is True:
                args.append("--" + name)
            elif val is False:
                args.append("--no-" + name)
        if dry:
            args.append("--dry")
        if allow_dirty:
            args.append("--allow-dirty")
        args.append("--fetch" if fetch else "--no-fetch")
        if ignore:
            args.append("--ignore-vcs-tag")
        if via_cli:
            for which in ("pre", "post"):
                if which in hooks:
                    args += ["--%s-commit-hook" % which, "%s_hook.sh" % which]
        code, out, logs, exc = prj.run(impl, args)
        after = prj.snapshot()
        trace, wrote_seen = (observe(prj, before_hash, vcs) if has_vcs else ([], False))
        # hooks are logged through the hook scripts
        hook_lines = prj.hooks_log()
        if after.get("a.txt") != before.get("a.txt") and "EWrite" not in trace:
            trace.append("EWrite") if not any(t in trace for t in ("EHookPre", "EAdd", "ECommit")) else trace.insert(
                next(i for i, t in enumerate(trace) if t in ("EHookPre", "EAdd", "ECommit")), "EWrite")
        return code, trace, hook_lines, args, logs


def hg_adjust(vcs, dirty):
    return 1 if (vcs == "fakehg" and dirty == 3) else dirty


def properties(rep, cfg, opts, world, vcs, code, trace, hook_lines, args, old_version="1.2.3", new_version="1.2.4"):
    """the property's own clauses, checked on the implementation's trace (independent of the model)"""
    commit, tag, push, pre, post = cfg
    ocommit, otag, opush, dry, allow_dirty, fetch, ignore = opts
    has_vcs, remote, dirty, tagmsg_empty, fail = world
    inp = dict(config=dict(commit=commit, tag=tag, push=push, pre_hook=pre, post_hook=post), args=args, vcs=vcs, remote=remote, dirty=dirty,
               fail=fail, exit=code, trace=trace, hooks=hook_lines)
    canon = ["EFetch", "EStatus", "EWrite", "EHookPre", "EAdd", "ECommit", "EHookPost", "ETagAnnotated", "ETagLight", "EPushTag", "EPush"]
    idx = [canon.index(t) for t in trace]
    if idx != sorted(idx):
        rep.violation("steps out of order", input=inp, **{"class": "order"})
    eff_commit = commit if ocommit is None else ocommit
    eff_tag = tag if otag is None else otag
    eff_push = push if opush is None else opush
    mutating = [t for t in trace if t not in ("EFetch", "EStatus")]
    if dry and (mutating or hook_lines):
        rep.violation("--dry issued mutating steps / ran hooks", input=inp, **{"class": "dry-mutates"})
    if not fetch and "EFetch" in trace:
        rep.violation("--no-fetch fetched", input=inp, **{"class": "no-fetch-fetched"})
    if not eff_commit and any(t in trace for t in ("EAdd", "ECommit", "ETagAnnotated", "ETagLight", "EPushTag", "EPush", "EHookPre", "EHookPost")):
        rep.violation("VCS steps without commit", input=inp, **{"class": "no-commit-but-vcs"})
    if any(t in trace for t in ("ETagAnnotated", "ETagLight", "EPushTag", "EPush")) and "ECommit" not in trace:
        rep.violation("tag or push without a commit", input=inp, **{"class": "tag-push-without-commit"})
    if any(t in trace for t in ("ETagAnnotated", "ETagLight")) and not eff_tag:
        rep.violation("tag although tagging is off", input=inp, **{"class": "tag-when-off"})
    if any(t in trace for t in ("EPushTag", "EPush")) and not eff_push:
        rep.violation("push although pushing is off", input=inp, **{"class": "push-when-off"})
    if fail:
        key_ev = {"fetch": ["EFetch"], "status": ["EStatus"], "add_path": ["EAdd"], "commit": ["ECommit"], "tag": ["ETagAnnotated", "ETagLight"], "push": ["EPushTag", "EPush"]}[fail]
        pos = [i for i, t in enumerate(trace) if t in key_ev]
        if pos:
            if pos[0] != len(trace) - 1:
                rep.violation("steps continued after a failed VCS command", input=inp, **{"class": "continued-after-failure"})
            if code == 0:
                rep.violation("exit 0 although a VCS command failed", input=inp, **{"class": "failure-exit0"})
    for which, st in (("pre", pre), ("post", post)):
        ev = "EHookPre" if which == "pre" else "EHookPost"
        if st == "fail" and ev in trace:
            if trace[-1] != ev or code == 0:
                rep.violation("steps continued (or exit 0) after a failing %s-commit hook" % which, input=inp, **{"class": "continued-after-hook"})
    for line in hook_lines:
        parts = line.split(" ")
        if len(parts) != 3 or parts[1] != old_version or parts[2] != new_version:
            rep.violation("hook did not receive BUMPVER_OLD_VERSION/BUMPVER_NEW_VERSION", input=inp, **{"class": "hook-env"})
    # the enabled steps do happen: a successful real run with committing on, in a directory where the VCS is usable, commits (and tags when tagging is on)
    if has_vcs and code == 0 and not dry and eff_commit and "EWrite" in trace and not fail:
        if "ECommit" not in trace:
            rep.violation("exit 0 with committing enabled and a usable VCS, but no commit was made", input=inp, **{"class": "enabled-step-missing"})
        elif eff_tag and not any(t in trace for t in ("ETagAnnotated", "ETagLight")):
            rep.violation("exit 0 with tagging enabled, but no tag was made", input=inp, **{"class": "enabled-step-missing"})
    # a push that follows a tag names that tag (a lightweight tag is not sent by --follow-tags alone)
    if vcs == "fakegit" and any(t in trace for t in ("ETagAnnotated", "ETagLight")) and "EPushTag" in trace:
        if not any(new_version in a for a in getattr(observe, "push_argvs", [])):
            rep.violation("the push after tagging does not name the new tag %s" % new_version, input=dict(inp, push=getattr(observe, "push_argvs", [])), **{"class": "push-without-tag-name"})
    contradictory = (ocommit is False and (otag or opush)) or (not eff_commit and (otag or opush))
    # the dirty check is the first step: when it fails (a pattern file has uncommitted changes; or anything has and --allow-dirty is not given)
    # nothing after it happens
    d_eff = hg_adjust(vcs, dirty)
    if has_vcs and eff_commit and not dry and not contradictory and fail not in ("fetch", "status") \
            and (d_eff == 2 or (d_eff == 1 and not allow_dirty)):
        if mutating or code == 0:
            rep.violation("the dirty check had to fail (%s), yet later steps happened / exit 0" % ("a pattern file is dirty" if d_eff == 2 else "the tree is dirty and --allow-dirty is not given"),
                          input=inp, **{"class": "continued-after-dirty"})
    if contradictory and (trace or code == 0):
        rep.violation("contradictory flags were not rejected before anything happened", input=inp, **{"class": "contradiction"})


def run(rep, tier, seed, model_ok=True, effort=1):
    from . import impl
    r = common.rng(seed, "c10")
    rep.rule = ("configurations drawn from config (commit,tag,push) x tri-state --commit/--tag-commit/--push x pre/post hook {absent, ok, fails} x dirty state "
                "{clean, unrelated dirty, pattern file dirty, untracked unrelated} x --allow-dirty x tag message {empty,set} x remote x --dry x fetch x "
                "--ignore-vcs-tag x {git,hg} x failing VCS command: real `bumpver update` against fake git/hg; the observed step sequence is compared with "
                "the Coq model and checked against the property's clauses; non-trivial = distinct configuration that reaches at least the rewrite")
    n = (110 if tier == "quick" else 2500) * effort
    cfgs = [(False, False, False), (True, False, False), (True, True, False), (True, False, True), (True, True, True)]
    items, meta = [], []
    seen = set()
    # pairwise-important corner cases first
    corner = []
    for fail in FAILABLE:
        corner.append(((True, True, True, "ok", "ok"), (None, None, None, False, False, True, False), (True, True, 0, False, fail), "fakegit"))
    corner += [((True, True, True, "fail", "ok"), (None, None, None, False, False, False, False), (True, True, 0, False, None), "fakegit"),
               ((True, True, True, "ok", "fail"), (None, None, None, False, False, False, False), (True, True, 0, False, None), "fakegit"),
               ((True, True, True, "ok", "ok"), (None, None, None, True, False, True, False), (True, True, 0, False, None), "fakegit"),
               ((True, True, True, "absent", "absent"), (False, None, None, False, False, False, False), (True, True, 0, False, None), "fakegit"),
               ((True, True, True, "absent", "absent"), (False, True, None, False, False, False, False), (True, True, 0, False, None), "fakegit"),
               ((False, False, False, "absent", "absent"), (None, None, True, False, False, False, False), (True, True, 0, False, None), "fakegit"),
               ((True, False, True, "absent", "absent"), (None, None, None, False, False, False, False), (True, False, 0, True, None), "fakehg"),
               ((True, True, False, "absent", "absent"), (None, None, None, False, True, False, False), (True, True, 2, True, None), "fakegit"),
               ((True, True, False, "absent", "absent"), (None, None, None, False, True, False, False), (True, True, 1, True, None), "fakegit"),
               ((True, True, False, "absent", "absent"), (None, None, None, False, False, False, False), (True, True, 3, True, None), "fakegit"),
               ((True, True, True, "ok", "ok"), (None, None, None, False, False, True, False), (False, False, 0, False, None), "fakegit")]
    cases = list(corner)
    while len(cases) < n:
        c = r.choice(cfgs)
        cfg = c + (r.choice(["absent", "absent", "ok", "fail"]), r.choice(["absent", "absent", "ok", "fail"]))
        opts = (r.choice([None, None, True, False]), r.choice([None, None, True, False]), r.choice([None, None, True, False]),
                r.random() < 0.2, r.random() < 0.3, r.random() < 0.5, r.random() < 0.15)
        world = (r.random() < 0.9, r.random() < 0.6, r.choice([0, 0, 0, 1, 2, 3]), r.random() < 0.3, r.choice(FAILABLE + [None, None, None]))
        cases.append((cfg, opts, world, r.choice(["fakegit", "fakegit", "fakehg"])))
    for cfg, opts, world, vcs in cases:
        key = (cfg, opts, world, vcs)
        if key in seen:
            continue
        seen.add(key)
        code, trace, hook_lines, args, logs = run_config(rep, impl, cfg, opts, world, vcs)
        rep.case(key, nontrivial="EWrite" in trace)
        rep.count("vcs=" + vcs)
        rep.count("exit=%s" % ("0" if code == 0 else "nonzero"))
        rep.count("fail=%s" % world[4])
        properties(rep, cfg, opts, world, vcs, code, trace, hook_lines, args)
        hs = {"absent": "HookAbsent", "ok": "HookOk", "fail": "HookFails"}
        fail_ev = {None: "None", "fetch": "(Some EFetch)", "status": "(Some EStatus)", "add_path": "(Some EAdd)", "commit": "(Some ECommit)",
                   "tag": "(Some (if %s then ETagLight else ETagAnnotated))" % cb(world[3]), "push": None}[world[4]] if world[4] != "push" else None
        if world[4] == "push":
            eff_tag = cfg[1] if opts[1] is None else opts[1]
            fail_ev = "(Some %s)" % ("EPushTag" if eff_tag else "EPush")
        ccfg = "(mkucfg %s %s %s %s %s)" % (cb(cfg[0]), cb(cfg[1]), cb(cfg[2]), hs[cfg[3]], hs[cfg[4]])
        copts = "(mkuopts %s %s %s %s %s %s %s)" % (cob(opts[0]), cob(opts[1]), cob(opts[2]), cb(opts[3]), cb(opts[4]), cb(opts[5]), cb(opts[6]))
        cworld = "(mkworld %s %s %d %s 2%%nat %s)" % (cb(world[0]), cb(world[1]), hg_adjust(vcs, world[2]), cb(world[3]), fail_ev)
        items.append("(%s,%s,%s,[%s],%s)" % (ccfg, copts, cworld, ";".join(trace), cb(code == 0)))
        meta.append(dict(config=cfg, opts=opts, world=world, vcs=vcs, args=args, impl_trace=trace, exit=code, logs=logs[-3:]))
        rep.sample(dict(args=" ".join(args), config=cfg, trace=trace, exit=code))
    # hooks receive the VCS-resolved old version (a tag newer than the config value), and a hook killed by a signal counts as failed
    full = ((True, True, True, "ok", "ok"), (None, None, None, False, False, False, False), (True, True, 0, False, None))
    os.environ["BUMPVER_OLD_VERSION"], os.environ["BUMPVER_NEW_VERSION"] = "2024.7", "2024.8"     # e.g. exported by an outer job: the hooks get THIS run's versions
    try:
        code, trace, hook_lines, args, logs = run_config(rep, impl, full[0], full[1], full[2], "fakegit", tags=["1.2.5", "1.0.0"])
    finally:
        os.environ.pop("BUMPVER_OLD_VERSION", None); os.environ.pop("BUMPVER_NEW_VERSION", None)
    rep.case(("hook-env-newer-tag",))
    properties(rep, full[0], full[1], full[2], "fakegit", code, trace, hook_lines, args, old_version="1.2.5", new_version="1.2.6")
    if code != 0 or len(hook_lines) != 2:
        rep.violation("update with a newer tag and hooks did not complete", input=dict(args=args, trace=trace, hooks=hook_lines, logs=logs[-3:]), **{"class": "hook-env"})
    for which in ("pre", "post"):
        cfgk = (True, True, True, "fail" if which == "pre" else "ok", "fail" if which == "post" else "absent")
        code, trace, hook_lines, args, logs = run_config(rep, impl, cfgk, full[1], full[2], "fakegit", kill=True)
        rep.case(("hook-killed", which))
        properties(rep, cfgk, full[1], full[2], "fakegit", code, trace, hook_lines, args)
    # --no-fetch never fetches: also on the paths that look tags up a second time (--set-version, tag_scope branch), dry or not, git and hg
    for vcs in ("fakegit", "fakehg"):
        for scope in (None, "branch", "global"):
            for extra in ([], ["--set-version", "1.2.9"], ["--dry"], ["--set-version", "1.2.9", "--dry"]):
                prj = project.TempProject("MAJOR.MINOR.PATCH", "1.2.3", files={"a.txt": ["ver = {version}"]}, commit=True, tag=True, push=False, vcs=vcs,
                                          tag_scope=scope, vcs_cfg=dict(tags=["1.2.3", "1.0.0"], tags_branch=["1.2.3"], status="", remote="origin", fail=[], usable=True))
                with prj:
                    args = ["update", "--no-fetch"] + (extra if "--set-version" in extra else ["--patch"] + extra)
                    code, out, logs, exc = prj.run(impl, args)
                    keys = [e["key"] for e in prj.vcs_log()]
                rep.case(("no-fetch", vcs, scope, tuple(extra)), nontrivial=code == 0)
                rep.count("no-fetch-variants")
                if "fetch" in keys:
                    rep.violation("--no-fetch fetched", input=dict(vcs=vcs, tag_scope=scope, args=args, exit=code, vcs_commands=keys), **{"class": "no-fetch-fetched"})
    if model_ok:
        bad, errs = common.coq_eval("c10", HDR, "ucfg * uopts * world * list ev * bool",
                                    "fun '(c, o, w, tr, ok) => let '(t, k) := update_trace c o w in Bool.eqb k ok && (Nat.eqb (length t) (length tr)) && forallb (fun '(a, b) => ev_eqb a b) (combine t tr)",
                                    items, shard=200)
        for i in bad:
            rep.mismatch("update step sequence: model differs from implementation", input=meta[i])
        rep.corr_errors += errs


def search(rep, tier, seed, effort=2):
    run(rep, tier, seed, model_ok=False, effort=effort)


def replay(payload):
    print("replay C10: see violation input (config, args, trace) in the replay file")
    return 1
