"""C04 — rewriting touches nothing but the matched spans."""
import os, datetime as dt
from . import common, rwcheck, rwgen, project

LEVEL = "proof"
EXTRA_TARGETS = ["Model/Rewrite", "Model/Files"]
TRUSTED_BASE = [
    "Coq 8.16.1 kernel + vm_compute",
    "T1 translator: keyword arguments (mode, newline, encoding) of the six open() calls in v1rewrite/v2rewrite, part tables",
    "hand-written Gallina models Model/Rewrite.v (split/join, span replacement) and Model/Files.v (newline translation of text-mode I/O)",
    "harness: byte comparison of generated projects before/after `bumpver update`, in-process and in a subprocess with LC_ALL=C PYTHONUTF8=0",
]
ASSUMPTIONS = ["CPython's UTF-8 codec round-trips valid UTF-8; os.linesep only matters for newline=None (both are Section-level parameters of the I/O theorems)"]


def run(rep, tier, seed, model_ok=True, effort=1):
    from . import impl
    rep.rule = ("generated projects (all four line-ending regimes incl. mixed, with/without final newline, non-ASCII text, control characters, regex "
                "metacharacters) updated by a real `bumpver update`; every byte outside the known occurrence spans must be unchanged and no unconfigured "
                "file written; a share of the projects runs in a subprocess under LC_ALL=C PYTHONUTF8=0; rfd_from_content compared with the Coq model; "
                "non-trivial = distinct project whose update succeeds")
    rwcheck.run_update_projects(rep, tier, seed, "outside", model_ok=model_ok, effort=effort)
    # the string primitives the theorems rest on (replace, split, join, splitlines, strip, find) against CPython itself
    from . import libcorr
    libcorr.pystr_stream(rep, common.rng(seed, "c04-pystr"), (300 if tier == "quick" else 5000) * effort, model_ok=model_ok)
    # subprocess runs under an ASCII locale
    r = common.rng(seed, "c04-locale")
    n = (6 if tier == "quick" else 200) * effort
    for i in range(n):
        spec = rwgen.gen_project(r, impl, legacy=(i % 4 == 3), max_files=3)
        if not spec["old"]:
            continue
        with rwgen.to_temp_project(project, spec) as prj:
            try:
                rwgen.write_contents(prj, spec)
            except Exception:
                continue
            if prj.cfg_error(impl):
                continue
            # an unrelated file with non-ASCII bytes that must not be touched
            with open(prj.path("unrelated.bin"), "wb") as f:
                f.write("ünrelated \r\n bytes \xff".encode("latin-1"))
            before = prj.snapshot()
            nd = rwgen.avoid_week53(spec["vp"], spec["date"] + dt.timedelta(days=400))
            args = ["update", "--no-fetch", "--date", nd.isoformat()] + spec["flags"]
            code, out, err = prj.run_subprocess(args, env_extra={"LC_ALL": "C", "LANG": "C", "PYTHONUTF8": "0", "PYTHONIOENCODING": "ascii:backslashreplace"})
            after = prj.snapshot()
            rep.case(("locale-C", spec["vp"], spec["old"], i), nontrivial=code == 0)
            rep.count("ascii-locale-exit=%s" % ("0" if code == 0 else "nonzero"))
            inp = dict(version_pattern=spec["vp"], current_version=spec["old"], args=args, locale="LC_ALL=C PYTHONUTF8=0", exit=code,
                       stderr=err.decode("utf-8", "replace")[-400:],
                       files={f.path: dict(patterns=f.patterns, content=f.render(prj.render, spec["old"])) for f in spec["files"]})
            if code != 0:
                rep.violation("update fails under an ASCII locale on a project it handles under UTF-8", input=inp, **{"class": "locale-failure"})
                continue
            text = err.decode("utf-8", "replace")
            new = next((l.split("New Version: ", 1)[1].strip() for l in text.splitlines() if "New Version: " in l), None)
            if new is None:
                rep.notes.append("could not read the announced version from the subprocess log")
                continue
            exp = rwcheck.expected_after(prj, spec, new)
            exp["unrelated.bin"] = before["unrelated.bin"]
            for path, want in exp.items():
                if after.get(path) != want:
                    rep.violation("bytes differ after update under an ASCII locale in %s" % path,
                                  input=dict(inp, path=path, got=repr(after.get(path))[:300], want=repr(want)[:300]), **{"class": "locale-bytes"})
                    break


def search(rep, tier, seed, effort=2):
    run(rep, tier, seed, model_ok=False, effort=effort)


def replay(payload):
    print("replay C04: see violation input (project files and args) in the replay file")
    return 1
