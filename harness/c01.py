"""C01 — a successful bump yields a valid, strictly greater version."""
import re, datetime as dt
from . import common, v2gen, c05
from .common import cs, cos, cz

LEVEL = "proof"
EXTRA_TARGETS = ["Model/Cli"]
TRUSTED_BASE = [
    "Coq 8.16.1 kernel + vm_compute",
    "T1 translator (part tables, tag maps, VERSION_PATTERN and flags, VALID_RELEASE_TAG_VALUES)",
    "hand-written Gallina models Model/Cli.v (test, _is_valid_version, _validate_*), Model/V2.v (incr, parse), Model/Pep440.v (comparison)",
    "correspondence harness harness/c01.py: `bumpver test` (increment and --set-version) through CliRunner vs the model inside Coq; `update` runs in temp projects",
]
ASSUMPTIONS = ["uniqueness against VCS tags (`unique=True`) is exercised by C09's harness, not here"]
HDR = c05.HDR


def set_targets(r, impl, old, pat, v, d):
    """(--set-version value, kind)"""
    from bumpver import version
    out = []
    try:
        bumped = impl.v2version.incr(old, pat, patch="PATCH" in pat, maybe_date=d + dt.timedelta(days=400))
    except Exception:
        bumped = None      # e.g. a pattern without separators between numeric parts reads its own text differently (outside the well-formed class)
    if bumped:
        out.append((bumped, "greater"))
        out.append((bumped + r.choice([".5", "x", "-", " ", "0"]), "malformed-suffix"))
        # the match is case sensitive and covers the whole argument: re-cased literal text / tags and surrounding whitespace are not part of a version
        if bumped.swapcase() != bumped:
            out.append((bumped.swapcase(), "must-reject:case-flipped"))
        out.append((bumped + r.choice(["\n", " ", "\t"]), "must-reject:trailing-whitespace"))
        # a pattern whose tag always carries its number (TAGNUM / PYTAGNUM): the tag without a number is not a version of the pattern
        if re.search(r"(TAG|PYTAG)NUM", pat) and re.search(r"(a|b|rc|alpha|beta|dev|post)\d+$", bumped):
            out.append((re.sub(r"\d+$", "", bumped), "must-reject:tag-without-number"))
    out.append((old, "equal"))
    lower = impl.v2version.format_version(v._replace(major=max(0, v.major - 1), year_y=(v.year_y or 2000) - 1, year_g=(v.year_g or 2000) - 1,
                                                     bid=str(max(1000, int(v.bid)) - 1) if int(v.bid) > 1000 else v.bid), pat)
    if lower:
        out.append((lower, "lower"))
    out.append((r.choice(["", "garbage", "1", "v", "1.2.3.4.5.6", old[:-1] if len(old) > 1 else "x"]), "malformed"))
    # PEP 440-equal but textually different
    if "[.PATCH]" in pat and v.patch == 0:
        alt = impl.v2version.format_version(v._replace(patch=0), pat.replace("[.PATCH]", ".PATCH"))
        if alt:
            out.append((alt, "pep440-equal"))
    m = re.search(r"\.(\d+)", old)
    if m:
        out.append((old[:m.start(1)] + "0" + old[m.start(1):], "pep440-equal-zero-padded"))
    if bumped:
        m = re.search(r"\.(\d+)", bumped)
        if m:
            out.append((bumped[:m.start(1)] + "00" + bumped[m.start(1):], "greater-zero-padded"))
    return out


def oracle(rep, impl, args, old, pat, code, out, exc):
    from bumpver import version
    if code != 0:
        return
    new = impl.parse_new_version(out)
    inp = dict(args=args, out=out)
    if new is None:
        rep.violation("exit 0 without announcing a version", input=inp, **{"class": "no-announcement"})
        return
    try:
        rx = impl.v2patterns.compile_pattern(pat).regexp
        full = rx.fullmatch(new) is not None
    except Exception:
        full = False
    if not full:
        rep.violation("announced version does not match the pattern in full", input=inp, **{"class": "not-full-match"})
        return
    if not (version.parse_version(new) > version.parse_version(old)):
        rep.violation("announced version is not strictly greater than the old one", input=inp, **{"class": "not-greater"})
        return
    # independent reference for the order (packaging.version), for strings it accepts
    try:
        from packaging import version as pk
        if not (pk.Version(new) > pk.Version(old)):
            rep.violation("announced version is not strictly greater than the old one under PEP 440 (packaging.version)", input=inp, **{"class": "not-greater"})
    except Exception:
        pass


def run(rep, tier, seed, model_ok=True, effort=1):
    from . import impl
    r = common.rng(seed, "c01")
    n = (350 if tier == "quick" else 6000) * effort
    rep.rule = ("seeded (grammar pattern, valid current version, flags, date) for the increment path and, per case, --set-version targets of every kind "
                "(greater, equal, lower, malformed, malformed suffix, PEP 440-equal but textually different, zero padded): `bumpver test` via CliRunner, "
                "plus `bumpver update [--dry]` in temporary projects, and `update` against fake-git tag sets (fetch on, off and failing; config behind, equal to and ahead of the newest tag; --set-version below and above it); oracle: full match + strictly greater than the version started from on exit 0, nothing changed otherwise; non-trivial = distinct accepted case")
    today = v2gen.ordinal(impl.PINNED_TODAY)
    items, meta = [], []
    # corpus: tag changes without a numeric bump (the order of dev / pre / final / post decides)
    F0 = dict(major=False, minor=False, patch=False, tag=None, tag_num=False, pin_increments=False, pin_date=True)
    for old_c, pat_c, tag_c in [("1.0.0b0", "MAJOR.MINOR.PATCH[PYTAGNUM]", "dev"), ("1.0.0a1", "MAJOR.MINOR.PATCH[PYTAGNUM]", "dev"),
                                ("1.0.0rc2", "MAJOR.MINOR.PATCH[PYTAGNUM]", "beta"), ("1.0.0rc2", "MAJOR.MINOR.PATCH[PYTAGNUM]", "final"),
                                ("1.0.0", "MAJOR.MINOR.PATCH[PYTAGNUM]", "post"), ("1.0.0post0", "MAJOR.MINOR.PATCH[PYTAGNUM]", "dev"),
                                ("1.0.0dev0", "MAJOR.MINOR.PATCH[PYTAGNUM]", "alpha"), ("1.0.0-beta", "MAJOR.MINOR.PATCH[-TAG]", "alpha"),
                                ("1.0.0-rc", "MAJOR.MINOR.PATCH[-TAG]", "dev"), ("1.0.0", "MAJOR.MINOR.PATCH[-TAG]", "rc"),
                                # alternate spellings: preview == rc, so rc0 is below preview5
                                ("1.0.0-preview5", "MAJOR.MINOR.PATCH[-TAGNUM]", "rc"), ("1.0.0-preview", "MAJOR.MINOR.PATCH[-TAG]", "rc"),
                                ("1.0.0-preview2", "MAJOR.MINOR.PATCH[-TAGNUM]", "beta"), ("1.0.0-preview2", "MAJOR.MINOR.PATCH[-TAGNUM]", "post")]:
        fl_c = dict(F0, tag=tag_c)
        args = ["test", old_c, pat_c] + c05.flag_args(fl_c, None)
        code, out, exc = impl.run_cli(args)
        rep.case(("corpus", old_c, pat_c, tag_c), nontrivial=code == 0)
        oracle(rep, impl, args, old_c, pat_c, code, out, exc)
        new = impl.parse_new_version(out) if code == 0 else None
        pep = impl.parse_pep440_line(out) if code == 0 else None
        exp = "(Exit0 %s %s)" % (cs(new), cs(pep if pep is not None else new)) if code == 0 and new is not None else "ExitErr"
        items.append("(%s,%s,%s,None,None,%s)" % (cs(old_c), cs(pat_c), v2gen.cflags(fl_c), exp))
        meta.append(dict(args=args, exit=code, new=new, exc=repr(exc) if exc else None))
    for i in range(n):
        pat, info, v, d, old, fl, nd = c05.gen_case(r, impl)
        if not old:
            continue
        cases = [(None, "increment")] + set_targets(r, impl, old, pat, v, d)
        for setv, kind in cases:
            use_fl = fl if setv is None or r.random() < 0.3 else v2gen.gen_flags(common.rng(0, "none")) if False else fl
            date_arg = None if use_fl["pin_date"] else nd.isoformat()
            args = ["test", old, pat] + c05.flag_args(use_fl, date_arg)
            if setv is not None:
                args += ["--set-version", setv]
            code, out, exc = impl.run_cli(args)
            rep.case((old, pat, kind, setv, str(sorted(use_fl.items()))), nontrivial=code == 0)
            rep.count("kind=%s:%s" % (kind, "exit0" if code == 0 else "nonzero"))
            oracle(rep, impl, args, old, pat, code, out, exc)
            if code == 0 and kind.startswith("must-reject"):
                rep.violation("--set-version %r (%s) is accepted: it does not match the pattern %r in full" % (setv, kind.split(":")[1], pat), input=dict(args=args, out=out), **{"class": "not-full-match"})
            new = impl.parse_new_version(out) if code == 0 else None
            pep = impl.parse_pep440_line(out) if code == 0 else None
            exp = "(Exit0 %s %s)" % (cs(new), cs(pep if pep is not None else new)) if code == 0 and new is not None else "ExitErr"
            cdate = "None" if date_arg is None else "(Some (Some %s))" % cz(v2gen.ordinal(nd))
            items.append("(%s,%s,%s,%s,%s,%s)" % (cs(old), cs(pat), v2gen.cflags(use_fl), cdate, cos(setv), exp))
            meta.append(dict(args=args, exit=code, new=new, exc=repr(exc) if exc else None))
            if code == 0 and kind != "increment":
                rep.sample(dict(args=" ".join(args), new=new, kind=kind))
    update_runs(rep, impl, r, tier, effort)
    vcs_tag_runs(rep, impl, common.rng(seed, "c01-vcs"), tier, effort)
    if model_ok:
        # What C01's theorems need from the tie: with --set-version (no increment rules involved) the whole command; on the
        # increment path the GATE -- whenever the implementation exits 0, the model's gate accepts the announced version as a
        # full match that is strictly greater, and the PEP 440 line is the model's normal form.  WHICH version the increment rules
        # produce is C05's subject and is compared there in full.
        chk = ("fun '(o, p, fl, d, sv, e) => match sv with "
               "| Some _ => eqb_cli_res (test_cmd_v2 (%s) o p fl d sv) e "
               "| None => match e with "
               "  | Exit0 new pep => match is_valid_version_v2 (%s) p o new with GateOk => eqb_str (to_pep440 new) pep | _ => false end "
               "  | ExitErr => true end end" % (cz(today), cz(today)))
        bad, errs = common.coq_eval("c01", HDR, "list N * list N * flags * option (option Z) * option (list N) * cli_res", chk, items, shard=100)
        for i in bad:
            rep.mismatch("bumpver test: model differs from implementation (gate / --set-version path)", input=meta[i])
        rep.corr_errors += errs


def update_runs(rep, impl, r, tier, effort):
    """`update` (dry and real, increment and --set-version) in temporary projects without VCS."""
    from . import project
    from bumpver import version
    n = (40 if tier == "quick" else 600) * effort
    for i in range(n):
        pat, info, v, d, old, fl, nd = c05.gen_case(r, impl)
        if not old or not info["wf"] or " " in pat or "\n" in pat:
            continue
        with project.TempProject(version_pattern=pat, current_version=old, files={"a.txt": ["ver = {version}"]}) as prj:
            if prj.cfg_error(impl):
                rep.count("update-config-rejected")
                continue
            before = prj.snapshot()
            dry = r.random() < 0.4
            kind, setv = "increment", None
            if r.random() < 0.5:
                setv, kind = r.choice(set_targets(r, impl, old, pat, v, d))
            args = ["update", "--no-fetch"] + c05.flag_args(fl, None if fl["pin_date"] else nd.isoformat()) + (["--dry"] if dry else [])
            if setv is not None:
                args += ["--set-version", setv]
            code, out, logs, exc = prj.run(impl, args)
            after = prj.snapshot()
            rep.case(("update", old, pat, kind, setv, dry), nontrivial=code == 0)
            rep.count("update:%s:%s" % (kind, "exit0" if code == 0 else "nonzero"))
            inp = dict(args=args, pattern=pat, current_version=old, exit=code, logs=logs[-6:])
            if code == 0:
                new = next((l.split("New Version: ", 1)[1] for l in logs if "New Version: " in l), None)
                oldl = next((l.split("Old Version: ", 1)[1] for l in logs if "Old Version: " in l), None)
                if new is None:
                    rep.violation("update exit 0 without announcing a version", input=inp, **{"class": "no-announcement"})
                    continue
                try:
                    full = impl.v2patterns.compile_pattern(pat).regexp.fullmatch(new) is not None
                except Exception:
                    full = False
                if not full:
                    rep.violation("update: announced version does not match the pattern in full", input=inp, **{"class": "not-full-match"})
                elif not (version.parse_version(new) > version.parse_version(oldl or old)):
                    rep.violation("update: announced version is not strictly greater", input=inp, **{"class": "not-greater"})
                if dry and after != before:
                    rep.violation("update --dry changed files", input=inp, **{"class": "dry-wrote"})
            else:
                if after != before:
                    rep.violation("update exited non-zero but changed project files", input=inp, **{"class": "failed-but-wrote"})


def vcs_tag_runs(rep, impl, r, tier, effort):
    """`update` where the version to start from comes from VCS tags (fake git): whatever happens to the fetch, an exit 0 must
    announce a version greater than the config value AND than the newest matching tag in scope; otherwise nothing may change."""
    import packaging.version as pv
    from . import project
    scen = []
    for fetch in ("--no-fetch", "--fetch"):
        for fail in ([], ["fetch"]):
            if fail and fetch == "--no-fetch":
                continue
            for cfgv, tags in (("1.0.0", ["1.0.5", "0.9.0"]), ("1.0.0", ["1.0.0", "0.2.0"]), ("2.0.0", ["1.9.9"]), ("1.9.0", ["1.10.0", "1.9.0"])):
                for extra in ([], ["--set-version", "1.0.3"], ["--set-version", "9.0.0"], ["--dry"]):
                    scen.append((fetch, fail, cfgv, tags, extra))
    r.shuffle(scen)
    scen = [(f_, fl_, c_, t_, e_, "MAJOR.MINOR.PATCH", None) for f_, fl_, c_, t_, e_ in scen]
    # tags in a non-canonical spelling of the pattern (created by bumpver itself through --set-version 1.2.0) are versions like any other
    for scope in ("global", "default"):
        scen.append(("--no-fetch", [], "1.1", ["1.2.0", "1.1"], ["--minor-only"], "MAJOR.MINOR[.PATCH]", scope))
        scen.append(("--no-fetch", [], "1.2.2", ["1.2.3rc", "1.2.2"], [], "MAJOR.MINOR.PATCH[PYTAG[NUM]]", scope))
    # a pre-release tag and the final tag of the same release numbers, the config still at the pre-release: a tag-only bump must end up above the final tag
    for only in ("--tagnum-only", "--tagfinal-only"):
        scen.append(("--no-fetch", [], "1.0.0rc0", ["1.0.0rc0", "1.0.0"], [only], "MAJOR.MINOR.PATCH[PYTAGNUM]", "default"))
        scen.append(("--no-fetch", [], "1.0.0-rc", ["1.0.0-rc", "1.0.0", "1.0.0-beta"], [only], "MAJOR.MINOR.PATCH[-TAG]", "global"))
    for fetch, fail, cfgv, tags, extra, vpat, scope in scen:
        bump = ["--minor"] if "--minor-only" in extra else ["--tag-num"] if "--tagnum-only" in extra else ["--tag", "final"] if "--tagfinal-only" in extra else ["--patch"]
        extra = [x for x in extra if x not in ("--minor-only", "--tagnum-only", "--tagfinal-only")]
        prj = project.TempProject(vpat, cfgv, files={"a.txt": ["ver = {version}"]}, commit=True, tag=True, push=False, vcs="fakegit", tag_scope=scope,
                                  git_file=(len(scen) + len(extra) + len(fail) + len(tags)) % 2 == 0,   # half of them laid out like a linked worktree (.git is a file)
                                  vcs_cfg=dict(tags=list(tags), status="", remote="origin", fail=list(fail), usable=True))
        with prj:
            before = prj.snapshot()
            args = ["update", fetch] + (extra if "--set-version" in extra else bump + extra)
            code, out, logs, exc = prj.run(impl, args)
            after = prj.snapshot()
            new = next((l.split("New Version: ", 1)[1] for l in logs if "New Version: " in l), None)
        start = max([pv.Version(cfgv)] + [pv.Version(t) for t in tags])
        rep.case(("vcs-tags", fetch, tuple(fail), cfgv, tuple(tags), tuple(extra), vpat, scope), nontrivial=code == 0)
        rep.count("vcs-tag-runs:%s" % ("exit0" if code == 0 else "nonzero"))
        inp = dict(args=args, version_pattern=vpat, tag_scope=scope, config_version=cfgv, tags=tags, failing_vcs_commands=fail, exit=code, new=new, logs=logs[-5:])
        if code == 0:
            if new is None or not (pv.Version(new) > start):
                rep.violation("update exits 0 with %s, not greater than the version it had to start from (%s: config %s, tags %s)" % (new, start, cfgv, tags),
                              input=inp, **{"class": "not-greater-than-tag"})
            if "--dry" in extra and after != before:
                rep.violation("update --dry changed files", input=inp, **{"class": "dry-wrote"})
        elif after != before:
            rep.violation("update exited non-zero but changed project files", input=inp, **{"class": "failed-but-wrote"})


def search(rep, tier, seed, effort=2):
    run(rep, tier, seed, model_ok=False, effort=effort)


def replay(payload):
    from . import impl
    inp = payload["violation"]["input"]
    args = inp["args"]
    if args[0] != "test":
        print("replay of update cases: see input", inp)
        return 1
    code, out, exc = impl.run_cli(args)
    rep = common.Report("C01")
    oracle(rep, impl, args, args[1], args[2], code, out, exc)
    print("replay C01:", " ".join(args), "->", code, out.strip())
    for v in rep.violations:
        print("  still failing:", v["what"])
    return 1 if rep.violations else 0
