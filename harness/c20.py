"""C20 — legacy {...} patterns render, read back and increase consistently."""
import datetime as dt, re
from . import common, v2gen, c05
from .common import cs, cos, cz, cb

LEVEL = "proof"
EXTRA_TARGETS = ["Model/CliAll"]
TRUSTED_BASE = [
    "Coq 8.16.1 kernel + vm_compute",
    "T1 translator: v1patterns.COMPOSITE_PART_PATTERNS / PART_PATTERNS / PATTERN_PART_FIELDS / FULL_PART_FORMATS, v1version.ID_FIELDS_BY_PART, the _normalized_pattern chain",
    "hand-written Gallina model Model/V1.v (compile incl. composite expansion, parse, format with a str.format subset, incr, dispatch) and Model/CliAll.v",
    "harness: compiled regex text, format, parse and `bumpver test` compared with the model inside Coq; round trip / growth checked on the implementation",
]
ASSUMPTIONS = ["week parts ({iso_week}, {us_week}) are not in the property's list of documented legacy parts and are not generated"]
HDR = "From BV Require Import Lib.Regex Lib.Calendar Model.V2 Model.Pep440 Model.Cli Model.V1 Model.CliAll."

PATTERNS = ["{pycalver}", "{semver}", "v{semver}", "v{year}{month}{build}{release}", "{year}{month}{build}{release}", "v{year}{build}{release}",
            "{year}{build}{release}", "{year}.{month}.{dom}", "{year}.{month_short}.{dom_short}-{MAJOR}", "{year}q{quarter}.{build_no}",
            "{year}.{doy}.{PATCH}", "{yy}.{month}.{MINOR}", "{MAJOR}.{MM}.{PPP}", "{year}.{BBBB}{release}", "{calver}{build}{release}",
            "{year}.{month}.{dom}.{build_no}{release}", "v{yyyy}.{month}{build}", "{MAJOR}.{MINOR}.{PATCH}-{release_tag}", "rel-{pycalver}!",
            "{year}.{doy_short}.{BID}", "v{year}.{build_no}.{month_short}", "{MAJOR}.{month}.{dom_short}", "{year}.{BID}.{month_short}.{dom_short}"]
TAGS = ["final", "alpha", "beta", "rc", "dev", "post"]


def cv1(v):
    from .v2gen import coz
    return "(mkv1 %s %s %s %s %s %s %s %s %s %s %s %s)" % (coz(v.year), coz(v.quarter), coz(v.month), coz(v.dom), coz(v.doy), coz(v.iso_week),
                                                          coz(v.us_week), cz(v.major), cz(v.minor), cz(v.patch), cs(v.bid), cs(v.tag))


def gen_state(r, impl):
    from bumpver import version
    d = dt.date(2000, 1, 1) + dt.timedelta(days=r.randrange(0, 36524))
    if r.random() < 0.2:
        d = dt.date(r.choice([2000, 2016, 2020, 2099]), *r.choice([(1, 1), (12, 31), (2, 28), (3, 1), (12, 30)]))
    c = impl.v1version.cal_info(d)
    return version.V1VersionInfo(*c, major=r.choice([0, 1, 9, 10, 99, 100]), minor=r.choice([0, 2, 9, 10, 123]), patch=r.choice([0, 3, 99, 1000]),
                                 bid=r.choice(["1001", "0033", "1999", "22000", "0999", "9998", "10000", "0001"]), tag=r.choice(TAGS)), d


def impl_parse(impl, s, p):
    from bumpver import version
    try:
        return ("ok", impl.v1version.parse_version_info(s, p))
    except version.PatternError:
        return "PatternError"
    except ValueError:
        return "ValueError"
    except Exception:
        return "crash"


def cpres(res):
    if isinstance(res, tuple):
        return "(POk %s)" % cv1(res[1])
    return {"PatternError": "PErr", "ValueError": "PValueErr", "crash": "PCrash"}[res]


def run(rep, tier, seed, model_ok=True, effort=1):
    from . import impl
    from bumpver import version, v1patterns, cli
    r = common.rng(seed, "c20")
    n = (500 if tier == "quick" else 30000) * effort
    rep.rule = ("documented legacy composites and part combinations x dates 2000..2099 x build ids x tags: render -> read back -> re-render on the "
                "implementation, `bumpver test` (result strictly greater under PEP 440, for {pycalver} also as a plain string), chains of bumps, "
                "engine dispatch consistency between incr_dispatch / _is_valid_version / config; `update` on projects whose files carry {version} and the derived {pep440_version} / {pep440_pycalver} form for the six mapped version patterns; config loader: glob entry + extra entry for one of its files, then a second project in the same process; compile, format, parse and `test` compared with the "
                "Coq model; non-trivial = distinct (pattern, rendered version) that reads back")
    today = v2gen.ordinal(impl.PINNED_TODAY)
    comp_items, comp_meta, fmt_items, fmt_meta, parse_items, parse_meta, cli_items, cli_meta = [], [], [], [], [], [], [], []
    for p in PATTERNS + ["{pep440_pycalver}", "{version}", "{pep440_version}", "x{year}.{month}[y]"]:
        try:
            rx = v1patterns.compile_pattern(p).regexp.pattern
        except Exception:
            rx = None
        comp_items.append("(%s,%s)" % (cs(p), cos(rx)))
        comp_meta.append(p)
        # dispatch consistency
        v1_parts = list(v1patterns.PART_PATTERNS) + list(v1patterns.FULL_PART_FORMATS)
        has_v1 = any("{" + part + "}" in p for part in v1_parts)
        is_new = "{" not in p and "}" not in p
        rep.case(("dispatch", p))
        if has_v1 == is_new:
            rep.violation("engine dispatch is inconsistent for a documented legacy pattern", input=dict(pattern=p, incr_uses_v1=has_v1, gate_uses_v2=is_new), **{"class": "dispatch"})
    for i in range(n):
        pat = r.choice(PATTERNS)
        v, d = gen_state(r, impl)
        if "{B" in pat and v.bid.startswith("0"):
            v = v._replace(bid=r.choice(["1001", "1999", "22000", "9998", "10000"]))   # {BID}/{BBBB} ids never carry leading zeros
        try:
            s = impl.v1version.format_version(v, pat)
        except Exception:
            s = None
        fmt_items.append("(%s,%s,%s)" % (cv1(v), cs(pat), cos(s)))
        fmt_meta.append((pat, v, s))
        rep.count("pattern=" + pat[:14])
        if s is None:
            rep.case((pat, None), nontrivial=False)
            continue
        res = impl_parse(impl, s, pat)
        rep.case((pat, s), nontrivial=isinstance(res, tuple))
        inp = dict(pattern=pat, rendered=s, state={k: x for k, x in v._asdict().items()})
        if not isinstance(res, tuple):
            cls = "v1-doy-short" if ("{doy_short}" in pat and v.doy is not None and v.doy < 100) else "v1-rendered-rejected"
            rep.violation("rendered legacy version is not accepted by its own pattern (%s)" % res, input=inp, **{"class": cls})
        else:
            v2 = res[1]
            try:
                s2 = impl.v1version.format_version(v2, pat)
            except Exception as ex:
                s2 = "<%s>" % type(ex).__name__
            if s2 != s and not s2.startswith("<"):
                rep.violation("legacy version re-renders differently after reading back: %r" % s2, input=inp, **{"class": "v1-rerender-differs"})
            # read back with the same parts: a year part (four or two digits) denotes the year it was rendered from (dates are 2000..2099)
            if any(x in pat for x in ("{year}", "{yy}", "{yyyy}", "{pycalver}", "{calver}")) and v2.year is not None and v2.year != v.year:
                rep.violation("legacy version reads back with year %s, it was rendered from %s" % (v2.year, v.year), input=inp, **{"class": "v1-parts-differ"})
        for cand in [s] + ([s + r.choice([".5", "x", "-"])] if r.random() < 0.3 else []) + ([s[:-1]] if r.random() < 0.2 else []):
            pr = impl_parse(impl, cand, pat)
            parse_items.append("(%s,%s,%s)" % (cs(cand), cs(pat), cpres(pr)))
            parse_meta.append((cand, pat))
        # bump through the CLI
        if isinstance(res, tuple) and r.random() < 0.6:
            fl = v2gen.gen_flags(r)
            if r.random() < 0.15:
                fl = dict(major=False, minor=False, patch=False, tag=None, tag_num=False, pin_increments=False, pin_date=True)   # --pin-date alone
            fl["tag_num"] = fl["tag_num"] and r.random() < 0.2
            fl["pin_increments"] = False
            nd = d + dt.timedelta(days=r.choice([0, 1, 31, 400, -5, 3000]))
            past_only = False
            if not fl["pin_date"] and r.random() < 0.2:
                # the bump date lies before the version's own date (clock set back, pre-dated version): the calendar parts stay, the build id moves
                fl = dict(major=False, minor=False, patch=False, tag=None, tag_num=False, pin_increments=False, pin_date=False)
                nd = d - dt.timedelta(days=r.choice([1, 5, 40, 100, 200]))
                past_only = nd >= dt.date(2000, 1, 1)
            date_arg = None if fl["pin_date"] else nd.isoformat()
            args = ["test", s, pat] + c05.flag_args(fl, date_arg)
            setv = None
            if r.random() < 0.2:
                setv = r.choice([s, s + ".5", "garbage"])
                args += ["--set-version", setv]
            code, out, exc = impl.run_cli(args)
            new = impl.parse_new_version(out) if code == 0 else None
            pep = impl.parse_pep440_line(out) if code == 0 else None
            rep.count("test-exit=%s" % ("0" if code == 0 else "nonzero"))
            # with --pin-date and no other flag only the build id moves: the expected text is known independently
            only_pin = fl["pin_date"] and not any(fl[k] for k in ("major", "minor", "patch", "tag_num")) and fl["tag"] is None and setv is None
            if only_pin and any(x in pat for x in ("{pycalver}", "{build", "{bid}", "{BID}", "{B")):
                import lexid
                try:
                    want = impl.v1version.format_version(v._replace(bid=lexid.next_id(v.bid)), pat)
                except Exception:
                    want = None
                if want is not None and want != s and (code != 0 or new != want):
                    rep.violation("--pin-date bump of a legacy version gives %r (exit %s), expected only the build id to move: %r" % (new, code, want),
                                  input=dict(args=args, new=new, want=want), **{"class": "v1-pin-date"})
            if past_only and setv is None and any(x in pat for x in ("{pycalver}", "{build", "{bid}", "{BID}", "{B")):
                rep.count("past-date-bumps")
                import lexid
                try:
                    want = impl.v1version.format_version(v._replace(bid=lexid.next_id(v.bid)), pat)
                except Exception:
                    want = None
                if want is not None and want != s and (code != 0 or new != want):
                    rep.violation("bump of a legacy version on a date before its own date gives %r (exit %s), expected the calendar parts to stay and the build id to move: %r" % (new, code, want),
                                  input=dict(args=args, new=new, want=want), **{"class": "v1-past-date"})
            if code == 0 and new:
                if not (version.parse_version(new) > version.parse_version(s)):
                    rep.violation("legacy bump is not strictly greater", input=dict(args=args, new=new), **{"class": "v1-not-greater"})
                if pat == "{pycalver}" and not (new > s):
                    rep.violation("{pycalver} bump is not greater as a plain string", input=dict(args=args, new=new), **{"class": "v1-not-greater-str"})
                if not isinstance(impl_parse(impl, new, pat), tuple):
                    rep.violation("legacy bump result is not accepted by its pattern", input=dict(args=args, new=new), **{"class": "v1-new-rejected"})
                rep.sample(dict(args=" ".join(args), new=new))
            cdate = "None" if date_arg is None else "(Some (Some %s))" % cz(v2gen.ordinal(nd))
            exp = "(Exit0 %s %s)" % (cs(new), cs(pep if pep is not None else new)) if code == 0 and new is not None else "ExitErr"
            cli_items.append("(%s,%s,%s,%s,%s,%s)" % (cs(s), cs(pat), v2gen.cflags(fl), cdate, cos(setv), exp))
            cli_meta.append(dict(args=args, exit=code, new=new))
    # the legacy engine also serves `show`, in all its output forms, for legacy configurations
    from . import project
    for vp_, cur_ in (("{pycalver}", "v202001.0042-beta"), ("{semver}", "1.2.3"), ("v{year}{month}{build}{release}", "v202001.0042-beta"), ("{year}.{build_no}", "2020.0042")):
        prj_ = project.TempProject(vp_, cur_, files={})
        with prj_:
            for flags_ in ([], ["--environ"], ["-e"]):
                c_, o_, l_, e_ = prj_.run(impl, ["show", "--no-fetch"] + flags_)
                rep.case(("show-dispatch", vp_, tuple(flags_)), nontrivial=c_ == 0)
                shown = ("Current Version: %s" % cur_) in o_ or ("CURRENT_VERSION=%s" % cur_) in o_
                if (c_ != 0 or not shown) and flags_ != ["-e"]:
                    rep.violation("`bumpver show %s` fails / does not show the version of a legacy configuration (engine dispatch)" % " ".join(flags_),
                                  input=dict(version_pattern=vp_, current_version=cur_, args=["show", "--no-fetch"] + flags_, exit=c_, out=(o_ + "\n".join(l_))[-300:]), **{"class": "show-environ-legacy"})
    # corpus: the bump date lies before the version's own date, for parts that are compared only through derived fields (quarter without month)
    import lexid
    for pat, d_old, d_new in [("{year}q{quarter}.{build_no}", dt.date(2026, 11, 15), dt.date(2026, 2, 10)), ("{year}q{quarter}.{build_no}", dt.date(2026, 6, 30), dt.date(2026, 3, 31)),
                              ("{year}.{month}.{dom}.{build_no}{release}", dt.date(2026, 3, 20), dt.date(2026, 3, 5)), ("{year}{build}{release}", dt.date(2027, 1, 1), dt.date(2026, 12, 31)),
                              ("{pycalver}", dt.date(2026, 12, 1), dt.date(2026, 1, 15)), ("{year}.{doy}.{PATCH}", dt.date(2026, 12, 31), dt.date(2026, 1, 1))]:
        ci = impl.v1version.cal_info(d_old)
        v0 = impl.v1version.parse_version_info("v201701.0042-beta", "{pycalver}")._replace(**ci._asdict())
        try:
            old_s = impl.v1version.format_version(v0, pat)
            want = impl.v1version.format_version(v0._replace(bid=lexid.next_id(v0.bid)), pat)
        except Exception:
            continue
        args = ["test", old_s, pat, "--date", d_new.isoformat()]
        code, out, exc = impl.run_cli(args)
        new = impl.parse_new_version(out) if code == 0 else None
        rep.case(("past-date-corpus", pat, str(d_old), str(d_new)), nontrivial=code == 0)
        if want == old_s:
            # no build part: nothing can move, the bump must be refused
            if code == 0:
                rep.violation("legacy bump on an earlier date announced %r although nothing may change" % new, input=dict(args=args, new=new), **{"class": "v1-past-date"})
        elif code != 0 or new != want:
            rep.violation("bump of a legacy version on a date before its own date gives %r (exit %s), expected the calendar parts to stay and the build id to move: %r" % (new, code, want),
                          input=dict(args=args, new=new, want=want), **{"class": "v1-past-date"})
    # derived search patterns: a file that carries the PEP 440 form of the version under {pep440_version} / {pep440_pycalver},
    # for every version pattern the legacy engine maps ({pycalver}, {semver}, the four {year}[{month}]{build}{release} forms)
    loader_stream(rep, impl)
    same_month_stream(rep, impl)
    derived_stream(rep, impl, r, (4 if tier == "quick" else 40) * effort)
    # chains for {pycalver}
    for start, steps in (("v202001.0999", 60), ("v201712.0001-beta", 40), ("v209912.9997", 8)):
        cur = start
        for k in range(steps if tier == "quick" else steps * 16):
            try:
                new = impl.v1version.incr(cur, "{pycalver}", maybe_date=dt.date(2020, 1, 1) + dt.timedelta(days=40 * k))
            except OverflowError:
                new = None   # the documented maximum of the build id (all digits 9)
            rep.case(("chain", start, k), nontrivial=new is not None)
            if new is None:
                break
            if not (version.parse_version(new) > version.parse_version(cur) and new > cur):
                rep.violation("{pycalver} chain does not grow", input=dict(old=cur, new=new), **{"class": "v1-chain"})
                break
            cur = new
        rep.count("chain-steps", k)
    if model_ok:
        bad, errs = common.coq_eval("c20comp", HDR, "list N * option (list N)",
                                    "fun '(p, e) => match e with Some x => eqb_str (v1_compile_str (v1_normalize p p)) x | None => true end", comp_items, shard=40)
        for i in bad:
            rep.mismatch("legacy compile: model regex text differs from implementation", input=dict(pattern=comp_meta[i]))
        rep.corr_errors += errs
        bad, errs = common.coq_eval("c20fmt", HDR, "v1info * list N * option (list N)", "fun '(v, p, e) => eqb_ostr (v1_format_version v p) e", fmt_items, shard=300)
        for i in bad:
            rep.mismatch("legacy format_version: model differs from implementation", input=dict(pattern=fmt_meta[i][0], state=fmt_meta[i][1]._asdict(), impl=fmt_meta[i][2]))
        rep.corr_errors += errs
        eqv = ("fun a b => match a, b with POk x, POk y => forallb (fun f => eqb_fval (v1_get x f) (v1_get y f)) "
               "[n1_year; n_quarter; n_month; n_dom; n_doy; n1_iso_week; n1_us_week; n_major; n_minor; n_patch; n_bid; n_tag] "
               "| PErr, PErr | PValueErr, PValueErr | PCrash, PCrash => true | _, _ => false end")
        bad, errs = common.coq_eval("c20parse", HDR, "list N * list N * pres v1info",
                                    "fun '(s, p, e) => (%s) (v1_parse_version_info s p) e" % eqv, parse_items, shard=150)
        for i in bad:
            rep.mismatch("legacy parse_version_info: model differs from implementation", input=dict(version=parse_meta[i][0], pattern=parse_meta[i][1]))
        rep.corr_errors += errs
        bad, errs = common.coq_eval("c20cli", HDR, "list N * list N * flags * option (option Z) * option (list N) * cli_res",
                                    "fun '(o, p, fl, d, sv, e) => eqb_cli_res (test_cmd (%s) o p fl d sv) e" % cz(today), cli_items, shard=80)
        for i in bad:
            rep.mismatch("bumpver test (legacy): model differs from implementation", input=cli_meta[i])
        rep.corr_errors += errs


MAPPED = ["{pycalver}", "{semver}", "v{year}{month}{build}{release}", "{year}{month}{build}{release}", "v{year}{build}{release}", "{year}{build}{release}"]


def loader_stream(rep, impl):
    """the config loader gives every file of a legacy project exactly the patterns configured for it: a glob entry plus an extra entry for one
    of its files, then a second project with the same patterns in the same process (the same layouts are checked for the new engine in C03/C04)"""
    from . import project
    for vp, cur, flag, new in (("{semver}", "1.2.3", "--patch", "1.2.4"), ("{pycalver}", "v202001.1001-beta", "--date=2020-03-05", "v202003.1002-beta")):
        pep_cur = impl.bv_version.to_pep440(cur)
        hist = "installed with demo==%s at the time   <- historical line, not configured for this file\n" % pep_cur
        for round_ in (1, 2):
            entries = [("src/*.py", ['__version__ = "{version}"'])] + ([("src/a.py", ["demo=={pep440_version}"])] if round_ == 1 else [])
            contents = {"src/a.py": '__version__ = "%s"\n# pip install demo==%s\n' % (cur, pep_cur), "src/b.py": '__version__ = "%s"\n# %s' % (cur, hist)}
            prj = project.TempProject(vp, cur, files=dict(entries), contents=contents)
            with prj:
                code, out, logs, exc = prj.run(impl, ["update", "--no-fetch", flag])
                after = prj.snapshot()
            rep.case(("loader", vp, round_), nontrivial=code == 0)
            rep.count("loader-glob-plus-entry")
            got_b = after.get("src/b.py", b"").decode("utf-8")
            inp = dict(version_pattern=vp, current_version=cur, entries=entries, round=round_, args=["update", "--no-fetch", flag], exit=code, logs=logs[-3:], b_py_after=got_b)
            if code != 0:
                rep.violation("update fails on a legacy project with a glob entry%s" % (" and an extra entry for one of its files" if round_ == 1 else " (second project in the same process)"), input=inp, **{"class": "v1-loader"})
            elif got_b != '__version__ = "%s"\n# %s' % (new, hist):
                rep.violation("a file of a legacy project was rewritten with a pattern that is not configured for it", input=inp, **{"class": "v1-loader"})


def same_month_stream(rep, impl):
    """a legacy project with a file pattern that shows calendar parts only (a badge): several updates within one month -- the pattern's text does not
    change, it is found all the same, every update succeeds and moves the version on"""
    from . import project
    for vp, cur, badge, text in (("{pycalver}", "v202404.1001-beta", "CalVer-{year}{month}-blue", "CalVer-202404-blue"), ("{year}.{build_no}", "2024.1001", "(c) {year} demo", "(c) 2024 demo")):
        prj = project.TempProject(vp, cur, files={"README.md": [badge, "release {version}"]}, contents={"README.md": "%s\nrelease %s\n" % (text, cur)})
        with prj:
            seen = [cur]
            for step in range(3):
                code, out, logs, exc = prj.run(impl, ["update", "--no-fetch", "--date", "2024-05-10"])
                new = next((l.split("New Version: ", 1)[1].strip() for l in logs if "New Version: " in l), None)
                got = open(prj.path("README.md")).read()
                rep.case(("same-month", vp, step), nontrivial=code == 0)
                rep.count("same-month-updates")
                inp = dict(version_pattern=vp, start=cur, file_patterns=[badge, "release {version}"], step=step + 1, args=["update", "--no-fetch", "--date", "2024-05-10"], exit=code, versions=seen, logs=logs[-3:], file=got)
                if code != 0 or new is None:
                    rep.violation("update %d of a legacy project fails although every file pattern occurs (one of them shows calendar parts only and does not change)" % (step + 1), input=inp, **{"class": "v1-unchanged-pattern"})
                    break
                if ("release %s\n" % new) not in got:
                    rep.violation("the file does not carry the announced version after update %d" % (step + 1), input=inp, **{"class": "v1-unchanged-pattern"})
                    break
                seen.append(new)


def derived_stream(rep, impl, r, rounds):
    import packaging.version as pv
    from . import project
    for _ in range(rounds):
        for vp in MAPPED:
            v, d = gen_state(r, impl)
            if v.bid.startswith("0"):
                v = v._replace(bid=r.choice(["1001", "1999", "22000", "9998"]))
            if vp == "{semver}":
                v = v._replace(tag="final")
            try:
                cur = impl.v1version.format_version(v, vp)
                # release numbers in PEP 440 form + the short tag with its number, spelled as the legacy engine does (no dot before post/dev;
                # no property asks for the normal form here, only for the same version)
                pep_cur = pv.Version(cur).base_version + {"final": "", "alpha": "a0", "beta": "b0", "rc": "rc0", "dev": "dev0", "post": "post0"}[v.tag]
                if pv.Version(pep_cur) != pv.Version(cur):
                    continue
            except Exception:
                continue
            derived = "{pep440_pycalver}" if (vp == "{pycalver}" and r.random() < 0.5) else "{pep440_version}"
            contents = {"setup.py": 'setup(\n    version="%s",\n)\n' % pep_cur, "a.txt": "release %s here\n" % cur}
            prj = project.TempProject(vp, cur, files={"setup.py": ['version="%s"' % derived], "a.txt": ["release {version} here"]}, contents=contents)
            nd = d + dt.timedelta(days=r.choice([0, 31, 45, 400]))
            args = ["update", "--no-fetch", "--date", nd.isoformat()] + (["--patch"] if vp == "{semver}" else [])
            with prj:
                code, out, logs, exc = prj.run(impl, args)
                new = next((l.split("New Version: ", 1)[1].strip() for l in logs if "New Version: " in l), None)
                after = prj.snapshot()
                # and once more from the files the first update wrote (what it wrote must be found again)
                args2 = ["update", "--no-fetch", "--date", (nd + dt.timedelta(days=40)).isoformat()] + (["--patch"] if vp == "{semver}" else [])
                code2, out2, logs2, exc2 = prj.run(impl, args2) if code == 0 else (None, "", [], None)
                new2 = next((l.split("New Version: ", 1)[1].strip() for l in logs2 if "New Version: " in l), None)
                after2 = prj.snapshot()
            import lexid
            try:
                lexid.next_id(lexid.next_id(v.bid))
                second_possible = True
            except OverflowError:
                second_possible = False      # the build id reaches its documented maximum (all nines)
            if code == 0 and new and (second_possible or "{semver}" in vp):
                got2 = after2.get("setup.py", b"").decode("utf-8")
                m2 = re.fullmatch(r'setup\(\n    version="([^"]*)",\n\)\n', got2)
                try:
                    ok2 = code2 == 0 and new2 and m2 is not None and pv.Version(m2.group(1)) == pv.Version(new2)
                except Exception:
                    ok2 = False
                if not ok2:
                    rep.violation("a second update does not find / rewrite what the first one wrote for the derived PEP 440 pattern", input=dict(version_pattern=vp, current_version=cur,
                                  file_pattern='version="%s"' % derived, first=dict(args=args, new=new), second=dict(args=args2, exit=code2, new=new2, logs=logs2[-3:]), file_after=got2), **{"class": "v1-derived-pattern"})
            rep.case(("derived", vp, cur, nd.isoformat()), nontrivial=code == 0)
            rep.count("derived-pattern-runs")
            inp = dict(version_pattern=vp, current_version=cur, file_pattern='version="%s"' % derived, file_text=contents["setup.py"], args=args, exit=code, logs=logs[-3:])
            if code != 0 or new is None:
                rep.violation("update fails on a legacy project whose setup.py carries the PEP 440 form of the version", input=inp, **{"class": "v1-derived-pattern"})
                continue
            got = after.get("setup.py", b"").decode("utf-8")
            m = re.fullmatch(r'setup\(\n    version="([^"]*)",\n\)\n', got)
            try:
                same = m is not None and pv.Version(m.group(1)) == pv.Version(new) and not m.group(1).startswith("v")
            except Exception:
                same = False
            if not same or after.get("a.txt", b"").decode("utf-8") != "release %s here\n" % new:
                rep.violation("after the update the file does not carry the PEP 440 form of the new version %s" % new, input=dict(inp, got=got), **{"class": "v1-derived-pattern"})


def search(rep, tier, seed, effort=2):
    run(rep, tier, seed, model_ok=False, effort=effort)


def replay(payload):
    from . import impl
    inp = payload["violation"]["input"]
    if "args" in inp:
        print("replay C20:", impl.run_cli(inp["args"]))
    return 1
