"""C07 — literal pattern text matches only itself."""
import itertools, re
from . import common
from .common import cs, cos, cn

LEVEL = "proof"
EXTRA_TARGETS = ["Model/V2"]
TRUSTED_BASE = [
    "Coq 8.16.1 kernel + vm_compute",
    "T1 translator: patterns.RE_PATTERN_ESCAPES and the part tables copied from /repo by ast",
    "hand-written Gallina model Model/V2.v (escape_pattern, replace_brackets, replace_pattern_parts) and the regex model Lib/Regex*.v",
    "harness: exact comparison of the compiled regex text and of search spans with the model inside Coq; CPython's own regex parser (re._parser) used to inspect the compiled pattern",
]
ASSUMPTIONS = ["literals range over printable ASCII without upper-case letters (so that no part name can occur), brackets only in escaped form"]

HDR = "From BV Require Import Lib.Regex Lib.RegexParse Model.V2."
ALPHA = [chr(c) for c in range(32, 127) if not ("A" <= chr(c) <= "Z") and chr(c) not in "[]"]
ATOMS = ALPHA + ["\\[", "\\]"]


def known_class(lit):
    """input classes of the recorded finding: characters that stay regex syntax"""
    body = lit
    if "^" in body[1:]:
        return "caret-not-leading"
    if "$" in body[:-1]:
        return "dollar-not-trailing"
    i = 0
    while i < len(body):
        if body[i] == "\\":
            if i + 1 < len(body) and body[i + 1] in "[]":
                i += 2
                continue
            return "backslash-not-before-bracket"
        i += 1
    return None


def literal_text(lit):
    """the text the pattern stands for: leading ^ / trailing $ are anchors, \\[ \\] are brackets"""
    anch_l = lit.startswith("^")
    anch_r = lit.endswith("$") and not lit.endswith("\\$")
    body = lit[1 if anch_l else 0: len(lit) - 1 if anch_r else len(lit)]
    return body.replace("\\[", "[").replace("\\]", "]"), anch_l, anch_r


def near_misses(r, text):
    out = []
    if len(text) >= 1:
        j = r.randrange(len(text))
        out.append(text[:j] + text[j + 1:])
        out.append(text[:j] + ("x" if text[j] != "x" else "y") + text[j + 1:])
        out.append(text[:j] + text[j] * 2 + text[j + 1:] if len(text) > 1 else text + "q")
    for ch in "|.?*+":
        if ch in text:
            a, b = text.split(ch, 1)
            out += [a, b, a + "X" + b, a + b]
    return [o for o in out if text not in o]


def found_text(pat, line):
    """what bumpver's own line matcher (parse.iter_matches, used by grep and update) reports for one line"""
    from bumpver import parse
    ms = list(parse.iter_matches([line], [pat]))
    return ms[0].match if ms else None


def placements(full, al, ar):
    """lines that contain the text: in the middle, at the very end, at the very start of the line"""
    out = [("" if al else "pre ") + full + ("" if ar else " post")]
    if not ar:
        out.append(("" if al else "pre ") + full)
    if not al:
        out.append(full + ("" if ar else " post"))
    return list(dict.fromkeys(out))


def case_flips(text):
    return [t for t in (text.upper(), text.title(), text.swapcase()) if t != text and text not in t]


def check_literal(rep, impl, r, lit, wrap=None):
    """wrap = (prefix part pattern, rendered prefix, suffix part pattern, rendered suffix) to test literals around real parts"""
    from bumpver import v2patterns
    kc = known_class(lit)
    pat = lit if wrap is None else wrap[0] + lit + wrap[2]
    text, al, ar = literal_text(lit)
    if wrap is not None:
        al = ar = False
    inp = dict(pattern=pat, literal=lit)
    try:
        pobj = v2patterns.compile_pattern(pat)
        rx = pobj.regexp
    except Exception as ex:
        rep.violation("pattern with literal text does not compile: %r" % ex, input=inp, **{"class": kc or "compile-error"})
        return None
    # only literal / anchor nodes in the compiled regex (for the literal-only case)
    if wrap is None:
        try:
            import re._parser as sp
        except ImportError:
            import sre_parse as sp
        ops = [str(op) for op, _ in sp.parse(rx.pattern)]
        bad = [o for o in ops if o not in ("LITERAL", "AT")]
        if bad:
            rep.violation("compiled regex contains non-literal nodes %s" % sorted(set(bad)), input=dict(inp, regex=rx.pattern), **{"class": kc or "non-literal-node"})
            return rx
        if rx.flags & (re.IGNORECASE | re.VERBOSE | re.DOTALL | re.MULTILINE):
            rep.violation("compiled regex carries flags that change what literal text means: %s" % re.RegexFlag(rx.flags), input=dict(inp, regex=rx.pattern), **{"class": kc or "regex-flags"})
            return rx
    full = text if wrap is None else wrap[1] + text + wrap[3]
    if not text and wrap is None:
        return rx
    for hay in placements(full, al, ar):
        got = found_text(pobj, hay)
        if got != full:
            rep.violation("pattern does not find its own literal text", input=dict(inp, line=hay, found=got), **{"class": kc or "self-not-found"})
            return rx
    for miss in near_misses(r, text) + case_flips(text) + ([text.strip()] if text.strip() != text and text.strip() else []):
        for l_, r_ in (("pre ", " post"), ("<", ">")):
            line = l_ + (miss if wrap is None else wrap[1] + miss + wrap[3]) + r_
            if full in line:
                continue
            got = found_text(pobj, line)
            if got:
                rep.violation("pattern matches a line that does not contain its literal text", input=dict(inp, line=line, found=got), **{"class": kc or "matches-other-text"})
                return rx
    return rx


def known_class_v1(lit):
    if "^" in lit[1:]:
        return "caret-not-leading"
    if "$" in lit[:-1]:
        return "dollar-not-trailing"
    return None


def check_literal_v1(rep, r, lit, wrap=False):
    """the legacy engine escapes every character of the shared table (brackets and backslash included): the text is the pattern itself"""
    from bumpver import v1patterns
    kc = known_class_v1(lit)
    al, ar = lit.startswith("^"), lit.endswith("$")
    text = lit[1 if al else 0: len(lit) - 1 if ar else len(lit)]
    pat = lit if not wrap else "{year}" + lit + "{build_no}"
    if wrap:
        al = ar = False
        text = lit
    inp = dict(engine="v1", pattern=pat, literal=lit)
    try:
        # alone, the literal is compiled the way `bumpver grep` / `test` do it (the text is its own version pattern) -- the very argument
        # tuple the v2 compiler has already seen in this process; between parts it is a file pattern of a {pycalver} project
        pobj = v1patterns.compile_pattern("{pycalver}", pat) if wrap else v1patterns.compile_pattern(pat)
    except Exception as ex:
        rep.violation("legacy pattern with literal text does not compile: %r" % ex, input=inp, **{"class": kc or "compile-error"})
        return
    if pobj.regexp.flags & (re.IGNORECASE | re.VERBOSE | re.DOTALL | re.MULTILINE):
        rep.violation("compiled legacy regex carries flags that change what literal text means: %s" % re.RegexFlag(pobj.regexp.flags), input=inp, **{"class": kc or "regex-flags"})
        return
    if not text:
        return
    full = text if not wrap else "2024" + text + "1001"
    for hay in placements(full, al, ar):
        got = found_text(pobj, hay)
        if got != full:
            rep.violation("legacy pattern does not find its own literal text", input=dict(inp, line=hay, found=got), **{"class": kc or "self-not-found"})
            return
    for miss in near_misses(r, text) + case_flips(text):
        line = "pre " + (miss if not wrap else "2024" + miss + "1001") + " post"
        if full in line:
            continue
        got = found_text(pobj, line)
        if got:
            rep.violation("legacy pattern matches a line that does not contain its literal text", input=dict(inp, line=line, found=got), **{"class": kc or "matches-other-text"})
            return


def run(rep, tier, seed, model_ok=True, effort=1):
    from . import impl
    r = common.rng(seed, "c07")
    rep.rule = ("literals over printable ASCII without upper case (brackets only as \\[ \\]): exhaustive up to length %d, seeded random up to length 40, "
                "alone and wrapped around real parts, for the v2 and the legacy engine; each compiled, inspected with CPython's regex parser (only LITERAL/AT nodes, no flags), searched through bumpver's line matcher (parse.iter_matches) in lines that carry the text in the middle / at the end / at the start, in lines with the text in another letter case, "
                "and in near-miss lines; compiled regex text and search spans compared with the Coq model; a sample through `bumpver grep`; "
                "non-trivial = distinct literal containing at least one regex metacharacter" % (2 if tier == "quick" else 3))
    maxlen = 2 if tier == "quick" else 3
    lits = [""]
    for n in range(1, maxlen + 1):
        if n < 3:
            lits += ["".join(t) for t in itertools.product(ATOMS, repeat=n)]
        else:
            # length 3: exhaustive over the alphabet restricted to metacharacters and two plain symbols (the rest is covered by symmetry of plain chars)
            meta = [a for a in ATOMS if not a.isalnum() or a in "a0"]
            lits += ["".join(t) for t in itertools.product(meta, repeat=3)]
    rep.exhaustive = True
    for _ in range((400 if tier == "quick" else 40000) * effort):
        n = r.choice([3, 4, 5, 8, 13, 21, 40])
        lits.append("".join(r.choice(ATOMS if r.random() < 0.5 else list("|.+*?(){}-^$\\ ab1") + ["\\[", "\\]"]) for _ in range(n)))
    # text that looks like an escape of some other layer (URL-encoded brackets, regex classes spelled out) is literal text too
    lits += ["%5b", "%5d", "a%5bb%5d", "badge/%5bcalver%5d-", "%5b%5d", "\\[%5b\\]", "[0-9]".replace("[", "\\[").replace("]", "\\]"), "(?:x)", "(?!a)"]
    comp_items, comp_meta, search_items, search_meta = [], [], [], []
    META = set("\\-.+*?{}()|^$")
    for lit in lits:
        rx = check_literal(rep, impl, r, lit)
        nontriv = any(c in META for c in lit)
        rep.case(lit, nontrivial=nontriv)
        rep.count("len=%d" % min(len(lit), 5))
        kc = known_class(lit)
        if kc:
            rep.count("known-class=" + kc)
        if rx is not None and (len(lit) <= 2 or r.random() < 0.05) and kc is None:
            comp_items.append("(%s,%s)" % (cs(lit), cs(rx.pattern)))
            comp_meta.append(lit)
            text = literal_text(lit)[0]
            for line in ["pre " + text + " post"] + ["pre " + m_ + " post" for m_ in near_misses(r, text)[:1]]:
                m = rx.search(line)
                span = "(Some (%d%%nat,%d%%nat))" % m.span() if m and m.group(0) else "None"
                search_items.append("(%s,%s,%s)" % (cs(lit), cs(line), span))
                search_meta.append((lit, line))
    # the legacy engine: the same literals (without braces, which are its part syntax), alone and between two legacy parts
    n_v1 = 0
    for lit in lits:
        if "{" in lit or "}" in lit or not lit:
            continue
        if len(lit) > 2 and r.random() < 0.5:
            continue
        check_literal_v1(rep, r, lit)
        rep.case(("v1", lit), nontrivial=any(c in META for c in lit))
        if not (lit[:1].isdigit() or lit[-1:].isdigit()) and lit[:1] != "^" and lit[-1:] != "$" and r.random() < 0.2:
            check_literal_v1(rep, r, lit, wrap=True)
        n_v1 += 1
    rep.count("legacy-engine-literals", n_v1)
    # literals wrapped around real parts
    wraps = [("vMAJOR", "v12", "MINOR", "34"), ("YYYY", "2024", "0M", "09"), ("BUILD", "1001", "TAG", "beta"), ("", "", "MAJOR.MINOR", "1.2"), ("PATCH", "7", "", ""),
             # literal text directly after a release tag / before one
             ("vYYYY.BUILD-TAG", "v2024.1001-beta", "", ""), ("MAJOR.MINOR-TAG", "1.2-rc", "PATCH", "7")]
    for _ in range((300 if tier == "quick" else 4000) * effort):
        n = r.choice([1, 1, 2, 3, 5])
        lit = "".join(r.choice(ATOMS) for _ in range(n))
        w = r.choice(wraps)
        # a digit adjacent to a numeric part, or an empty literal between parts, makes tokenisation ambiguous: outside the claim
        if lit[:1].isdigit() or lit[-1:].isdigit() or lit[-1:] == "0":
            continue
        if lit[:1] in "^" or lit[-1:] in "$":
            continue
        check_literal(rep, impl, r, lit, wrap=w)
        rep.case(("wrapped", w[0], lit, w[2]), nontrivial=any(c in META for c in lit))
        rep.count("wrapped")
    # literals in front of a real placeholder through `bumpver update` (TOML config -> normalisation -> compile -> line matcher -> rewrite):
    # the line carrying the literal text is rewritten, a near-miss line stays as it is
    from . import project
    nupd = (25 if tier == "quick" else 1500) * effort
    fixed = [(l_, c_) for l_ in ("100%", "a%20b", "50%%", "x|y", "(c)", "a.b*", "stable # note", "a ; b") for c_ in (False, True)]
    for k_ in range(nupd + len(fixed)):
        if k_ < len(fixed):
            lit, cfg_style = fixed[k_]
        else:
            lit = "".join(r.choice(ATOMS if r.random() < 0.5 else list("|.+*?(){}-^$ ab1#;=%\"'")) for _ in range(r.choice([1, 2, 3, 5, 8])))
            cfg_style = r.random() < 0.4      # the same through a setup.cfg (ini syntax: no quoting, no interpolation)
        # inside a longer pattern ^ and $ are the recorded finding; a comma, quote or backslash inside an array string trips the (third-party,
        # unmodelled) toml reader, not bumpver
        if known_class(lit) or lit[-1:].isdigit() or lit.strip() != lit or any(c in lit for c in "{}^$,\"'\\"):
            continue
        if cfg_style and (lit[:1] in "#;[" or "=" in lit or ":" in lit):
            continue   # ini syntax of its own: comment prefixes, key delimiters
        text = literal_text(lit)[0]
        miss = next((m_ for m_ in near_misses(r, text) + case_flips(text) if text not in m_ and m_.strip() == m_), None)
        pat = lit + " {version}"
        content = "head\n%s 1.2.3\n%s\ntail\n" % (text, ("%s 1.2.3" % miss) if miss else "filler")
        prj = project.TempProject("MAJOR.MINOR.PATCH", "1.2.3", files={"f.txt": [pat]}, contents={"f.txt": content}, fmt="setup.cfg" if cfg_style else "bumpver.toml")
        with prj:
            if prj.cfg_error(impl):
                rep.violation("configuration with a literal search pattern is rejected", input=dict(pattern=pat, config="setup.cfg" if cfg_style else "bumpver.toml", error=str(prj.cfg_error(impl))[:200]), **{"class": "compile-error"})
                continue
            code, out, logs, exc = prj.run(impl, ["update", "--no-fetch", "--patch"])
            got = prj.snapshot().get("f.txt", b"").decode("utf-8", "replace")
        want = "head\n%s 1.2.4\n%s\ntail\n" % (text, ("%s 1.2.3" % miss) if miss else "filler")
        rep.case(("update-literal", lit, cfg_style), nontrivial=any(c in META for c in lit))
        rep.count("update-literal-runs")
        if code != 0 or got != want:
            rep.violation("`bumpver update` with a literal search pattern: %s" % ("exit %s" % code if code != 0 else "the file is not rewritten exactly at the line carrying the literal text"),
                          input=dict(pattern=pat, literal=lit, config="setup.cfg" if cfg_style else "bumpver.toml", file_before=content, file_after=got, expected=want, logs=logs[-3:]), **{"class": "update-literal"})
    # setup.cfg: quote characters around a pattern are pattern text (the layout `bumpver init` writes): only the quoted occurrence is rewritten
    for q_ in ('"', "'"):
        pat = q_ + "{version}" + q_
        content = "version = %s1.2.3%s\n# see the notes for 1.2.3 (plain mention)\n" % (q_, q_)
        prj = project.TempProject("MAJOR.MINOR.PATCH", "1.2.3", files={"f.txt": [pat]}, contents={"f.txt": content}, fmt="setup.cfg", quote_cfg=False)
        with prj:
            err = prj.cfg_error(impl)
            code, out, logs, exc = prj.run(impl, ["update", "--no-fetch", "--patch"]) if not err else (1, "", [str(err)], None)
            got = prj.snapshot().get("f.txt", b"").decode("utf-8", "replace")
        want = "version = %s1.2.4%s\n# see the notes for 1.2.3 (plain mention)\n" % (q_, q_)
        rep.case(("cfg-quoted-pattern", q_), nontrivial=True)
        if code != 0 or got != want:
            rep.violation("setup.cfg pattern %s: the quote characters are not matched literally" % pat, input=dict(pattern=pat, file_before=content, file_after=got, expected=want, exit=code, logs=logs[-3:]),
                          **{"class": "update-literal"})
    # literal text in a pattern that uses one part twice (the second use gets its own group): the literal text stays mandatory -- lines that
    # lack it are left alone, whatever numbers they contain
    for vp, cur, raw, hit, new_hit, args_ in (
            ("YYYY.0M.0D", "2024.03.05", "released 0D.0M.YYYY as {version} (0D.0M.)", "released 05.03.2024 as 2024.03.05 (05.03.)", "released 06.04.2024 as 2024.04.06 (06.04.)", ["--date", "2024-04-06"]),
            ("vYYYY0M.BUILD[-TAG]", "v202403.1001-beta", "{version} (TAG) is TAG", "v202403.1001-beta (beta) is beta", "v202404.1002-beta (beta) is beta", ["--date", "2024-04-06"]),
            ("MAJOR.MINOR.PATCH", "1.2.3", "apiMAJOR/vMAJOR.MINOR.PATCH", "api1/v1.2.3", "api1/v1.2.4", ["--patch"])):
        decoys = ["see ticket 25 for details", "build took 12 minutes", "beta", "03", "2024", "1/v1"]
        content = "".join(d + "\n" for d in decoys[:3]) + hit + "\n" + "".join(d + "\n" for d in decoys[3:])
        prj = project.TempProject(vp, cur, files={"f.txt": [raw]}, contents={"f.txt": content})
        with prj:
            err = prj.cfg_error(impl)
            code, out, logs, exc = prj.run(impl, ["update", "--no-fetch"] + args_) if not err else (1, "", [str(err)], None)
            got = prj.snapshot().get("f.txt", b"").decode("utf-8", "replace")
        want = content.replace(hit, new_hit)
        rep.case(("repeated-part-literal", raw), nontrivial=True)
        rep.count("update-literal-runs")
        if code != 0 or got != want:
            rep.violation("pattern with a repeated part: %s" % ("exit %s" % code if code != 0 else "lines without the pattern's literal text were rewritten (or the line with it was not)"),
                          input=dict(version_pattern=vp, pattern=raw, file_before=content, file_after=got, expected=want, exit=code, logs=logs[-3:]), **{"class": "update-literal"})
    # an EMPTY search pattern is the empty literal: it finds nothing to rewrite (the update stops, nothing is written) -- it is not a wildcard
    # for "any version"
    for vp, cur in (("MAJOR.MINOR.PATCH", "1.2.3"), ("vYYYY0M.BUILD[-TAG]", "v202403.1001-beta")):
        content = "mentions %s twice: %s\n" % (cur, cur)
        prj = project.TempProject(vp, cur, files={"f.txt": [""]}, contents={"f.txt": content})
        with prj:
            before = prj.snapshot()
            err = prj.cfg_error(impl)
            code, out, logs, exc = prj.run(impl, ["update", "--no-fetch", "--patch"] if "PATCH" in vp else ["update", "--no-fetch"]) if not err else (1, "", [str(err)], None)
            after = prj.snapshot()
        rep.case(("empty-pattern", vp), nontrivial=True)
        if code == 0 or after != before:
            rep.violation("an empty search pattern acts as a pattern for the version (exit %s, files changed: %s)" % (code, after != before),
                          input=dict(version_pattern=vp, pattern="", file_before=content, file_after=after.get("f.txt", b"").decode("utf-8", "replace"), exit=code, logs=logs[-3:]), **{"class": "update-literal"})
    # a sample through the CLI
    import tempfile, os
    for lit in ["a|b", "x.y", "(1)+2", "c{2}", "q?", "a*b", "p-q", "\\[t\\]"]:
        text = literal_text(lit)[0]
        with tempfile.TemporaryDirectory() as d:
            f = os.path.join(d, "f.txt")
            open(f, "w").write("first\n%s here\nlast\n" % text)
            g = os.path.join(d, "g.txt")
            open(g, "w").write("first\n%s here\nlast\n" % text.replace(text[0], "z", 1))
            c1, o1, _ = impl.run_cli(["grep", lit, f])
            c2, o2, _ = impl.run_cli(["grep", lit, g])
            rep.case(("grep", lit))
            if c1 != 0 or (text + " here") not in o1:
                rep.violation("`bumpver grep` does not find the literal text", input=dict(pattern=lit, out=o1), **{"class": "grep-miss"})
            if c2 == 0:
                rep.violation("`bumpver grep` finds the pattern in a file that does not contain it", input=dict(pattern=lit, out=o2), **{"class": "grep-false-hit"})
    rep.sample(dict(literal="a|b", regex=impl.v2patterns.compile_pattern("a|b").regexp.pattern))
    rep.sample(dict(literal="(1)+\\[x\\]", regex=impl.v2patterns.compile_pattern("(1)+\\[x\\]").regexp.pattern))
    if model_ok:
        bad, errs = common.coq_eval("c07comp", HDR, "list N * list N", "fun '(p, e) => eqb_str (compile_pattern_str p) e", comp_items, shard=1500)
        for i in bad:
            rep.mismatch("compiled regex text: model differs from implementation", input=dict(literal=comp_meta[i]))
        rep.corr_errors += errs
        bad, errs = common.coq_eval("c07search", HDR, "list N * list N * option (nat * nat)",
                                    "fun '(p, l, e) => match compile_pattern_re p with Some r => match search_span r l, e with Some (a, b, _), Some (a', b') => Nat.eqb a a' && Nat.eqb b b' | None, None => true | Some (a, b, _), None => Nat.eqb a b | _, _ => false end | None => false end",
                                    search_items, shard=1500)
        for i in bad:
            rep.mismatch("search span: model differs from implementation", input=dict(literal=search_meta[i][0], line=search_meta[i][1]))
        rep.corr_errors += errs


def search(rep, tier, seed, effort=2):
    run(rep, tier, seed, model_ok=False, effort=effort)


def replay(payload):
    from . import impl
    inp = payload["violation"]["input"]
    rep = common.Report("C07")
    check_literal(rep, impl, common.rng(1, "replay"), inp["literal"])
    for v in rep.violations:
        print("still failing:", v["what"], v["input"])
    return 1 if rep.violations else 0
