"""Correspondence of the Gallina models of Python primitives (Lib/PyStr.v, Lib/Decimal.v, Model/Vcs.shlex_split,
Model/V1.str_format) with CPython itself, on seeded random inputs.  Used by the checks whose theorems rest on them."""
import shlex
from . import common
from .common import cs, cos

ALPH = list("ab.-x ") + ["\n", "\r", "\r\n", "\t", "'", '"', "\\", "é", "\x0b", "\x0c", "\x1c", "\x85", " ", "ab", "--", "  "]


def rstr(r, n=None):
    n = r.choice([0, 1, 2, 3, 5, 8, 13]) if n is None else n
    return "".join(r.choice(ALPH) for _ in range(n))


def pystr_stream(rep, r, n, model_ok=True):
    items, meta = [], []
    for _ in range(n):
        s = rstr(r)
        a = rstr(r, r.choice([1, 1, 2, 3]))
        b = rstr(r, r.choice([0, 1, 2]))
        if not a:
            continue
        chars = "".join(r.sample(["'", '"', " ", "a", "\n", "."], r.choice([1, 2, 3])))
        try:
            st = s.find(a)
        except Exception:
            st = -1
        exp = dict(replace=s.replace(a, b), split=s.split(a), lines=s.splitlines(), strip=s.strip(chars), find=st, count=s.count(a),
                   split1=s.split(a, 1), strip_ws=s.strip(" \t\n\x0b\x0c\r\x1c\x1d\x1e\x1f"), lower=s.lower() if s.isascii() else None, zfill=s.zfill(6) if s and s[0] not in "+-" else None)
        items.append("(%s,%s,%s,%s,(%s,[%s],[%s],%s),(%s,%d%%nat,[%s],%s))" % (
            cs(s), cs(a), cs(b), cs(chars), cs(exp["replace"]), ";".join(cs(x) for x in exp["split"]), ";".join(cs(x) for x in exp["lines"]), cs(exp["strip"]),
            ("None" if st < 0 else "(Some %d%%nat)" % st), exp["count"], ";".join(cs(x) for x in exp["split1"]), cs(exp["strip_ws"])))
        meta.append(dict(s=s, a=a, b=b, chars=chars))
        rep.case(("pystr", s, a, b), nontrivial=a in s)
    rep.count("pystr-primitive-cases", len(items))
    if model_ok and items:
        chk = ("fun '(s, a, b, cs_, (rp, sp, ln, st), (fd, ct, s1, sw)) => eqb_str (sreplace a b s) rp && eqb_lstr (ssplit a s) sp && eqb_lstr (splitlines s) ln "
               "&& eqb_str (strip cs_ s) st && match sfind a s, fd with Some i, Some j => Nat.eqb i j | None, None => true | _, _ => false end "
               "&& Nat.eqb (scount a s) ct && eqb_lstr (split1 a s) s1 && eqb_str (strip_ws s) sw")
        bad, errs = common.coq_eval("pystr", "", "list N * list N * list N * list N * (list N * list (list N) * list (list N) * list N) * (option nat * nat * list (list N) * list N)",
                                    chk, items, shard=400)
        for i in bad:
            rep.mismatch("Python str primitive: model (Lib/PyStr.v) differs from CPython", input=meta[i])
        rep.corr_errors += errs


def decimal_stream(rep, r, n, model_ok=True):
    items = []
    vals = [0, 1, 9, 10, 99, 100, 999, 1000, 12345678901234567890] + [r.randrange(0, 10 ** r.choice([1, 3, 6, 12, 25])) for _ in range(n)]
    for v in vals:
        k = r.choice([1, 2, 3, 4, 8])
        items.append("(%d,%d%%nat,%s,%s)" % (v, k, cs(str(v)), cs("%0*d" % (k, v))))
        rep.case(("decimal", v, k))
    if model_ok:
        bad, errs = common.coq_eval("decimal", "From BV Require Import Lib.Decimal.", "N * nat * list N * list N",
                                    "fun '(v, k, s, p) => eqb_str (dec v) s && eqb_str (pad k v) p && N.eqb (undec s) v", items, shard=400)
        for i in bad:
            rep.mismatch("str()/int()/format: model (Lib/Decimal.v) differs from CPython", input=dict(value=vals[i]))
        rep.corr_errors += errs


def shlex_stream(rep, r, n, model_ok=True):
    items, meta = [], []
    for _ in range(n):
        s = "".join(r.choice(list("ab c'\"\\ \t") + ["--m", "'{x}'", "a b", "\\'", '\\"', "''", "\n"]) for _ in range(r.choice([1, 2, 3, 5, 8])))
        try:
            exp = shlex.split(s)
        except ValueError:
            exp = None
        items.append("(%s,%s)" % (cs(s), "None" if exp is None else "(Some [%s])" % ";".join(cs(x) for x in exp)))
        meta.append(dict(s=s, shlex=exp))
        rep.case(("shlex", s), nontrivial=exp is not None and len(exp) > 1)
    rep.count("shlex-cases", len(items))
    if model_ok and items:
        bad, errs = common.coq_eval("shlex", "From BV Require Import Model.V1 Model.Vcs.", "list N * option (list (list N))",
                                    "fun '(s, e) => match shlex_split s, e with Some a, Some b => eqb_lstr a b | None, None => true | _, _ => false end", items, shard=400)
        for i in bad:
            rep.mismatch("shlex.split: model (Model/Vcs.v) differs from CPython", input=meta[i])
        rep.corr_errors += errs
