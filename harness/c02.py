"""C02 — rendered versions are accepted by their own pattern and read back unchanged."""
import datetime as dt
from . import common, v2gen
from .common import cs, cos, cz

LEVEL = "proof"
EXTRA_TARGETS = ["Model/V2", "Model/PatParse"]
TRUSTED_BASE = [
    "Coq 8.16.1 kernel + vm_compute",
    "T1 translator (translate/t1_tables.py): PART_PATTERNS, PATTERN_PART_FIELDS, PART_FORMATS (formatter shapes), PART_ZERO_VALUES, RE_PATTERN_ESCAPES copied from /repo by ast",
    "hand-written Gallina models Lib/Regex.v + Lib/RegexParse.v (Python re subset, backtracking order), Model/V2.v (compile_pattern, format_version, parse_version_info)",
    "correspondence harness harness/c02.py on generated grammar patterns x version states (model evaluated by vm_compute inside Coq)",
]
ASSUMPTIONS = ["CPython re/datetime/strftime behave as modelled (checked by the correspondence on every run)",
               "theorems are stated for the AST pattern layer under wf; the string layer is tied to it by correspondence"]

HDR = "From BV Require Import Lib.Regex Lib.RegexParse Lib.Calendar Model.V2 Model.PatAst Model.PatParse."


def impl_parse(impl, s, p):
    from bumpver import version
    try:
        return ("ok", impl.v2version.parse_version_info(s, p))
    except version.PatternError:
        return "PatternError"
    except ValueError:
        return "ValueError"
    except Exception:
        return "crash"


def impl_format(impl, v, p):
    try:
        return impl.v2version.format_version(v, p)
    except Exception:
        return None


def impl_compile(impl, p):
    try:
        return impl.v2patterns.compile_pattern(p).regexp.pattern
    except Exception:
        return None


EDGE_WS_PATTERNS = ["  vMAJOR.MINOR.PATCH", "MAJOR.MINOR.PATCH ", "\tvYYYY0M.BUILD[-TAG]", " YYYY.0M.0D ", "  version: MAJOR.MINOR[.PATCH]"]


def week53(v, pat):
    """known finding class: %W / %U reach 53 but WW/0W/UU/0U regexes stop at 52"""
    return ((v.week_w == 53 and any(x in pat for x in ("WW", "0W"))) or (v.week_u == 53 and any(x in pat for x in ("UU", "0U"))))


def roundtrip_oracle(rep, impl, v, pat, info):
    """The property on the implementation: render -> full parse -> same parts -> same text."""
    from bumpver import v2patterns
    s = impl_format(impl, v, pat)
    if s is None:
        rep.violation("format_version raised", input=dict(pattern=pat, state=v._asdict()), **{"class": "format-raises"})
        return None
    if s == "":
        return s
    res = impl_parse(impl, s, pat)
    inp = dict(pattern=pat, rendered=s, state={k: x for k, x in v._asdict().items()})
    if not isinstance(res, tuple):
        cls = "week53" if week53(v, pat) else "rendered-rejected"
        rep.violation("rendered version is not accepted by its own pattern (%s)" % res, input=inp, **{"class": cls})
        return s
    v2 = res[1]
    # every part shown by the pattern must read back equal
    shown = set()
    pat_wo_pytag = pat.replace("PYTAG", "")
    for part, field in v2patterns.PATTERN_PART_FIELDS.items():
        if part in (pat if part == "PYTAG" else pat_wo_pytag):
            shown.add(field)
    for f in sorted(shown):
        a, b = getattr(v, f), getattr(v2, f)
        if f in ("year_y", "year_g") and not any(x in pat for x in ("YYYY", "GGGG")):
            a = a % 100 if a is not None else a
            b = b % 100 if b is not None else b
        if f == "bid" and "BUILD" not in pat:
            a, b = int(a), int(b)
        if a != b:
            # a part hidden inside an omitted optional group reads back as its zero value
            rep.violation("part %s reads back as %r, rendered from %r" % (f, b, a), input=inp, **{"class": "part-differs"})
            return s
    s2 = impl_format(impl, v2, pat)
    if s2 != s:
        rep.violation("re-rendering what was read back gives %r" % s2, input=inp, **{"class": "rerender-differs"})
    return s


def run(rep, tier, seed, model_ok=True, effort=1):
    from . import impl
    r = common.rng(seed, "c02")
    n = (1500 if tier == "quick" else 30000) * effort
    rep.rule = ("seeded grammar patterns (literal prefixes with regex metacharacters, every documented part, nested optional groups) x "
                "version states (dates incl. year ends/leap days/1000..9999, boundary numbers, every tag); "
                "round trip on the implementation + model/implementation correspondence for compile, format and parse; "
                "non-trivial = distinct (pattern, rendered text) that parses back")
    today = v2gen.ordinal(impl.PINNED_TODAY)
    comp_items, comp_meta = [], []
    fmt_items, fmt_meta = [], []
    parse_items, parse_meta = [], []
    bridge_items, bridge_meta = [], []
    seen_pat = set()
    for i in range(n):
        pat, info = v2gen.gen_pattern(r, allow_bad_week=False)
        if i < 3 * len(EDGE_WS_PATTERNS):
            # literal text includes blanks at either end of a pattern (an indented assignment, a trailing blank before a comment)
            pat = EDGE_WS_PATTERNS[i % len(EDGE_WS_PATTERNS)]
            info = dict(wf=True, bridge=False, cal="y" if "YYYY" in pat else None, has_num=True, tag="", prefix="", suffix="", sep=".")
        v, d = v2gen.gen_state(r, impl)
        if pat not in seen_pat:
            seen_pat.add(pat)
            rx = impl_compile(impl, pat)
            comp_items.append("(%s,%s)" % (cs(pat), cos(rx)))
            comp_meta.append((pat, rx))
        in_scope = info["wf"]
        if info["cal"] and info["cal"].endswith("2") and not (2001 <= v.year_y <= 2099 and 2001 <= v.year_g <= 2099):
            in_scope = False   # two-digit-year parts are claimed for 2001..2099 only
        if not (1000 <= v.year_y <= 9999 and 1000 <= v.year_g <= 9999):
            in_scope = False
        nviol = len(rep.violations)
        s = roundtrip_oracle(rep, impl, v, pat, info) if in_scope else impl_format(impl, v, pat)
        if in_scope and s and len(rep.violations) == nviol and not week53(v, pat) and info.get("bridge", True):
            # the AST-layer theorem must apply to this (pattern, state): checked inside Coq
            bridge_items.append("(%s,%s)" % (v2gen.cvinfo(v), cs(pat)))
            bridge_meta.append((pat, v, s))
        rep.case((pat, s), nontrivial=bool(s))
        rep.count("cal=%s" % info["cal"])
        rep.count("tag=%s" % (info["tag"] or "-"))
        rep.count("wf=%s" % info["wf"])
        fmt_items.append("(%s,%s,%s)" % (v2gen.cvinfo(v), cs(pat), cos(s)))
        fmt_meta.append((pat, v, s))
        if s:
            cands = [s]
            k = r.random()
            if k < 0.25:
                cands.append(s + r.choice([".1", "x", "0", "-rc", " "]))
            elif k < 0.4 and len(s) > 1:
                j = r.randrange(len(s))
                cands.append(s[:j] + s[j + 1:])
            elif k < 0.5:
                cands.append(s.replace("01", "13", 1).replace("28", "31", 1))
            for cand in cands:
                res = impl_parse(impl, cand, pat)
                rep.count("parse=" + (res if isinstance(res, str) else "ok"))
                parse_items.append("(%s,%s,%s)" % (cs(cand), cs(pat), v2gen.cpres_vinfo(res)))
                parse_meta.append((cand, pat, res))
        if in_scope and s and i % 3 == 0 and not week53(v, pat):
            # "every version state reachable by bumping": bump the rendered text (any flags, dates pinned or later) -- what comes out is a legal
            # current version of the same pattern: accepted in full, and rendered again it is the same text
            fl = v2gen.gen_flags(r)
            try:
                nd = d + dt.timedelta(days=r.choice([0, 1, 31, 400]))
            except OverflowError:
                nd = d
            try:
                s2 = impl.v2version.incr(s, pat, major=fl["major"], minor=fl["minor"], patch=fl["patch"], tag=fl["tag"], tag_num=fl["tag_num"], pin_increments=fl["pin_increments"],
                                         pin_date=fl["pin_date"], maybe_date=None if fl["pin_date"] else nd)
            except Exception as ex:
                s2 = None
            rep.count("bumped=%s" % ("ok" if s2 else "refused"))
            if s2 and 1000 <= nd.year <= 9999:
                c2 = impl.v2version.cal_info(nd)
                wk53 = (c2.week_w == 53 and any(x in pat for x in ("WW", "0W"))) or (c2.week_u == 53 and any(x in pat for x in ("UU", "0U")))
                two_digit_out = bool(info["cal"]) and info["cal"].endswith("2") and not (2001 <= nd.year <= 2098)
                res2 = impl_parse(impl, s2, pat)
                if isinstance(res2, str) and not wk53 and not two_digit_out:
                    rep.violation("a bumped version is rejected by the pattern it was made with (%s)" % res2,
                                  input=dict(pattern=pat, old=s, flags={k_: v_ for k_, v_ in fl.items() if v_}, date=None if fl["pin_date"] else str(nd), new=s2), **{"class": "bumped-not-accepted"})
                elif not isinstance(res2, str):
                    s3 = impl_format(impl, res2[1], pat)
                    if s3 != s2 and not wk53 and not two_digit_out:
                        rep.violation("a bumped version read back and rendered again gives a different text", input=dict(pattern=pat, old=s, new=s2, rendered_again=s3, flags={k_: v_ for k_, v_ in fl.items() if v_}), **{"class": "bumped-not-stable"})
        rep.sample(dict(pattern=pat, date=str(d), rendered=s, wf=info["wf"]))
    # every special pattern of the generator on fixed boundary states (week 0 of %W / %U / ISO year differing from the calendar year, leap day,
    # all-zero and non-zero numbers, final and non-final tags) -- independent of the random stream
    from bumpver import version as _ver0
    for sp in v2gen.SPECIAL_PATTERNS + EDGE_WS_PATTERNS:
        if "^" in sp or "$" in sp:
            continue
        for sd_ in (dt.date(2016, 1, 2), dt.date(2017, 1, 1), dt.date(2024, 2, 29), dt.date(2021, 10, 4)):
            for nums_, tag_ in (((0, 0, 0, 0, 0, 1), "final"), ((1, 0, 7, 2, 3, 4), "beta"), ((0, 12, 0, 0, 0, 1), "rc")):
                c_ = impl.v2version.cal_info(sd_)
                sv_ = _ver0.V2VersionInfo(c_.year_y, c_.year_g, c_.quarter, c_.month, c_.dom, c_.doy, c_.week_w, c_.week_u, c_.week_v,
                                          nums_[0], nums_[1], nums_[2], "1009", tag_, v2gen.PYTAG[tag_], "", "", nums_[3] if tag_ != "final" else 0, nums_[4], nums_[5])
                if week53(sv_, sp):
                    continue
                s_ = roundtrip_oracle(rep, impl, sv_, sp, dict(wf=True))
                rep.case((sp, s_, "fixed"), nontrivial=bool(s_))
                rep.count("special-patterns-fixed-states")
    # witnesses of the known finding (week 53), replayed on every run
    from bumpver import version as _ver
    for wd, wpat in ((dt.date(2018, 12, 31), "vYYYY.WW"), (dt.date(2017, 12, 31), "vYYYY.0U")):
        wv = _ver.V2VersionInfo(*impl.v2version.cal_info(wd), 0, 0, 0, "1001", "final", "", "", "", 0, 0, 1)
        roundtrip_oracle(rep, impl, wv, wpat, dict(wf=True))
        rep.case(("witness", wpat, str(wd)))
    # calendar sweep: every part on consecutive days (quick: 2 years; thorough: 2001..2099 + samples 1000..9999)
    sweep_pats = ["YYYY.0M.0D", "YYYY.MM.DD", "YY.0M", "0Y.JJJ", "YYYY.00J", "YYYYw0W.0U", "YYYY.WW.UU", "GGGG.0V", "GG.VV", "0G.0V", "YYYY.Q"]
    start = dt.date(2018, 12, 1) if tier == "quick" else dt.date(2001, 1, 1)
    ndays = 800 if tier == "quick" else 36159
    from bumpver import version
    base = version.V2VersionInfo(None, None, None, None, None, None, None, None, None, 1, 2, 3, "1001", "final", "", "", "", 0, 0, 1)
    for k in range(ndays):
        d = start + dt.timedelta(days=k)
        c = impl.v2version.cal_info(d)
        v = base._replace(**c._asdict())
        pat = sweep_pats[k % len(sweep_pats)]
        s = roundtrip_oracle(rep, impl, v, pat, dict(wf=True))
        rep.case((pat, s), nontrivial=bool(s))
        rep.count("sweep-days")
        if k % 7 == 0:
            fmt_items.append("(%s,%s,%s)" % (v2gen.cvinfo(v), cs(pat), cos(s)))
            fmt_meta.append((pat, v, s))
            res = impl_parse(impl, s, pat) if s else "PatternError"
            parse_items.append("(%s,%s,%s)" % (cs(s or ""), cs(pat), v2gen.cpres_vinfo(res)))
            parse_meta.append((s, pat, res))
    # boundary days of the calendar for EVERY sweep pattern: last and first days of leap / common / century / 400-year years, leap days,
    # the first and last representable years
    special = [dt.date(y, 12, 31) for y in (1000, 1600, 1900, 2000, 2004, 2100, 2400, 9999)] + [dt.date(y, 1, 1) for y in (1000, 2000, 2001, 2400, 9999)] + \
              [dt.date(y, 2, 29) for y in (1600, 2000, 2004, 2400)] + [dt.date(y, 12, 30) for y in (2000, 2400)] + [dt.date(2100, 2, 28), dt.date(2100, 3, 1)]
    for d in special:
        c = impl.v2version.cal_info(d)
        v = base._replace(**c._asdict())
        for pat in sweep_pats:
            if d.year < 2001 or d.year > 2099:
                if any(x in pat for x in ("YY.", "0Y.", "GG.", "0G.")) and not pat.startswith(("YYYY", "GGGG")):
                    continue      # two-digit year parts are claimed for 2001..2099
            if (v.week_w == 53 and "W" in pat) or (v.week_u == 53 and "U" in pat):
                continue          # the recorded week-53 finding
            s = roundtrip_oracle(rep, impl, v, pat, dict(wf=True))
            rep.case((pat, s, "special-day"), nontrivial=bool(s))
            rep.count("special-days")
    if model_ok:
        bad, errs = common.coq_eval("c02comp", HDR, "list N * option (list N)",
                                    "fun '(p, e) => match e with Some x => eqb_str (compile_pattern_str (normalize_pattern p p)) x | None => match compile_pattern_re (normalize_pattern p p) with None => true | Some _ => false end end",
                                    comp_items, shard=300)
        for i in bad:
            rep.mismatch("compile_pattern: model regex text differs from implementation", input=dict(pattern=comp_meta[i][0], impl_regex=comp_meta[i][1]))
        rep.corr_errors += errs
        bad, errs = common.coq_eval("c02fmt", HDR, "vinfo * list N * option (list N)",
                                    "fun '(v, p, e) => eqb_ostr (format_version v p) e", fmt_items, shard=400)
        for i in bad:
            rep.mismatch("format_version: model differs from implementation", input=dict(pattern=fmt_meta[i][0], state=fmt_meta[i][1]._asdict(), impl=fmt_meta[i][2]))
        rep.corr_errors += errs
        bad, errs = common.coq_eval("c02bridge", HDR, "vinfo * list N", "fun '(v, p) => bridge_ok v p", bridge_items, shard=200)
        for i in bad:
            rep.mismatch("string layer / AST layer bridge: the round-trip theorem's premises do not hold or the layers differ on this input",
                         input=dict(pattern=bridge_meta[i][0], state=bridge_meta[i][1]._asdict(), rendered=bridge_meta[i][2]))
        rep.corr_errors += errs
        rep.count("bridge-cases", len(bridge_items))
        bad, errs = common.coq_eval("c02parse", HDR, "list N * list N * pres vinfo",
                                    "fun '(s, p, e) => eqb_pres_vinfo (parse_version_info (%s) s p) e" % cz(today), parse_items, shard=250)
        for i in bad:
            res = parse_meta[i][2]
            rep.mismatch("parse_version_info: model differs from implementation",
                         input=dict(version=parse_meta[i][0], pattern=parse_meta[i][1], impl=res if isinstance(res, str) else res[1]._asdict()))
        rep.corr_errors += errs


def search(rep, tier, seed, effort=2):
    run(rep, tier, seed, model_ok=False, effort=effort)


def replay(payload):
    from . import impl
    from bumpver import version
    inp = payload["violation"]["input"]
    rep = common.Report("C02")
    if "state" in inp and "pattern" in inp and "version" not in inp:
        v = version.V2VersionInfo(**inp["state"])
        roundtrip_oracle(rep, impl, v, inp["pattern"], dict(wf=True))
    for x in rep.violations:
        print("still failing:", x["what"], x["input"])
    print("replay C02:", "FAIL" if rep.violations else "pass")
    return 1 if rep.violations else 0
