"""Adapter: the single place where the checks touch bumpver's implementation (stable observation
points: public functions and the click CLI)."""
import os, sys, io, logging, datetime as dt, contextlib

import bumpver
from bumpver import version as bv_version
from bumpver import v2version, v1version, v2patterns, v1patterns, cli as bv_cli

assert os.path.realpath(bumpver.__file__).startswith(os.path.realpath(os.environ.get("VERIF_REPO", "/repo"))), bumpver.__file__

PINNED_TODAY = dt.date(2026, 9, 30)
bv_version.TODAY = PINNED_TODAY
# bumpver calls logging.basicConfig on every command; pre-install a handler so that it never binds a
# (later closed) CliRunner stream, and keep everything silent unless a check captures it explicitly.
logging.basicConfig(handlers=[logging.NullHandler()])
logging.raiseExceptions = False
logging.disable(logging.CRITICAL)


def set_today(d):
    bv_version.TODAY = d


def run_cli(args, cwd=None, env=None, input=None):
    """Run `bumpver <args>` in-process through click's CliRunner.  Returns (exit_code, stdout, exception)."""
    from click.testing import CliRunner
    runner = CliRunner()
    old = os.getcwd()
    if cwd:
        os.chdir(cwd)
    try:
        res = runner.invoke(bv_cli.cli, args, env=env, input=input, catch_exceptions=True)
    finally:
        os.chdir(old)
    exc = res.exception if (res.exception is not None and not isinstance(res.exception, SystemExit)) else None
    return res.exit_code, res.output, exc


def parse_new_version(output):
    for line in output.splitlines():
        if line.startswith("New Version: "):
            return line[len("New Version: "):]
    return None


def parse_pep440_line(output):
    for line in output.splitlines():
        if line.startswith("PEP440     : "):
            return line[len("PEP440     : "):]
    return None
