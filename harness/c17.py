"""C17 — BUILD numbers grow numerically and lexically forever."""
import itertools
from . import common
from .common import cs, cos

LEVEL = "proof"
TRUSTED_BASE = [
    "Coq 8.16.1 kernel + vm_compute",
    "hand-written Gallina model Model/Lexid.v of lexid.next_id (third-party, 2021.1006) and of the bid branch of v2version._incr_numeric",
    "correspondence harness harness/c17.py (lexid.next_id and v2version.incr observed in-process)",
]
ASSUMPTIONS = ["int()/str() on ASCII digit strings behave as Lib/Decimal.v undec/dec (checked by the same correspondence)"]


def impl_bump(bid):
    from . import impl
    try:
        return impl.v2version.incr(bid, "BUILD", maybe_date=impl.PINNED_TODAY)
    except OverflowError:
        return "!overflow"


def impl_next_id(bid):
    import lexid
    try:
        return lexid.next_id(bid)
    except OverflowError:
        return None


def oracle(rep, old, new, generated):
    """The property itself, on the implementation's output. generated: old was produced by bumpver."""
    if new is None or new == "!overflow":
        # failure is only allowed at the documented maximum (all digits 9 after padding)
        padded = str(int(old) + 1000) if int(old) < 1000 else old
        if set(padded) != {"9"}:
            rep.violation("bump failed below the documented maximum", input=dict(old=old, new=new), **{"class": "bump-fails"})
        return
    if not (new.isdigit() and int(new) > int(old)):
        rep.violation("new BUILD is not numerically greater", input=dict(old=old, new=new), **{"class": "not-greater-int"})
    if (generated or len(old) >= 4) and not (new > old):
        rep.violation("new BUILD is not lexically greater", input=dict(old=old, new=new), **{"class": "not-greater-str"})
    # ids below 1000 are replaced by 1000+id by design ("prevent truncation of leading zeros");
    # from 1000 on the id string keeps its width, zeros included
    if int(old) >= 1000 and len(new) < len(old):
        rep.violation("leading zeros lost (new BUILD shorter than old)", input=dict(old=old, new=new), **{"class": "zeros-lost"})
    # a zero-padded id keeps its padding while the number itself keeps its digit count (no 999 -> 11000-style expansion is due)
    core = old.lstrip("0")
    if int(old) >= 1000 and old.startswith("0") and core[0] not in "89" and set(core[1:]) != {"9"} and len(str(int(core) + 1)) == len(core):
        if new != old[:len(old) - len(core)] + str(int(core) + 1):
            rep.violation("leading zeros lost (the padded id %s becomes %s)" % (old, new), input=dict(old=old, new=new), **{"class": "zeros-lost"})


def gen_ids(tier, seed, effort=1):
    maxlen = 4 if tier == "quick" else 5
    for n in range(1, maxlen + 1):
        for t in itertools.product("0123456789", repeat=n):
            yield "".join(t)
    r = common.rng(seed, "c17")
    for _ in range((2000 if tier == "quick" else 20000) * effort):
        n = r.choice([5, 6, 7, 7, 8, 12])
        yield "".join(r.choice("0123456789" if r.random() < 0.7 else "99990") for _ in range(n))


def run(rep, tier, seed, model_ok=True, effort=1):
    rep.rule = ("exhaustive over all BUILD ids of 1..%d digits (incl. zero padded) + seeded random ids of 5..12 digits; "
                "each bumped once through v2version.incr(id, 'BUILD') and lexid.next_id; chains of successive bumps; `bumpver test` on patterns with a BUILD part under random flag sets (--pin-increments, --tag, --tag-num, --major/--minor, --pin-date/--date), incl. BLD (the id without padding) and ids known only from a VCS tag; "
                "non-trivial = distinct id whose bump succeeds" % (4 if tier == "quick" else 5))
    items, meta = [], []
    seen = set()
    for bid in gen_ids(tier, seed, effort):
        if bid in seen:
            continue
        seen.add(bid)
        new = impl_bump(bid)
        nid = impl_next_id(bid)
        rep.case(bid, nontrivial=new is not None)
        rep.count("len=%d" % len(bid))
        rep.count("bump=" + ("fail" if new in (None, "!overflow") else "ok"))
        oracle(rep, bid, new, generated=False)
        exp_new = None if new in (None, "!overflow") else new
        items.append("(%s,%s,%s)" % (cs(bid), cos(exp_new), cos(nid)))
        meta.append((bid, new, nid))
        if len(rep.samples) < 4 and len(bid) > 2:
            rep.sample(dict(old=bid, new=new, next_id=nid))
    # chains crossing digit-length expansions
    chains = [("1", 1200), ("0", 300), ("0997", 2200), ("8", 50), ("98", 50), ("0001", 150), ("19998", 30), ("9899", 200), ("99998", 3)]
    if tier == "thorough":
        chains += [("1", 10000), ("0999", 10000), ("899999990", 30), ("0000001", 10000)]
    chain_items = []
    for start, n in chains:
        cur, out = start, []
        for i in range(n):
            new = impl_bump(cur)
            rep.case(("chain", start, i), nontrivial=new is not None)
            oracle(rep, cur, new, generated=i > 0)
            if new in (None, "!overflow"):
                break
            out.append(new)
            cur = new
        rep.count("chain-steps", len(out))
        chain_items.append("(%s,%d%%nat,%s)" % (cs(start), len(out), cs(out[-1]) if out else "[]"))
        rep.sample(dict(chain_start=start, steps=len(out), last=out[-1] if out else None), limit=8)
    cli_stream(rep, common.rng(seed, "c17-cli"), (60 if tier == "quick" else 1500) * effort)
    tag_stream(rep)
    if model_ok:
        bad, errs = common.coq_eval(
            "c17", "From Coq Require Import List NArith.\nFrom BV Require Import Lib.PyStr Lib.Harness Model.Lexid.",
            "list N * option (list N) * option (list N)",
            "fun '(b, e, n) => eqb_ostr (bump_bid b) e && eqb_ostr (next_id b) n", items, shard=4000)
        for i in bad:
            rep.mismatch("bump_bid/next_id model differs from implementation", input=dict(old=meta[i][0], impl_bump=meta[i][1], impl_next_id=meta[i][2]))
        rep.corr_errors += errs
        bad, errs = common.coq_eval(
            "c17chain", "From Coq Require Import List NArith.\nFrom BV Require Import Lib.PyStr Lib.Harness Model.Lexid.",
            "list N * nat * list N",
            "fun '(b, n, last) => match bump_chain n b with Some l => eqb_str (List.last l []) last | None => false end", chain_items)
        for i in bad:
            rep.mismatch("bump_chain model differs from implementation", input=dict(chain=chains[i]))
        rep.corr_errors += errs
    rep.exhaustive = True
    from . import libcorr
    libcorr.decimal_stream(rep, common.rng(seed, "c17-dec"), (200 if tier == "quick" else 3000) * effort, model_ok=model_ok)


CLI_PATTERNS = [("vYYYY0M.BUILD[-TAG]", "v2021%02d.%s", r"^v\d{6}\.(\d+)"), ("YYYY.BUILD", "2021.%s", r"^\d{4}\.(\d+)$"), ("vMAJOR.MINOR.BUILD[-TAG[NUM]]", "v3.1.%s", r"^v\d+\.\d+\.(\d+)"),
                ("BUILD.INC0", "%s.4", r"^(\d+)\."),
                # a resettable part to the right of BUILD; ISO year and week next to BUILD (its name contains a U)
                ("YYYY.BUILD[PYTAGNUM]", "2021.%sb0", r"^\d{4}\.(\d+)"), ("vYYYY.BUILD[-TAGNUM]", "v2021.%s-beta1", r"^v\d{4}\.(\d+)"),
                ("GGGG.0V.BUILD", "2021.05.%s", r"^\d{4}\.\d\d\.(\d+)$"), ("vGGGGw0V.BUILD[-TAG]", "v2021w05.%s", r"^v\d{4}w\d\d\.(\d+)"),
                # BLD shows the same id without its zero padding
                ("YYYY.BLD", "2021.%s", r"^\d{4}\.(\d+)$"),
                # BUILD and BLD in one pattern: the padded spelling is the one that is read and bumped
                ("vYYYY.BUILD+BLD", "v2021.%s+BLD", r"^v\d{4}\.(\d+)\+\d+$")]


def cli_stream(rep, r, n):
    """every successful bump through the CLI, whatever else it changes (date, tag, pinned increments, MAJOR ...), moves BUILD up"""
    import re as _re
    from . import impl
    # a BUILD typed in digits outside ASCII is not a BUILD value: the version is rejected -- or, if it is read, the result obeys the same rules
    for odd in ("\uff11\uff10\uff10\uff11", "\u0661\u0660\u0660\u0661", "10\u0660\u0661"):
        code, out, exc = impl.run_cli(["test", "2020." + odd, "YYYY.BUILD", "--date", "2020-06-01"])
        new = impl.parse_new_version(out) if code == 0 else None
        rep.case(("cli-non-ascii-digits", odd), nontrivial=True)
        if new is not None:
            nb = new.split(".", 1)[1]
            if not (nb > odd and nb.isascii()):
                rep.violation("a BUILD in non-ASCII digits is accepted and bumped to a value that is not greater as a plain string", input=dict(args=["test", "2020." + odd, "YYYY.BUILD"], new=new), **{"class": "not-greater-str"})
    for i_ in range(n):
        pat, tmpl, rx = CLI_PATTERNS[i_ % len(CLI_PATTERNS)]
        bid = r.choice(["7", "42", "099", "0998", "1001", "1999", "22000", "0001", "9998", "10999", "899999", "01234", "09997", "000123", "0010000", "1009", "1099", "1999", "10009", str(r.randrange(0, 99999))])
        if "BLD" in pat and "BUILD" not in pat:
            bid = bid.lstrip("0") or "7"       # BLD is the id without zero padding
        if "BLD" in pat and not bid.strip("0"):
            bid = "7"
        old = tmpl % ((r.randrange(1, 12), bid) if tmpl.count("%") == 2 else (bid,))
        old = old.replace("+BLD", "+" + (bid.lstrip("0") or "0"))
        args = ["test", old, pat]
        flags = []
        if r.random() < 0.5:
            flags.append("--pin-increments")
        if "TAG" in pat and r.random() < 0.4:
            flags += ["--tag", r.choice(["alpha", "beta", "rc", "post"])]
        if "NUM" in pat and "-beta1" in old and r.random() < 0.5:
            flags.append("--tag-num")
        if "MAJOR" in pat and r.random() < 0.4:
            flags.append(r.choice(["--major", "--minor"]))
        if "YYYY" in pat or "GGGG" in pat:
            flags += r.choice([["--pin-date"], ["--date", "2021-%02d-15" % r.randrange(1, 13)], ["--date", "2022-03-01"], []])
        code, out, exc = impl.run_cli(args + flags)
        new = impl.parse_new_version(out) if code == 0 else None
        rep.case(("cli", pat, old, tuple(flags)), nontrivial=new is not None)
        rep.count("cli-bumps")
        inp = dict(args=args + flags, exit=code, new=new)
        if set(bid) == {"9"}:
            continue
        if new is None:
            rep.violation("`bumpver test` fails on a version whose BUILD is below the documented maximum", input=dict(inp, out=out[-200:]), **{"class": "bump-fails"})
            continue
        m = _re.search(rx, new)
        if not m:
            rep.violation("the new version does not carry a BUILD where the pattern has one", input=inp, **{"class": "no-build"})
            continue
        if "BLD" in pat and "BUILD" not in pat:
            # without padding only the numbers can be compared
            if not int(m.group(1)) > int(bid):
                rep.violation("new BUILD is not numerically greater", input=dict(inp, old=bid, new=m.group(1)), **{"class": "not-greater-int"})
            elif int(bid) >= 1000 and len(m.group(1)) < len(str(int(bid))):
                rep.violation("new BUILD (shown through BLD) lost digits", input=dict(inp, old=bid, new=m.group(1)), **{"class": "zeros-lost"})
        else:
            oracle(rep, bid, m.group(1), generated=False)


def tag_stream(rep):
    """successive bumps where the previous BUILD is known only from a VCS tag (a checkout without the bump commit): the next id is greater than
    the tagged one, also when the config still holds an id from before the first bump (below 1000)"""
    import re as _re
    from . import impl, project
    for cfgv, tag in (("v2024.0007", "v2024.1008"), ("v2024.7", "v2024.1008"), ("v2024.999", "v2024.1999"), ("v2024.0998", "v2024.22000")):
        for scope in (None, "global"):
            prj = project.TempProject("vYYYY.BUILD", cfgv, files={"a.txt": ["ver = {version}"]}, commit=True, tag=True, push=False, vcs="fakegit", tag_scope=scope,
                                      vcs_cfg=dict(tags=[tag, cfgv], tags_branch=[cfgv], status="", remote=None))
            with prj:
                code, out, logs, exc = prj.run(impl, ["update", "--no-fetch", "--date", "2024-06-01"])
                new = next((l.split("New Version: ", 1)[1].strip() for l in logs if "New Version: " in l), None)
            rep.case(("tagged-previous-build", cfgv, tag, scope), nontrivial=code == 0)
            rep.count("cli-bumps")
            old_b, m = tag.split(".")[1], _re.search(r"\.(\d+)$", new or "")
            if code != 0 or not m:
                rep.violation("update fails although the tagged BUILD is below the documented maximum", input=dict(config=cfgv, tag=tag, tag_scope=scope, exit=code, logs=logs[-3:]), **{"class": "bump-fails"})
            else:
                oracle(rep, old_b, m.group(1), generated=True)


def search(rep, tier, seed, effort=2):
    run(rep, "thorough" if effort > 1 else tier, seed, model_ok=False, effort=effort)


def replay(payload):
    v = payload.get("violation", {}).get("input", {})
    old = v.get("old")
    new = impl_bump(old)
    print("replay C17: bump(%r) -> %r" % (old, new))
    rep = common.Report("C17")
    oracle(rep, old, new, generated=False)
    for x in rep.violations:
        print("  still failing:", x["what"])
    return 1 if rep.violations else 0
