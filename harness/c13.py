"""C13 — --dry changes nothing and shows exactly what a real run would do."""
import re, datetime as dt
from . import common, rwcheck, rwgen, project

LEVEL = "proof"
EXTRA_TARGETS = ["Model/Rewrite"]
TRUSTED_BASE = [
    "Coq 8.16.1 kernel + vm_compute",
    "T1 translator (rewrite_files loop shape, part tables)",
    "hand-written Gallina model Model/Rewrite.v: diff_files (dry path) vs rewrite_files_eager (write path) over the shared rfd_from_content (its correspondence with the code is checked under C03/C04)",
    "harness: output of `update --dry` parsed by a strict unified-diff applier and compared with a real run on an identical copy; fake git log inspected",
]
ASSUMPTIONS = ["difflib.unified_diff and the textual diff format are not modelled (the printed diff is applied by the harness and compared byte for byte)"]
MUTATING = {"add_path", "commit", "tag", "push"}     # fetch only reads from the remote (C10 treats it the same way)


class DiffError(Exception):
    pass


def apply_unified(diff_text, files):
    """files: {path: str content}; returns {path: new content}.  Strict: context and removed lines must match."""
    out = dict(files)
    lines = diff_text.split("\n") if diff_text else []
    i = 0
    while i < len(lines):
        if not lines[i].startswith("--- "):
            if lines[i] == "":
                i += 1
                continue
            raise DiffError("unexpected line %r" % lines[i])
        path = lines[i][4:]
        if i + 1 >= len(lines) or lines[i + 1] != "+++ " + path:
            raise DiffError("missing +++ for %s" % path)
        i += 2
        if path not in files:
            raise DiffError("diff for unknown file %s" % path)
        content = files[path]
        sep = "\r\n" if "\r\n" in content else ("\r" if "\r" in content else "\n")
        old = content.split(sep)
        new, pos = [], 0
        while i < len(lines) and lines[i].startswith("@@"):
            m = re.match(r"^@@ -(\d+)(?:,(\d+))? \+(\d+)(?:,(\d+))? @@$", lines[i])
            if not m:
                raise DiffError("bad hunk header %r" % lines[i])
            a, alen = int(m.group(1)), int(m.group(2) or 1)
            start = a - 1 if alen > 0 else a
            new += old[pos:start]
            pos = start
            i += 1
            seen_old = 0
            while i < len(lines) and not lines[i].startswith("@@") and not lines[i].startswith("--- "):
                l = lines[i]
                if l == "" and seen_old == alen:
                    break     # blank separator left by a file whose diff is empty (full_diff += "" + newline)
                tag, body = l[:1], l[1:]
                if tag == " ":
                    if pos >= len(old) or old[pos] != body:
                        raise DiffError("context mismatch at %s:%d" % (path, pos + 1))
                    new.append(body); pos += 1; seen_old += 1
                elif tag == "-":
                    if pos >= len(old) or old[pos] != body:
                        raise DiffError("removed line mismatch at %s:%d" % (path, pos + 1))
                    pos += 1; seen_old += 1
                elif tag == "+":
                    new.append(body)
                elif l == "" and i == len(lines) - 1:
                    pass
                else:
                    raise DiffError("bad diff line %r" % l)
                i += 1
            if seen_old != alen:
                raise DiffError("hunk length mismatch in %s" % path)
        new += old[pos:]
        out[path] = sep.join(new)
    return out


def run(rep, tier, seed, model_ok=True, effort=1):
    from . import impl
    r = common.rng(seed, "c13")
    n = (30 if tier == "quick" else 500) * effort
    rep.rule = ("generated projects (consistent line endings) x flag sets x v2/legacy: `update --dry` (files must stay byte-identical, no mutating VCS "
                "command), then the printed unified diff is applied by a strict applier and compared with a real run on an identical copy; exit codes "
                "must agree when dry exits 0; scripted layouts; dry and real as processes under an ASCII locale; a configured file that is not valid UTF-8; non-trivial = distinct project whose dry run exits 0")
    items, meta = [], []
    scripted = rwgen.scripted_specs()
    for i in range(n + len(scripted)):
        legacy = r.random() < 0.25
        if i < len(scripted):
            spec, legacy = scripted[i], scripted[i]["legacy"]
        else:
            spec = rwgen.gen_project(r, impl, legacy=legacy, allow_mixed=False, tree=True)
        if not spec["old"]:
            continue
        use_vcs = r.random() < 0.5
        msg = r.choice([None, None, "bump {old_version} -> {new_version}", "release {new_version_pep440} (was {old_version_pep440})",
                        "built on {date}", "stray {{ok}} and {0}", "NEW_VERSION {NEW_VERSION}"])
        kw = dict(commit_message=msg, tag_message=r.choice([None, "{new_version}", "tag {when}"]) if use_vcs or r.random() < 0.3 else None,
                  commit=use_vcs, tag=use_vcs, push=use_vcs, vcs="fakegit" if use_vcs else None,
                  vcs_cfg=dict(tags=[], status="", remote="origin") if use_vcs else None, hooks={"pre": "ok"} if use_vcs else None)
        nd = rwgen.avoid_week53(spec["vp"], spec["date"] + dt.timedelta(days=r.choice([1, 400])))
        use_fetch = use_vcs and r.random() < 0.5
        args = ["update", "--fetch" if use_fetch else "--no-fetch", "--date", nd.isoformat()] + spec["flags"]
        if use_fetch:
            # the remote carries a newer version tag that only becomes visible after `git fetch`
            try:
                newer = impl.v2version.incr(spec["old"], spec["vp"], major="MAJOR" in spec["vp"], minor="MINOR" in spec["vp"], maybe_date=spec["date"] + dt.timedelta(days=800)) if not legacy else None
            except Exception:
                newer = None
            if newer:
                kw["vcs_cfg"] = dict(kw["vcs_cfg"], tags_after_fetch=[newer])
                nd = rwgen.avoid_week53(spec["vp"], spec["date"] + dt.timedelta(days=900))
                args[3] = nd.isoformat()
        # a file whose text is stale (older than the configured current version) must appear in the dry diff exactly as the real run rewrites it
        stale_file = None
        if not legacy and r.random() < 0.4:
            stale_file = r.choice(spec["files"]).path
        with rwgen.to_temp_project(project, spec, **kw) as prj_dry, rwgen.to_temp_project(project, spec, **kw) as prj_real:
            try:
                rwgen.write_contents(prj_dry, spec); rwgen.write_contents(prj_real, spec)
                if stale_file:
                    fs = next(f for f in spec["files"] if f.path == stale_file)
                    v_old = impl.v2version.parse_version_info(spec["old"], spec["vp"])
                    older = impl.v2version.format_version(v_old._replace(major=max(0, v_old.major - 1), minor=v_old.minor + 3, year_y=(v_old.year_y or 2001) - 1,
                                                                       year_g=(v_old.year_g or 2001) - 1), spec["vp"])
                    if older and older != spec["old"]:
                        try:
                            impl.v2version.parse_version_info(older, spec["vp"])
                            for prj_ in (prj_dry, prj_real):
                                with open(prj_.path(stale_file), "wb") as fh:
                                    fh.write(fs.render(prj_.render, older, older).encode("utf-8"))
                        except Exception:
                            pass
            except Exception:
                continue
            if prj_dry.cfg_error(impl):
                continue
            before = prj_dry.snapshot()
            code_d, out_d, logs_d, exc_d = prj_dry.run(impl, args + ["--dry"])
            after_d = prj_dry.snapshot()
            vlog_d = prj_dry.vcs_log() if use_vcs else []
            rep.case((spec["vp"], spec["old"], i), nontrivial=code_d == 0)
            rep.count("dry-exit=%s" % ("0" if code_d == 0 else "nonzero"))
            rep.count("engine=%s" % ("v1" if legacy else "v2"))
            inp = dict(version_pattern=spec["vp"], current_version=spec["old"], args=args, vcs=use_vcs,
                       files={f.path: dict(patterns=f.patterns, content=f.render(prj_dry.render, spec["old"])) for f in spec["files"]})
            if after_d != before:
                rep.violation("update --dry changed files", input=inp, **{"class": "dry-wrote"})
            mut = [e["key"] for e in vlog_d if e["key"] in MUTATING]
            if mut or prj_dry.hooks_log():
                rep.violation("update --dry ran mutating VCS commands or hooks: %s" % mut, input=inp, **{"class": "dry-vcs"})
            before_r = prj_real.snapshot()
            code_r, out_r, logs_r, exc_r = prj_real.run(impl, args)
            after_r = prj_real.snapshot()
            if code_d == 0:
                if code_r != 0:
                    rep.violation("--dry exits 0 but the real run fails", input=dict(inp, real_logs=logs_r[-4:]), **{"class": "dry-ok-real-fails"})
                    continue
                texts = {p: b.decode("utf-8") for p, b in before.items() if not p.endswith("_hook.sh")}
                try:
                    applied = apply_unified(out_d.rstrip("\n"), texts)
                except DiffError as ex:
                    rep.violation("the diff printed by --dry cannot be applied: %s" % ex, input=dict(inp, diff=out_d[-1500:]), **{"class": "diff-unappliable"})
                    continue
                for p, t in applied.items():
                    if after_r.get(p) != t.encode("utf-8"):
                        rep.violation("applying the --dry diff does not give the real run's %s" % p,
                                      input=dict(inp, path=p, applied=t[-400:], real=after_r.get(p, b"").decode("utf-8", "replace")[-400:]), **{"class": "diff-differs"})
                        break
                rep.sample(dict(version_pattern=spec["vp"], old=spec["old"], diff_lines=len(out_d.splitlines())))
            else:
                if after_r != before_r and code_r != 0:
                    rep.violation("real run failed and changed files", input=dict(inp, kw={k: v for k, v in kw.items() if k in ("commit_message", "tag_message")}, dry_logs=logs_d[-3:], real_logs=logs_r[-5:], real_exc=repr(exc_r), vcs_log=[e["key"] for e in (prj_real.vcs_log() if use_vcs else [])]), **{"class": "partial-write"})
    # corpus: a file whose patterns are not touched by this bump but whose text on disk is stale must be treated alike by --dry and the real run
    for vp, cur, flags_, fname, pat_, stale_text, date_ in [
            ("MAJOR.MINOR.PATCH", "1.2.3", ["--patch"], "notes.md", "release MAJOR.MINOR", "this is release 1.1 of the tool\n", "2026-10-01"),
            ("vYYYY0M.BUILD[-TAG]", "v202603.1001", [], "LICENSE", "Copyright (c) YYYY", "Copyright (c) 2024 someone\n", "2026-03-20"),
            ("MAJOR.MINOR.PATCH", "1.2.3", ["--patch"], "notes.md", "release MAJOR.MINOR", "no occurrence here at all\n", "2026-10-01")]:
        projs = []
        for _ in range(2):
            prj = project.TempProject(vp, cur, files={"a.txt": ["ver = {version}"], fname: [pat_]}, contents={fname: stale_text})
            prj.__enter__()
            projs.append(prj)
        try:
            prj_dry, prj_real = projs
            args = ["update", "--no-fetch", "--date", date_] + flags_
            before = prj_dry.snapshot()
            code_d, out_d, logs_d, _ = prj_dry.run(impl, args + ["--dry"])
            code_r, out_r, logs_r, _ = prj_real.run(impl, args)
            after_r = prj_real.snapshot()
            rep.case(("stale-untouched-pattern", vp, pat_, stale_text))
            inp = dict(version_pattern=vp, current_version=cur, args=args, file=fname, pattern=pat_, content=stale_text, dry_exit=code_d, real_exit=code_r)
            if code_d == 0 and code_r != 0:
                rep.violation("--dry exits 0 but the real run fails", input=inp, **{"class": "dry-ok-real-fails"})
            elif code_d == 0:
                try:
                    applied = apply_unified(out_d.rstrip("\n"), {p_: b.decode("utf-8") for p_, b in before.items()})
                    for p_, t in applied.items():
                        if after_r.get(p_) != t.encode("utf-8"):
                            rep.violation("applying the --dry diff does not give the real run's %s" % p_, input=dict(inp, applied=t, real=after_r.get(p_, b"").decode("utf-8", "replace")), **{"class": "diff-differs"})
                            break
                except DiffError as ex:
                    rep.violation("the diff printed by --dry cannot be applied: %s" % ex, input=inp, **{"class": "diff-unappliable"})
        finally:
            for prj in projs:
                prj.__exit__(None, None, None)
    # under an ASCII process locale: when --dry exits 0 the real run does too and writes what the diff said (v2 and legacy engines,
    # non-ASCII text in the files)
    env = {"LC_ALL": "C", "LANG": "C", "PYTHONUTF8": "0", "PYTHONCOERCECLOCALE": "0", "PYTHONIOENCODING": "utf-8"}
    for vp, cur, args_ in (("MAJOR.MINOR.PATCH", "1.2.3", ["--patch"]), ("{semver}", "1.2.3", ["--patch"]), ("{pycalver}", "v202001.0042-beta", ["--date", "2020-03-01"])):
        content = "# Caf\u00e9 M\u00fcnch \u2713\nver = %s\n" % cur
        prj = project.TempProject(vp, cur, files={"a.txt": ["ver = {version}"]}, contents={"a.txt": content})
        with prj:
            c_dry, o_dry, e_dry = prj.run_subprocess(["update", "--no-fetch", "--dry"] + args_, env_extra=env)
            mid = prj.snapshot()
            c_real, o_real, e_real = prj.run_subprocess(["update", "--no-fetch"] + args_, env_extra=env)
            after = prj.snapshot()
        rep.case(("ascii-locale", vp), nontrivial=c_dry == 0)
        inp = dict(version_pattern=vp, current_version=cur, locale="LC_ALL=C, UTF-8 mode off", dry_exit=c_dry, real_exit=c_real, stderr=e_real.decode("utf-8", "replace")[-300:])
        if c_dry == 0 and c_real != 0:
            rep.violation("--dry exits 0 but the real run fails", input=inp, **{"class": "dry-ok-real-fails"})
        elif c_dry == 0 and not after.get("a.txt", b"").startswith("# Caf\u00e9 M\u00fcnch \u2713\n".encode("utf-8")):
            rep.violation("the real run changed bytes the --dry diff did not announce", input=inp, **{"class": "dry-real-differ"})
    # committing switched off (--no-commit / commit = false) in a repository with uncommitted changes: nothing is going to be committed, so the
    # working tree's state does not matter -- --dry and the real run agree (both go through)
    for how in ("flag", "config"):
        for dirty in ("other.txt", "a.txt"):
            prj = project.TempProject("MAJOR.MINOR.PATCH", "1.2.3", files={"a.txt": ["ver = {version}"]}, contents={"a.txt": "ver = 1.2.3\nnotes\n", "other.txt": "x\n"},
                                      commit=(how == "flag"), tag=False, push=False, vcs="git")
            with prj:
                open(prj.path(dirty), "a").write("uncommitted\n")
                extra = ["--no-commit"] if how == "flag" else []
                before = prj.snapshot()
                c_dry, o_dry, l_dry, _ = prj.run(impl, ["update", "--no-fetch", "--patch", "--dry"] + extra)
                mid = prj.snapshot()
                c_real, o_real, l_real, _ = prj.run(impl, ["update", "--no-fetch", "--patch"] + extra)
                after = prj.snapshot()
            rep.case(("no-commit-dirty", how, dirty), nontrivial=c_dry == 0)
            inp = dict(version_pattern="MAJOR.MINOR.PATCH", commit_off_by=how, dirty_file=dirty, dry_exit=c_dry, real_exit=c_real, logs=l_real[-3:])
            if mid != before:
                rep.violation("--dry changed files", input=inp, **{"class": "dry-writes"})
            if c_dry == 0 and c_real != 0:
                rep.violation("--dry exits 0 but the real run with the same arguments fails (committing is off, the tree has uncommitted changes)", input=inp, **{"class": "dry-ok-real-fails"})
            elif c_dry == 0 and b"ver = 1.2.4" not in after.get("a.txt", b""):
                rep.violation("the real run did not write what --dry announced", input=inp, **{"class": "dry-real-differ"})
    # a configured file that is untracked AND ignored by git (a generated file): the working tree is clean for git; when --dry exits 0 the real
    # committing run does too
    prj = project.TempProject("MAJOR.MINOR.PATCH", "1.2.3", files={"a.txt": ["ver = {version}"], "build_info.txt": ["build of {version}"]},
                              contents={"a.txt": "ver = 1.2.3\n", ".gitignore": "build_info.txt\n"}, commit=True, tag=False, push=False, vcs="git")
    with prj:
        open(prj.path("build_info.txt"), "w").write("build of 1.2.3\n")
        c_dry, o_dry, l_dry, _ = prj.run(impl, ["update", "--no-fetch", "--patch", "--dry"])
        c_real, o_real, l_real, _ = prj.run(impl, ["update", "--no-fetch", "--patch"])
        after = prj.snapshot()
    rep.case(("gitignored-configured-file",), nontrivial=c_dry == 0)
    inp = dict(version_pattern="MAJOR.MINOR.PATCH", layout="build_info.txt configured, untracked and listed in .gitignore", dry_exit=c_dry, real_exit=c_real, logs=l_real[-3:])
    if c_dry == 0 and c_real != 0:
        rep.violation("--dry exits 0 but the real run with the same arguments fails (a configured file is ignored by git)", input=inp, **{"class": "dry-ok-real-fails"})
    elif c_dry == 0 and (b"1.2.4" not in after.get("build_info.txt", b"") or b"1.2.4" not in after.get("a.txt", b"")):
        rep.violation("the real run did not write what --dry announced", input=inp, **{"class": "dry-real-differ"})
    # a configured file that is not valid UTF-8: whatever --dry says, the real run agrees (same exit status; when both succeed the real file is the
    # dry diff applied, which the stream above checks for UTF-8 files)
    for vp, cur, args_ in (("MAJOR.MINOR.PATCH", "1.2.3", ["--patch"]), ("{semver}", "1.2.3", ["--patch"])):
        raw = b"# Caf\xe9 (latin-1)\nver = " + cur.encode("ascii") + b"\n"
        prj = project.TempProject(vp, cur, files={"a.txt": ["ver = {version}"]}, contents={"a.txt": "ver = %s\n" % cur})
        with prj:
            with open(prj.path("a.txt"), "wb") as fh:
                fh.write(raw)
            before = prj.snapshot()
            c_dry, o_dry, l_dry, _ = prj.run(impl, ["update", "--no-fetch", "--dry"] + args_)
            mid = prj.snapshot()
            c_real, o_real, l_real, _ = prj.run(impl, ["update", "--no-fetch"] + args_)
            after = prj.snapshot()
        rep.case(("non-utf8-file", vp), nontrivial=True)
        inp = dict(version_pattern=vp, current_version=cur, file_bytes=repr(raw), dry_exit=c_dry, real_exit=c_real, logs=l_real[-3:])
        if mid != before:
            rep.violation("--dry changed files", input=inp, **{"class": "dry-writes"})
        if (c_dry == 0) != (c_real == 0):
            rep.violation("--dry and the real run disagree on success for a file that is not valid UTF-8", input=inp, **{"class": "dry-ok-real-fails"})
        elif c_real != 0 and after != before:
            rep.violation("the real run failed but changed files", input=inp, **{"class": "dry-real-differ"})
    # (the correspondence of rfd_from_content with the Coq model belongs to C03 / C04: a change of what is rewritten that the dry and the real
    #  path share is their subject, not a difference between the two paths)


def search(rep, tier, seed, effort=2):
    run(rep, tier, seed, model_ok=False, effort=effort)


def replay(payload):
    print("replay C13: see violation input (project files and args) in the replay file")
    return 1
