"""C08 — any sequence of updates keeps files, config and tags in agreement."""
import datetime as dt, os
from . import common, rwgen, rwcheck, project

LEVEL = "proof"
EXTRA_TARGETS = ["Model/Project"]
TRUSTED_BASE = [
    "Coq 8.16.1 kernel",
    "hand-written abstract state machine Model/Project.v (config version, occurrences, tags, commits) whose step is parameterised by the bump function; "
    "the concrete pieces are the models of C01/C03/C05/C09/C10",
    "harness: histories of real `bumpver update` invocations in real git repositories; after every step the abstract state is extracted with git log / git tag / "
    "git show --stat, file bytes and `bumpver show`",
]
ASSUMPTIONS = ["git's object model, `git tag --list --merged` reachability and `git add --update` are the runtime's; exercised, not proved",
               "after a --no-commit run the user commits the rewritten files before the next committing update (otherwise the dirty check refuses, which is C11)"]
HDR = "From BV Require Import Model.Project."


def git_state(prj):
    tags = [t for t in prj.git("tag", "--list").splitlines() if t]
    ncommits = len(prj.git("log", "--oneline").splitlines())
    head_tags = [t for t in prj.git("tag", "--points-at", "HEAD").splitlines() if t]
    return tags, ncommits, head_tags


def run(rep, tier, seed, model_ok=True, effort=1):
    from . import impl
    from bumpver import version
    r = common.rng(seed, "c08")
    nhist = (15 if tier == "quick" else 500) * effort
    rep.rule = ("histories of 1..12 invocations in real git repositories over generated projects: committing updates with flag sets and non-decreasing dates, "
                "failing invocations, --no-commit and --no-tag-commit runs, branch switches and unrelated commits; after every successful update: config version "
                "= announced version = every configured occurrence = `show`; with tagging the newest tag; strictly greater than before; exactly one new commit "
                "containing only the configured files and one tag on it; abstract traces replayed against the Coq state machine; non-trivial = distinct (history, step) that is a successful update")
    traces = []
    for h in range(nhist):
        spec = rwgen.gen_project(r, impl, legacy=(r.random() < 0.2), max_files=3, allow_mixed=False, tree=True)
        if not spec["old"]:
            continue
        scripted = None
        same_day = False
        if h == 1:
            # corpus history: an update whose result is equal to the current version under PEP 440 but differs as text (2024.10.0 -> 2024.10)
            # must be refused; the following dated update must then succeed from the unchanged state
            spec = rwgen.gen_project(common.rng(2, "c08-corpus"), impl, legacy=False, max_files=2, allow_mixed=False)
            spec["vp"], spec["flags"], spec["old"], spec["date"] = "YYYY.0M[.PATCH]", [], "2024.10.0", dt.date(2024, 10, 5)
            fs = rwgen.FileSpec("VERSION.txt", ["{version}"])
            fs.lines = [([rwgen.Seg("occ", 0)], "\n")]
            spec["files"] = [fs]
            scripted, same_day = ["update", "update"], True
        if h == 4:
            # corpus history: one file reached through two entries that are NOT adjacent (a glob, then another file, then the file by name with an
            # extra pattern): both entries' patterns follow every update
            spec = rwgen.gen_project(common.rng(4, "c08-corpus"), impl, legacy=False, max_files=1, allow_mixed=False)
            spec["vp"], spec["flags"], spec["old"], spec["date"], spec["fmt"] = "vMAJOR.MINOR.PATCH", ["--patch"], "v1.4.0", dt.date(2024, 3, 1), "bumpver.toml"
            T_, O_ = (lambda t: rwgen.Seg("text", t)), (lambda i: rwgen.Seg("occ", i))
            f_init = rwgen.FileSpec("src/pkg/__init__.py", ['__version__ = "{version}"', '__release__ = "{version}"'])
            f_init.lines = [([O_(0)], "\n"), ([O_(1)], "\n")]
            f_other = rwgen.FileSpec("src/pkg/other.py", ['__version__ = "{version}"'])
            f_other.lines = [([T_("# module")], "\n"), ([O_(0)], "\n")]
            f_readme = rwgen.FileSpec("README.md", ["demo {version}"])
            f_readme.lines = [([T_("get "), O_(0), T_(" today")], "\n")]
            spec["files"] = [f_init, f_other, f_readme]
            spec["raw_entries"] = [("src/pkg/*.py", ['__version__ = "{version}"']), ("README.md", ["demo {version}"]), ("src/pkg/__init__.py", ['__release__ = "{version}"'])]
            spec["cfg_prefix"] = ""
            scripted = ["update", "no-tag", "update"]
        if h == 0:
            # corpus history: the config gets ahead of the newest tag across a 9 -> 10 digit boundary
            spec = rwgen.gen_project(common.rng(1, "c08-corpus"), impl, legacy=False, max_files=2, allow_mixed=False)
            spec["vp"], spec["flags"], spec["old"] = "MAJOR.MINOR.PATCH", ["--minor"], "1.8.0"
            # two different patterns on one line, listed left to right, while the version grows in length (1.9.0 -> 1.10.0)
            fs = rwgen.FileSpec("INSTALL.txt", ["mylib-{version}.tar.gz", "(tag v{version})"])
            fs.lines = [([rwgen.Seg("text", "download "), rwgen.Seg("occ", 0), rwgen.Seg("text", " "), rwgen.Seg("occ", 1), rwgen.Seg("text", " now")], "\n"),
                        ([rwgen.Seg("text", "end")], "\n")]
            spec["files"].append(fs)
            scripted = ["update", "fetch-fails", "no-tag", "update", "vcs-rejects", "allow-dirty", "update", "hook-writes", "update"]
        spec["cfg_prefix"] = ""
        if h == 3:
            # corpus history: a glob entry (*.toml) covers the config file itself with a pattern for another of its lines; the config's own
            # current_version line must still follow every update (also across an untagged one)
            spec = rwgen.gen_project(common.rng(3, "c08-corpus"), impl, legacy=False, max_files=1, allow_mixed=False)
            spec["vp"], spec["flags"], spec["old"], spec["date"], spec["fmt"] = "MAJOR.MINOR.PATCH", ["--patch"], "2.0.8", dt.date(2024, 3, 1), "pyproject.toml"
            fs = rwgen.FileSpec("pixi.toml", ['pkgver = "{version}"'])
            fs.lines = [([rwgen.Seg("text", "[workspace]")], "\n"), ([rwgen.Seg("occ", 0)], "\n")]
            fs.group = "*.toml"
            spec["files"] = [fs]
            spec["cfg_prefix"] = '[project]\npkgver = "2.0.8"\n\n'
            scripted = ["update", "no-tag", "update"]
        with rwgen.to_temp_project(project, spec, commit=True, tag=True, push=False, vcs=None) as prj:
            rwgen.write_contents(prj, spec)
            if prj.cfg_error(impl):
                continue
            prj.vcs = "git"
            prj.git("init", "-q", "-b", "main")
            for k, v in (("user.email", "t@example.com"), ("user.name", "t"), ("commit.gpgsign", "false"), ("tag.gpgsign", "false")):
                prj.git("config", k, v)
            prj.git("add", "-A")
            prj.git("commit", "-q", "-m", "initial")
            # every fifth history runs in a LINKED WORKTREE of the repository (`git worktree add`): there .git is a file, not a directory
            main_dir, linked = prj.dir, None
            if h % 5 == 2 and not scripted:
                linked = prj.dir + "_wt"
                prj.git("worktree", "add", "-q", "-b", "linked", linked)
                prj.dir = linked
                rep.count("histories-in-linked-worktree")
            cur = spec["old"]
            date = spec["date"]
            steps = len(scripted) if scripted else r.randrange(1, 13)
            trace = []
            on_feature = False
            for s in range(steps):
                op = scripted[s] if scripted else r.choice(["update", "update", "update", "update", "fail", "no-commit", "no-tag", "unrelated", "branch", "allow-dirty", "vcs-rejects", "hook-writes"])
                dirty_file = None
                if op == "allow-dirty":
                    # an unrelated tracked file has unstaged edits; --allow-dirty must leave it out of the bump commit
                    dirty_file = "wip.txt"
                    if not os.path.exists(prj.path(dirty_file)):
                        open(prj.path(dirty_file), "w").write("first\n")
                        prj.git("add", dirty_file)
                        prj.git("commit", "-q", "-m", "add wip file")
                    open(prj.path(dirty_file), "a").write("work in progress %d\n" % s)
                tags0, n0, _ = git_state(prj)
                before = prj.snapshot()
                if op == "unrelated":
                    open(prj.path("unrelated_%d.txt" % s), "w").write("x\n")
                    prj.git("add", "-A")
                    prj.git("commit", "-q", "-m", "unrelated %d" % s)
                    trace.append("OUnrelated")
                    continue
                if op == "branch":
                    if on_feature:
                        prj.git("checkout", "-q", "linked" if linked else "main")
                    else:
                        prj.git("checkout", "-q", "-B", "feature")
                    on_feature = not on_feature
                    # the working tree now shows that branch's version
                    c2, o2, _, _ = prj.run(impl, ["show", "--no-fetch", "--ignore-vcs-tag"])
                    shown = next((l.split("Current Version: ", 1)[1] for l in o2.splitlines() if l.startswith("Current Version: ")), None)
                    if shown:
                        cur = shown      # the config value of the branch that is checked out now
                    trace.append("OBranch")
                    continue
                date = rwgen.avoid_week53(spec["vp"], date + dt.timedelta(days=(0 if s == 0 else 40) if same_day else r.choice([0, 1, 31, 400])))
                if op == "fetch-fails":
                    # a checkout that is behind the newest tag (the bump commit is not in it) and a remote that cannot be reached: with fetching on,
                    # the update stops -- it neither forgets the local tags nor releases a version at or below the newest tag
                    if not tags0 or n0 < 2:
                        continue
                    head = prj.git("rev-parse", "HEAD").strip()
                    prj.git("reset", "-q", "--hard", "HEAD~1")
                    prj.git("remote", "add", "origin", "/nonexistent/remote.git")
                    before_f = prj.snapshot()
                    code, out, logs, exc = prj.run(impl, ["update", "--fetch", "--date", date.isoformat()] + spec["flags"])
                    tags1, n1, _ = git_state(prj)
                    rep.case((h, s, op), nontrivial=True)
                    rep.count("op=fetch-fails")
                    if code == 0 or prj.snapshot() != before_f or tags1 != tags0 or prj.git("rev-parse", "HEAD").strip() != prj.git("rev-parse", head + "~1").strip():
                        rep.violation("fetching from the remote failed, yet update went on (exit %s): files, commits or tags changed in a checkout that is behind the newest tag" % code,
                                      input=dict(version_pattern=spec["vp"], start=spec["old"], history_index=h, step=s, op=op, exit=code, tags=tags0, logs=logs[-3:]), **{"class": "fail-changed-state"})
                    prj.git("remote", "remove", "origin")
                    for t_ in set(tags1) - set(tags0):
                        prj.git("tag", "-d", t_)
                    prj.git("reset", "-q", "--hard", head)
                    trace.append("OFail")
                    continue
                if op == "vcs-rejects":
                    # the repository refuses the commit (a silent pre-commit hook of git itself): the update fails, nothing is committed or tagged;
                    # the half-done work is then discarded and the history goes on from the previous state
                    gitdir = prj.git("rev-parse", "--git-common-dir").strip()
                    hook = os.path.join(gitdir if os.path.isabs(gitdir) else os.path.join(prj.dir, gitdir), "hooks", "pre-commit")
                    os.makedirs(os.path.dirname(hook), exist_ok=True)
                    open(hook, "w").write("#!/bin/sh\nexit 1\n")
                    os.chmod(hook, 0o755)
                    code, out, logs, exc = prj.run(impl, ["update", "--no-fetch", "--date", date.isoformat()] + spec["flags"])
                    os.unlink(hook)
                    tags1, n1, _ = git_state(prj)
                    rep.case((h, s, op), nontrivial=True)
                    rep.count("op=vcs-rejects")
                    if code == 0 or n1 != n0 or tags1 != tags0:
                        rep.violation("the repository refused the commit, yet update exits %s (commits %d -> %d, tags %s -> %s)" % (code, n0, n1, len(tags0), len(tags1)),
                                      input=dict(version_pattern=spec["vp"], start=spec["old"], history_index=h, step=s, op=op, exit=code, logs=logs[-3:]), **{"class": "fail-changed-state"})
                    prj.git("reset", "-q", "--hard", "HEAD")
                    for t_ in set(tags1) - set(tags0):
                        prj.git("tag", "-d", t_)
                    trace.append("OFail")
                    continue
                args = ["update", "--no-fetch", "--date", date.isoformat()] + spec["flags"]
                if op == "fail":
                    args += r.choice([["--set-version", cur], ["--tag", "nonsense"], ["--pin-date"]])
                if op == "no-commit":
                    args.append("--no-commit")
                if op == "no-tag":
                    args.append("--no-tag-commit")
                if op == "allow-dirty":
                    args.append("--allow-dirty")
                hook_note = None
                if op == "hook-writes" and spec["files"]:
                    # a pre-commit hook that writes a release note into a configured file: what it wrote belongs to the bump commit
                    hook_note = "\nreleased (step %d)\n" % s
                    with open(prj.path(".note_hook.sh"), "w") as fh_:
                        fh_.write("#!/bin/sh\nprintf '%s' >> '%s'\n" % (hook_note.replace("\n", "\\n"), prj.path(spec["files"][0].path)))
                    os.chmod(prj.path(".note_hook.sh"), 0o755)
                    prj.git("add", ".note_hook.sh"); prj.git("commit", "-q", "-m", "add hook script")
                    tags0, n0, _ = git_state(prj)
                    before = prj.snapshot()
                    args += ["--pre-commit-hook", ".note_hook.sh"]
                code, out, logs, exc = prj.run(impl, args)
                old_a, new_a = rwcheck.announced(logs)
                tags1, n1, head_tags = git_state(prj)
                after = prj.snapshot()
                inp = dict(version_pattern=spec["vp"], start=spec["old"], history_index=h, step=s, op=op, args=args, exit=code, logs=logs[-4:],
                           tags_before=tags0, tags_after=tags1)
                rep.case((h, s, op), nontrivial=code == 0)
                rep.count("op=%s:%s" % (op, "ok" if code == 0 else "fail"))
                if code != 0:
                    if after != before or tags1 != tags0 or n1 != n0:
                        rep.violation("a failing update changed files, tags or commits", input=inp, **{"class": "fail-changed-state"})
                    if dirty_file:
                        prj.git("checkout", "--", dirty_file)
                    if op in ("update", "no-tag", "no-commit", "allow-dirty"):
                        rep.notes.append("update refused in history %d step %d: %s" % (h, s, logs[-1:] ))
                    trace.append("OFail")
                    continue
                if op == "fail":
                    rep.violation("an invalid invocation exited 0", input=inp, **{"class": "invalid-accepted"})
                    continue
                # a successful update
                if hook_note is not None:
                    p0 = spec["files"][0].path
                    status_now = prj.git("status", "--porcelain")
                    if not after.get(p0, b"").endswith(hook_note.encode()) or p0 in status_now:
                        rep.violation("what the pre-commit hook wrote into the configured file %s is not part of the bump commit (git status: %r)" % (p0, status_now.strip()),
                                      input=inp, **{"class": "commit-files"})
                    if after.get(p0, b"").endswith(hook_note.encode()):
                        after[p0] = after[p0][:-len(hook_note.encode())]
                known = [cur] + [t for t in tags0]
                top = max(known, key=lambda t: version.parse_version(t))
                if not (version.parse_version(new_a) > version.parse_version(top)):
                    rep.violation("new version %r is not greater than the previous state %r" % (new_a, top), input=inp, **{"class": "not-greater"})
                exp = rwcheck.expected_after(prj, spec, new_a)
                # the config text still carries the version of the last state on this branch
                for path, want in exp.items():
                    if path == prj.fmt:
                        if ('current_version = "%s"' % new_a).encode() not in after[path]:
                            rep.violation("config current_version differs from the announced version", input=inp, **{"class": "config-differs"})
                    elif after.get(path) != want:
                        rep.violation("occurrences in %s differ from the announced version" % path, input=dict(inp, got=after.get(path, b"").decode("utf-8", "replace")[-300:]), **{"class": "file-differs"})
                c2, o2, _, _ = prj.run(impl, ["show", "--no-fetch"])
                shown = next((l.split("Current Version: ", 1)[1] for l in o2.splitlines() if l.startswith("Current Version: ")), None)
                if shown != new_a:
                    rep.violation("show reports %r after an update to %r" % (shown, new_a), input=inp, **{"class": "show-differs"})
                if op == "no-commit":
                    if n1 != n0 or tags1 != tags0:
                        rep.violation("--no-commit created a commit or tag", input=inp, **{"class": "no-commit-committed"})
                    prj.git("commit", "-q", "-am", "manual commit of bump")
                    trace.append("OUpdateNoCommit")
                else:
                    if n1 != n0 + 1:
                        rep.violation("a committing update added %d commits" % (n1 - n0), input=inp, **{"class": "commit-count"})
                    stat = prj.git("show", "--stat", "--format=", "HEAD")
                    files = sorted(l.split("|")[0].strip() for l in stat.splitlines() if "|" in l)
                    want_files = sorted([f.path for f in spec["files"]] + [prj.fmt])
                    # files whose text did not change are naturally absent from the commit
                    if not (set(files) <= set(want_files) and prj.fmt in files):
                        rep.violation("the bump commit contains %s, configured files are %s" % (files, want_files), input=inp, **{"class": "commit-files"})
                    if dirty_file:
                        if dirty_file in files or (" M %s" % dirty_file) not in prj.git("status", "--porcelain"):
                            rep.violation("--allow-dirty swept the unstaged edits of %s into the bump commit" % dirty_file, input=inp, **{"class": "swept-in"})
                        prj.git("checkout", "--", dirty_file)
                    if op == "no-tag":
                        if tags1 != tags0:
                            rep.violation("--no-tag-commit created a tag", input=inp, **{"class": "no-tag-tagged"})
                        trace.append("OUpdateNoTag")
                    else:
                        if sorted(set(tags1) - set(tags0)) != [new_a] or head_tags != [new_a]:
                            rep.violation("expected exactly one new tag %r on the new commit, got %s / on HEAD %s" % (new_a, sorted(set(tags1) - set(tags0)), head_tags),
                                          input=inp, **{"class": "tag-count"})
                        newest = max(tags1, key=lambda t: version.parse_version(t))
                        if newest != new_a:
                            rep.violation("the newest tag %r is not the announced version %r" % (newest, new_a), input=inp, **{"class": "newest-tag"})
                        trace.append("OUpdate")
                if hook_note is not None:
                    # take the note and the hook script out again (an ordinary later commit), so that the files are what the generator knows
                    with open(prj.path(spec["files"][0].path), "wb") as fh_:
                        fh_.write(after[spec["files"][0].path])
                    os.unlink(prj.path(".note_hook.sh"))
                    prj.git("add", "-A")
                    prj.git("commit", "-q", "-m", "drop the note and the hook script")
                    trace.append("OUnrelated")
                cur = new_a
            traces.append(trace)
            rep.sample(dict(version_pattern=spec["vp"], start=spec["old"], ops=trace, final=cur))
            if linked:
                prj.dir = main_dir
                import shutil
                shutil.rmtree(linked, ignore_errors=True)
    if model_ok and traces:
        items = ["[%s]" % ";".join(t) for t in traces]
        bad, errs = common.coq_eval("c08", HDR, "list op", "fun ops => consistent (run_ops ops init_state)", items, shard=200)
        for i in bad:
            rep.mismatch("abstract state machine: an observed history leaves the model inconsistent", input=dict(ops=traces[i]))
        rep.corr_errors += errs


def search(rep, tier, seed, effort=2):
    run(rep, tier, seed, model_ok=False, effort=effort)


def replay(payload):
    print("replay C08: see violation input (history, step, args) in the replay file")
    return 1
