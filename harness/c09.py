"""C09 — the current version is the greatest matching tag in scope."""
import datetime as dt
from . import common, project, v2gen
from .common import cs, cos, cz

LEVEL = "proof"
EXTRA_TARGETS = ["Model/Vcs"]
TRUSTED_BASE = [
    "Coq 8.16.1 kernel + vm_compute",
    "T1 translator (part tables, VERSION_PATTERN, tag maps)",
    "hand-written Gallina model Model/Vcs.v (valid_tags, latest_tag, resolve_current) over Model/V2.v is_valid and Model/Pep440.v",
    "harness: tag lists served by a fake git (all tags / tags merged into HEAD), `bumpver show` and `bumpver update --dry` observed; packaging.version as reference order",
]
ASSUMPTIONS = ["what `git tag --list [--merged]` returns is given (fake git); real repositories with branches are used in the C08 check"]
HDR = "From BV Require Import Lib.Regex Model.V2 Model.Pep440 Model.V1 Model.Vcs."

PATTERNS = [("MAJOR.MINOR.PATCH", ["--patch"]), ("vMAJOR.MINOR.PATCH[-TAG]", ["--patch"]), ("YYYY.0M.0D", []), ("vYYYY0M.BUILD[-TAG]", []),
            ("MAJOR.MINOR[.PATCH]", ["--minor"]), ("YYYY.BUILD[-TAG]", []), ("{pycalver}", []), ("{semver}", ["--patch"])]
JUNK = ["", "foo", "v", "release-1", "1", "1.2", "latest", "v1.2.3.4", "2020.02.30", "2021.13.01", "1.2.3-final", "1.2.x", "1..2", "v202013.1001",
        "9999.99.99", "99.0.0-rc1", "99.0.0.1", "v99.0.0-beta.2", "9999.1001-beta-x", "0.0.0", "1.2.3+local", "v1.2.3-dev", "1.02.3", "1.2.03"]


def gen_versions(r, impl, pat, n):
    out = []
    legacy = "{" in pat
    for _ in range(n):
        if legacy:
            d = dt.date(2017, 1, 1) + dt.timedelta(days=r.randrange(0, 4000))
            if pat == "{pycalver}":
                out.append("v%04d%02d.%s%s" % (d.year, d.month, r.choice(["0001", "1001", "0999", "22000"]), r.choice(["", "", "-beta", "-rc", "-alpha"])))
            else:
                out.append("%d.%d.%d" % (r.choice([0, 1, 1, 2, 10]), r.choice([0, 2, 9, 10, 11]), r.choice([0, 1, 9, 10, 100])))
        else:
            v, d = v2gen.gen_state(r, impl)
            d = dt.date(2017, 1, 1) + dt.timedelta(days=r.randrange(0, 4000))
            v = v._replace(**impl.v2version.cal_info(d)._asdict())
            v = v._replace(major=r.choice([0, 1, 1, 2, 10]), minor=r.choice([0, 2, 9, 10, 11]), patch=r.choice([0, 1, 9, 10, 100]))
            s = impl.v2version.format_version(v, pat)
            if s:
                out.append(s)
    return out


def impl_valid(impl, tag, pat):
    try:
        return (impl.v1version if "{" in pat else impl.v2version).is_valid(tag, pat)
    except Exception:
        return None


def ref_key(s):
    from bumpver import version
    try:
        from packaging import version as pk
        return (1, pk.Version(s))
    except Exception:
        return (0, version.parse_version(s))


CORPUS_WANT = {("vYYYY.JJJ.INC0", "v2024.364.0", "global"): "v2024.366.0",      # day 366 of a leap year exists
               ("vYYYY.00J.INC0", "v2023.001.0", "default"): "v2023.365.0",     # day 365 of a common year exists
               ("YYYY.0M.0D", "2020.02.01", "default"): "2020.03.01",           # February 30th does not
               ("MAJOR.MINOR.PATCH[-TAG]", "1.2.1", "global"): "1.3.0-beta",     # dev < alpha < beta of one release
               ("MAJOR.MINOR.PATCH[-TAG]", "1.2.2", "global"): "1.3.0-preview",  # preview is a release-candidate spelling: above alpha
               ("MAJOR.MINOR.PATCH[-TAG]", "1.2.2", "default"): "1.3.0-preview"}


def expected_current(impl, pat, cfg_version, scope, tags_all, tags_branch):
    tags = tags_branch if scope == "branch" else tags_all
    valid = [t for t in tags if impl_valid(impl, t, pat)]
    if not valid:
        return cfg_version
    best = valid[0]
    for t in valid[1:]:
        if ref_key(t) > ref_key(best):
            best = t
    if scope == "default" and ref_key(best) <= ref_key(cfg_version):
        return cfg_version
    return best


def run(rep, tier, seed, model_ok=True, effort=1):
    from . import impl
    from bumpver import version
    r = common.rng(seed, "c09")
    n = (70 if tier == "quick" else 1500) * effort
    rep.rule = ("tag sets of 0..30 tags (valid versions, PEP 440-equal spellings, other schemes, junk, calendar-impossible dates) split into all tags / tags "
                "merged into HEAD, x three scopes x --ignore-vcs-tag x config version below/equal/above the tags, v2 and legacy patterns: `bumpver show` and "
                "`update --dry` against a fake git; expected version computed independently with packaging.version; uniqueness of the new version against tags "
                "of other branches; resolve_current compared with the Coq model; non-trivial = distinct case with at least one valid tag")
    today = v2gen.ordinal(impl.PINNED_TODAY)
    items, meta = [], []
    corpus = [("MAJOR.MINOR.PATCH", ["--patch"], "1.9.0", "default", ["1.10.0", "1.9.0", "1.2.0"], ["1.9.0"], False),
              ("MAJOR.MINOR.PATCH", ["--patch"], "0.9.9", "default", ["0.10.0"], [], False),
              ("YYYY.0M.0D", [], "2020.02.01", "default", ["2020.02.30", "2020.03.01"], [], False),
              ("MAJOR.MINOR[.PATCH]", ["--minor"], "1.2", "default", ["1.2.0", "1.1"], ["1.1"], False),
              # tags that match the pattern in full without being in its canonical spelling (bumpver creates them itself: --set-version 1.2.0)
              ("MAJOR.MINOR[.PATCH]", ["--minor"], "1.1", "global", ["1.2.0", "1.1"], ["1.1"], False),
              ("MAJOR.MINOR[.PATCH]", ["--minor"], "1.1", "default", ["1.3.0", "1.1"], ["1.3.0", "1.1"], False),
              ("MAJOR.MINOR.PATCH[PYTAG[NUM]]", ["--patch"], "1.2.2", "global", ["1.2.3rc", "1.2.2"], ["1.2.2"], False),
              # pre-release tags of one release without its final tag; the rarely used tag `preview`
              ("MAJOR.MINOR.PATCH[-TAG]", ["--patch"], "1.2.1", "global", ["1.3.0-dev", "1.3.0-alpha", "1.3.0-beta", "1.2.1"], ["1.2.1"], False),
              ("MAJOR.MINOR.PATCH[-TAG]", ["--patch"], "1.2.2", "global", ["1.2.2", "1.3.0-alpha", "1.3.0-preview"], ["1.2.2"], False),
              ("MAJOR.MINOR.PATCH[-TAG]", ["--patch"], "1.2.2", "default", ["1.2.2", "1.3.0-alpha", "1.3.0-preview"], ["1.2.2", "1.3.0-alpha", "1.3.0-preview"], False),
              # tags made on the last day of a (leap) year with a day-of-year part
              ("vYYYY.JJJ.INC0", [], "v2024.364.0", "global", ["v2024.364.0", "v2024.366.0", "1.2.3"], ["v2024.364.0"], False),
              ("vYYYY.00J.INC0", [], "v2023.001.0", "default", ["v2023.365.0", "v2023.001.0"], ["v2023.365.0", "v2023.001.0"], False),
              ("MAJOR.MINOR.PATCH", ["--patch"], "1.2.3", "branch", ["1.2.4", "1.2.3"], ["1.2.3"], False),
              ("MAJOR.MINOR.PATCH", ["--patch"], "1.2.3", "global", ["2.0.0", "1.2.3"], ["1.2.3"], False),
              ("vMAJOR.MINOR.PATCH[-TAG]", ["--patch"], "v1.0.0-rc", "default", ["v1.0.0-beta", "v1.0.0", "v1.0.0-dev"], [], False),
              # the config is legitimately ahead of the newest tag (e.g. after --no-tag-commit) across a 9 -> 10 digit boundary
              ("MAJOR.MINOR.PATCH", ["--patch"], "1.10.0", "default", ["1.9.0", "1.8.0"], ["1.9.0"], False),
              ("MAJOR.MINOR.PATCH", ["--patch"], "1.10.0", "global", ["1.9.0", "1.8.0"], ["1.8.0"], False),
              ("MAJOR.MINOR.PATCH", ["--patch"], "1.5.0", "global", ["1.3.0", "1.2.0"], ["1.2.0"], False),
              ("MAJOR.MINOR.PATCH", ["--patch"], "1.5.0", "branch", ["1.3.0", "1.2.0"], ["1.2.0"], False)]
    cases = list(corpus)
    while len(cases) < n:
        pat, flags = r.choice(PATTERNS)
        vers = gen_versions(r, impl, pat, r.choice([0, 1, 2, 3, 5, 8, 20]))
        tags_all = list(vers)
        for _ in range(r.choice([0, 0, 1, 3, 6])):
            tags_all.append(r.choice(JUNK))
        r.shuffle(tags_all)
        tags_all = list(dict.fromkeys(tags_all))[:30]
        tags_branch = [t for t in tags_all if r.random() < 0.6]
        base = gen_versions(r, impl, pat, 1)
        if not base:
            continue
        cfgv = base[0]
        k = r.random()
        if vers and k < 0.3:
            cfgv = r.choice(vers)
        cases.append((pat, flags, cfgv, r.choice(["default", "default", "global", "branch"]), tags_all, tags_branch, r.random() < 0.15))
    for pat, flags, cfgv, scope, tags_all, tags_branch, ignore in cases:
        # every fourth project is laid out like a linked worktree or a submodule: .git is a file, not a directory
        prj = project.TempProject(pat, cfgv, files={}, commit=True, tag=True, push=False, tag_scope=scope, vcs="fakegit", git_file=(len(pat + cfgv + scope) + len(tags_all)) % 4 == 0,
                                  vcs_cfg=dict(tags=tags_all, tags_branch=tags_branch, status="", remote=None))
        with prj:
            if prj.cfg_error(impl):
                rep.count("config-rejected")
                continue
            args = ["show", "--no-fetch"] + (["--ignore-vcs-tag"] if ignore else [])
            code, out, logs, exc = prj.run(impl, args)
            cur = next((l.split("Current Version: ", 1)[1] for l in out.splitlines() if l.startswith("Current Version: ")), None)
            nvalid = sum(1 for t in (tags_branch if scope == "branch" else tags_all) if impl_valid(impl, t, pat))
            rep.case((pat, cfgv, scope, tuple(tags_all), tuple(tags_branch), ignore), nontrivial=nvalid > 0)
            rep.count("scope=" + scope)
            rep.count("valid-tags=%s" % ("0" if nvalid == 0 else "1+" ))
            inp = dict(version_pattern=pat, config_version=cfgv, scope=scope, tags=tags_all, tags_on_branch=tags_branch, ignore_vcs_tag=ignore, exit=code, out=out[-200:],
                       exc=repr(exc) if exc else None)
            if code != 0 or cur is None:
                rep.violation("`show` fails / crashes on this tag set", input=inp, **{"class": "show-crash"})
                continue
            want = cfgv if ignore else expected_current(impl, pat, cfgv, scope, tags_all, tags_branch)
            # corpus entries whose expectation does not go through the implementation's own notion of a valid tag
            want = CORPUS_WANT.get((pat, cfgv, scope), want) if not ignore else want
            if cur != want and ref_key(cur) != ref_key(want):
                rep.violation("current version is %r, the greatest matching tag in scope gives %r" % (cur, want), input=inp, **{"class": "wrong-current"})
            elif cur != want:
                # equal keys: the first among equals is taken (stable sort); only the textual choice differs
                pass
            if not ignore:
                sc = {"default": "ScopeDefault", "global": "ScopeGlobal", "branch": "ScopeBranch"}[scope]
                tags = tags_branch if scope == "branch" else tags_all
                items.append("(%s,%s,%s,%s,[%s],%s)" % ("false" if "{" in pat else "true", cs(pat), cs(cfgv), sc, ";".join(cs(t) for t in tags), cos(cur)))
                meta.append(inp)
            # the update starts from the same version, and its result is not an existing tag
            code2, out2, logs2, exc2 = prj.run(impl, ["update", "--dry", "--no-fetch"] + flags + (["--ignore-vcs-tag"] if ignore else []))
            oldl = next((l.split("Old Version: ", 1)[1] for l in logs2 if "Old Version: " in l), None)
            # a tag scope given on the command line overrides the configured one for the starting version too
            if not ignore:
                for cli_scope in ("default", "global", "branch"):
                    if cli_scope == scope:
                        continue
                    # (the scope decides where the update starts from, whether or not a commit is going to be made)
                    for no_commit in ([], ["--no-commit"]):
                        c4, o4, l4, e4 = prj.run(impl, ["update", "--dry", "--no-fetch", "--tag-scope", cli_scope] + no_commit + flags)
                        old4 = next((l.split("Old Version: ", 1)[1] for l in l4 if "Old Version: " in l), None)
                        want4 = expected_current(impl, pat, cfgv, cli_scope, tags_all, tags_branch)
                        rep.case(("cli-tag-scope", pat, cfgv, scope, cli_scope, tuple(tags_all), tuple(tags_branch), tuple(no_commit)))
                        rep.count("cli-tag-scope")
                        if old4 is not None and ref_key(old4) != ref_key(want4):
                            rep.violation("with --tag-scope %s %sthe update starts from %r, the greatest matching tag in that scope gives %r" % (cli_scope, "".join(x + " " for x in no_commit), old4, want4),
                                          input=dict(inp, cli_scope=cli_scope, extra=no_commit), **{"class": "cli-scope-ignored"})
            newl = next((l.split("New Version: ", 1)[1] for l in logs2 if "New Version: " in l), None)
            if code2 == 0:
                if oldl != cur:
                    rep.violation("update starts from %r but show reports %r" % (oldl, cur), input=inp, **{"class": "update-show-differ"})
                if not ignore and newl in tags_all:
                    rep.violation("the new version %r equals an existing tag" % newl, input=dict(inp, new=newl), **{"class": "new-equals-tag"})
                if not ignore and newl is not None:
                    cmp_base = [t for t in (tags_branch if scope == "branch" else tags_all) if impl_valid(impl, t, pat)] + [cfgv]
                    if scope != "default":
                        cmp_base = [t for t in cmp_base if t != cfgv] or [cfgv]
                    top = max(cmp_base, key=ref_key)
                    if not (ref_key(newl) > ref_key(top)):
                        rep.violation("the new version %r is not greater than the version in scope %r" % (newl, top), input=dict(inp, new=newl), **{"class": "new-not-greater"})
            # --set-version to a version that already exists as a tag (on any branch) is refused, with or without --ignore-vcs-tag
            higher = [t for t in tags_all if impl_valid(impl, t, pat) and ref_key(t) > ref_key(cfgv)]
            if higher:
                x = higher[0]
                for extra in ([], ["--ignore-vcs-tag"]):
                    c3, o3, l3, e3 = prj.run(impl, ["update", "--dry", "--no-fetch", "--set-version", x] + extra)
                    rep.case(("set-version-existing-tag", pat, x, tuple(extra)))
                    rep.count("set-version-existing-tag")
                    if c3 == 0:
                        rep.violation("--set-version %r accepted although that version already exists as a tag" % x, input=dict(inp, args=["--set-version", x] + extra), **{"class": "set-version-equals-tag"})
            rep.sample(dict(pattern=pat, config=cfgv, scope=scope, tags=tags_all[:6], current=cur))
    # real git: a branch carrying the name of a version tag (a release branch `1.3.0` next to the tag `1.3.0`) hides nothing
    for scope in ("default", "global", "branch"):
        prj = project.TempProject("MAJOR.MINOR.PATCH", "1.2.0", files={"a.txt": ["ver = {version}"]}, commit=True, tag=True, push=False, tag_scope=scope, vcs="git")
        with prj:
            prj.git("tag", "1.2.0")
            open(prj.path("note.txt"), "w").write("x\n"); prj.git("add", "-A"); prj.git("commit", "-q", "-m", "work")
            prj.git("tag", "1.3.0")
            prj.git("branch", "1.3.0")
            code, out, logs, exc = prj.run(impl, ["show", "--no-fetch"])
            cur = next((l.split("Current Version: ", 1)[1].strip() for l in out.splitlines() if l.startswith("Current Version: ")), None)
            code2, out2, logs2, exc2 = prj.run(impl, ["update", "--dry", "--no-fetch", "--minor"])
            newl = next((l.split("New Version: ", 1)[1].strip() for l in logs2 if "New Version: " in l), None)
        rep.case(("branch-named-like-tag", scope), nontrivial=True)
        rep.count("real-git-runs")
        inp = dict(version_pattern="MAJOR.MINOR.PATCH", config_version="1.2.0", scope=scope, tags=["1.3.0", "1.2.0"], branches=["main", "1.3.0"], show_exit=code, current=cur, update_exit=code2, new=newl)
        if code != 0 or cur != "1.3.0":
            rep.violation("current version is %r, the greatest matching tag gives '1.3.0' (a branch has the same name as that tag)" % cur, input=inp, **{"class": "wrong-current"})
        elif code2 == 0 and newl in ("1.3.0", "1.2.0"):
            rep.violation("the new version %r equals an existing tag" % newl, input=inp, **{"class": "new-equals-tag"})
    # a remote is configured and the fetch FAILS (remote unreachable): whatever bumpver does then, it never reports or starts from the stale
    # config value as if the repository had no tags
    for pat, cfgv, tags in (("MAJOR.MINOR.PATCH", "1.0.3", ["1.0.5", "1.0.4", "1.0.3"]), ("vYYYY0M.BUILD[-TAG]", "v202401.1001", ["v202403.1004-beta", "v202401.1001"]),
                            ("{semver}", "1.0.3", ["1.2.0", "1.0.3"])):
        for scope in ("default", "global"):
            prj = project.TempProject(pat, cfgv, files={}, commit=True, tag=True, push=False, tag_scope=scope, vcs="fakegit",
                                      vcs_cfg=dict(tags=tags, tags_branch=tags, status="", remote="origin", fail=["fetch"], usable=True))
            with prj:
                for args in (["show"], ["update", "--dry", "--patch"] if "BUILD" not in pat else ["update", "--dry"]):
                    code, out, logs, exc = prj.run(impl, args)
                    cur = next((l.split("Current Version: ", 1)[1] for l in out.splitlines() if l.startswith("Current Version: ")), None)
                    oldl = next((l.split("Old Version: ", 1)[1] for l in logs if "Old Version: " in l), None)
                    rep.case(("fetch-fails", pat, scope, args[0]), nontrivial=True)
                    rep.count("fetch-fails-runs")
                    started = cur if args[0] == "show" else oldl
                    if code == 0 and started is not None and started.strip() != tags[0]:
                        rep.violation("the fetch failed and `%s` went on from %r although the tag %r exists" % (" ".join(args), started.strip(), tags[0]),
                                      input=dict(version_pattern=pat, config_version=cfgv, scope=scope, tags=tags, failing_vcs_commands=["fetch"], args=args, exit=code), **{"class": "wrong-current"})
    if model_ok:
        bad, errs = common.coq_eval("c09", HDR, "bool * list N * list N * scope * list (list N) * option (list N)",
                                    "fun '(isnew, pat, cfgv, sc, tags, e) => eqb_ostr (resolve_current (%s) isnew pat cfgv sc tags) e" % cz(today), items, shard=25)
        for i in bad:
            rep.mismatch("current version resolution: model differs from implementation", input=meta[i])
        rep.corr_errors += errs


def search(rep, tier, seed, effort=2):
    run(rep, tier, seed, model_ok=False, effort=effort)


def replay(payload):
    print("replay C09: see violation input (pattern, config version, scope, tags) in the replay file")
    return 1
