"""C12 — messages, tag names and paths reach the VCS verbatim."""
import re, os
from . import common, project
from .common import cs, cos

LEVEL = "proof"
EXTRA_TARGETS = ["Model/Vcs"]
TRUSTED_BASE = [
    "Coq 8.16.1 kernel + vm_compute",
    "T1 translator: VCS_SUBCOMMANDS_BY_NAME (git and hg templates), whether VCSAPI.__call__ splits the template before formatting, default message templates",
    "hand-written Gallina model Model/Vcs.v (shlex_split in POSIX mode, str.format subset, vcs_cmd, sub_msg_template, render_message)",
    "harness: argv logged by fake git/hg (one JSON record per invocation, hg log file bytes included); commit and tag objects read back from real git",
]
ASSUMPTIONS = ["passing an argv list to the OS (subprocess without a shell) is verbatim; values containing NUL cannot be passed at all and are not generated",
               "config-level trimming of surrounding quotes/spaces of a message (config._parse_config) is part of C18, not of this property"]
HDR = "From BV Require Import Model.V1 Model.Vcs."

CHARS = list("abc XYZ019") + ["'", '"', "\\", " ", "  ", "$", "`", "\n", "\t", "-", "--", ";", "&", "|", "*", "?", "#", "~", "é", "日本", "🙂", "%", "!", "(", ")", "<", ">", "="]


def gen_value(r, allow_braces=False):
    n = r.choice([1, 2, 3, 5, 8, 12])
    s = "".join(r.choice(CHARS) for _ in range(n))
    if r.random() < 0.15:
        s = "-" + s
    if allow_braces and r.random() < 0.3:
        s += r.choice(["{new_version}", " {old_version} -> {new_version}", "{new_version_pep440}", "{{literal}}"])
    return s


def expected_message(tmpl, old, new, from_cli):
    from bumpver import version
    if from_cli:
        tmpl = re.sub(r"\b(OLD|NEW)\b", r"{\1_VERSION}", tmpl)
    kw = dict(new_version=new, old_version=old, NEW_VERSION=new, OLD_VERSION=old, new_version_pep440=version.to_pep440(new), old_version_pep440=version.to_pep440(old))
    return tmpl.format(**kw)


def run(rep, tier, seed, model_ok=True, effort=1):
    from . import impl
    from bumpver import vcs as bvcs
    r = common.rng(seed, "c12")
    n = (60 if tier == "quick" else 1200) * effort
    rep.rule = ("commit / tag message templates (from the config and from -c / --tag-message with OLD/NEW shorthand) and file names over printable Unicode "
                "incl. quotes, backslashes, spaces, leading dashes, $, backticks, newlines: real `bumpver update --commit --tag-commit` against fake git / hg; "
                "each logged argv must equal the expected argument list element for element (hg: the log file bytes); a share against real git reading "
                "the commit and tag objects back; vcs_cmd / render_message / sub_msg_template compared with the Coq model; non-trivial = distinct value "
                "containing a shell metacharacter")
    items, meta, msg_items, msg_meta = [], [], [], []
    # direct argv correspondence for every template with value-carrying fields
    for _ in range((300 if tier == "quick" else 5000) * effort):
        name = r.choice(["git", "hg"])
        cmd, kw = r.choice([("commit", {"message": gen_value(r)}), ("add_path", {"path": gen_value(r)}), ("tag", {"tag": gen_value(r).replace(" ", "_") or "t", "message": gen_value(r)}),
                            ("tag_light", {"tag": "v1.2.3"}), ("push_tag", {"tag": "1.2.3", "remote": "origin"}), ("push", {"remote": "origin"})])
        if name == "hg" and cmd == "commit":
            kw = {"path": "/tmp/x" + str(r.randrange(1000))}
        seen = []
        import subprocess as sp
        old = sp.check_output
        sp.check_output = lambda parts, **k: (seen.append(list(parts)), b"")[1]
        try:
            try:
                bvcs.VCSAPI(name)(cmd, **kw)
                argv = seen[-1]
            except Exception:
                argv = None
        finally:
            sp.check_output = old
        rep.case((name, cmd, tuple(sorted(kw.items()))), nontrivial=any(c in "".join(kw.values()) for c in "'\"\\ $`\n"))
        rep.count("template=%s.%s" % (name, cmd))
        if argv is not None:
            tmpl = bvcs.VCS_SUBCOMMANDS_BY_NAME[name][cmd]
            for k, v in kw.items():
                if "{%s}" % k in tmpl and argv.count(v) < 1:
                    rep.violation("value of {%s} is not passed as a single verbatim argument" % k, input=dict(vcs=name, cmd=cmd, kwargs=kw, argv=argv), **{"class": "argv-altered"})
        else:
            rep.violation("building the command raised", input=dict(vcs=name, cmd=cmd, kwargs=kw), **{"class": "argv-raises"})
        items.append("(%s,%s,[%s],%s)" % (cs(name), cs(cmd), ";".join("(%s,%s)" % (cs(k), cs(v)) for k, v in kw.items()),
                                          "None" if argv is None else "(Some [%s])" % ";".join(cs(a) for a in argv)))
        meta.append(dict(vcs=name, cmd=cmd, kwargs=kw, argv=argv))
    # a failing VCS command is never "repaired" by a command that drops the value: when `git tag --annotate ... --message <msg>` fails, either the
    # update fails or the message has reached git; a lightweight tag without the message is not an outcome
    for vcs in ("fakegit", "fakehg"):
        prj = project.TempProject("MAJOR.MINOR.PATCH", "1.2.3", files={"a.txt": ["ver = {version}"]}, commit=True, tag=True, push=False, vcs=vcs,
                                  vcs_cfg=dict(tags=[], status="", remote=None, fail_argv=["--annotate"] if vcs == "fakegit" else ["--message"]),
                                  tag_message="release notes for {new_version}")
        with prj:
            code, out, logs, exc = prj.run(impl, ["update", "--patch", "--no-fetch"])
            tags = [e["argv"] for e in prj.vcs_log() if e["key"] == "tag"]
        rep.case(("tag-failure", vcs), nontrivial=True)
        if code == 0 and not any("release notes for 1.2.4" in a for t in tags for a in t[-3:] if isinstance(a, str) and t is tags[-1]):
            rep.violation("the tag command failed and the update still exits 0 with a tag that does not carry the tag message", input=dict(vcs=vcs, exit=code, tag_commands=tags, logs=logs[-3:]),
                          **{"class": "message-dropped"})
    # the commit message bumpver hands to hg through a UTF-8 log file is read by hg as UTF-8, whatever HGENCODING the user's environment carries
    old_enc = os.environ.get("HGENCODING")
    os.environ["HGENCODING"] = "latin-1"
    try:
        prj = project.TempProject("MAJOR.MINOR.PATCH", "1.2.3", files={"a.txt": ["ver = {version}"]}, commit=True, tag=False, push=False, vcs="fakehg",
                                  vcs_cfg=dict(tags=[], status="", remote=None), commit_message="Ver\u00f6ffentlichung {new_version} \u2713")
        with prj:
            code, out, logs, exc = prj.run(impl, ["update", "--patch", "--no-fetch"])
            commits = [e for e in prj.vcs_log() if e["key"] == "commit"]
        rep.case(("hgencoding",), nontrivial=True)
        if code != 0 or not commits or commits[-1].get("hgencoding") != "utf-8" or commits[-1].get("logfile_bytes") != "Ver\u00f6ffentlichung 1.2.4 \u2713":
            rep.violation("hg commit: the UTF-8 message file is not declared as UTF-8 to hg (HGENCODING) or does not carry the message", input=dict(exit=code, preset_HGENCODING="latin-1",
                          seen_by_hg=[(e.get("hgencoding"), e.get("logfile_bytes")) for e in commits], logs=logs[-3:]), **{"class": "hg-encoding"})
    finally:
        if old_enc is None:
            os.environ.pop("HGENCODING", None)
        else:
            os.environ["HGENCODING"] = old_enc
    # an explicitly empty tag message asks for a lightweight tag: no message argument is invented
    for fmt in ("bumpver.toml", "setup.cfg"):
        prj = project.TempProject("MAJOR.MINOR.PATCH", "1.2.3", files={"a.txt": ["ver = {version}"]}, commit=True, tag=True, push=False, vcs="fakegit", fmt=fmt,
                                  vcs_cfg=dict(tags=[], status="", remote=None), tag_message="")
        with prj:
            code, out, logs, exc = prj.run(impl, ["update", "--patch", "--no-fetch"])
            tags = [e["argv"] for e in prj.vcs_log() if e["key"] == "tag"]
        rep.case(("empty-tag-message", fmt), nontrivial=True)
        if code != 0 or tags != [["tag", "1.2.4"]]:
            rep.violation("an empty tag_message does not give a plain `git tag <version>`", input=dict(config=fmt, exit=code, tag_commands=tags, logs=logs[-3:]), **{"class": "tag-message-invented"})
    # end to end through `update`
    # hg receives the commit message through a file: its bytes are the UTF-8 of the message whatever the process locale is
    msg_u = "Ver\u00f6ffentlichung {new_version} \u2713"
    prj = project.TempProject("MAJOR.MINOR.PATCH", "1.2.3", files={"a.txt": ["ver = {version}"]}, commit=True, tag=False, push=False, vcs="fakehg",
                              vcs_cfg=dict(tags=[], status="", remote=None), commit_message=msg_u)
    with prj:
        before = prj.snapshot()
        c_, o_, e_ = prj.run_subprocess(["update", "--patch", "--no-fetch"], env_extra={"LC_ALL": "C", "LANG": "C", "PYTHONUTF8": "0", "PYTHONCOERCECLOCALE": "0", "PYTHONIOENCODING": "utf-8"})
        log_ = prj.vcs_log()
        after = prj.snapshot()
    rep.case(("hg-ascii-locale",), nontrivial=True)
    got_ = next((e["logfile_bytes"] for e in log_ if e["key"] == "commit" and "logfile_bytes" in e), None)
    want_ = msg_u.format(new_version="1.2.4")
    if c_ != 0 or got_ != want_:
        rep.violation("hg commit message under an ASCII process locale: exit %s, message file %r, expected %r" % (c_, got_, want_),
                      input=dict(vcs="fakehg", commit_message=msg_u, locale="LC_ALL=C, UTF-8 mode off", exit=c_, files_changed=after != before, stderr=e_.decode("utf-8", "replace")[-300:]), **{"class": "hg-message-altered"})
    for i in range(n):
        vcs = r.choice(["fakegit", "fakegit", "fakehg"])
        from_cli = r.random() < 0.5
        cmsg = gen_value(r, allow_braces=True)
        tmsg = gen_value(r, allow_braces=True)
        if r.random() < 0.5:
            # the OLD/NEW shorthand is for command line templates only; in configured templates the words stay as they are
            cmsg += r.choice([" OLD -> NEW", " NEW", " (OLD)", " NEWER OLDEST NEW_x"])
            if r.random() < 0.5:
                tmsg += r.choice([" NEW RELEASE", " replaces OLD"])
        if r.random() < 0.1:
            # a template that str.format rejects (unknown / positional field, stray brace): nothing may be written, committed or tagged
            bad = r.choice([" ${CHANGELOG_URL}", " {0}", " {date}", " }", " {", " {new_version"])
            if r.random() < 0.5:
                tmsg += bad
            else:
                cmsg += bad
        if i == 3:
            from_cli, cmsg, tmsg = False, "bump to {new_version}", "see ${CHANGELOG_URL}"
        if i == 4:
            from_cli, cmsg, tmsg = True, "bump to NEW", "{0}"
        if i == 5:
            from_cli, cmsg, tmsg = False, "release {new_version}", "tag {new_version}"
        forced_cfg = i < 3
        if forced_cfg:
            from_cli = False
            cmsg, tmsg = [("bump {old_version} -> {new_version} (coverage 100%% of %(lines)s)", "[%d files]"), ("100% done {new_version}", "50%"),
                          ("{new_version} %(new_version)s", "%%")][i]
        fname = r.choice(["a.txt", "a b.txt", "it's.txt", "d$x.txt", "-dash.txt", 'q"uote.txt', "ünï.txt", "back\\slash.txt", "semi;colon.txt"])
        strip = lambda s: s.strip("'\" ")
        cfg_c, cfg_t = (None, None) if from_cli else (cmsg, tmsg)
        if not from_cli and (strip(cmsg) != cmsg or strip(tmsg) != tmsg or not cmsg or not tmsg):
            continue
        fmt = "bumpver.toml"
        if not from_cli and "\n" not in cmsg + tmsg and "\r" not in cmsg + tmsg and (forced_cfg or r.random() < 0.45):
            # the ini format has no escapes: what stands after "commit_message =" is the template (percent signs included)
            fmt, fname = "setup.cfg", "a.txt"
            if r.random() < 0.5 and not forced_cfg:
                cmsg += r.choice([" 100%", " %% done", " %(lines)s", " [%d files]"])
                tmsg += r.choice(["", " %", " 50%%"])
                cfg_c, cfg_t = cmsg, tmsg
        if i == 5:
            # a file whose NAME starts and ends with a quote character, named in a setup.cfg: the name reaches the VCS as it is
            fmt, fname = "setup.cfg", '"VERSION"'
        rep.count("update-config=%s" % fmt)
        prj = project.TempProject("MAJOR.MINOR.PATCH", "1.2.3", files={fname: ["ver = {version}"]}, commit=True, tag=True, push=False, vcs=vcs, fmt=fmt,
                                  vcs_cfg=dict(tags=[], status="", remote=None), commit_message=cfg_c, tag_message=cfg_t)
        with prj:
            if prj.cfg_error(impl):
                rep.count("config-rejected")
                continue
            before = prj.snapshot()
            args = ["update", "--patch", "--no-fetch"]
            if from_cli:
                args += ["--commit-message", cmsg, "--tag-message", tmsg]
            code, out, logs, exc = prj.run(impl, args)
            log = prj.vcs_log()
            after = prj.snapshot()
            try:
                want_c = expected_message(cmsg, "1.2.3", "1.2.4", from_cli)
                want_t = expected_message(tmsg, "1.2.3", "1.2.4", from_cli)
            except (KeyError, ValueError, IndexError, AttributeError):
                want_c = want_t = None
            rep.case(("update", vcs, cmsg, tmsg, fname, from_cli), nontrivial=any(c in cmsg + tmsg + fname for c in "'\"\\ $`\n"))
            rep.count("update-%s-exit=%s" % (vcs, "0" if code == 0 else "nonzero"))
            inp = dict(vcs=vcs, commit_message=cmsg, tag_message=tmsg, file=fname, from_cli=from_cli, args=args, exit=code, argv=[e["argv"] for e in log if e["key"] in ("add_path", "commit", "tag")])
            try:
                want_c_alone = expected_message(cmsg, "1.2.3", "1.2.4", from_cli)
            except (KeyError, ValueError, IndexError, AttributeError):
                want_c_alone = None
            msg_items.append("(%s,%s,%s,%s)" % (cs(cmsg), cb_(from_cli), cos(want_c_alone), cs("x")))
            msg_meta.append(dict(template=cmsg, from_cli=from_cli, want=want_c_alone))
            if want_c is None:
                if code == 0 or after != before:
                    rep.violation("invalid message template: update did not stop before changing anything", input=inp, **{"class": "bad-template"})
                continue
            if code != 0:
                rep.violation("update failed on a message/path with special characters", input=dict(inp, logs=logs[-3:]), **{"class": "special-chars-fail"})
                continue
            adds = [e["argv"] for e in log if e["key"] == "add_path"]
            want_adds = sorted([[("add"), "--update", p] if vcs == "fakegit" else ["add", p] for p in (fname, fmt)])
            if sorted(adds) != want_adds:
                rep.violation("staged paths differ from the configured paths", input=dict(inp, want=want_adds, got=adds), **{"class": "path-altered"})
            commits = [e for e in log if e["key"] == "commit"]
            if vcs == "fakegit":
                if [c["argv"] for c in commits] != [["commit", "--message", want_c]]:
                    rep.violation("commit message did not reach git verbatim as one argument", input=dict(inp, want=want_c), **{"class": "message-altered"})
            else:
                if len(commits) != 1 or commits[0].get("logfile_bytes") != want_c:
                    rep.violation("commit message did not reach hg verbatim (log file)", input=dict(inp, want=want_c, got=commits[0].get("logfile_bytes") if commits else None), **{"class": "message-altered"})
            tags = [e["argv"] for e in log if e["key"] == "tag"]
            want_tag = [["tag", "--annotate", "1.2.4", "--message", want_t]] if vcs == "fakegit" else [["tag", "1.2.4", "--message", want_t]]
            if not want_t:
                want_tag = [["tag", "1.2.4"]]
            if tags != want_tag:
                rep.violation("tag name / tag message did not reach the VCS verbatim", input=dict(inp, want=want_tag, got=tags), **{"class": "tag-altered"})
            rep.sample(dict(vcs=vcs, commit_message=cmsg, file=fname, argv=[c["argv"] for c in commits][:1]))
    # real git: read the objects back
    for i in range((4 if tier == "quick" else 60) * effort):
        cmsg = gen_value(r).strip("'\" \n\t") or "m"
        tmsg = gen_value(r).strip("'\" \n\t") or "t"
        if "{" in cmsg + tmsg or "}" in cmsg + tmsg or "\n" in cmsg + tmsg:
            continue
        # git itself removes comment lines ('#...') and surrounding blank space from messages (cleanup mode);
        # that happens after the argument was passed verbatim and is not part of the property
        if cmsg.lstrip().startswith("#") or tmsg.lstrip().startswith("#"):
            continue
        prj = project.TempProject("MAJOR.MINOR.PATCH", "1.2.3", files={"a.txt": ["ver = {version}"]}, commit=True, tag=True, push=False, vcs="git")
        with prj:
            code, out, logs, exc = prj.run(impl, ["update", "--patch", "--no-fetch", "--commit-message", cmsg, "--tag-message", tmsg])
            rep.case(("realgit", cmsg, tmsg))
            if code != 0:
                rep.violation("update against real git failed", input=dict(commit_message=cmsg, tag_message=tmsg, logs=logs[-3:]), **{"class": "special-chars-fail"})
                continue
            got_c = prj.git("log", "-1", "--format=%B").rstrip("\n")
            got_t = prj.git("tag", "-l", "--format=%(contents)", "1.2.4").rstrip("\n")
            exp_c = expected_message(cmsg, "1.2.3", "1.2.4", True)
            exp_t = expected_message(tmsg, "1.2.3", "1.2.4", True)
            # git strips trailing whitespace of messages
            if got_c.strip() != exp_c.strip() or got_t.strip() != exp_t.strip():
                rep.violation("commit/tag object differs from the given message", input=dict(commit_message=cmsg, tag_message=tmsg, got=(got_c, got_t)), **{"class": "message-altered"})
    from . import libcorr
    libcorr.shlex_stream(rep, common.rng(seed, "c12-shlex"), (300 if tier == "quick" else 5000) * effort, model_ok=model_ok)
    if model_ok:
        bad, errs = common.coq_eval("c12argv", HDR, "list N * list N * list (list N * list N) * option (list (list N))",
                                    "fun '(n, c, kw, e) => match vcs_cmd n c kw, e with Some a, Some b => eqb_lstr a b | None, None => true | _, _ => false end", items, shard=300)
        for i in bad:
            rep.mismatch("VCS argv: model differs from implementation", input=meta[i])
        rep.corr_errors += errs
        old, new = cs("1.2.3"), cs("1.2.4")
        bad, errs = common.coq_eval("c12msg", HDR, "list N * bool * option (list N) * list N",
                                    "fun '(t, cli, e, _) => eqb_ostr (render_message (if cli then sub_msg_template t else t) %s %s) e" % (old, new), msg_items, shard=300)
        for i in bad:
            rep.mismatch("message rendering: model differs from implementation", input=msg_meta[i])
        rep.corr_errors += errs


def cb_(b):
    return "true" if b else "false"


def search(rep, tier, seed, effort=2):
    run(rep, tier, seed, model_ok=False, effort=effort)


def replay(payload):
    print("replay C12: see violation input in the replay file")
    return 1
