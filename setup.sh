#!/bin/sh
# Build the whole Coq development from clean, offline: T1 tables from /repo, then a full .vo build.
set -e
cd "$(dirname "$0")"
export PYTHONHASHSEED=0
/venv/bin/python translate/t1_tables.py "${VERIF_REPO:-/repo}" coq/Gen
cd coq
coq_makefile -f _CoqProject -o Makefile >/dev/null
timeout 3000 make -j16 2>&1 | grep -v "^COQDEP\|^COQC" | tail -40
test -f Props/C17.vo
echo "setup ok"
