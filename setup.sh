#!/bin/sh
# Build the whole Coq development from clean, offline: T1 tables from /repo, then a full .vo build.
set -e
cd "$(dirname "$0")"
export PYTHONHASHSEED=0
/venv/bin/python translate/t1_tables.py "${VERIF_REPO:-/repo}" coq/Gen || [ $? -eq 3 ]   # 3: a section fell back to its recorded text; the checks report it
cd coq
coq_makefile -f _CoqProject -o Makefile >/dev/null
timeout 3000 make -j16 > .build.log 2>&1 || { tail -40 .build.log; echo "setup FAILED: make"; exit 1; }
grep -c "Closed under the global context" .build.log || true
for f in Props/C*.v; do test -f "${f%.v}.vo" || { echo "setup FAILED: $f not built"; exit 1; }; done
echo "setup ok"
