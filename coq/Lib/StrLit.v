(* Readable string literals for statements: lit "abc" is the list of code points [97;98;99].
   Used only to state facts; models never use Coq's string type. *)
From Coq Require Import List NArith Strings.Ascii Strings.String.
From BV Require Import Lib.PyStr.
Import ListNotations.

Definition lit (s : string) : list N := map N_of_ascii (list_ascii_of_string s).
Definition lits (l : list string) : list (list N) := map lit l.

(* the events of a call-order list that belong to the given names, in order and with multiplicity *)
Definition restrict (names : list (list N)) (l : list (list N)) : list (list N) :=
  filter (fun e => existsb (eqb_str e) names) l.
