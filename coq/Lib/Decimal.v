(* Decimal printing and reading of natural numbers: Python str(n), int(s), f"{n:0k}". *)
From Coq Require Import List Bool NArith Arith.
From BV Require Import Lib.PyStr.
Import ListNotations.
Local Open Scope N_scope.

Definition digit_chr (d : N) : N := 48 + d.

(* most significant digit first; fuel = number of bits + 1 is always enough *)
Fixpoint dec_aux (fuel : nat) (n : N) (acc : str) : str :=
  match fuel with
  | O => acc
  | S f => let acc' := digit_chr (n mod 10) :: acc in
           if n <? 10 then acc' else dec_aux f (n / 10) acc'
  end.
Definition dec (n : N) : str := dec_aux (S (N.to_nat (N.size n))) n [].

(* int(s) for a string of ASCII digits *)
Definition undec (s : str) : N := fold_left (fun a c => 10 * a + (c - 48)) s 0.

(* f"{n:0k}" : at least k characters, zero padded on the left *)
Definition pad (k : nat) (n : N) : str := zfill k (dec n).

(* value of int(str(x)[-2:]) for a number x *)
Definition last2 (n : N) : N := undec (lastn 2 (dec n)).
