(* Support for the correspondence check: evaluate a boolean checker over a list of cases and
   report the indices that fail. *)
From Coq Require Import List Bool NArith.
From BV Require Import Lib.PyStr.
Import ListNotations.

Fixpoint mismatches_go {A} (chk : A -> bool) (l : list A) (i : N) : list N :=
  match l with
  | [] => []
  | x :: t => if chk x then mismatches_go chk t (N.succ i) else i :: mismatches_go chk t (N.succ i)
  end.
Definition mismatches {A} (chk : A -> bool) (l : list A) : list N := mismatches_go chk l 0%N.

Definition eqb_ostr (a b : option (list N)) : bool :=
  match a, b with
  | Some x, Some y => eqb_str x y
  | None, None => true
  | _, _ => false
  end.
Definition eqb_oN (a b : option N) : bool :=
  match a, b with
  | Some x, Some y => N.eqb x y
  | None, None => true
  | _, _ => false
  end.
Fixpoint eqb_lstr (a b : list (list N)) : bool :=
  match a, b with
  | [], [] => true
  | x :: a', y :: b' => eqb_str x y && eqb_lstr a' b'
  | _, _ => false
  end.
