(* Python str primitives on lists of code points.  Executable definitions only;
   lemmas live in Proofs/PyStrFacts.v so the model still runs when a proof breaks. *)
From Coq Require Import List Bool NArith Arith.
Import ListNotations.
Notation str := (list N) (only parsing).

Fixpoint eqb_str (a b : str) : bool :=
  match a, b with
  | [], [] => true
  | x :: a', y :: b' => N.eqb x y && eqb_str a' b'
  | _, _ => false
  end.

(* s.startswith(p) *)
Fixpoint prefixb (p s : str) : bool :=
  match p, s with
  | [], _ => true
  | x :: p', y :: s' => N.eqb x y && prefixb p' s'
  | _ :: _, [] => false
  end.

(* s.find(needle): index of the first occurrence *)
Fixpoint sfind (needle s : str) : option nat :=
  if prefixb needle s then Some O else
  match s with
  | [] => None
  | _ :: t => match sfind needle t with Some i => Some (S i) | None => None end
  end.

(* s.find(needle, start) *)
Definition find_from (needle s : str) (start : nat) : option nat :=
  match sfind needle (skipn start s) with
  | Some i => if Nat.leb start (length s) then Some (start + i)%nat else None
  | None => None
  end.

(* needle in s *)
Definition str_in (needle s : str) : bool :=
  match sfind needle s with Some _ => true | None => false end.

(* s.replace(old, new) for non-empty old: all non-overlapping occurrences, left to right.
   [skip] counts characters of an occurrence that are still to be dropped. *)
Fixpoint replace_go (old new : str) (skip : nat) (s : str) : str :=
  match s with
  | [] => []
  | c :: t =>
      match skip with
      | S k => replace_go old new k t
      | O => if prefixb old s then new ++ replace_go old new (length old - 1) t
             else c :: replace_go old new O t
      end
  end.
Definition sreplace (old new s : str) : str :=
  match old with [] => s | _ => replace_go old new O s end.

(* s.count(old) for non-empty old (non-overlapping) *)
Fixpoint count_go (old : str) (skip : nat) (s : str) : nat :=
  match s with
  | [] => O
  | _ :: t =>
      match skip with
      | S k => count_go old k t
      | O => if prefixb old s then S (count_go old (length old - 1) t) else count_go old O t
      end
  end.
Definition scount (old s : str) : nat := match old with [] => S (length s) | _ => count_go old O s end.

(* s.split(sep) for non-empty sep.  The head of the result is the piece under construction. *)
Fixpoint split_go (sep : str) (skip : nat) (s : str) : list (list N) :=
  match s with
  | [] => [[]]
  | c :: t =>
      match skip with
      | S k => split_go sep k t
      | O => if prefixb sep s then [] :: split_go sep (length sep - 1) t
             else match split_go sep O t with
                  | h :: r => (c :: h) :: r
                  | [] => [[c]]
                  end
      end
  end.
Definition ssplit (sep s : str) : list (list N) :=
  match sep with [] => [s] | _ => split_go sep O s end.

(* s.split(sep, 1) *)
Definition split1 (sep s : str) : list (list N) :=
  match sep with
  | [] => [s]
  | _ => match sfind sep s with
         | Some i => [firstn i s; skipn (i + length sep) s]
         | None => [s]
         end
  end.

(* sep.join(parts) *)
Fixpoint join (sep : str) (parts : list (list N)) : str :=
  match parts with
  | [] => []
  | [p] => p
  | p :: rest => p ++ sep ++ join sep rest
  end.

Definition mem_chr (c : N) (cs : str) : bool := existsb (N.eqb c) cs.

Fixpoint lstrip (cs s : str) : str :=
  match s with
  | c :: t => if mem_chr c cs then lstrip cs t else s
  | [] => []
  end.
Definition rstrip (cs s : str) : str := rev (lstrip cs (rev s)).
Definition strip (cs s : str) : str := rstrip cs (lstrip cs s).

(* ASCII whitespace as stripped by str.strip() / matched by \s: \t \n \v \f \r FS GS RS US space.
   (Non-ASCII Unicode spaces are outside the modelled alphabet; see DESIGN trusted base.) *)
Definition ws_chars : str := [9; 10; 11; 12; 13; 28; 29; 30; 31; 32]%N.
Definition strip_ws (s : str) : str := strip ws_chars s.

(* line boundaries of str.splitlines() *)
Definition is_linebreak (c : N) : bool :=
  mem_chr c [10; 11; 12; 13; 28; 29; 30; 133; 8232; 8233]%N.

(* s.splitlines(): \r\n counts as one boundary; no trailing empty line *)
Fixpoint splitlines_go (s cur : str) : list (list N) :=
  match s with
  | [] => match cur with [] => [] | _ => [rev cur] end
  | c :: t =>
      if is_linebreak c then
        match c, t with
        | 13%N, 10%N :: t' => rev cur :: splitlines_go t' []
        | _, _ => rev cur :: splitlines_go t []
        end
      else splitlines_go t (c :: cur)
  end.
Definition splitlines (s : str) : list (list N) := splitlines_go s [].

(* lexicographic order by code point: a < b *)
Fixpoint lt_str (a b : str) : bool :=
  match a, b with
  | _, [] => false
  | [], _ :: _ => true
  | x :: a', y :: b' => N.ltb x y || (N.eqb x y && lt_str a' b')
  end.
Definition le_str (a b : str) : bool := negb (lt_str b a).

Definition is_digit (c : N) : bool := N.leb 48 c && N.leb c 57.
Definition is_upper (c : N) : bool := N.leb 65 c && N.leb c 90.
Definition is_lower (c : N) : bool := N.leb 97 c && N.leb c 122.
Definition all_digits (s : str) : bool := forallb is_digit s.
(* str.isdigit() on ASCII input: non-empty and all digits *)
Definition isdigit (s : str) : bool := match s with [] => false | _ => all_digits s end.

Definition lower_chr (c : N) : N := if is_upper c then (c + 32)%N else c.
Definition lower_ascii (s : str) : str := map lower_chr s.

(* s.zfill(k) for strings without sign *)
Definition zfill (k : nat) (s : str) : str := repeat 48%N (k - length s) ++ s.

(* s[-k:] *)
Definition lastn (k : nat) (s : str) : str := skipn (length s - k) s.

Definition startswith (p s : str) : bool := prefixb p s.
Definition endswith (p s : str) : bool := prefixb (rev p) (rev s).
