(* Types shared between the generated tables (Gen/Tables.v) and the hand-written models. *)
From Coq Require Import List NArith.
(* shape of a v2patterns._fmt_* function:
   FmtStr        str(x)
   FmtInt        str(int(x))
   FmtLast2      str(int(str(x)[-2:]))
   FmtLast2Pad   f"{int(str(x)[-2:]):02}"
   FmtPad k      f"{int(x):0k}" *)
Inductive fmt_kind := FmtStr | FmtInt | FmtLast2 | FmtLast2Pad | FmtPad (k : nat).
