(* Parser for the regular-expression syntax bumpver emits and embeds: literals, escapes, classes with
   ranges, (?P<name>..), (?:..), (..), |, ? * + {n} {n,} {n,m}, . ^ $, \d \s, and VERBOSE mode.
   Anything else (look-around, back-references, lazy quantifiers, \b, flags in the pattern) is
   rejected with None: the model fails closed on syntax it does not understand. *)
From Coq Require Import List Bool NArith Arith.
From BV Require Import Lib.PyStr Lib.Regex.
Import ListNotations.
Local Open Scope N_scope.

Definition is_name_chr (c : N) : bool := is_lower c || is_upper c || is_digit c || (c =? 95).
Definition is_ws (c : N) : bool := mem_chr c [9; 10; 11; 12; 13; 32].

Fixpoint span_while (p : N -> bool) (s : str) : list N * list N :=
  match s with
  | c :: t => if p c then let '(a, b) := span_while p t in (c :: a, b) else ([], s)
  | [] => ([], [])
  end.

Fixpoint num_of (s : str) (acc : nat) : nat :=
  match s with
  | c :: t => num_of t (10 * acc + N.to_nat (c - 48))%nat
  | [] => acc
  end.

(* VERBOSE: drop whitespace and # comments *)
Fixpoint skip_verbose (s : str) (in_comment : bool) : str :=
  match s with
  | [] => []
  | c :: t =>
      if in_comment then (if c =? 10 then skip_verbose t false else skip_verbose t true)
      else if is_ws c then skip_verbose t false
      else if c =? 35 then skip_verbose t true
      else s
  end.
Definition skipv (vb : bool) (s : str) : str := if vb then skip_verbose s false else s.

(* escape outside or inside a class: Some (ranges) *)
Definition escape_ranges (c : N) : option (list (N * N)) :=
  if c =? 100 (* d *) then Some [(48, 57)]
  else if c =? 115 (* s *) then Some [(9, 13); (28, 32)]
  else if c =? 110 (* n *) then Some [(10, 10)]
  else if c =? 116 (* t *) then Some [(9, 9)]
  else if c =? 114 (* r *) then Some [(13, 13)]
  else if is_lower c || is_upper c || is_digit c then None   (* \b \w \1 ... unsupported *)
  else Some [(c, c)].

(* one class member: returns (lo, hi-candidate ranges, rest).  A single char yields [(c,c)] and the char. *)
Definition class_atom (s : str) : option (list (N * N) * option N * list N) :=
  match s with
  | 92 :: c :: t => match escape_ranges c with
                    | Some [(a, b)] => if a =? b then Some ([(a, b)], Some a, t) else Some ([(a, b)], None, t)
                    | Some rs => Some (rs, None, t)
                    | None => None
                    end
  | c :: t => Some ([(c, c)], Some c, t)
  | [] => None
  end.

Fixpoint p_class_items (fuel : nat) (s : str) (first : bool) (acc : list (N * N)) : option (list (N * N) * list N) :=
  match fuel with
  | O => None
  | S f =>
      match s with
      | [] => None
      | 93 :: t => if first then
                     match t with
                     | _ => p_class_items f t false (acc ++ [(93, 93)])
                     end
                   else Some (acc, t)
      | _ =>
          match class_atom s with
          | None => None
          | Some (rs, single, t) =>
              match single, t with
              | Some lo, 45 :: 93 :: _ => p_class_items f t false (acc ++ rs)       (* "a-]" : literal a, then '-' *)
              | Some lo, 45 :: t2 =>
                  match class_atom t2 with
                  | Some (_, Some hi, t3) => if lo <=? hi then p_class_items f t3 false (acc ++ [(lo, hi)]) else None
                  | _ => None
                  end
              | _, _ => p_class_items f t false (acc ++ rs)
              end
          end
      end
  end.

Definition p_class (s : str) : option (re * list N) :=
  let '(neg, s1) := match s with 94 :: t => (true, t) | _ => (false, s) end in
  match p_class_items (S (length s1)) s1 true [] with
  | Some (rs, rest) => Some (Cls neg rs, rest)
  | None => None
  end.

Definition is_quant_chr (c : N) : bool := (c =? 63) || (c =? 42) || (c =? 43).

Definition p_quant (a : re) (s : str) : option (re * list N) :=
  let finish (r : re) (rest : str) :=
    match rest with
    | c :: _ => if is_quant_chr c then None else Some (r, rest)
    | [] => Some (r, rest)
    end in
  match s with
  | 63 :: t => finish (opt_re a) t
  | 42 :: t => finish (Star a) t
  | 43 :: t => finish (plus_re a) t
  | 123 :: t =>
      let '(d1, t1) := span_while is_digit t in
      match d1, t1 with
      | _ :: _, 125 :: t2 => finish (rep_re (num_of d1 0) a) t2
      | _ :: _, 44 :: 125 :: t2 => finish (Cat (rep_re (num_of d1 0) a) (Star a)) t2
      | _ :: _, 44 :: t2 =>
          let '(d2, t3) := span_while is_digit t2 in
          match d2, t3 with
          | _ :: _, 125 :: t4 =>
              let n := num_of d1 0 in let m := num_of d2 0 in
              if Nat.leb n m then finish (Cat (rep_re n a) (upto_re (m - n) a)) t4 else None
          | _, _ => None
          end
      | _, _ => None
      end
  | _ => Some (a, s)
  end.

Fixpoint p_alt (f : nat) (vb : bool) (s : str) {struct f} : option (re * list N) :=
  match f with
  | O => None
  | S f' =>
      match p_seq f' vb s with
      | None => None
      | Some (a, s1) =>
          match s1 with
          | 124 :: s2 => match p_alt f' vb s2 with
                         | Some (b, s3) => Some (Alt a b, s3)
                         | None => None
                         end
          | _ => Some (a, s1)
          end
      end
  end
with p_seq (f : nat) (vb : bool) (s0 : str) {struct f} : option (re * list N) :=
  match f with
  | O => None
  | S f' =>
      let s := skipv vb s0 in
      match s with
      | [] => Some (Eps, s)
      | c :: _ =>
          if (c =? 124) || (c =? 41) then Some (Eps, s) else
          match p_atom f' vb s with
          | None => None
          | Some (a, s1) =>
              match p_quant a s1 with
              | None => None
              | Some (aq, s2) =>
                  match p_seq f' vb s2 with
                  | Some (b, s3) => Some (Cat aq b, s3)
                  | None => None
                  end
              end
          end
      end
  end
with p_atom (f : nat) (vb : bool) (s : str) {struct f} : option (re * list N) :=
  match f with
  | O => None
  | S f' =>
      match s with
      | 40 :: 63 :: 80 :: 60 :: t =>
          let '(name, t1) := span_while is_name_chr t in
          match name, t1 with
          | _ :: _, 62 :: t2 => match p_alt f' vb t2 with
                                | Some (a, 41 :: t3) => Some (Grp name a, t3)
                                | _ => None
                                end
          | _, _ => None
          end
      | 40 :: 63 :: 58 :: t => match p_alt f' vb t with
                               | Some (a, 41 :: t3) => Some (a, t3)
                               | _ => None
                               end
      | 40 :: 63 :: _ => None
      | 40 :: t => match p_alt f' vb t with
                   | Some (a, 41 :: t3) => Some (a, t3)      (* unnamed group: capture not modelled *)
                   | _ => None
                   end
      | 91 :: t => p_class t
      | 92 :: c :: t => match escape_ranges c with
                        | Some rs => Some (Cls false rs, t)
                        | None => None
                        end
      | 46 :: t => Some (any_re, t)
      | 94 :: t => Some (Bol, t)
      | 36 :: t => Some (Eol, t)
      | c :: t => if is_quant_chr c || (c =? 123) || (c =? 41) || (c =? 124) || (c =? 92) then None
                  else Some (chr_re c, t)
      | [] => None
      end
  end.

Definition parse_re_v (vb : bool) (s : str) : option re :=
  match p_alt (4 * length s + 8) vb s with
  | Some (r, []) => Some r
  | _ => None
  end.
Definition parse_re (s : str) : option re := parse_re_v false s.

(* canonical dump used to compare with CPython's own parser (re._parser.parse) *)
