(* Proleptic Gregorian calendar as used by datetime.date / strftime.
   A day is the integer n = date.toordinal() - 1, so n = 0 is 0001-01-01 (a Monday). *)
From Coq Require Import ZArith List Bool.
Import ListNotations.
Local Open Scope Z_scope.

Definition ERA : Z := 146097.          (* days in 400 Gregorian years *)
Definition MAX_ORD : Z := 3652058.     (* 9999-12-31 *)

(* civil date from day number (Hinnant's algorithm, shifted so that day 0 = 0001-01-01) *)
Definition civil (n : Z) : Z * Z * Z :=
  let z := n + 306 in
  let era := z / 146097 in
  let doe := z mod 146097 in
  let yoe := (doe - doe / 1460 + doe / 36524 - doe / 146096) / 365 in
  let y := yoe + era * 400 in
  let doy := doe - (365 * yoe + yoe / 4 - yoe / 100) in
  let mp := (5 * doy + 2) / 153 in
  let d := doy - (153 * mp + 2) / 5 + 1 in
  let m := if mp <? 10 then mp + 3 else mp - 9 in
  (if m <=? 2 then y + 1 else y, m, d).

Definition is_leap (y : Z) : bool := ((y mod 4 =? 0) && negb (y mod 100 =? 0)) || (y mod 400 =? 0).
Definition days_before_year (y : Z) : Z := let y1 := y - 1 in y1 * 365 + y1 / 4 - y1 / 100 + y1 / 400.
Definition days_in_month (y m : Z) : Z :=
  if m =? 2 then (if is_leap y then 29 else 28)
  else if (m =? 4) || (m =? 6) || (m =? 9) || (m =? 11) then 30 else 31.
Definition days_before_month (y m : Z) : Z :=
  nth (Z.to_nat (m - 1)) [0; 31; 59; 90; 120; 151; 181; 212; 243; 273; 304; 334] 0
  + (if (2 <? m) && is_leap y then 1 else 0).

(* number of ISO weeks of a year *)
Definition iso_p (y : Z) : Z := (y + y / 4 - y / 100 + y / 400) mod 7.
Definition iso_weeks_in (y : Z) : Z := if (iso_p y =? 4) || (iso_p (y - 1) =? 3) then 53 else 52.

Record cal := mkcal {
  year_y : Z; year_g : Z; quarter : Z; month : Z; dom : Z; doy : Z; week_w : Z; week_u : Z; week_v : Z }.

Definition quarter_from_month (m : Z) : Z := (m - 1) / 3 + 1.

(* v2version.cal_info: year, %G, quarter, month, day, %j, %W, %U, %V *)
Definition cal_of (n : Z) : cal :=
  let '(y, m, d) := civil n in
  let j := n - days_before_year y + 1 in
  let wd := n mod 7 in                       (* Monday = 0 *)
  let wsun := (wd + 1) mod 7 in              (* Sunday = 0 *)
  let w := (j - 1 + 7 - wd) / 7 in           (* %W *)
  let u := (j - 1 + 7 - wsun) / 7 in         (* %U *)
  let wk := (j - (wd + 1) + 10) / 7 in
  let '(g, v) := if wk <? 1 then (y - 1, iso_weeks_in (y - 1))
                 else if iso_weeks_in y <? wk then (y + 1, 1) else (y, wk) in
  mkcal y g (quarter_from_month m) m d j w u v.

(* datetime.date(y, m, d): None = ValueError *)
Definition ord_of_ymd (y m d : Z) : option Z :=
  if (1 <=? y) && (y <=? 9999) && (1 <=? m) && (m <=? 12) && (1 <=? d) && (d <=? days_in_month y m)
  then Some (days_before_year y + days_before_month y m + d - 1) else None.

(* version.date_from_doy: date(y,1,1) + timedelta(doy-1); None = ValueError/OverflowError *)
Definition ord_from_doy (y j : Z) : option Z :=
  match ord_of_ymd y 1 1 with
  | Some n0 => let n := n0 + (j - 1) in if (0 <=? n) && (n <=? MAX_ORD) then Some n else None
  | None => None
  end.

Definition cal_fields (c : cal) : list Z :=
  [year_y c; year_g c; quarter c; month c; dom c; doy c; week_w c; week_u c; week_v c].

(* order-sensitive checksum of all nine fields over [a, a+len) -- used by the correspondence check
   (small modulus: big-number arithmetic is what costs time in vm_compute) *)
Definition mix (acc x : Z) : Z := (acc * 31 + x + 7) mod 1000003.
Definition checksum (a : Z) (len : N) : Z :=
  snd (N.iter len (fun '(i, acc) => (i + 1, fold_left mix (cal_fields (cal_of i)) acc)) (a, 0)).

(* forall over a Z range without nat *)
Definition range_all (f : Z -> bool) (a : Z) (len : N) : bool :=
  snd (N.iter len (fun '(i, acc) => (i + 1, acc && f i)) (a, true)).
