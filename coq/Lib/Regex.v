(* A model of the subset of Python's `re` that bumpver uses: syntax tree, all matches in
   backtracking priority order, match / search / groupdict, IGNORECASE as a tree transformation. *)
From Coq Require Import List Bool NArith Arith.
From BV Require Import Lib.PyStr.
Import ListNotations.

Inductive re :=
| Eps
| Cls (neg : bool) (rs : list (N * N))      (* character class as code point ranges *)
| Cat (a b : re)
| Alt (a b : re)                            (* a tried before b *)
| Star (a : re)                             (* greedy *)
| Grp (name : list N) (a : re)              (* (?P<name>a) *)
| Bol                                       (* ^ without MULTILINE *)
| Eol.                                      (* $ without MULTILINE *)

Definition inr (rs : list (N * N)) (c : N) : bool :=
  existsb (fun '(lo, hi) => N.leb lo c && N.leb c hi) rs.
Definition cls_accepts (neg : bool) (rs : list (N * N)) (c : N) : bool := xorb neg (inr rs c).

Definition env := list (list N * list N).
Definition take_consumed (s s' : str) : str := firstn (length s - length s') s.

(* All ways [r] can match a prefix of [s], most preferred first, as (captures, remainder).
   [n0] is the length of the whole subject, so that ^ can tell whether anything was consumed.
   [fuel] bounds the unrolling of Star; S (length s) is always enough because every iteration
   must consume at least one character. *)
Fixpoint rems (fuel : nat) (n0 : nat) : re -> str -> list (env * list N) :=
  fix go (r : re) (s : str) {struct r} : list (env * list N) :=
  match r with
  | Eps => [([], s)]
  | Cls neg p => match s with c :: t => if cls_accepts neg p c then [([], t)] else [] | [] => [] end
  | Cat a b => flat_map (fun '(e1, s1) => map (fun '(e2, s2) => (e1 ++ e2, s2)) (go b s1)) (go a s)
  | Alt a b => go a s ++ go b s
  | Star a =>
      match fuel with
      | O => [([], s)]
      | S f => flat_map (fun '(e1, s1) =>
                 if Nat.ltb (length s1) (length s)
                 then map (fun '(e2, s2) => (e1 ++ e2, s2)) (rems f n0 (Star a) s1) else []) (go a s)
               ++ [([], s)]
      end
  | Grp n a => map (fun '(e, s') => ((n, take_consumed s s') :: e, s')) (go a s)
  | Bol => if Nat.eqb (length s) n0 then [([], s)] else []
  | Eol => match s with [] => [([], s)] | [10%N] => [([], s)] | _ => [] end
  end.

Definition first_match (fuel n0 : nat) (r : re) (s : str) : option (env * list N) := hd_error (rems fuel n0 r s).

(* pattern.match(s): the preferred match at offset 0 *)
Definition re_match (r : re) (s : str) : option (env * list N) :=
  first_match (S (length s)) (length s) r s.

(* pattern.search(s): leftmost offset with a match; returns (offset, captures, remainder) *)
Fixpoint search_go (fuel n0 : nat) (r : re) (off : nat) (s : str) : option (nat * env * list N) :=
  match first_match fuel n0 r s with
  | Some (e, s') => Some (off, e, s')
  | None => match s with
            | [] => None
            | _ :: t => search_go fuel n0 r (S off) t
            end
  end.
Definition re_search (r : re) (s : str) : option (nat * env * list N) :=
  search_go (S (length s)) (length s) r O s.

(* (start, end, text) of pattern.search(s) *)
Definition search_span (r : re) (s : str) : option (nat * nat * list N) :=
  match re_search r s with
  | Some (off, _, rest) => let e := (length s - length rest)%nat in Some (off, e, firstn (e - off) (skipn off s))
  | None => None
  end.

(* full match: the preferred match at offset 0 consumes everything (this is what
   parse_version_info demands: len(match.group()) == len(version_str)) *)
Definition re_fullmatch_first (r : re) (s : str) : option env :=
  match re_match r s with
  | Some (e, []) => Some e
  | _ => None
  end.

Fixpoint group_names (r : re) : list (list N) :=
  match r with
  | Cat a b | Alt a b => group_names a ++ group_names b
  | Star a => group_names a
  | Grp n a => n :: group_names a
  | _ => []
  end.

(* last binding wins (a group inside a repetition keeps its last iteration) *)
Fixpoint lookup_last (n : list N) (e : env) : option (list N) :=
  match e with
  | [] => None
  | (k, v) :: t => match lookup_last n t with
                   | Some v' => Some v'
                   | None => if eqb_str k n then Some v else None
                   end
  end.
(* match.groupdict(): every named group, None when it did not take part *)
Definition groupdict (r : re) (e : env) : list (list N * option (list N)) :=
  map (fun n => (n, lookup_last n e)) (group_names r).

(* ---- constructors used by the parser ---- *)
Fixpoint lit (l : str) : re := match l with [] => Eps | c :: t => Cat (Cls false [(c, c)]) (lit t) end.
Definition chr_re (c : N) : re := Cls false [(c, c)].
Definition opt_re (a : re) : re := Alt a Eps.
Definition plus_re (a : re) : re := Cat a (Star a).
Fixpoint rep_re (n : nat) (a : re) : re := match n with O => Eps | S k => Cat a (rep_re k a) end.
(* a{n,m} with m >= n: n copies then up to (m-n) nested optional copies *)
Fixpoint upto_re (k : nat) (a : re) : re := match k with O => Eps | S j => Alt (Cat a (upto_re j a)) Eps end.
Definition digit_re : re := Cls false [(48, 57)]%N.
Definition any_re : re := Cls true [(10, 10)]%N.
(* \s for ASCII subjects *)
Definition space_re : re := Cls false [(9, 13); (28, 32)]%N.

(* ---- IGNORECASE: widen every class by the other case of its ASCII letters ---- *)
Definition swap_case_range (lo hi : N) : list (N * N) :=
  (* intersection with a-z shifted to A-Z and vice versa *)
  let l1 := N.max lo 97 in let h1 := N.min hi 122 in
  let l2 := N.max lo 65 in let h2 := N.min hi 90 in
  (if N.leb l1 h1 then [(l1 - 32, h1 - 32)%N] else []) ++ (if N.leb l2 h2 then [(l2 + 32, h2 + 32)%N] else []).
Definition icase_ranges (rs : list (N * N)) : list (N * N) :=
  rs ++ flat_map (fun '(lo, hi) => swap_case_range lo hi) rs.
Fixpoint icase (r : re) : re :=
  match r with
  | Cls neg rs => Cls neg (icase_ranges rs)
  | Cat a b => Cat (icase a) (icase b)
  | Alt a b => Alt (icase a) (icase b)
  | Star a => Star (icase a)
  | Grp n a => Grp n (icase a)
  | x => x
  end.

(* the atoms (character classes) of a regex: used by locality lemmas *)
Fixpoint atoms (r : re) : list (bool * list (N * N)) :=
  match r with
  | Cls neg rs => [(neg, rs)]
  | Cat a b | Alt a b => atoms a ++ atoms b
  | Star a | Grp _ a => atoms a
  | _ => []
  end.
Definition no_atom_accepts (r : re) (c : N) : bool :=
  forallb (fun '(neg, rs) => negb (cls_accepts neg rs c)) (atoms r).
