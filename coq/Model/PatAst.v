(* AST layer of the v2 pattern language: literal text, documented parts, nested optional groups.
   Theorems about rendering/recognising are proved on this layer; it is tied to the string layer
   (Model/V2.v) by the correspondence check and by computed instances. *)
From Coq Require Import List Bool NArith ZArith Arith.
From BV Require Import Lib.PyStr Lib.Decimal Lib.Types Lib.Regex Lib.RegexParse Model.V2 Gen.Tables.
Import ListNotations.

Inductive pat :=
| PNil
| PLit (l : list N) (k : pat)          (* literal text (already unescaped) *)
| PPart (name : list N) (k : pat)      (* a documented part, e.g. MAJOR, 0M, TAG *)
| POpt (g k : pat).                    (* [g] followed by k *)

(* regex of a part: the generated table text run through the regex parser *)
Definition part_regex (name : str) : option re :=
  match assoc name PART_PATTERNS with Some s => parse_re s | None => None end.
Definition part_field (name : str) : option (list N) := assoc name PATTERN_PART_FIELDS.
(* text a part shows for a version state (v2patterns.PART_FORMATS applied to the field) *)
Definition part_text (v : vinfo) (name : str) : option (list N) :=
  match part_field name with
  | Some f => match get_field v f, assoc name PART_FORMATS with
              | Some (Some x), Some k => Some (apply_fmt k x)
              | _, _ => None
              end
  | None => None
  end.
Definition ptext (v : vinfo) (name : str) : list N := match part_text v name with Some t => t | None => [] end.

(* all parts known, all fields present *)
Fixpoint pat_ok (v : vinfo) (p : pat) : bool :=
  match p with
  | PNil => true
  | PLit _ k => pat_ok v k
  | PPart n k => match part_regex n, part_text v n with Some _, Some _ => pat_ok v k | _, _ => false end
  | POpt g k => pat_ok v g && pat_ok v k
  end.

(* a group is omitted iff all parts under it show their zero value (version.PART_ZERO_VALUES) *)
Fixpoint zero (v : vinfo) (p : pat) : bool :=
  match p with
  | PNil => true
  | PLit _ k => zero v k
  | PPart n k => is_zero_val n (ptext v n) && zero v k
  | POpt g k => zero v g && zero v k
  end.

Fixpoint fmt (v : vinfo) (p : pat) : list N :=
  match p with
  | PNil => []
  | PLit l k => l ++ fmt v k
  | PPart n k => ptext v n ++ fmt v k
  | POpt g k => (if zero v g then [] else fmt v g) ++ fmt v k
  end.
(* the pattern as a whole is never omitted (only optional groups are) *)
Definition render (v : vinfo) (p : pat) : list N := fmt v p.

Definition pre (name : str) : re := match part_regex name with Some r => r | None => Eps end.
Definition pfield (name : str) : list N := match part_field name with Some f => f | None => [] end.

Fixpoint comp (p : pat) : re :=
  match p with
  | PNil => Eps
  | PLit l k => Cat (lit l) (comp k)
  | PPart n k => Cat (Grp (pfield n) (pre n)) (comp k)
  | POpt g k => Cat (Alt (comp g) Eps) (comp k)
  end.

(* captures of the preferred match *)
Fixpoint envof (v : vinfo) (p : pat) : env :=
  match p with
  | PNil => []
  | PLit _ k => envof v k
  | PPart n k => (pfield n, ptext v n) :: envof v k
  | POpt g k => (if zero v g then [] else envof v g) ++ envof v k
  end.

(* the pattern text this AST stands for: brackets in literals are written escaped *)
Definition esc_lit (l : str) : list N :=
  flat_map (fun c => if N.eqb c 91 || N.eqb c 93 then [92%N; c] else [c]) l.
Fixpoint print (p : pat) : list N :=
  match p with
  | PNil => []
  | PLit l k => esc_lit l ++ print k
  | PPart n k => n ++ print k
  | POpt g k => [91%N] ++ print g ++ [93%N] ++ print k
  end.

(* ---- separation conditions under which the preferred match of comp p on fmt v p ++ tail is exactly fmt v p ---- *)
(* the preferred match of a part's regex on its text followed by [rest] consumes exactly the text *)
Definition part_sep_ok (v : vinfo) (n : str) (rest : list N) : Prop :=
  forall f n0, (length (ptext v n ++ rest) <= f)%nat ->
    first_match f n0 (pre n) (ptext v n ++ rest) = Some ([], rest).
Fixpoint sep_ok (v : vinfo) (p : pat) (tail : list N) : Prop :=
  match p with
  | PNil => True
  | PLit _ k => sep_ok v k tail
  | PPart n k => part_sep_ok v n (fmt v k ++ tail) /\ sep_ok v k tail
  | POpt g k =>
      (if zero v g then forall f n0, rems f n0 (comp g) (fmt v k ++ tail) = []
       else sep_ok v g (fmt v k ++ tail))
      /\ sep_ok v k tail
  end.

(* first character test used by the syntactic conditions *)
Definition head_rejected_by (r : re) (s : list N) : bool :=
  match s with [] => true | c :: _ => no_atom_accepts r c end.
