(* The version comparison bumpver uses everywhere: setuptools_v65_version.parse / _cmpkey /
   _legacy_cmpkey / Version.__str__.  The PEP 440 regular expression itself is taken from the
   source by T1 (Gen/Tables.v) and run by the generic regex engine. *)
From Coq Require Import List Bool NArith ZArith Arith.
From BV Require Import Lib.PyStr Lib.Decimal Lib.Regex Lib.RegexParse Model.V2 Gen.Tables.
Import ListNotations.
Local Open Scope N_scope.

(* ------------------------------------------------------------------ comparison keys *)
Inductive ppd := PNegInf | PTag (l : list N) (n : N) | PPosInf.            (* _pre / _post / _dev entries *)
Inductive lpart := LStr (s : list N) | LNum (n : N).                       (* (NegInf, s) < (n, "") *)
Inductive key :=
| KLegacy (parts : list (list N))                                         (* epoch -1 *)
| KVer (epoch : N) (release : list N) (pre post dev : ppd) (local : option (list lpart)).

Definition cmp_str (a b : list N) : comparison := if lt_str a b then Lt else if lt_str b a then Gt else Eq.

Fixpoint cmp_list {A} (cmp : A -> A -> comparison) (a b : list A) : comparison :=
  match a, b with
  | [], [] => Eq
  | [], _ :: _ => Lt
  | _ :: _, [] => Gt
  | x :: a', y :: b' => match cmp x y with Eq => cmp_list cmp a' b' | c => c end
  end.

Definition cmp_ppd (a b : ppd) : comparison :=
  match a, b with
  | PNegInf, PNegInf => Eq | PNegInf, _ => Lt | _, PNegInf => Gt
  | PPosInf, PPosInf => Eq | PPosInf, _ => Gt | _, PPosInf => Lt
  | PTag l n, PTag l' n' => match cmp_str l l' with Eq => N.compare n n' | c => c end
  end.
Definition cmp_lpart (a b : lpart) : comparison :=
  match a, b with
  | LStr s, LStr t => cmp_str s t
  | LStr _, LNum _ => Lt
  | LNum _, LStr _ => Gt
  | LNum n, LNum m => N.compare n m
  end.
Definition cmp_local (a b : option (list lpart)) : comparison :=
  match a, b with
  | None, None => Eq | None, Some _ => Lt | Some _, None => Gt
  | Some x, Some y => cmp_list cmp_lpart x y
  end.
Definition lexc (c : comparison) (rest : comparison) : comparison := match c with Eq => rest | _ => c end.

(* Python's comparison of the _key tuples *)
Definition cmp_key (a b : key) : comparison :=
  match a, b with
  | KLegacy x, KLegacy y => cmp_list cmp_str x y
  | KLegacy _, KVer _ _ _ _ _ _ => Lt
  | KVer _ _ _ _ _ _, KLegacy _ => Gt
  | KVer e r p po d l, KVer e' r' p' po' d' l' =>
      lexc (N.compare e e') (lexc (cmp_list N.compare r r') (lexc (cmp_ppd p p') (lexc (cmp_ppd po po') (lexc (cmp_ppd d d') (cmp_local l l')))))
  end.
Definition key_le (a b : key) : bool := match cmp_key a b with Gt => false | _ => true end.   (* a <= b *)
Definition key_lt (a b : key) : bool := match cmp_key a b with Lt => true | _ => false end.

(* ------------------------------------------------------------------ legacy key *)
(* re.split(r"(\d+ | [a-z]+ | \.| -)"): digit runs, lower-case runs, '.', '-', and the text between them *)
Definition tok_class (c : N) : N := if is_digit c then 1 else if is_lower c then 2 else if (c =? 46) || (c =? 45) then 3 else 0.
Fixpoint legacy_tokens (s : str) (cur : str) (cls : N) : list (list N) :=
  match s with
  | [] => match cur with [] => [] | _ => [rev cur] end
  | c :: t =>
      let k := tok_class c in
      let flushed := match cur with [] => [] | _ => [rev cur] end in
      if k =? 3 then flushed ++ [[c]] ++ legacy_tokens t [] 0
      else if (k =? cls) then legacy_tokens t (c :: cur) cls
      else flushed ++ legacy_tokens t [c] k
  end.

Definition legacy_part (p : str) : list (list N) :=
  let p' := match assoc p LEGACY_REPLACEMENT_MAP with Some r => r | None => p end in
  match p' with
  | [] => []
  | [46] => []
  | c :: _ => if is_digit c then [zfill 8 p'] else [42 :: p']
  end.
Definition s_star_final := [42;102;105;110;97;108].
Definition s_star_final_dash := [42;102;105;110;97;108;45].
Definition s_zeros8 := [48;48;48;48;48;48;48;48].

Fixpoint pop_while (p : list N -> bool) (rl : list (list N)) : list (list N) :=
  match rl with x :: t => if p x then pop_while p t else rl | [] => [] end.

(* _legacy_cmpkey's loop; [acc] is the list of parts so far, reversed *)
Definition legacy_push (acc : list (list N)) (part : str) : list (list N) :=
  let acc1 := match part with
              | 42 :: _ =>
                  let a := if lt_str part s_star_final then pop_while (eqb_str s_star_final_dash) acc else acc in
                  pop_while (eqb_str s_zeros8) a
              | _ => acc
              end in
  part :: acc1.
Definition legacy_key (version : str) : key :=
  let parts := flat_map legacy_part (legacy_tokens (lower_ascii version) [] 0) ++ [s_star_final] in
  KLegacy (rev (fold_left legacy_push parts [])).

(* ------------------------------------------------------------------ PEP 440 parsing *)
Definition has_flag (f : str) : bool := existsb (eqb_str f) VERSION_RE_FLAGS.
Definition version_re : option re :=
  match parse_re_v (has_flag [86;69;82;66;79;83;69]) (VERSION_RE_PREFIX ++ VERSION_PATTERN ++ VERSION_RE_SUFFIX) with
  | Some r => Some (if has_flag [73;71;78;79;82;69;67;65;83;69] then icase r else r)
  | None => None
  end.

Definition g (name : list N) (e : env) : option (list N) := lookup_last name e.
Definition n_epoch := [101;112;111;99;104].
Definition n_release := [114;101;108;101;97;115;101].
Definition n_pre_l := [112;114;101;95;108].
Definition n_pre_n := [112;114;101;95;110].
Definition n_post_n1 := [112;111;115;116;95;110;49].
Definition n_post_l := [112;111;115;116;95;108].
Definition n_post_n2 := [112;111;115;116;95;110;50].
Definition n_dev_l := [100;101;118;95;108].
Definition n_dev_n := [100;101;118;95;110].
Definition n_local := [108;111;99;97;108].

Definition s_a := [97]. Definition s_b := [98]. Definition s_c := [99]. Definition s_rc := [114;99].
Definition s_alpha := [97;108;112;104;97]. Definition s_beta := [98;101;116;97].
Definition s_pre := [112;114;101]. Definition s_preview := [112;114;101;118;105;101;119].
Definition s_post := [112;111;115;116]. Definition s_rev := [114;101;118]. Definition s_r := [114].
Definition s_dev := [100;101;118].

Definition nonempty (o : option (list N)) : bool := match o with Some (_ :: _) => true | _ => false end.

(* _parse_letter_version *)
Definition parse_letter_version (letter number : option (list N)) : option (list N * N) :=
  if nonempty letter then
    let l0 := lower_ascii (match letter with Some l => l | None => [] end) in
    let n := match number with Some d => undec d | None => 0 end in
    let l := if eqb_str l0 s_alpha then s_a
             else if eqb_str l0 s_beta then s_b
             else if eqb_str l0 s_c || eqb_str l0 s_pre || eqb_str l0 s_preview then s_rc
             else if eqb_str l0 s_rev || eqb_str l0 s_r then s_post
             else l0 in
    Some (l, n)
  else if nonempty number then Some (s_post, match number with Some d => undec d | None => 0 end)
  else None.

(* _parse_local_version: split on [._-] *)
Fixpoint split_local (s cur : str) : list (list N) :=
  match s with
  | [] => [rev cur]
  | c :: t => if (c =? 46) || (c =? 95) || (c =? 45) then rev cur :: split_local t [] else split_local t (c :: cur)
  end.
Definition parse_local (o : option (list N)) : option (list lpart) :=
  match o with
  | Some s => Some (map (fun p => if isdigit p then LNum (undec p) else LStr (lower_ascii p)) (split_local s []))
  | None => None
  end.

Fixpoint pop_whileN (l : list N) : list N := match l with x :: t => if x =? 0 then pop_whileN t else l | [] => [] end.
Definition drop_trailing_zeros (l : list N) : list N := rev (pop_whileN (rev l)).

Record pver := mkpver { pv_epoch : N; pv_release : list N; pv_pre : option (list N * N); pv_post : option (list N * N);
                        pv_dev : option (list N * N); pv_local : option (list lpart) }.

(* Version.__init__: None = InvalidVersion *)
Definition parse_pep440 (s : str) : option pver :=
  match version_re with
  | None => None
  | Some r =>
      match re_search r s with
      | None => None
      | Some (_, e, _) =>
          let epoch := if nonempty (g n_epoch e) then undec (match g n_epoch e with Some d => d | None => [] end) else 0 in
          let release := map undec (ssplit [46] (match g n_release e with Some d => d | None => [] end)) in
          let post_n := if nonempty (g n_post_n1 e) then g n_post_n1 e else g n_post_n2 e in
          Some (mkpver epoch release (parse_letter_version (g n_pre_l e) (g n_pre_n e))
                       (parse_letter_version (g n_post_l e) post_n)
                       (parse_letter_version (g n_dev_l e) (g n_dev_n e))
                       (parse_local (g n_local e)))
      end
  end.

Definition tag_of (o : option (list N * N)) (dflt : ppd) : ppd := match o with Some (l, n) => PTag l n | None => dflt end.

(* _cmpkey *)
Definition cmpkey (v : pver) : key :=
  let pre := match pv_pre v, pv_post v, pv_dev v with
             | None, None, Some _ => PNegInf
             | None, _, _ => PPosInf
             | Some (l, n), _, _ => PTag l n
             end in
  KVer (pv_epoch v) (drop_trailing_zeros (pv_release v)) pre (tag_of (pv_post v) PNegInf) (tag_of (pv_dev v) PPosInf) (pv_local v).

(* setuptools_v65_version.parse(...)._key  ==  version.parse_version(s)._key *)
Definition version_key (s : str) : key :=
  match parse_pep440 s with
  | Some v => cmpkey v
  | None => legacy_key s
  end.

(* Version.__str__ *)
Definition lpart_str (p : lpart) : list N := match p with LStr s => s | LNum n => dec n end.
Definition pver_str (v : pver) : list N :=
  (if pv_epoch v =? 0 then [] else dec (pv_epoch v) ++ [33]) ++
  join [46] (map dec (pv_release v)) ++
  (match pv_pre v with Some (l, n) => l ++ dec n | None => [] end) ++
  (match pv_post v with Some (_, n) => [46] ++ s_post ++ dec n | None => [] end) ++
  (match pv_dev v with Some (_, n) => [46] ++ s_dev ++ dec n | None => [] end) ++
  (match pv_local v with Some l => [43] ++ join [46] (map lpart_str l) | None => [] end).

(* version.to_pep440(s) = str(parse_version(s)) *)
Definition to_pep440 (s : str) : list N :=
  match parse_pep440 s with Some v => pver_str v | None => s end.

Definition is_pep440 (s : str) : bool := match parse_pep440 s with Some _ => true | None => false end.

(* comparisons as bumpver writes them *)
Definition ver_le (a b : str) : bool := key_le (version_key a) (version_key b).
Definition ver_lt (a b : str) : bool := key_lt (version_key a) (version_key b).

(* ------------------------------------------------------------------ structural equality (correspondence check) *)
Definition eqb_ppd (a b : ppd) : bool :=
  match a, b with
  | PNegInf, PNegInf | PPosInf, PPosInf => true
  | PTag l n, PTag l' n' => eqb_str l l' && (n =? n')
  | _, _ => false
  end.
Definition eqb_lpart (a b : lpart) : bool :=
  match a, b with LStr s, LStr t => eqb_str s t | LNum n, LNum m => n =? m | _, _ => false end.
Fixpoint eqb_list {A} (eqb : A -> A -> bool) (a b : list A) : bool :=
  match a, b with
  | [], [] => true
  | x :: a', y :: b' => eqb x y && eqb_list eqb a' b'
  | _, _ => false
  end.
Definition eqb_key (a b : key) : bool :=
  match a, b with
  | KLegacy x, KLegacy y => eqb_list eqb_str x y
  | KVer e r p po d l, KVer e' r' p' po' d' l' =>
      (e =? e') && eqb_list N.eqb r r' && eqb_ppd p p' && eqb_ppd po po' && eqb_ppd d d' &&
      match l, l' with None, None => true | Some x, Some y => eqb_list eqb_lpart x y | _, _ => false end
  | _, _ => false
  end.
Definition cmp_code (c : comparison) : N := match c with Lt => 0 | Eq => 1 | Gt => 2 end.
