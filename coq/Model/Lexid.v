(* lexid.next_id (third-party, lexid 2021.1006) and the BUILD bump of v2version._incr_numeric. *)
From Coq Require Import List Bool NArith Arith.
From BV Require Import Lib.PyStr Lib.Decimal.
Import ListNotations.
Local Open Scope N_scope.

Definition hd_eqb (a b : str) : bool :=
  match a, b with
  | x :: _, y :: _ => N.eqb x y
  | _, _ => false
  end.

(* None = OverflowError('max lexical version reached') *)
Definition next_id (prev : str) : option str :=
  let nd := length prev in
  if Nat.eqb (scount [57] prev) nd then None else
  let m := undec prev + 1 in
  let ms := pad nd m in
  if hd_eqb prev ms then Some ms else Some (dec (m * 11)).

(* v2version._incr_numeric, "prevent truncation of leading zeros" + successor *)
Definition bump_bid (bid : str) : option str :=
  let b := if undec bid <? 1000 then dec (undec bid + 1000) else bid in
  next_id b.

(* n successive bumps; None as soon as one fails *)
Fixpoint bump_chain (n : nat) (bid : str) : option (list str) :=
  match n with
  | O => Some []
  | S k => match bump_bid bid with
           | None => None
           | Some b => match bump_chain k b with Some l => Some (b :: l) | None => None end
           end
  end.
