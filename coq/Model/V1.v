(* Legacy {...} patterns: v1patterns (compile), v1version (parse, format, incr) and the engine
   dispatch of cli.incr_dispatch / cli._is_valid_version / config._parse_config. *)
From Coq Require Import List Bool NArith ZArith Arith.
From BV Require Import Lib.PyStr Lib.Decimal Lib.Regex Lib.RegexParse Lib.Calendar Model.Lexid Model.V2 Model.Pep440 Gen.Tables.
Import ListNotations.
Local Open Scope N_scope.

(* ------------------------------------------------------------------ v1patterns *)
Definition brace (name : str) : list N := [123] ++ name ++ [125].
Definition esc_brace (name : str) : list N := [92; 123] ++ name ++ [92; 125].     (* \{name\} *)

(* _replace_pattern_parts over a given PART_PATTERNS table *)
Definition v1_replace_parts (tbl : list (list N * list N)) (p : str) : list N :=
  fold_left (fun acc '(name, pp) => sreplace (esc_brace name) ([40; 63; 80; 60] ++ name ++ [62] ++ pp ++ [41]) acc) tbl p.

(* replace or append, like a dict assignment *)
Fixpoint dict_set (k : str) (v : list N) (l : list (list N * list N)) : list (list N * list N) :=
  match l with
  | [] => [(k, v)]
  | (k', v') :: t => if eqb_str k k' then (k, v) :: t else (k', v') :: dict_set k v t
  end.

(* _init_composite_patterns(): PART_PATTERNS after module initialisation *)
Definition v1_part_patterns : list (list N * list N) :=
  fold_left (fun tbl '(name, pp) =>
               let pp' := sreplace [125] [92; 125] (sreplace [123] [92; 123] pp) in
               dict_set name (v1_replace_parts tbl pp') tbl)
            V1_COMPOSITE_PART_PATTERNS V1_PART_PATTERNS.

(* every character of RE_PATTERN_ESCAPES is escaped here, brackets and backslash included *)
Definition v1_escape (p : str) : list N := fold_left (fun acc '(c, e) => sreplace c e acc) RE_PATTERN_ESCAPES p.
Definition v1_compile_str (normalized : str) : list N := v1_replace_parts v1_part_patterns (v1_escape normalized).
Definition v1_compile_re (normalized : str) : option re :=
  match parse_re (v1_compile_str normalized) with
  | Some r => if has_dup (group_names r) then None else Some r
  | None => None
  end.

(* v1patterns._normalized_pattern *)
Definition v1_normalize (version_pattern raw : str) : list N :=
  let res := sreplace s_version_ph version_pattern raw in
  match assoc version_pattern V1_PEP440_MAPPING with
  | Some rep => sreplace s_pep440_ph rep res
  | None => res
  end.

(* ------------------------------------------------------------------ version.V1VersionInfo *)
Record v1info := mkv1 {
  w_year : option Z; w_quarter : option Z; w_month : option Z; w_dom : option Z; w_doy : option Z;
  w_iso_week : option Z; w_us_week : option Z; w_major : Z; w_minor : Z; w_patch : Z; w_bid : list N; w_tag : list N }.

Definition n1_year := [121;101;97;114].
Definition n1_iso_week := [105;115;111;95;119;101;101;107].
Definition n1_us_week := [117;115;95;119;101;101;107].

Definition v1_get (v : v1info) (f : str) : option (option fval) :=
  if eqb_str f n1_year then Some (oint (w_year v)) else
  if eqb_str f n_quarter then Some (oint (w_quarter v)) else
  if eqb_str f n_month then Some (oint (w_month v)) else
  if eqb_str f n_dom then Some (oint (w_dom v)) else
  if eqb_str f n_doy then Some (oint (w_doy v)) else
  if eqb_str f n1_iso_week then Some (oint (w_iso_week v)) else
  if eqb_str f n1_us_week then Some (oint (w_us_week v)) else
  if eqb_str f n_major then Some (Some (FInt (w_major v))) else
  if eqb_str f n_minor then Some (Some (FInt (w_minor v))) else
  if eqb_str f n_patch then Some (Some (FInt (w_patch v))) else
  if eqb_str f n_bid then Some (Some (FStr (w_bid v))) else
  if eqb_str f n_tag then Some (Some (FStr (w_tag v))) else None.

(* ------------------------------------------------------------------ v1version: reading *)
(* _parse_pattern_groups: every group name must be a known part; one part per field *)
Definition v1_known_part (name : str) : bool := has_key name V1_COMPOSITE_PART_PATTERNS || has_key name V1_PATTERN_PART_FIELDS.

Fixpoint count_str (x : str) (l : list (list N)) : nat :=
  match l with [] => O | y :: t => (if eqb_str x y then 1 else 0) + count_str x t end.

Definition v1_field_values (gd : fvals) : pres fvals :=
  if negb (forallb (fun '(name, _) => v1_known_part name) gd) then PErr else
  let items := flat_map (fun '(part, field) => match assoc part gd with Some v => [(field, v)] | None => [] end) V1_PATTERN_PART_FIELDS in
  let fields := map fst items in
  if existsb (fun f => Nat.ltb 1 (count_str f fields)) fields then PErr
  else POk items.

Definition v1_int (k : str) (fv : fvals) : option (option Z) := fv_int k fv.

(* _parse_field_values *)
Definition v1_parse_fields (fv : fvals) : pres v1info :=
  let tag0 := match assoc n_tag fv with Some (Some t) => t | _ => s_final end in
  let tag := match assoc tag0 TAG_BY_PEP440_TAG with Some t => t | None => tag0 end in
  bind (match assoc n_bid fv with None => POk [48;48;48;49] | Some (Some b) => POk b | Some None => PCrash end) (fun bid =>
  match v1_int n1_year fv, v1_int n_doy fv, v1_int n_month fv, v1_int n_dom fv, v1_int n_quarter fv,
        v1_int n_major fv, v1_int n_minor fv, v1_int n_patch fv with
  | Some y0, Some doy0, Some mo0, Some dom0, Some q0, Some ma, Some mi, Some pa =>
      let year := match y0 with Some y => if (y <? 100)%Z then Some (y + 2000)%Z else Some y | None => None end in
      bind (if truthy year && truthy doy0 then
              match year, doy0 with
              | Some y, Some j => match ord_from_doy y j with
                                  | Some n => let c := cal_of n in POk (Some (month c), Some (dom c))
                                  | None => PValueErr
                                  end
              | _, _ => PCrash
              end
            else POk (mo0, dom0))
      (fun '(mo, dm) =>
      bind (if truthy year && truthy mo && truthy dm then
              match year, mo, dm with
              | Some y, Some m, Some d => match ord_of_ymd y m d with
                                          | Some n => let c := cal_of n in POk (Some (doy c), Some (week_w c), Some (week_u c))
                                          | None => PValueErr
                                          end
              | _, _, _ => PCrash
              end
            else POk (doy0, None, None))
      (fun '(doy1, isow, usw) =>
      let q := match q0 with
               | Some q => Some q
               | None => if truthy mo then match mo with Some m => Some (quarter_from_month m) | None => None end else None
               end in
      let dflt (o : option Z) := match o with Some z => z | None => 0%Z end in
      POk (mkv1 year q mo dm doy1 isow usw (dflt ma) (dflt mi) (dflt pa) bid tag)))
  | _, _, _, _, _, _, _, _ => PCrash
  end).

(* v1version.parse_version_info (after fix 218096d: the match must span the whole string) *)
Definition v1_parse_version_info (version_str raw : str) : pres v1info :=
  match v1_compile_re (v1_normalize raw raw) with
  | None => PCrash
  | Some r =>
      match re_match r version_str with
      | None => PErr
      | Some (e, _ :: _) => PErr
      | Some (e, []) => bind (v1_field_values (groupdict r e)) v1_parse_fields
      end
  end.

Definition v1_is_valid (version_str raw : str) : option bool :=
  match v1_parse_version_info version_str raw with
  | POk _ => Some true
  | PErr | PValueErr => Some false
  | PCrash => None
  end.

(* ------------------------------------------------------------------ v1version: rendering *)
(* the subset of str.format used by FULL_PART_FORMATS: {name} and {name:0N} *)
Inductive fmtval := VInt (z : Z) | VStr (s : list N) | VNone.

Definition fmt_field (kw : list (list N * fmtval)) (spec : str) : option (list N) :=
  let '(name, rest) := span_while (fun c => negb (c =? 58)) spec in
  match assoc name kw with
  | None => None                                    (* KeyError *)
  | Some v =>
      match rest with
      | [] => Some (match v with VInt z => zdec z | VStr s => s | VNone => [78;111;110;101] end)
      | 58 :: 48 :: w =>                            (* :0N *)
          if all_digits w && negb (match w with [] => true | _ => false end) then
            match v with
            | VInt z => Some (pad (N.to_nat (undec w)) (Z.to_N z))
            | VStr s => None                        (* '=' alignment not allowed for str *)
            | VNone => None                         (* TypeError *)
            end
          else None
      | _ => None
      end
  end.

Fixpoint format_go (fuel : nat) (kw : list (list N * fmtval)) (s : str) : option (list N) :=
  match fuel with
  | O => None
  | S f =>
      match s with
      | [] => Some []
      | 123 :: 123 :: t => match format_go f kw t with Some r => Some (123 :: r) | None => None end
      | 125 :: 125 :: t => match format_go f kw t with Some r => Some (125 :: r) | None => None end
      | 123 :: t =>
          let '(spec, rest) := span_while (fun c => negb (c =? 125) && negb (c =? 123)) t in
          match rest with
          | 125 :: t' => match fmt_field kw spec, format_go f kw t' with
                         | Some a, Some r => Some (a ++ r)
                         | _, _ => None
                         end
          | _ => None
          end
      | 125 :: _ => None
      | c :: t => match format_go f kw t with Some r => Some (c :: r) | None => None end
      end
  end.
Definition str_format (tmpl : str) (kw : list (list N * fmtval)) : option (list N) := format_go (S (length tmpl)) kw tmpl.

Definition ofv (o : option Z) : fmtval := match o with Some z => VInt z | None => VNone end.
Definition is_lower_eq (a b : str) : bool := eqb_str (lower_ascii a) (lower_ascii b).

(* v1version.format_version; None = exception *)
Definition v1_format_version (v : v1info) (raw : str) : option (list N) :=
  let full := fold_left (fun acc '(name, f) => sreplace (brace name) f acc) V1_FULL_PART_FORMATS raw in
  let tag := w_tag v in
  let final := eqb_str tag s_final in
  match (if final then Some [] else match assoc tag PEP440_TAG_BY_TAG with Some p => Some (p ++ [48]) | None => None end) with
  | None => None
  | Some pep_tag =>
      let kw0 : list (list N * fmtval) :=
        [ (n1_year, ofv (w_year v)); (n_quarter, ofv (w_quarter v)); (n_month, ofv (w_month v)); (n_dom, ofv (w_dom v));
          (n_doy, ofv (w_doy v)); (n1_iso_week, ofv (w_iso_week v)); (n1_us_week, ofv (w_us_week v));
          (n_major, VInt (w_major v)); (n_minor, VInt (w_minor v)); (n_patch, VInt (w_patch v));
          (n_bid, VStr (w_bid v)); (n_tag, VStr tag);
          ([114;101;108;101;97;115;101], VStr (if final then [] else 45 :: tag));                  (* release *)
          ([112;101;112;52;52;48;95;116;97;103], VStr pep_tag);                                     (* pep440_tag *)
          ([114;101;108;101;97;115;101;95;116;97;103], VStr tag) ] in                                (* release_tag *)
      let kw1 := if truthy (w_year v)
                 then kw0 ++ [([121;121], VStr (lastn 2 (zdec (match w_year v with Some y => y | None => 0%Z end))));
                              ([121;121;121;121], ofv (w_year v))]
                 else kw0 in
      let kw2 := kw1 ++ [([66;73;68], VInt (zundec (w_bid v)))] in
      (* ID_FIELDS_BY_PART *)
      let kw3 := fold_left
        (fun kw '(part, field) =>
           match assoc field kw with
           | None => kw
           | Some val =>
               if is_lower_eq part field then
                 kw ++ [(part, match val with VStr s => VInt (zundec s) | x => x end)]
               else
                 kw ++ [(part, VStr (zfill (length part) (match val with VInt z => zdec z | VStr s => s | VNone => [78;111;110;101] end)))]
           end) V1_ID_FIELDS_BY_PART kw2 in
      (* later entries win, as with dict assignment *)
      str_format full (rev kw3)
  end.

(* ------------------------------------------------------------------ v1version.incr *)
Definition v1_cal_list (v : v1info) : list (option Z) :=
  [w_year v; w_quarter v; w_month v; w_dom v; w_doy v; w_iso_week v; w_us_week v].
Definition v1_cal_of (n : Z) : list (option Z) :=
  let c := cal_of n in
  [Some (year_y c); Some (quarter c); Some (month c); Some (dom c); Some (doy c); Some (week_w c); Some (week_u c)].
Definition v1_set_cal (v : v1info) (c : list (option Z)) : v1info :=
  match c with
  | [a; b; c'; d; e; g; h] => mkv1 a b c' d e g h (w_major v) (w_minor v) (w_patch v) (w_bid v) (w_tag v)
  | _ => v
  end.

Definition v1_incr (old_version raw : str) (fl : flags) (date : Z) : incr_res :=
  match v1_parse_version_info old_version raw with
  | PErr => INone
  | PValueErr | PCrash => ICrash
  | POk old =>
      let cur_c := if f_pin_date fl then v1_cal_list old else v1_cal_of date in
      let cur := if is_cal_gt (v1_cal_list old) cur_c then old else v1_set_cal old cur_c in
      match next_id (w_bid cur) with
      | None => ICrash
      | Some b =>
          let c0 := mkv1 (w_year cur) (w_quarter cur) (w_month cur) (w_dom cur) (w_doy cur) (w_iso_week cur) (w_us_week cur)
                         (w_major cur) (w_minor cur) (w_patch cur) b (w_tag cur) in
          let upd (v : v1info) ma mi pa := mkv1 (w_year v) (w_quarter v) (w_month v) (w_dom v) (w_doy v) (w_iso_week v) (w_us_week v) ma mi pa (w_bid v) (w_tag v) in
          let c1 := if f_major fl then upd c0 (w_major c0 + 1)%Z 0%Z 0%Z else c0 in
          let c2 := if f_minor fl then upd c1 (w_major c1) (w_minor c1 + 1)%Z 0%Z else c1 in
          let c3 := if f_patch fl then upd c2 (w_major c2) (w_minor c2) (w_patch c2 + 1)%Z else c2 in
          if f_tag_num fl then ICrash else       (* NotImplementedError *)
          let c4 := match f_tag fl with
                    | Some (x :: t) => mkv1 (w_year c3) (w_quarter c3) (w_month c3) (w_dom c3) (w_doy c3) (w_iso_week c3) (w_us_week c3)
                                            (w_major c3) (w_minor c3) (w_patch c3) (w_bid c3) (x :: t)
                    | _ => c3
                    end in
          match v1_format_version c4 raw with
          | None => ICrash
          | Some s => if eqb_str s old_version then INone else INew s
          end
      end
  end.

(* ------------------------------------------------------------------ engine dispatch *)
(* cli.incr_dispatch: has_v1_part *)
Definition v1_parts : list (list N) := map fst v1_part_patterns ++ map fst V1_FULL_PART_FORMATS.
Definition has_v1_part (raw : str) : bool := existsb (fun p => str_in (brace p) raw) v1_parts.
