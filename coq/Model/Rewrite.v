(* parse.iter_matches, v2rewrite.rewrite_lines / rfd_from_content, rewrite.detect_line_sep,
   and the file-level read / validate / write sequence of rewrite_files and diff.
   The matcher of a pattern is abstract in the generic part (so the theorems hold for any
   matcher) and instantiated with the v2 regex compiler for running. *)
From Coq Require Import List Bool NArith ZArith Arith.
From BV Require Import Lib.PyStr Lib.Regex Lib.RegexParse Model.V2.
Import ListNotations.

(* ------------------------------------------------------------------ rewrite.detect_line_sep *)
Definition s_CRLF : list N := [13; 10]%N.
Definition s_CR : list N := [13]%N.
Definition s_LF : list N := [10]%N.
Definition detect_line_sep (content : str) : list N :=
  if str_in s_CRLF content then s_CRLF else if str_in s_CR content then s_CR else s_LF.

(* ------------------------------------------------------------------ generic part *)
(* a compiled pattern: identity (set semantics of found_patterns), search on a line, replacement text *)
Record cpat := mkcpat {
  cp_id : list N;                                   (* the normalized pattern text identifies the Pattern tuple *)
  cp_search : list N -> option (nat * nat);         (* span of regexp.search(line), None when no match *)
  cp_repl : list N }.                               (* format_version(new_vinfo, normalized pattern) *)

Record pmatch := mkpm { pm_pat : cpat; pm_line : nat; pm_start : nat; pm_end : nat }.

(* parse._iter_for_pattern: at most one match per line, empty matches dropped *)
Fixpoint iter_for_pattern (p : cpat) (lines : list (list N)) (lineno : nat) : list pmatch :=
  match lines with
  | [] => []
  | l :: t =>
      match cp_search p l with
      | Some (a, b) => if Nat.ltb a b then mkpm p lineno a b :: iter_for_pattern p t (S lineno)
                       else iter_for_pattern p t (S lineno)
      | None => iter_for_pattern p t (S lineno)
      end
  end.

(* parse._has_overlap: touching spans count as overlapping *)
Definition has_overlap (m : pmatch) (spans : list (nat * nat * nat)) : bool :=
  existsb (fun '(ln, s, e) => Nat.eqb ln (pm_line m) && Nat.leb (pm_start m) e && Nat.leb s (pm_end m)) spans.

(* parse.iter_matches: pattern-major order; suppressed candidates still block later ones *)
Fixpoint filter_overlaps (cands : list pmatch) (spans : list (nat * nat * nat)) : list pmatch :=
  match cands with
  | [] => []
  | m :: t =>
      let spans' := spans ++ [(pm_line m, pm_start m, pm_end m)] in
      if has_overlap m spans then filter_overlaps t spans' else m :: filter_overlaps t spans'
  end.
Definition iter_matches (lines : list (list N)) (pats : list cpat) : list pmatch :=
  filter_overlaps (flat_map (fun p => iter_for_pattern p lines O) pats) [].

(* sort by (lineno, start, end) descending  (matches.sort(key=lambda m: (m.lineno, m.span), reverse=True)) *)
Definition pm_after (a b : pmatch) : bool :=
  Nat.ltb (pm_line b) (pm_line a)
  || (Nat.eqb (pm_line a) (pm_line b) && (Nat.ltb (pm_start b) (pm_start a)
      || (Nat.eqb (pm_start a) (pm_start b) && Nat.ltb (pm_end b) (pm_end a)))).
Fixpoint pm_insert (x : pmatch) (l : list pmatch) : list pmatch :=
  match l with
  | [] => [x]
  | y :: t => if pm_after y x then y :: pm_insert x t else x :: l
  end.
Definition sort_desc (l : list pmatch) : list pmatch := fold_right pm_insert [] l.

Fixpoint set_nth {A} (n : nat) (x : A) (l : list A) : list A :=
  match l, n with
  | [], _ => []
  | _ :: t, O => x :: t
  | y :: t, S k => y :: set_nth k x t
  end.
Definition splice (line : list N) (a b : nat) (r : list N) : list N := firstn a line ++ r ++ skipn b line.

(* the replacement loop of rewrite_lines after fix 5ba6d61: right to left, into the current line *)
Definition apply_matches (ms : list pmatch) (lines : list (list N)) : list (list N) :=
  fold_left (fun ls m => set_nth (pm_line m) (splice (nth (pm_line m) ls []) (pm_start m) (pm_end m) (cp_repl (pm_pat m))) ls)
            (sort_desc ms) lines.

Definition pat_found (ms : list pmatch) (p : cpat) : bool := existsb (fun m => eqb_str (cp_id (pm_pat m)) (cp_id p)) ms.

Inductive rw_res := RwOk (new_lines : list (list N)) | RwGreedy | RwInvalid.   (* the two NoPatternMatch messages *)

(* v2rewrite.rewrite_lines *)
Definition rewrite_lines (pats : list cpat) (old_lines : list (list N)) : rw_res :=
  let ms := iter_matches old_lines pats in
  if forallb (pat_found ms) pats then RwOk (apply_matches ms old_lines)
  else if existsb (pat_found ms) pats then RwGreedy else RwInvalid.

(* v2rewrite.rfd_from_content: (line_sep, old_lines, result) *)
Definition rfd_from_content (pats : list cpat) (content : list N) : list N * list (list N) * rw_res :=
  let sep := detect_line_sep content in
  let old_lines := ssplit sep content in
  (sep, old_lines, rewrite_lines pats old_lines).

(* new file content written by rewrite_files *)
Definition new_content (pats : list cpat) (content : list N) : option (list N) :=
  match rfd_from_content pats content with
  | (sep, _, RwOk nl) => Some (join sep nl)
  | _ => None
  end.

(* reference semantics of "replace exactly the matched spans": spans ascending and disjoint *)
Fixpoint replace_spans (line : list N) (off : nat) (spans : list (nat * nat * list N)) : list N :=
  match spans with
  | [] => line
  | (a, b, r) :: t => firstn (a - off) line ++ r ++ replace_spans (skipn (b - off) line) b t
  end.

(* ------------------------------------------------------------------ file level: rewrite_files and diff *)
Inductive eff := ERead (path : list N) | EWrite (path : list N) (content : list N).

(* a file system view: path -> content, None = file does not exist *)
Definition fsys := list N -> option (list N).

Inductive files_res := FilesOk | FilesIOError | FilesNoMatch.

(* iter_rewritten for one file: existence check (iter_path_patterns_items), read, rfd_from_content *)
Definition rewritten_one (fs : fsys) (item : list N * list cpat) : files_res * list eff * option (list N) :=
  let '(path, pats) := item in
  match fs path with
  | None => (FilesIOError, [], None)
  | Some content =>
      match new_content pats content with
      | Some nc => (FilesOk, [ERead path], Some nc)
      | None => (FilesNoMatch, [ERead path], None)
      end
  end.

(* rewrite_files when the generator is materialised first: list(iter_rewritten(...)) *)
Fixpoint validate_all (fs : fsys) (items : list (list N * list cpat)) : files_res * list eff * list (list N * list N) :=
  match items with
  | [] => (FilesOk, [], [])
  | it :: t =>
      match rewritten_one fs it with
      | (FilesOk, e, Some nc) =>
          let '(r, e', ws) := validate_all fs t in (r, e ++ e', (fst it, nc) :: ws)
      | (r, e, _) => (r, e, [])
      end
  end.
Definition rewrite_files_eager (fs : fsys) (items : list (list N * list cpat)) : files_res * list eff :=
  match validate_all fs items with
  | (FilesOk, e, ws) => (FilesOk, e ++ map (fun '(p, c) => EWrite p c) ws)
  | (r, e, _) => (r, e)
  end.

(* rewrite_files consuming the lazy generator: file k is written before file k+1 is validated *)
Fixpoint rewrite_files_lazy (fs : fsys) (items : list (list N * list cpat)) : files_res * list eff :=
  match items with
  | [] => (FilesOk, [])
  | it :: t =>
      match rewritten_one fs it with
      | (FilesOk, e, Some nc) => let '(r, e') := rewrite_files_lazy fs t in (r, e ++ [EWrite (fst it) nc] ++ e')
      | (r, e, _) => (r, e)
      end
  end.

Definition writes (es : list eff) : list (list N * list N) :=
  flat_map (fun e => match e with EWrite p c => [(p, c)] | _ => [] end) es.

(* ------------------------------------------------------------------ instantiation with the v2 compiler *)
Definition search_of (r : option re) (line : list N) : option (nat * nat) :=
  match r with
  | Some rx => match search_span rx line with Some (a, b, _) => Some (a, b) | None => None end
  | None => None
  end.
(* config._compile_v2_file_patterns + the replacement computed by v2rewrite.rewrite_lines.
   None = re.error / format exception *)
Definition v2_cpat (version_pattern raw_pattern : list N) (new_vinfo : vinfo) : option cpat :=
  let norm := normalize_pattern version_pattern raw_pattern in
  match compile_pattern_re norm, format_version new_vinfo norm with
  | Some rx, Some repl => Some (mkcpat norm (search_of (Some rx)) repl)
  | _, _ => None
  end.
Fixpoint v2_cpats (vp : list N) (raws : list (list N)) (nv : vinfo) : option (list cpat) :=
  match raws with
  | [] => Some []
  | r :: t => match v2_cpat vp r nv, v2_cpats vp t nv with
              | Some c, Some l => Some (c :: l)
              | _, _ => None
              end
  end.

Inductive rfd_obs := ObsOk (sep : list N) (new_lines : list (list N)) | ObsGreedy | ObsInvalid | ObsCrash.
Definition v2_rfd (vp : list N) (raws : list (list N)) (nv : vinfo) (content : list N) : rfd_obs :=
  match v2_cpats vp raws nv with
  | None => ObsCrash
  | Some pats => match rfd_from_content pats content with
                 | (sep, _, RwOk nl) => ObsOk sep nl
                 | (_, _, RwGreedy) => ObsGreedy
                 | (_, _, RwInvalid) => ObsInvalid
                 end
  end.
Fixpoint eqb_lines (a b : list (list N)) : bool :=
  match a, b with
  | [], [] => true
  | x :: a', y :: b' => eqb_str x y && eqb_lines a' b'
  | _, _ => false
  end.
Definition eqb_rfd_obs (a b : rfd_obs) : bool :=
  match a, b with
  | ObsOk s l, ObsOk s' l' => eqb_str s s' && eqb_lines l l'
  | ObsGreedy, ObsGreedy | ObsInvalid, ObsInvalid | ObsCrash, ObsCrash => true
  | _, _ => false
  end.

(* ------------------------------------------------------------------ v2rewrite.diff (the --dry path) *)
(* sorted(iter_path_patterns_items(...)) consumes the generator first: every file must exist before
   any is read; then each file is read and passed to the same rfd_from_content.  [changed p] says
   whether old and new version render differently through pattern p (patterns_with_change). *)
Fixpoint all_exist (fs : fsys) (items : list (list N * list cpat)) : bool :=
  match items with
  | [] => true
  | (p, _) :: t => match fs p with Some _ => all_exist fs t | None => false end
  end.
Fixpoint diff_each (fs : fsys) (changed : cpat -> bool) (items : list (list N * list cpat)) : files_res * list (list N * list N) :=
  match items with
  | [] => (FilesOk, [])
  | (path, pats) :: t =>
      match fs path with
      | None => (FilesIOError, [])
      | Some content =>
          match new_content pats content with
          | None => (FilesNoMatch, [])
          | Some nc =>
              (* "no diff lines although a pattern renders differently" is an error of the dry path only *)
              if eqb_str nc content && existsb changed pats then (FilesNoMatch, [])
              else let '(r, l) := diff_each fs changed t in (r, (path, nc) :: l)
          end
      end
  end.
Definition diff_files (fs : fsys) (changed : cpat -> bool) (sorted_items : list (list N * list cpat)) : files_res * list (list N * list N) :=
  if all_exist fs sorted_items then diff_each fs changed sorted_items else (FilesIOError, []).
