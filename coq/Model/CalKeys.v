(* Calendar keys: which calendar fields a pattern shows, in pattern order, and how two such keys compare. *)
From Coq Require Import ZArith List Bool.
From BV Require Import Lib.Calendar.
Import ListNotations.
Local Open Scope Z_scope.

Inductive cfield := FY | FG | FQ | FM | FD | FJ | FW | FU | FV.

Definition cget (f : cfield) (c : cal) : Z :=
  match f with
  | FY => year_y c | FG => year_g c | FQ => quarter c | FM => month c | FD => dom c
  | FJ => doy c | FW => week_w c | FU => week_u c | FV => week_v c
  end.
Definition key (fs : list cfield) (c : cal) : list Z := map (fun f => cget f c) fs.

(* Python list/tuple comparison of equal-length integer lists *)
Fixpoint lex_le (a b : list Z) : bool :=
  match a, b with
  | [], _ => true
  | _ :: _, [] => false
  | x :: a', y :: b' => (x <? y) || ((x =? y) && lex_le a' b')
  end.
Fixpoint lex_lt (a b : list Z) : bool :=
  match a, b with
  | _, [] => false
  | [], _ :: _ => true
  | x :: a', y :: b' => (x <? y) || ((x =? y) && lex_lt a' b')
  end.

(* The coherent pairings of the README: calendar year with quarter / month / day / day of year /
   Monday- or Sunday-based week; ISO year with ISO week.  (Padded and unpadded spellings have the
   same numeric key.) *)
Definition coherent_keys : list (list cfield) :=
  [ [FY]; [FY; FQ]; [FY; FM]; [FY; FM; FD]; [FY; FQ; FM]; [FY; FQ; FM; FD]; [FY; FJ];
    [FY; FW]; [FY; FU]; [FG]; [FG; FV];
    [FY; FM; FD; FJ]; [FY; FW; FU]; [FY; FQ; FW]; [FY; FQ; FU]; [FY; FM; FW]; [FY; FM; FU] ].

(* the pairings is_valid_week_pattern rejects *)
Definition rejected_keys : list (list cfield) := [ [FY; FV]; [FG; FW]; [FG; FU] ].

(* two-digit year parts YY/0Y/GG/0G show int(str(year)[-2:]) *)
Definition cget2 (f : cfield) (c : cal) : Z :=
  match f with FY => year_y c mod 100 | FG => year_g c mod 100 | _ => cget f c end.
Definition key2 (fs : list cfield) (c : cal) : list Z := map (fun f => cget2 f c) fs.

Definition shift400 (c : cal) : cal :=
  mkcal (year_y c + 400) (year_g c + 400) (quarter c) (month c) (dom c) (doy c) (week_w c) (week_u c) (week_v c).

Definition ORD_2001_01_01 : Z := 730485.
Definition ORD_2099_12_31 : Z := 766643.
Definition ORD_1000_01_01 : Z := 364877.

(* field ranges every date satisfies *)
Definition cal_in_range (c : cal) : bool :=
  (1 <=? quarter c) && (quarter c <=? 4) && (1 <=? month c) && (month c <=? 12) &&
  (1 <=? dom c) && (dom c <=? 31) && (1 <=? doy c) && (doy c <=? 366) &&
  (0 <=? week_w c) && (week_w c <=? 53) && (0 <=? week_u c) && (week_u c <=? 53) &&
  (1 <=? week_v c) && (week_v c <=? 53) &&
  (year_y c - 1 <=? year_g c) && (year_g c <=? year_y c + 1) &&
  (quarter c =? quarter_from_month (month c)).
