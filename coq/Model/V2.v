(* String-level model of bumpver's v2 engine: v2patterns (compile, normalize, pep440 pattern) and
   v2version (parse, format, incr).  Mirrors the Python line by line, including substring-driven
   tokenisation, dict iteration order and truthiness.  Tables come from Gen/Tables.v (T1). *)
From Coq Require Import List Bool NArith ZArith Arith.
From BV Require Import Lib.PyStr Lib.Decimal Lib.Types Lib.Regex Lib.RegexParse Lib.Calendar Model.Lexid Gen.Tables.
Import ListNotations.
Local Open Scope N_scope.

(* ------------------------------------------------------------------ small helpers *)
Fixpoint assoc {A} (k : str) (l : list (list N * A)) : option A :=
  match l with
  | [] => None
  | (k', v) :: t => if eqb_str k k' then Some v else assoc k t
  end.
Definition has_key {A} (k : str) (l : list (list N * A)) : bool :=
  match assoc k l with Some _ => true | None => false end.

(* stable sort by decreasing length (sorted(..., key=lambda x: -len(x))) *)
Fixpoint insert_by_len {A} (len : A -> nat) (x : A) (l : list A) : list A :=
  match l with
  | [] => [x]
  | y :: t => if Nat.ltb (len y) (len x) then x :: l else y :: insert_by_len len x t
  end.
Definition sort_by_len_desc {A} (len : A -> nat) (l : list A) : list A :=
  fold_left (fun acc x => insert_by_len len x acc) l [].

Definition S_ (l : list N) : str := l.
Definition zdec (z : Z) : str := dec (Z.to_N z).
Definition zundec (s : str) : Z := Z.of_N (undec s).

(* ------------------------------------------------------------------ version.V2VersionInfo *)
Record vinfo := mkv {
  v_year_y : option Z; v_year_g : option Z; v_quarter : option Z; v_month : option Z; v_dom : option Z;
  v_doy : option Z; v_week_w : option Z; v_week_u : option Z; v_week_v : option Z;
  v_major : Z; v_minor : Z; v_patch : Z; v_bid : list N; v_tag : list N; v_pytag : list N;
  v_githash : list N; v_hexhash : list N; v_num : Z; v_inc0 : Z; v_inc1 : Z }.

Inductive fval := FInt (z : Z) | FStr (s : list N).

Definition n_year_y := [121;101;97;114;95;121].
Definition n_year_g := [121;101;97;114;95;103].
Definition n_quarter := [113;117;97;114;116;101;114].
Definition n_month := [109;111;110;116;104].
Definition n_dom := [100;111;109].
Definition n_doy := [100;111;121].
Definition n_week_w := [119;101;101;107;95;119].
Definition n_week_u := [119;101;101;107;95;117].
Definition n_week_v := [119;101;101;107;95;118].
Definition n_major := [109;97;106;111;114].
Definition n_minor := [109;105;110;111;114].
Definition n_patch := [112;97;116;99;104].
Definition n_bid := [98;105;100].
Definition n_tag := [116;97;103].
Definition n_pytag := [112;121;116;97;103].
Definition n_githash := [103;105;116;104;97;115;104].
Definition n_hexhash := [104;101;120;104;97;115;104].
Definition n_num := [110;117;109].
Definition n_inc0 := [105;110;99;48].
Definition n_inc1 := [105;110;99;49].
Definition s_final := [102;105;110;97;108].

Definition oint (o : option Z) : option fval := match o with Some z => Some (FInt z) | None => None end.

(* vinfo._asdict()[field]: outer None = KeyError, inner None = the value None *)
Definition get_field (v : vinfo) (f : str) : option (option fval) :=
  if eqb_str f n_year_y then Some (oint (v_year_y v)) else
  if eqb_str f n_year_g then Some (oint (v_year_g v)) else
  if eqb_str f n_quarter then Some (oint (v_quarter v)) else
  if eqb_str f n_month then Some (oint (v_month v)) else
  if eqb_str f n_dom then Some (oint (v_dom v)) else
  if eqb_str f n_doy then Some (oint (v_doy v)) else
  if eqb_str f n_week_w then Some (oint (v_week_w v)) else
  if eqb_str f n_week_u then Some (oint (v_week_u v)) else
  if eqb_str f n_week_v then Some (oint (v_week_v v)) else
  if eqb_str f n_major then Some (Some (FInt (v_major v))) else
  if eqb_str f n_minor then Some (Some (FInt (v_minor v))) else
  if eqb_str f n_patch then Some (Some (FInt (v_patch v))) else
  if eqb_str f n_bid then Some (Some (FStr (v_bid v))) else
  if eqb_str f n_tag then Some (Some (FStr (v_tag v))) else
  if eqb_str f n_pytag then Some (Some (FStr (v_pytag v))) else
  if eqb_str f n_githash then Some (Some (FStr (v_githash v))) else
  if eqb_str f n_hexhash then Some (Some (FStr (v_hexhash v))) else
  if eqb_str f n_num then Some (Some (FInt (v_num v))) else
  if eqb_str f n_inc0 then Some (Some (FInt (v_inc0 v))) else
  if eqb_str f n_inc1 then Some (Some (FInt (v_inc1 v))) else None.

Definition eqb_fval (a b : option (option fval)) : bool :=
  match a, b with
  | Some (Some (FInt x)), Some (Some (FInt y)) => Z.eqb x y
  | Some (Some (FStr x)), Some (Some (FStr y)) => eqb_str x y
  | Some None, Some None => true
  | None, None => true
  | _, _ => false
  end.

Definition set_int_field (v : vinfo) (f : str) (z : Z) : vinfo :=
  let '(mkv a b c d e g h i j ma mi pa bid tag pytag gh hh num i0 i1) := v in
  if eqb_str f n_major then mkv a b c d e g h i j z mi pa bid tag pytag gh hh num i0 i1 else
  if eqb_str f n_minor then mkv a b c d e g h i j ma z pa bid tag pytag gh hh num i0 i1 else
  if eqb_str f n_patch then mkv a b c d e g h i j ma mi z bid tag pytag gh hh num i0 i1 else
  if eqb_str f n_num then mkv a b c d e g h i j ma mi pa bid tag pytag gh hh z i0 i1 else
  if eqb_str f n_inc0 then mkv a b c d e g h i j ma mi pa bid tag pytag gh hh num z i1 else
  if eqb_str f n_inc1 then mkv a b c d e g h i j ma mi pa bid tag pytag gh hh num i0 z else v.

Definition set_cal (v : vinfo) (c : list (option Z)) : vinfo :=
  match c with
  | [a; b; c'; d; e; g; h; i; j] =>
      mkv a b c' d e g h i j (v_major v) (v_minor v) (v_patch v) (v_bid v) (v_tag v) (v_pytag v)
          (v_githash v) (v_hexhash v) (v_num v) (v_inc0 v) (v_inc1 v)
  | _ => v
  end.
Definition cal_list (v : vinfo) : list (option Z) :=
  [v_year_y v; v_year_g v; v_quarter v; v_month v; v_dom v; v_doy v; v_week_w v; v_week_u v; v_week_v v].
Definition cal_some (c : cal) : list (option Z) := map Some (cal_fields c).

(* ------------------------------------------------------------------ v2patterns: formatting of parts *)
Definition fval_str (x : fval) : str := match x with FInt z => zdec z | FStr s => s end.      (* str(x) *)
Definition fval_int (x : fval) : N := match x with FInt z => Z.to_N z | FStr s => undec s end. (* int(x) *)

Definition apply_fmt (k : fmt_kind) (x : fval) : str :=
  match k with
  | FmtStr => fval_str x
  | FmtInt => dec (fval_int x)
  | FmtLast2 => dec (undec (lastn 2 (fval_str x)))
  | FmtLast2Pad => pad 2 (undec (lastn 2 (fval_str x)))
  | FmtPad w => pad w (fval_int x)
  end.

(* v2version._format_part_values; None = KeyError *)
Fixpoint part_values_go (v : vinfo) (l : list (list N * list N)) : option (list (list N * list N)) :=
  match l with
  | [] => Some []
  | (part, field) :: t =>
      match get_field v field, assoc part PART_FORMATS, part_values_go v t with
      | Some (Some x), Some k, Some r => Some ((part, apply_fmt k x) :: r)
      | Some None, _, Some r => Some r
      | _, _, _ => None
      end
  end.
Definition format_part_values (v : vinfo) : option (list (list N * list N)) :=
  match part_values_go v PATTERN_PART_FIELDS with
  | Some l => Some (sort_by_len_desc (fun x => length (fst x)) l)
  | None => None
  end.

(* ------------------------------------------------------------------ v2version: segment tree *)
Inductive seg := SStr (s : list N) | STree (l : list seg).

Definition flush (cur : str) : list seg := match cur with [] => [] | _ => [SStr (rev cur)] end.

(* items up to the closing unescaped ']' ; None = unclosed *)
Fixpoint seg_items (fuel : nat) (s : str) (prev : N) (cur : str) : option (list seg * list N) :=
  match fuel with
  | O => None
  | S f =>
      match s with
      | [] => None
      | c :: t =>
          let esc := prev =? 92 in
          if (c =? 91) && negb esc then
            match seg_items f t c [] with
            | Some (sub, rest) =>
                match seg_items f rest 93 [] with
                | Some (more, rest') => Some (flush cur ++ STree sub :: more, rest')
                | None => None
                end
            | None => None
            end
          else if (c =? 93) && negb esc then Some (flush cur, t)
          else seg_items f t c (c :: cur)
      end
  end.

(* v2version._parse_segtree; None = ValueError (unbalanced / unclosed) *)
Definition parse_segtree (raw : str) : option (list seg) :=
  match seg_items (length raw + 3) (raw ++ [93]) 91 [] with
  | Some (items, []) => Some items
  | _ => None
  end.

Definition is_zero_val (part value : str) : bool :=
  match assoc part PART_ZERO_VALUES with Some z => eqb_str value z | None => false end.

(* v2version._format_segment: (is_literal, is_zero, result) *)
Definition format_segment (pv : list (list N * list N)) (sg : str) : bool * bool * list N :=
  let used := filter (fun '(p, _) => str_in p sg) pv in
  let zero_count := length (filter (fun '(p, v) => is_zero_val p v) used) in
  let r0 := sreplace [94] [] sg in
  let r1 := sreplace [36] [] r0 in
  let r2 := sreplace [92; 91] [91] r1 in
  let r3 := sreplace [92; 93] [93] r2 in
  let res := fold_left (fun acc '(p, v) => sreplace p v acc) used r3 in
  match used with
  | [] => (true, false, res)
  | _ => if Nat.ltb 0 zero_count && Nat.eqb zero_count (length used) then (false, true, res) else (false, false, res)
  end.

(* v2version._format_segment_tree *)
Fixpoint fmt_seg (pv : list (list N * list N)) (x : seg) : bool * bool * list N :=
  match x with
  | SStr s => format_segment pv s
  | STree l =>
      let '(z, parts) :=
        (fix go (l : list seg) : bool * list N :=
           match l with
           | [] => (true, [])
           | y :: r =>
               let '(lit_, zy, ry) := fmt_seg pv y in
               let '(zr, rr) := go r in
               ((if lit_ then true else zy) && zr, ry ++ rr)
           end) l in
      (false, z, if z then [] else parts)
  end.

(* v2version.format_version; None = exception (KeyError / ValueError) *)
Definition format_version (v : vinfo) (raw : str) : option str :=
  match format_part_values v, parse_segtree raw with
  (* the root is not an optional group: its parts are always joined (is_optional=False) *)
  | Some pv, Some items => Some (concat (map (fun y => snd (fmt_seg pv y)) items))
  | _, _ => None
  end.

(* ------------------------------------------------------------------ v2patterns: compiler *)
(* character-wise escaping over the generated RE_PATTERN_ESCAPES; [ ] \ are left alone *)
Definition escape_pattern (p : str) : str :=
  fold_left (fun acc '(c, e) => if str_in c [91; 93; 92] then acc else sreplace c e acc) RE_PATTERN_ESCAPES p.

(* fixpoint of  re.subn(r"([^\\]|^)\[", r"\1(?:")  and  re.subn(r"([^\\]|^)\]", r"\1)?"):
   every bracket whose predecessor is not a backslash is rewritten *)
Fixpoint brackets_go (s : str) (prev : N) : str :=
  match s with
  | [] => []
  | c :: t =>
      if (c =? 91) && negb (prev =? 92) then [40; 63; 58] ++ brackets_go t 58
      else if (c =? 93) && negb (prev =? 92) then [41; 63] ++ brackets_go t 63
      else c :: brackets_go t c
  end.
Definition replace_brackets (p : str) : str := brackets_go p 0.

(* all non-overlapping occurrences of [name] in [pat], scanning from [from] *)
Fixpoint occurrences (fuel : nat) (name pat : str) (from : nat) : list nat :=
  match fuel with
  | O => []
  | S f => match find_from name pat from with
           | Some i => i :: occurrences f name pat (i + length name)
           | None => []
           end
  end.

Definition mem_str (x : str) (l : list (list N)) : bool := existsb (eqb_str x) l.

(* v2patterns._iter_part_patterns: (start, end, name_len, named_part_pattern), threading used_fields *)
Definition iter_part_patterns (pat : str) : list (nat * nat * nat * list N) :=
  fst (fold_left
    (fun '(acc, used) '(name, ppat) =>
       fold_left
         (fun '(acc, used) start =>
            match assoc name PATTERN_PART_FIELDS with
            | None => (acc, used)   (* KeyError in Python; the generated tables make this unreachable *)
            | Some field =>
                (* after fix 8892fa5 the suffix is the number of parts yielded so far (unique per occurrence) *)
                let gname := if mem_str field used then field ++ [95] ++ dec (N.of_nat (length acc)) else field in
                let named := [40; 63; 80; 60] ++ gname ++ [62] ++ ppat ++ [41] in
                let used' := if mem_str field used then used else field :: used in
                (acc ++ [(start, (start + length name)%nat, length name, named)], used')
            end)
         (occurrences (S (length pat)) name pat 0) (acc, used))
    PART_PATTERNS ([], [])).

(* sorted by (-end, -len) *)
Definition pp_before (a b : nat * nat * nat * list N) : bool :=
  let '(_, ea, la, _) := a in let '(_, eb, lb, _) := b in
  Nat.ltb eb ea || (Nat.eqb ea eb && Nat.ltb lb la).
Fixpoint pp_insert (x : nat * nat * nat * list N) (l : list (nat * nat * nat * list N)) :=
  match l with
  | [] => [x]
  | y :: t => if pp_before x y then x :: l else y :: pp_insert x t
  end.
(* dict(...) keeps the last item for a repeated key *)
Definition pp_same_key (a b : nat * nat * nat * list N) : bool :=
  let '(_, ea, la, _) := a in let '(_, eb, lb, _) := b in Nat.eqb ea eb && Nat.eqb la lb.
Definition pp_dict (l : list (nat * nat * nat * list N)) : list (nat * nat * nat * list N) :=
  fold_left (fun acc x => if existsb (pp_same_key x) acc
                          then map (fun y => if pp_same_key x y then x else y) acc else acc ++ [x]) l [].

Definition replace_pattern_parts (p : str) : str :=
  let pat := replace_brackets p in
  let items := fold_left (fun acc x => pp_insert x acc) (pp_dict (iter_part_patterns pat)) [] in
  fst (fold_left
    (fun '(res, last_start) '(st, en, _, named) =>
       if Nat.leb en last_start then (firstn st res ++ named ++ skipn en res, st) else (res, last_start))
    items (pat, S (length pat))).

(* the text of the regular expression v2patterns._compile_pattern_re compiles *)
Definition compile_pattern_str (normalized : str) : str := replace_pattern_parts (escape_pattern normalized).

Fixpoint has_dup (l : list (list N)) : bool :=
  match l with [] => false | x :: t => mem_str x t || has_dup t end.

(* None = re.error (or syntax outside the modelled subset) *)
Definition compile_pattern_re (normalized : str) : option re :=
  match parse_re (compile_pattern_str normalized) with
  | Some r => if has_dup (group_names r) then None else Some r
  | None => None
  end.

(* ------------------------------------------------------------------ v2patterns: {version} / {pep440_version} *)
Definition s_version_ph := [123;118;101;114;115;105;111;110;125].                                   (* {version} *)
Definition s_pep440_ph := [123;112;101;112;52;52;48;95;118;101;114;115;105;111;110;125].           (* {pep440_version} *)
Definition s_TAG := [84;65;71].
Definition s_PYTAG := [80;89;84;65;71].
Definition s_NUM := [78;85;77].
Definition s_PYTAGNUM := s_PYTAG ++ s_NUM.

Definition pep440_keep (c : N) : bool :=
  is_lower c || is_upper c || is_digit c || (c =? 46) || (c =? 33) || (c =? 91) || (c =? 93).

Definition convert_to_pep440 (version_pattern : str) : str :=
  let p0 := match version_pattern with 118 :: t => t | _ => version_pattern end in
  let p1 := sreplace [92; 91] [] p0 in
  let p2 := sreplace [92; 93] [] p1 in
  let p3 := filter pep440_keep p2 in
  let names := sort_by_len_desc (fun x => length x) (map fst PATTERN_PART_FIELDS) in
  let p4 := fold_left
    (fun pp name =>
       if negb (str_in name version_pattern) then pp else
       match assoc name PEP440_PART_SUBSTITUTIONS with
       | None => pp
       | Some sub =>
           if str_in sub pp then pp else
           if negb (eqb_str name s_TAG || eqb_str name s_PYTAG) then
             match sfind name pp with
             | Some O => sreplace name sub pp
             | Some (S i) => if N.eqb (nth i pp 0) 46 then sreplace name sub pp else pp
             | None =>
                 (* find() == -1: pep440_pattern[-2] is inspected *)
                 if N.eqb (nth (length pp - 2) pp 0) 46 && Nat.leb 2 (length pp) then sreplace name sub pp else pp
             end
           else sreplace name sub pp
       end) names p3 in
  if str_in s_PYTAGNUM p4 then p4 else
    let q1 := sreplace s_PYTAG [] p4 in
    let q2 := sreplace s_NUM [] q1 in
    let q3 := sreplace [91; 93] [] q2 in
    q3 ++ [91] ++ s_PYTAGNUM ++ [93].

Definition normalize_pattern (version_pattern raw_pattern : str) : str :=
  let n1 := if str_in s_version_ph raw_pattern then sreplace s_version_ph version_pattern raw_pattern else raw_pattern in
  if str_in s_pep440_ph n1 then sreplace s_pep440_ph (convert_to_pep440 version_pattern) n1 else n1.

(* ------------------------------------------------------------------ v2version: reading a version *)
Inductive pres (A : Type) :=
| POk (a : A)
| PErr            (* version.PatternError *)
| PValueErr       (* ValueError (impossible calendar date) *)
| PCrash.         (* any other exception: TypeError, KeyError, re.error, OverflowError, ... *)
Arguments POk {A} a.
Arguments PErr {A}.
Arguments PValueErr {A}.
Arguments PCrash {A}.

Definition fvals := list (list N * option (list N)).
Definition fv_in (k : str) (fv : fvals) : bool := has_key k fv.
(* int(fvals[k]) if k in fvals else None ; outer None = TypeError (int(None)) *)
Definition fv_int (k : str) (fv : fvals) : option (option Z) :=
  match assoc k fv with
  | None => Some None
  | Some None => None
  | Some (Some s) => Some (Some (zundec s))
  end.
Definition truthy (o : option Z) : bool := match o with Some z => negb (Z.eqb z 0) | None => false end.

Definition cinfo_of_ord (n : Z) : list (option Z) := cal_some (cal_of n).

Definition bind {A B} (x : pres A) (f : A -> pres B) : pres B :=
  match x with POk a => f a | PErr => PErr | PValueErr => PValueErr | PCrash => PCrash end.

Definition fix2000 (o : option Z) : option Z :=
  match o with Some y => if (y <? 1000)%Z then Some (y + 2000)%Z else Some y | None => None end.
Definition is_some {A} (o : option A) : bool := match o with Some _ => true | None => false end.

(* v2version.parse_field_values_to_cinfo *)
Definition parse_cinfo (today : Z) (fv : fvals) : pres (list (option Z)) :=
  match fv_int n_year_y fv, fv_int n_year_g fv, fv_int n_month fv, fv_int n_doy fv, fv_int n_dom fv,
        fv_int n_week_w fv, fv_int n_week_u fv, fv_int n_week_v fv, fv_int n_quarter fv with
  | Some yy0, Some yg0, Some mo0, Some doy0, Some dom0, Some ww, Some wu, Some wv, Some q0 =>
      let yy := fix2000 yy0 in
      let yg := fix2000 yg0 in
      (* if year_y and doy: date = date_from_doy(year_y, doy); month, dom = date.month, date.day *)
      bind (if truthy yy && truthy doy0 then
              match yy, doy0 with
              | Some y, Some j =>
                  match ord_from_doy y j with
                  | Some n => let c := cal_of n in POk (Some n, Some (month c), Some (dom c))
                  | None => PValueErr
                  end
              | _, _ => PCrash
              end
            else POk (None, mo0, dom0))
      (fun '(date1, mo, dm) =>
      (* if year_y and month and dom: date = dt.date(year_y, month, dom) *)
      bind (if truthy yy && truthy mo && truthy dm then
              match yy, mo, dm with
              | Some y, Some m, Some d => match ord_of_ymd y m d with Some n => POk (Some n) | None => PValueErr end
              | _, _, _ => PCrash
              end
            else POk date1)
      (fun date2 =>
      let anyv := is_some date2 || truthy yy || truthy yg || truthy mo || truthy dm || truthy doy0
                  || truthy ww || truthy wu || truthy wv in
      let date3 := if anyv then date2 else Some today in
      let fields := match date3 with
                    | Some n => let c := cal_of n in
                                [Some (year_y c); Some (year_g c); None; Some (month c); Some (dom c); Some (doy c);
                                 Some (week_w c); Some (week_u c); Some (week_v c)]
                    | None => [yy; yg; None; mo; dm; doy0; ww; wu; wv]
                    end in
      let mo' := nth 3 fields None in
      let q := match q0 with
               | Some q => Some q
               | None => if truthy mo' then match mo' with Some m => Some (quarter_from_month m) | None => None end else None
               end in
      POk (match fields with a :: b :: _ :: r => a :: b :: q :: r | l => l end)))
  | _, _, _, _, _, _, _, _, _ => PCrash
  end.

(* fvals.get(k) or "" *)
Definition fv_str_or_empty (k : str) (fv : fvals) : str :=
  match assoc k fv with Some (Some s) => s | _ => [] end.
(* int(fvals.get(k) or d) *)
Definition fv_int_or (k : str) (d : Z) (fv : fvals) : Z :=
  match assoc k fv with Some (Some (c :: t)) => zundec (c :: t) | _ => d end.

(* v2version.parse_field_values_to_vinfo *)
Definition parse_vinfo (today : Z) (fv : fvals) : pres vinfo :=
  bind (parse_cinfo today fv) (fun c =>
  let tag0 := fv_str_or_empty n_tag fv in
  let pytag0 := fv_str_or_empty n_pytag fv in
  let githash := fv_str_or_empty n_githash fv in
  let hexhash := fv_str_or_empty n_hexhash fv in
  let nonempty (s : str) := match s with [] => false | _ => true end in
  bind (if nonempty tag0 && negb (nonempty pytag0) then
          match assoc tag0 PEP440_TAG_BY_TAG with Some p => POk (tag0, p) | None => PCrash end
        else if nonempty pytag0 && negb (nonempty tag0) then
          match assoc pytag0 TAG_BY_PEP440_TAG with Some t => POk (t, pytag0) | None => PCrash end
        else POk (tag0, pytag0))
  (fun '(tag1, pytag) =>
  let tag := if nonempty tag1 then tag1 else s_final in
  (* bid = fvals['bid'] if 'bid' in fvals else "1000" : a non-participating group gives None *)
  bind (match assoc n_bid fv with
        | None => POk [49; 48; 48; 48]
        | Some (Some b) => POk b
        | Some None => PCrash
        end)
  (fun bid =>
  POk (set_cal (mkv None None None None None None None None None
                    (fv_int_or n_major 0 fv) (fv_int_or n_minor 0 fv) (fv_int_or n_patch 0 fv)
                    bid tag pytag githash hexhash (fv_int_or n_num 0 fv) (fv_int_or n_inc0 0 fv) (fv_int_or n_inc1 1 fv)) c)))).

(* v2version.parse_version_info *)
Definition parse_version_info (today : Z) (version_str raw_pattern : str) : pres vinfo :=
  match compile_pattern_re (normalize_pattern raw_pattern raw_pattern) with
  | None => PCrash
  | Some r =>
      match re_match r version_str with
      | None => PErr
      | Some (e, rest) =>
          match rest with
          | _ :: _ => PErr                       (* incomplete match *)
          | [] => parse_vinfo today (groupdict r e)
          end
      end
  end.

(* v2version.is_valid (after fix a12c88a: ValueError is caught too); None = exception escapes *)
Definition is_valid (today : Z) (version_str raw_pattern : str) : option bool :=
  match parse_version_info today version_str raw_pattern with
  | POk _ => Some true
  | PErr | PValueErr => Some false
  | PCrash => None
  end.

(* ------------------------------------------------------------------ v2version: incr *)
Definition any_in (parts : list (list N)) (s : str) : bool := existsb (fun p => str_in p s) parts.
Definition is_valid_week_pattern (raw : str) : bool :=
  let yy := any_in [[89;89;89;89]; [89;89]; [48;89]] raw in
  let ww := any_in [[87;87]; [48;87]; [85;85]; [48;85]] raw in
  let gg := any_in [[71;71;71;71]; [71;71]; [48;71]] raw in
  let vv := any_in [[86;86]; [48;86]] raw in
  if yy && vv then false else if gg && ww then false else true.

(* _is_cal_gt: compare the fields that are not None on both sides, as Python lists *)
Fixpoint cal_pairs (l r : list (option Z)) : list Z * list Z :=
  match l, r with
  | Some a :: l', Some b :: r' => let '(x, y) := cal_pairs l' r' in (a :: x, b :: y)
  | _ :: l', _ :: r' => cal_pairs l' r'
  | _, _ => ([], [])
  end.
Fixpoint zlist_lt (a b : list Z) : bool :=
  match a, b with
  | _, [] => false
  | [], _ :: _ => true
  | x :: a', y :: b' => (x <? y)%Z || ((x =? y)%Z && zlist_lt a' b')
  end.
Definition is_cal_gt (l r : list (option Z)) : bool := let '(x, y) := cal_pairs l r in zlist_lt y x.

(* _ver_to_cal_info (after fix bb2e945: `is None`, not truthiness) *)
Definition ver_to_cal_info (today : Z) (v : vinfo) : list (option Z) :=
  map (fun '(a, d) => match a with Some x => Some x | None => d end) (combine (cal_list v) (cinfo_of_ord today)).

(* _iter_flat_segtree *)
Fixpoint flat_seg (x : seg) : list (list N) :=
  match x with
  | SStr s => [s]
  | STree l => (fix go (l : list seg) : list (list N) := match l with [] => [] | y :: r => flat_seg y ++ go r end) l
  end.

(* _parse_pattern_fields: fields_by_index[(segment_index, part_index)] = field ; sorted by index *)
Definition idx_before (a b : nat * nat) : bool :=
  Nat.ltb (fst a) (fst b) || (Nat.eqb (fst a) (fst b) && Nat.ltb (snd a) (snd b)).
Fixpoint idx_put (k : nat * nat) (f : str) (l : list (nat * nat * list N)) : list (nat * nat * list N) :=
  match l with
  | [] => [(k, f)]
  | (k', f') :: t =>
      if Nat.eqb (fst k) (fst k') && Nat.eqb (snd k) (snd k') then (k, f) :: t
      else if idx_before k k' then (k, f) :: l else (k', f') :: idx_put k f t
  end.
Definition parse_pattern_fields (raw : str) : option (list (list N)) :=
  match parse_segtree raw with
  | None => None
  | Some items =>
      let parts := sort_by_len_desc (fun x => length (fst x)) PATTERN_PART_FIELDS in
      let segs := flat_seg (STree items) in
      let tbl := fst (fold_left
        (fun '(acc, si) sg =>
           (fold_left (fun acc '(part, field) =>
                         match sfind part sg with Some pi => idx_put (si, pi) field acc | None => acc end) parts acc,
            S si)) segs ([], O)) in
      Some (map snd tbl)
  end.

(* _iter_reset_field_items *)
Fixpoint reset_items (fields : list (list N)) (old cur : vinfo) (has_reset : bool) : list (list N * list N) :=
  match fields with
  | [] => []
  | f :: t =>
      match assoc f V2_FIELD_INITIAL_VALUES with
      | Some init => if has_reset then (f, init) :: reset_items t old cur true
                     else reset_items t old cur (negb (eqb_fval (get_field old f) (get_field cur f)))
      | None => reset_items t old cur (has_reset || negb (eqb_fval (get_field old f) (get_field cur f)))
      end
  end.

(* _reset_rollover_fields; None = exception *)
Definition reset_rollover_fields (raw : str) (old cur : vinfo) : option vinfo :=
  match parse_pattern_fields raw with
  | None => None
  | Some fields =>
      let rf := reset_items fields old cur false in
      (* cur_kwargs[field] = int(value) if value.isdigit() else value *)
      let c1 := fold_left (fun v '(f, value) => if isdigit value then set_int_field v f (zundec value) else v) rf cur in
      let c2 := if has_key n_major rf then set_int_field c1 n_major 0%Z else c1 in
      let c3 := if has_key n_minor rf then set_int_field c2 n_minor 0%Z else c2 in
      let c4 := if has_key n_patch rf then set_int_field c3 n_patch 0%Z else c3 in
      let c5 := if has_key n_inc0 rf then set_int_field c4 n_inc0 0%Z else c4 in
      let c6 := if has_key n_inc1 rf then set_int_field c5 n_inc1 1%Z else c5 in
      Some c6
  end.

Definition with_tag (v : vinfo) (tag pytag : str) : vinfo :=
  let '(mkv a b c d e g h i j ma mi pa bid _ _ gh hh num i0 i1) := v in
  mkv a b c d e g h i j ma mi pa bid tag pytag gh hh num i0 i1.
Definition with_bid (v : vinfo) (bid : str) : vinfo :=
  let '(mkv a b c d e g h i j ma mi pa _ tag pytag gh hh num i0 i1) := v in
  mkv a b c d e g h i j ma mi pa bid tag pytag gh hh num i0 i1.

Record flags := mkflags { f_major : bool; f_minor : bool; f_patch : bool; f_tag : option (list N);
                          f_tag_num : bool; f_pin_increments : bool; f_pin_date : bool }.

(* _incr_numeric; None = exception (KeyError on the tag table, OverflowError from lexid, ...) *)
Definition incr_numeric (raw : str) (old cur : vinfo) (fl : flags) : option vinfo :=
  let c1 := if f_major fl then set_int_field cur n_major (v_major cur + 1)%Z else cur in
  let c2 := if f_minor fl then set_int_field c1 n_minor (v_minor c1 + 1)%Z else c1 in
  let c3 := if f_patch fl then set_int_field c2 n_patch (v_patch c2 + 1)%Z else c2 in
  let c4 := if f_tag_num fl then set_int_field c3 n_num (v_num c3 + 1)%Z else c3 in
  let c5o := match f_tag fl with
             | Some (tc :: tl_) =>
                 let tag := tc :: tl_ in
                 let c := if negb (eqb_str tag (v_tag c4)) then set_int_field c4 n_num 0%Z else c4 in
                 match assoc tag PEP440_TAG_BY_TAG with
                 | Some pytag => Some (with_tag c tag pytag)
                 | None => None
                 end
             | _ => Some c4
             end in
  match c5o with
  | None => None
  | Some c5 =>
      let c6 := if f_pin_increments fl then c5
                else set_int_field (set_int_field c5 n_inc0 (v_inc0 c5 + 1)%Z) n_inc1 (v_inc1 c5 + 1)%Z in
      match bump_bid (v_bid c6) with
      | None => None
      | Some b => reset_rollover_fields raw old (with_bid c6 b)
      end
  end.

Inductive incr_res := INew (s : list N) | INone | ICrash.

(* v2version.incr.  [date] is maybe_date already defaulted to TODAY by the caller; [today] is version.TODAY *)
Definition incr (today : Z) (old_version raw : str) (fl : flags) (date : Z) : incr_res :=
  if negb (is_valid_week_pattern raw) then INone else
  match parse_version_info today old_version raw with
  | PErr => INone
  | PValueErr | PCrash => ICrash
  | POk old =>
      let cur_c := if f_pin_date fl then ver_to_cal_info today old else cinfo_of_ord date in
      let cur := if is_cal_gt (cal_list old) cur_c then old else set_cal old cur_c in
      (* has_tag_part = (tag or cur_vinfo.tag) != "final"   (after the fix for --tag final --tag-num) *)
      let eff_tag := match f_tag fl with Some (c :: t) => c :: t | _ => v_tag cur end in
      let has_tag_part := negb (eqb_str eff_tag s_final) in
      if f_tag_num fl && negb has_tag_part then INone else
      match incr_numeric raw old cur fl with
      | None => ICrash
      | Some nv =>
          match format_version nv raw with
          | None => ICrash
          | Some [] => INone
          | Some s => if eqb_str s old_version then INone else INew s
          end
      end
  end.

(* ------------------------------------------------------------------ comparison helpers for the correspondence check *)
Definition all_field_names : list (list N) :=
  [n_year_y; n_year_g; n_quarter; n_month; n_dom; n_doy; n_week_w; n_week_u; n_week_v; n_major; n_minor; n_patch;
   n_bid; n_tag; n_pytag; n_githash; n_hexhash; n_num; n_inc0; n_inc1].
Definition eqb_vinfo (a b : vinfo) : bool :=
  forallb (fun f => eqb_fval (get_field a f) (get_field b f)) all_field_names.
Definition eqb_pres_vinfo (a b : pres vinfo) : bool :=
  match a, b with
  | POk x, POk y => eqb_vinfo x y
  | PErr, PErr | PValueErr, PValueErr | PCrash, PCrash => true
  | _, _ => false
  end.
Definition eqb_incr_res (a b : incr_res) : bool :=
  match a, b with
  | INew x, INew y => eqb_str x y
  | INone, INone | ICrash, ICrash => true
  | _, _ => false
  end.
