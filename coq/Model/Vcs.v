(* vcs.py and the VCS part of cli.update: command construction (shlex + str.format), status
   parsing and the dirty rules, the ordered commit / hook / tag / push sequence with failures, the
   tag-scope rule for the current version. *)
From Coq Require Import List Bool NArith ZArith Arith.
From BV Require Import Lib.PyStr Lib.Decimal Lib.Regex Model.V2 Model.Pep440 Model.V1 Gen.Tables.
Import ListNotations.
Local Open Scope N_scope.

(* ------------------------------------------------------------------ shlex.split (POSIX mode, no comments) *)
Definition is_shl_ws (c : N) : bool := mem_chr c [32; 9; 13; 10].

(* state: 0 = between tokens, 1 = in a word, 2 = inside '..', 3 = inside "..".
   [tok] is the token so far (reversed).  None = ValueError (no closing quotation / no escaped character). *)
Fixpoint shlex_go (s : str) (st : N) (tok : str) : option (list (list N)) :=
  match s with
  | [] => if (st =? 0) then Some [] else if (st =? 1) then Some [rev tok] else None
  | c :: t =>
      if (st =? 2) then
        (if c =? 39 then shlex_go t 1 tok else shlex_go t 2 (c :: tok))
      else if (st =? 3) then
        (if c =? 34 then shlex_go t 1 tok
         else if c =? 92 then
           match t with
           | d :: t' => if (d =? 34) || (d =? 92) then shlex_go t' 3 (d :: tok) else shlex_go t' 3 (d :: c :: tok)
           | [] => None
           end
         else shlex_go t 3 (c :: tok))
      else
        if is_shl_ws c then
          (if st =? 1 then match shlex_go t 0 [] with Some r => Some (rev tok :: r) | None => None end
           else shlex_go t 0 [])
        else if c =? 39 then shlex_go t 2 tok
        else if c =? 34 then shlex_go t 3 tok
        else if c =? 92 then
          match t with
          | d :: t' => shlex_go t' 1 (d :: tok)
          | [] => None
          end
        else shlex_go t 1 (c :: tok)
  end.
Definition shlex_split (s : str) : option (list (list N)) := shlex_go s 0 [].

(* ------------------------------------------------------------------ VCSAPI.__call__ *)
Definition kwargs := list (list N * list N).
Definition fmt_kw (kw : kwargs) : list (list N * fmtval) := map (fun '(k, v) => (k, VStr v)) kw.

Fixpoint map_opt {A B} (f : A -> option B) (l : list A) : option (list B) :=
  match l with
  | [] => Some []
  | x :: t => match f x, map_opt f t with Some y, Some r => Some (y :: r) | _, _ => None end
  end.

(* the argv handed to subprocess; None = exception (KeyError / ValueError) before anything runs *)
Definition vcs_argv (tmpl : str) (kw : kwargs) : option (list (list N)) :=
  if VCS_SPLIT_BEFORE_FORMAT then
    match shlex_split tmpl with
    | Some parts => map_opt (fun p => str_format p (fmt_kw kw)) parts
    | None => None
    end
  else
    match str_format tmpl (fmt_kw kw) with
    | Some s => shlex_split s
    | None => None
    end.

Definition vcs_table (name : str) : list (list N * list N) :=
  if eqb_str name [103;105;116] then VCS_SUBCOMMANDS_GIT else VCS_SUBCOMMANDS_HG.
Definition vcs_cmd (name cmd : str) (kw : kwargs) : option (list (list N)) :=
  match assoc cmd (vcs_table name) with
  | Some tmpl => vcs_argv tmpl kw
  | None => None
  end.

(* cli._sub_msg_template: re.sub(r"\b(OLD|NEW)\b", r"{\1_VERSION}", message) *)
Definition is_word_chr (c : N) : bool := is_lower c || is_upper c || is_digit c || (c =? 95).
Definition word_at (w s : str) (prev_word : bool) : bool :=
  prefixb w s && negb prev_word && negb (match skipn (length w) s with d :: _ => is_word_chr d | [] => false end).
Fixpoint sub_msg_go (s : str) (prev_word : bool) (skip : nat) : list N :=
  match s with
  | [] => []
  | c :: t =>
      match skip with
      | S k => sub_msg_go t true k
      | O =>
          if word_at [79;76;68] s prev_word then [123;79;76;68;95;86;69;82;83;73;79;78;125] ++ sub_msg_go t true 2
          else if word_at [78;69;87] s prev_word then [123;78;69;87;95;86;69;82;83;73;79;78;125] ++ sub_msg_go t true 2
          else c :: sub_msg_go t (is_word_chr c) O
      end
  end.
Definition sub_msg_template (m : str) : list N := sub_msg_go m false O.

Definition n_new_version := [110;101;119;95;118;101;114;115;105;111;110].
Definition n_old_version := [111;108;100;95;118;101;114;115;105;111;110].
Definition n_NEW_VERSION := [78;69;87;95;86;69;82;83;73;79;78].
Definition n_OLD_VERSION := [79;76;68;95;86;69;82;83;73;79;78].
Definition n_new_pep := n_new_version ++ [95;112;101;112;52;52;48].
Definition n_old_pep := n_old_version ++ [95;112;101;112;52;52;48].

(* cli.update: the message templates rendered with tag_and_commit_message_kwargs; None = KeyError/ValueError *)
Definition render_message (tmpl old new : str) : option (list N) :=
  str_format tmpl (fmt_kw [(n_new_version, new); (n_old_version, old); (n_NEW_VERSION, new); (n_OLD_VERSION, old);
                           (n_new_pep, to_pep440 new); (n_old_pep, to_pep440 old)]).
(* --commit-message / --tag-message given on the command line go through _sub_msg_template first *)
Definition message_template (cfg_tmpl : str) (cli_tmpl : option (list N)) : list N :=
  match cli_tmpl with Some m => sub_msg_template m | None => cfg_tmpl end.

(* ------------------------------------------------------------------ VCSAPI.status and assert_not_dirty *)
(* after fix 63a2f5f: status = line[:2].strip(); one item per side of " -> " in line[2:] *)
Definition status_items (out : str) : list (list N * list N) :=
  flat_map (fun line => map (fun fp => (strip_ws (firstn 2 line), fp)) (ssplit [32;45;62;32] (skipn 2 line))) (splitlines out).
Definition s_untracked := [63;63].
Definition dirty_files (out : str) (required : list (list N)) : list (list N) :=
  flat_map (fun '(st, fp) => let p := strip_ws fp in
                             if mem_str p required || negb (eqb_str st s_untracked) then [p] else []) (status_items out).

Inductive dirty_res := DirtyOk | DirtyAbort.
Definition assert_not_dirty (out : str) (filepaths : list (list N)) (allow_dirty : bool) : dirty_res :=
  let d := dirty_files out filepaths in
  if negb allow_dirty && negb (match d with [] => true | _ => false end) then DirtyAbort
  else if existsb (fun f => mem_str f filepaths) d then DirtyAbort else DirtyOk.

(* VCSAPI.ls_tags: first whitespace-separated word of each stripped line *)
Definition ls_tags (out : str) : list (list N) :=
  map (fun line => match split1 [32] (strip_ws line) with x :: _ => x | [] => [] end) (splitlines out).

(* ------------------------------------------------------------------ the update sequence (C10) *)
Inductive ev :=
| EFetch | EStatus | EWrite | EHookPre | EAdd | ECommit | EHookPost | ETagAnnotated | ETagLight | EPushTag | EPush.
Definition ev_code (e : ev) : N :=
  match e with EFetch => 0 | EStatus => 1 | EWrite => 2 | EHookPre => 3 | EAdd => 4 | ECommit => 5 | EHookPost => 6
             | ETagAnnotated => 7 | ETagLight => 8 | EPushTag => 9 | EPush => 10 end.
Definition ev_eqb (a b : ev) : bool := ev_code a =? ev_code b.

Inductive hookst := HookAbsent | HookOk | HookFails.
Record ucfg := mkucfg { c_commit : bool; c_tag : bool; c_push : bool; c_pre : hookst; c_post : hookst }.
Record uopts := mkuopts { o_commit : option bool; o_tag : option bool; o_push : option bool;
                          o_dry : bool; o_allow_dirty : bool; o_fetch : bool; o_ignore_vcs_tag : bool }.
(* dirty: 0 clean, 1 an unrelated tracked file is dirty, 2 a pattern file is dirty, 3 only an untracked unrelated file *)
Record world := mkworld { w_has_vcs : bool; w_remote : bool; w_dirty : N; w_tag_msg_empty : bool; w_nfiles : nat;
                          w_fail : option ev }.

(* cli._parse_vcs_options: None = ValueError (contradictory flags), reported before anything happens *)
Definition parse_vcs_options (c : ucfg) (o : uopts) : option ucfg :=
  let is_false (x : option bool) := match x with Some false => true | _ => false end in
  let is_true (x : option bool) := match x with Some true => true | _ => false end in
  if is_false (o_commit o) && is_true (o_tag o) then None else
  if is_false (o_commit o) && is_true (o_push o) then None else
  let commit := match o_commit o with Some b => b | None => c_commit c end in
  if negb commit && is_true (o_tag o) then None else
  if negb commit && is_true (o_push o) then None else
  Some (mkucfg commit (match o_tag o with Some b => b | None => c_tag c end)
               (match o_push o with Some b => b | None => c_push c end) (c_pre c) (c_post c)).

(* run a list of steps until the first one that fails *)
Fixpoint run_steps (steps : list ev) (fail : option ev) : list ev * bool :=
  match steps with
  | [] => ([], true)
  | e :: t =>
      match fail with
      | Some f => if ev_eqb e f then ([e], false) else let '(r, ok) := run_steps t fail in (e :: r, ok)
      | None => let '(r, ok) := run_steps t fail in (e :: r, ok)
      end
  end.

Definition hook_steps (h : hookst) (e : ev) : list ev := match h with HookAbsent => [] | _ => [e] end.
Definition hook_fail (c : ucfg) (w : world) : option ev :=
  match w_fail w with
  | Some f => Some f
  | None => None
  end.

(* cli.update after the new version has been accepted: (trace of steps, exit code 0?) *)
Definition update_trace (c0 : ucfg) (o : uopts) (w : world) : list ev * bool :=
  match parse_vcs_options c0 o with
  | None => ([], false)
  | Some c =>
      (* _update_cfg_from_vcs -> vcs.get_tags(fetch) : only when tags are consulted *)
      let fetch_steps := if negb (o_ignore_vcs_tag o) && o_fetch o && w_has_vcs w && w_remote w then [EFetch] else [] in
      if o_dry o then run_steps fetch_steps (w_fail w) else
      let vcs := c_commit c && w_has_vcs w in
      let dirty_abort :=
        vcs && (((negb (o_allow_dirty o)) && ((w_dirty w =? 1) || (w_dirty w =? 2))) || (w_dirty w =? 2)) in
      let pre_status := fetch_steps ++ (if vcs then [EStatus] else []) in
      if dirty_abort then
        let '(r, ok) := run_steps pre_status (w_fail w) in (r, false)
      else
        let hook_failed (h : hookst) := match h with HookFails => true | _ => false end in
        let commit_steps :=
          if vcs then
            hook_steps (c_pre c) EHookPre ++
            (if hook_failed (c_pre c) then [] else
               repeat EAdd (w_nfiles w) ++ [ECommit] ++ hook_steps (c_post c) EHookPost ++
               (if hook_failed (c_post c) then [] else
                  (if c_tag c then [if w_tag_msg_empty w then ETagLight else ETagAnnotated] else []) ++
                  (if c_push c && w_remote w then [if c_tag c then EPushTag else EPush] else [])))
          else [] in
        let '(r, ok) := run_steps (pre_status ++ [EWrite] ++ commit_steps) (w_fail w) in
        let hooks_ok := negb (vcs && (hook_failed (c_pre c) || (hook_failed (c_post c) && negb (hook_failed (c_pre c))))) in
        (r, ok && hooks_ok)
  end.

(* ------------------------------------------------------------------ current version from tags (C09) *)
Inductive scope := ScopeDefault | ScopeGlobal | ScopeBranch.

(* cli._parse_version_tags: None = an exception escapes is_valid *)
Fixpoint valid_tags (today : Z) (is_new : bool) (pat : str) (tags : list (list N)) : option (list (list N)) :=
  match tags with
  | [] => Some []
  | t :: r =>
      match (if is_new then is_valid today t pat else v1_is_valid t pat), valid_tags today is_new pat r with
      | Some true, Some l => Some (t :: l)
      | Some false, Some l => Some l
      | _, _ => None
      end
  end.

(* version_tags.sort(key=parse_version, reverse=True)[0]: a stable sort, so the first maximal element *)
Fixpoint insert_desc (x : str) (l : list (list N)) : list (list N) :=
  match l with
  | [] => [x]
  | y :: t => if key_lt (version_key y) (version_key x) then x :: l else y :: insert_desc x t
  end.
Definition sort_tags_desc (l : list (list N)) : list (list N) := fold_left (fun acc x => insert_desc x acc) l [].
Definition latest_tag (today : Z) (is_new : bool) (pat : str) (tags : list (list N)) : option (option (list N)) :=
  match valid_tags today is_new pat tags with
  | None => None
  | Some l => Some (hd_error (sort_tags_desc l))
  end.

(* cli._update_cfg_from_vcs: the version an update starts from.
   [tags] is what vcs.get_tags returns for the scope (all tags, or the tags reachable from HEAD for BRANCH) *)
Definition resolve_current (today : Z) (is_new : bool) (pat cfg_version : str) (sc : scope) (tags : list (list N)) : option (list N) :=
  match latest_tag today is_new pat tags with
  | None => None
  | Some None => Some cfg_version
  | Some (Some t) =>
      match sc with
      | ScopeDefault => if ver_le t cfg_version then Some cfg_version else Some t
      | _ => Some t
      end
  end.
