(* Bridge between the string layer (Model/V2.v) and the AST layer (Model/PatAst.v) of the pattern
   language: a reader of pattern text into the AST, and a decidable version of the separation
   conditions, so that for concrete (pattern, state) pairs Coq itself can check that the round-trip
   theorem applies and that both layers compute the same text and the same match. *)
From Coq Require Import List Bool NArith ZArith Arith.
From BV Require Import Lib.PyStr Lib.Decimal Lib.Types Lib.Harness Lib.Regex Lib.RegexParse Model.V2 Model.PatAst Gen.Tables.
Import ListNotations.
Local Open Scope N_scope.

(* part names, longest first (the order in which format_version substitutes them) *)
Definition part_names_longest_first : list (list N) := sort_by_len_desc (fun x => length x) (map fst PART_PATTERNS).

Definition part_at (s : str) : option (list N) :=
  match filter (fun n => prefixb n s) part_names_longest_first with
  | n :: _ => Some n
  | [] => None
  end.

(* add a literal character in front of a pattern, merging with a leading literal *)
Definition cons_lit (c : N) (p : pat) : pat :=
  match p with
  | PLit l k => PLit (c :: l) k
  | _ => PLit [c] p
  end.

(* reads items up to the closing unescaped ']' (or the end of input at depth 0).
   Returns the pattern and the rest after the bracket.  None = unbalanced brackets / out of fuel. *)
Fixpoint parse_pat_go (fuel : nat) (s : str) (depth : nat) : option (pat * list N) :=
  match fuel with
  | O => None
  | S f =>
      match s with
      | [] => match depth with O => Some (PNil, []) | S _ => None end
      | 92 :: 91 :: t => match parse_pat_go f t depth with Some (k, r) => Some (cons_lit 91 k, r) | None => None end    (* \[ *)
      | 92 :: 93 :: t => match parse_pat_go f t depth with Some (k, r) => Some (cons_lit 93 k, r) | None => None end    (* \] *)
      | 91 :: t =>
          match parse_pat_go f t (S depth) with
          | Some (g, r) => match parse_pat_go f r depth with Some (k, r') => Some (POpt g k, r') | None => None end
          | None => None
          end
      | 93 :: t => match depth with O => None | S _ => Some (PNil, t) end
      | c :: t =>
          match part_at s with
          | Some n => match parse_pat_go f (skipn (length n) s) depth with Some (k, r) => Some (PPart n k, r) | None => None end
          | None => match parse_pat_go f t depth with Some (k, r) => Some (cons_lit c k, r) | None => None end
          end
      end
  end.
Definition parse_pat (s : str) : option pat :=
  match parse_pat_go (S (length s)) s O with
  | Some (p, []) => Some p
  | _ => None
  end.

(* ---- decidable separation conditions (fuel: the length of the subject is always enough) ---- *)
Fixpoint has_anchor (r : re) : bool :=
  match r with
  | Bol | Eol => true
  | Cat a b | Alt a b => has_anchor a || has_anchor b
  | Star a | Grp _ a => has_anchor a
  | _ => false
  end.

Definition part_sep_ok_b (v : vinfo) (n : str) (rest : list N) : bool :=
  let subj := ptext v n ++ rest in
  negb (has_anchor (pre n)) &&
  match first_match (length subj) (length subj) (pre n) subj with
  | Some ([], r) => eqb_str r rest
  | _ => false
  end.

Fixpoint sep_ok_b (v : vinfo) (p : pat) (tail : list N) : bool :=
  match p with
  | PNil => true
  | PLit _ k => sep_ok_b v k tail
  | PPart n k => part_sep_ok_b v n (fmt v k ++ tail) && sep_ok_b v k tail
  | POpt g k =>
      (if zero v g
       then match rems (length (fmt v k ++ tail)) (length (fmt v k ++ tail)) (comp g) (fmt v k ++ tail) with [] => true | _ => false end
            && negb (has_anchor (comp g))
       else sep_ok_b v g (fmt v k ++ tail))
      && sep_ok_b v k tail
  end.

Fixpoint eqb_env (a b : env) : bool :=
  match a, b with
  | [], [] => true
  | (k, x) :: a', (k', y) :: b' => eqb_str k k' && eqb_str x y && eqb_env a' b'
  | _, _ => false
  end.

(* everything the correspondence check asks of one (pattern text, state) pair:
   the text reads into an AST that prints back to it, all its parts are known, the separation
   conditions hold (so roundtrip_ast applies), both layers render the same text, and the regex the
   string layer compiles gives the same preferred match on the rendered text as comp p *)
Definition bridge_ok (v : vinfo) (s : str) : bool :=
  match parse_pat s with
  | None => false
  | Some p =>
      eqb_str (print p) s && pat_ok v p && sep_ok_b v p [] &&
      eqb_ostr (format_version v s) (Some (render v p)) &&
      match compile_pattern_re s with
      | Some r =>
          match re_match r (fmt v p), re_match (comp p) (fmt v p) with
          | Some (e1, r1), Some (e2, r2) => eqb_str r1 r2 && eqb_env e1 e2 && eqb_env e2 (envof v p)
                                            && match r2 with [] => true | _ => false end
          | _, _ => false
          end
      | None => false
      end
  end.
