(* config.py: the shared normalisation of raw INI / TOML values (_parse_cfg, _parse_toml, _parse_config),
   the implicit pattern for the config file's own current_version line, config file selection and
   `init` (default_config, write_content). *)
From Coq Require Import List Bool NArith ZArith Arith.
From BV Require Import Lib.PyStr Lib.Decimal Model.V2 Model.V1 Gen.Tables.
Import ListNotations.
Local Open Scope N_scope.

(* ------------------------------------------------------------------ C18: raw values and their normalisation *)
(* what the libraries deliver: configparser gives strings (quotes included), toml gives typed values *)
Inductive rawv := RStr (s : list N) | RBool (b : bool).
Definition rawcfg := list (list N * rawv).

Definition s_commit := [99;111;109;109;105;116].
Definition s_tag := [116;97;103].
Definition s_push := [112;117;115;104].
Definition s_current_version := [99;117;114;114;101;110;116;95;118;101;114;115;105;111;110].
Definition s_version_pattern := [118;101;114;115;105;111;110;95;112;97;116;116;101;114;110].
Definition s_commit_message := [99;111;109;109;105;116;95;109;101;115;115;97;103;101].
Definition s_tag_message := [116;97;103;95;109;101;115;115;97;103;101].
Definition s_tag_scope := [116;97;103;95;115;99;111;112;101].
Definition s_pre_hook := [112;114;101;95;99;111;109;109;105;116;95;104;111;111;107].
Definition s_post_hook := [112;111;115;116;95;99;111;109;109;105;116;95;104;111;111;107].

Definition strip_q (s : str) : list N := strip [39; 34; 32] s.                    (* .strip of single quote, double quote and space *)

(* _parse_cfg: a string option is true iff its lower-cased text is one of the truthy spellings *)
Definition ini_bool (v : option rawv) (dflt : option bool) : option rawv :=
  match v with
  | Some (RStr s) => Some (RBool (mem_str (lower_ascii s) INI_TRUTHY))
  | Some (RBool b) => Some (RBool b)
  | None => match dflt with Some b => Some (RBool b) | None => None end
  end.
(* _parse_toml: raw_cfg.get(option, default) *)
Definition toml_bool (v : option rawv) (dflt : option bool) : option rawv :=
  match v with
  | Some x => Some x
  | None => match dflt with Some b => Some (RBool b) | None => None end
  end.

Record effcfg := mkeff {
  e_current_version : list N; e_version_pattern : list N; e_commit_message : list N; e_tag_message : list N;
  e_tag_scope : list N; e_pre_hook : list N; e_post_hook : list N; e_commit : bool; e_tag : bool; e_push : bool; e_is_new : bool }.

Definition get_str (k : str) (c : rawcfg) (dflt : list N) : option (list N) :=
  match assoc k c with
  | Some (RStr s) => Some (strip_q s)
  | Some (RBool _) => None               (* AttributeError: 'bool' object has no attribute 'strip' *)
  | None => Some dflt
  end.

Definition truthy_raw (v : option rawv) : bool :=
  match v with Some (RBool b) => b | Some (RStr (_ :: _)) => true | _ => false end.

Definition s_default := [100;101;102;97;117;108;116].
Definition s_global := [103;108;111;98;97;108].
Definition s_branch := [98;114;97;110;99;104].

(* config._parse_config on the dict prepared by _parse_cfg / _parse_toml (bools already resolved by
   [boolf]); None = the configuration is rejected (ValueError / TypeError / KeyError) *)
Definition parse_config (boolf : option rawv -> option bool -> option rawv) (c : rawcfg) : option effcfg :=
  match get_str s_commit_message c DEFAULT_COMMIT_MESSAGE, get_str s_tag_message c DEFAULT_TAG_MESSAGE,
        assoc s_current_version c, assoc s_version_pattern c,
        get_str s_tag_scope c s_default, get_str s_pre_hook c [], get_str s_post_hook c [] with
  | Some cm, Some tm, Some (RStr cv0), Some (RStr vp0), Some scope, Some pre, Some post =>
      let cv := strip_q cv0 in
      let vp := strip_q vp0 in
      if negb (mem_str scope [s_default; s_global; s_branch]) then None else
      let commit := boolf (assoc s_commit c) (match assoc s_commit BOOL_OPTIONS with Some d => d | None => None end) in
      let tag := boolf (assoc s_tag c) (match assoc s_tag BOOL_OPTIONS with Some d => d | None => None end) in
      let push := boolf (assoc s_push c) (match assoc s_push BOOL_OPTIONS with Some d => d | None => None end) in
      let tb := truthy_raw tag in let pb := truthy_raw push in let cb := truthy_raw commit in
      if tb && negb cb then None else
      if pb && negb cb then None else
      Some (mkeff cv vp cm tm scope pre post cb tb pb (negb (mem_chr 123 vp) && negb (mem_chr 125 vp)))
  | _, _, _, _, _, _, _ => None
  end.
Definition parse_config_ini := parse_config ini_bool.
Definition parse_config_toml := parse_config toml_bool.

Definition eqb_effcfg (a b : effcfg) : bool :=
  eqb_str (e_current_version a) (e_current_version b) && eqb_str (e_version_pattern a) (e_version_pattern b) &&
  eqb_str (e_commit_message a) (e_commit_message b) && eqb_str (e_tag_message a) (e_tag_message b) &&
  eqb_str (e_tag_scope a) (e_tag_scope b) && eqb_str (e_pre_hook a) (e_pre_hook b) && eqb_str (e_post_hook a) (e_post_hook b) &&
  Bool.eqb (e_commit a) (e_commit b) && Bool.eqb (e_tag a) (e_tag b) && Bool.eqb (e_push a) (e_push b) && Bool.eqb (e_is_new a) (e_is_new b).

(* config._parse_current_version_default_pattern (after fix c726713: values are unquoted first).
   None = ValueError (could not parse current_version) *)
Definition is_section_line (line : str) : bool :=
  match line with 91 :: _ => match rev line with 93 :: _ => true | _ => false end | _ => false end.
Definition cfg_section_names : list (list N) :=
  [[91;112;121;99;97;108;118;101;114;93]; [91;98;117;109;112;118;101;114;93]; [91;116;111;111;108;46;98;117;109;112;118;101;114;93]].
(* RE_SECTION_HEADER (fix 5f60703): optional blanks, "[", one or more characters other than brackets, quotes and "=", "]", optional blanks,
   optionally a comment starting with # or ;  -- Some "[name]" when the line is such a section header *)
Definition header_of (line : str) : option (list N) :=
  match lstrip ws_chars line with
  | 91 :: rest =>
      match sfind [93] rest with
      | Some j =>
          let inner := firstn j rest in
          let after := lstrip ws_chars (skipn (S j) rest) in
          if (Nat.ltb 0 j) && negb (existsb (fun c => N.eqb c 91 || N.eqb c 34 || N.eqb c 39 || N.eqb c 61) inner)
             && match after with [] => true | c :: _ => N.eqb c 35 || N.eqb c 59 end
          then Some (91 :: inner ++ [93]) else None
      | None => None
      end
  | _ => None
  end.
Fixpoint self_pattern_go (lines : list (list N)) (in_section : bool) (cv vp : str) : option (list N) :=
  match lines with
  | [] => None
  | line :: t =>
      let st := strip_ws line in
      if in_section && prefixb s_current_version st then Some (sreplace (strip_q cv) (strip_q vp) st)
      else match header_of line with
           | Some h => self_pattern_go t (mem_str h cfg_section_names) cv vp
           | None => if is_section_line line then self_pattern_go t false cv vp else self_pattern_go t in_section cv vp
           end
  end.
Definition self_pattern (raw_current_version raw_version_pattern cfg_text : str) : option (list N) :=
  self_pattern_go (splitlines cfg_text) false raw_current_version raw_version_pattern.

(* ------------------------------------------------------------------ C19: config file selection and init *)
(* a project directory: file name -> content (None = absent) *)
Definition pdir := list (list N * list N).
Definition dir_get (d : pdir) (f : str) : option (list N) := assoc f d.
Definition dir_has (d : pdir) (f : str) : bool := has_key f d.

Definition s_bumpver_rb := [98;117;109;112;118;101;114;93].           (* bumpver] *)
Definition s_pycalver_rb := [112;121;99;97;108;118;101;114;93].        (* pycalver] *)
Definition has_bumpver_section (data : str) : bool :=
  (str_in s_bumpver_rb data || str_in s_pycalver_rb data) && str_in s_current_version data.

(* config._pick_config_filepath *)
Definition pick_config (d : pdir) : list N :=
  match filter (fun f => match dir_get d f with Some data => has_bumpver_section data | None => false end) CONFIG_CANDIDATES with
  | f :: _ => f
  | [] => match filter (dir_has d) CONFIG_CANDIDATES with
          | f :: _ => f
          | [] => CONFIG_FALLBACK
          end
  end.

(* suffix[1:] of the file name *)
Definition config_format (f : str) : list N :=
  match rev (ssplit [46] f) with ext :: _ :: _ => ext | _ => [] end.
Definition s_toml := [116;111;109;108].
Definition s_cfg := [99;102;103].
Definition s_pyproject := [112;121;112;114;111;106;101;99;116;46;116;111;109;108].

(* base_tmpl.format(initial_version=..., default_tag_scope=...) : only these two fields and {{ }} occur *)
Definition fill_template (tmpl initial_version : str) : option (list N) :=
  str_format tmpl [([105;110;105;116;105;97;108;95;118;101;114;115;105;111;110], VStr initial_version);
                   ([100;101;102;97;117;108;116;95;116;97;103;95;115;99;111;112;101], VStr s_default)].

(* config.default_config; None = ValueError (unknown format) or template error *)
Definition default_config (d : pdir) (cfg_file initial_version : str) : option (list N) :=
  let fmt := config_format cfg_file in
  let pick := if eqb_str fmt s_cfg then Some (DEFAULT_CONFIGPARSER_BASE_TMPL, DEFAULT_PATTERNS_CFG, DEFAULT_CONFIGPARSER_SETUP_CFG_STR)
              else if eqb_str fmt s_toml then
                Some (if eqb_str cfg_file s_pyproject then DEFAULT_PYPROJECT_TOML_BASE_TMPL else DEFAULT_BUMPVER_TOML_BASE_TMPL,
                      DEFAULT_PATTERNS_TOML, DEFAULT_TOML_BUMPVER_STR)
              else None in
  match pick with
  | None => None
  | Some (base, blocks, fallback_block) =>
      match fill_template base initial_version with
      | None => None
      | Some head =>
          let body := flat_map (fun '(fname, block) => if dir_has d fname then block else []) blocks in
          let has_cfg := existsb (dir_has d) SUPPORTED_CONFIGS in
          Some (head ++ body ++ (if has_cfg then [] else fallback_block) ++ [10])
      end
  end.

Inductive init_res :=
| InitRefused                                   (* already configured: exit 1, nothing written *)
| InitDry (file text : list N)                  (* --dry: exit 0, nothing written *)
| InitWrote (file new_content : list N)         (* content of the config file after init *)
| InitError.

(* cli.init + config.write_content.  [configured] says whether config.parse accepted the picked file
   (the libraries' verdict, an input of the model). *)
Definition init_cmd (d : pdir) (configured dry : bool) (initial_version : str) : init_res :=
  let f := pick_config d in
  if configured then InitRefused else
  match default_config d f initial_version with
  | None => InitError
  | Some text =>
      if dry then InitDry f text
      else match dir_get d f with
           | Some old => InitWrote f (old ++ [10] ++ text)
           | None => InitWrote f text
           end
  end.

Definition dir_set (d : pdir) (f : str) (c : list N) : pdir := dict_set f c d.
