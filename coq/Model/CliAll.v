(* cli.test with the engine dispatch of cli.incr_dispatch (has_v1_part) and cli._is_valid_version
   (is_new_pattern) -- both engines. *)
From Coq Require Import List Bool NArith ZArith Arith.
From BV Require Import Lib.PyStr Lib.Regex Model.V2 Model.Pep440 Model.Cli Model.V1 Gen.Tables.
Import ListNotations.
Local Open Scope N_scope.

(* cli._is_valid_version without the uniqueness part *)
Definition is_valid_version (today : Z) (raw old new : str) : gate_res :=
  if is_new_pattern raw then is_valid_version_v2 today raw old new
  else match v1_parse_version_info new raw with
       | PErr => GateReject
       | PValueErr | PCrash => GateCrash
       | POk _ => if ver_le new old then GateReject else GateOk
       end.

(* cli.incr_dispatch *)
Definition incr_dispatch (today : Z) (old raw : str) (fl : flags) (date : Z) : incr_res :=
  if has_v1_part raw then v1_incr old raw fl date else incr today old raw fl date.

(* cli.test *)
Definition test_cmd (today : Z) (old raw : str) (fl : flags) (date : option (option Z)) (set_version : option (list N)) : cli_res :=
  if negb (validate_release_tag (f_tag fl)) then ExitErr else
  if negb (validate_flags raw fl) then ExitErr else
  if (match date with Some _ => true | None => false end) && f_pin_date fl then ExitErr else
  match date with
  | Some None => ExitErr
  | _ =>
      let d := match date with Some (Some n) => n | _ => today end in
      let new := match set_version with
                 | Some s => INew s
                 | None => incr_dispatch today old raw fl d
                 end in
      match new with
      | INone | ICrash => ExitErr
      | INew s =>
          match is_valid_version today raw old s with
          | GateOk => Exit0 s (to_pep440 s)
          | _ => ExitErr
          end
      end
  end.
