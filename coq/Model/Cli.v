(* cli.test / the version-decision spine of cli.update (v2 engine; the legacy engine plugs in
   through [incr_dispatch] once Model/V1.v is loaded). *)
From Coq Require Import List Bool NArith ZArith Arith.
From BV Require Import Lib.PyStr Lib.Decimal Lib.Regex Lib.RegexParse Lib.Calendar Model.V2 Model.Pep440 Gen.Tables.
Import ListNotations.
Local Open Scope N_scope.

Definition has_brace_l (p : str) : bool := mem_chr 123 p.
Definition has_brace_r (p : str) : bool := mem_chr 125 p.
(* cli._is_valid_version / config._parse_config: is_new_pattern *)
Definition is_new_pattern (p : str) : bool := negb (has_brace_l p) && negb (has_brace_r p).

Definition s_MAJOR := [77;65;74;79;82].
Definition s_MINOR := [77;73;78;79;82].
Definition s_PATCH := [80;65;84;67;72].

(* cli._validate_release_tag *)
Definition validate_release_tag (tag : option (list N)) : bool :=
  match tag with None => true | Some t => existsb (eqb_str t) VALID_RELEASE_TAG_VALUES end.

(* cli._validate_flags *)
Definition validate_flags (raw : str) (fl : flags) : bool :=
  if has_brace_l raw && has_brace_r raw then true else
  negb ((f_major fl && negb (str_in s_MAJOR raw)) || (f_minor fl && negb (str_in s_MINOR raw)) || (f_patch fl && negb (str_in s_PATCH raw))).

Inductive gate_res := GateOk | GateReject | GateCrash.

(* cli._is_valid_version without the uniqueness part (v2 patterns) *)
Definition is_valid_version_v2 (today : Z) (raw old new : str) : gate_res :=
  match parse_version_info today new raw with
  | PErr => GateReject
  | PValueErr | PCrash => GateCrash
  | POk _ => if ver_le new old then GateReject else GateOk
  end.

Inductive cli_res :=
| Exit0 (new_version pep440 : list N)
| ExitErr.                                   (* any non-zero exit, including an uncaught exception *)

(* cli.test for patterns handled by the v2 engine.
   [date] : None = no --date ; Some None = --date given but malformed ; Some (Some n) = parsed date *)
Definition test_cmd_v2 (today : Z) (old raw : str) (fl : flags) (date : option (option Z)) (set_version : option (list N)) : cli_res :=
  if negb (validate_release_tag (f_tag fl)) then ExitErr else
  if negb (validate_flags raw fl) then ExitErr else
  (* _validate_date *)
  if (match date with Some _ => true | None => false end) && f_pin_date fl then ExitErr else
  match date with
  | Some None => ExitErr
  | _ =>
      let d := match date with Some (Some n) => n | _ => today end in
      let new := match set_version with
                 | Some s => INew s
                 | None => incr today old raw fl d
                 end in
      match new with
      | INone | ICrash => ExitErr
      | INew s =>
          match is_valid_version_v2 today raw old s with
          | GateOk => Exit0 s (to_pep440 s)
          | _ => ExitErr
          end
      end
  end.

Definition eqb_cli_res (a b : cli_res) : bool :=
  match a, b with
  | Exit0 x p, Exit0 y q => eqb_str x y && eqb_str p q
  | ExitErr, ExitErr => true
  | _, _ => false
  end.
