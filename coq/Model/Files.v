(* Text-mode file I/O as used by the rewrite: open(mode, newline=..., encoding=...).
   Contents are sequences of code points; the codec is abstract (a Section parameter in the proofs). *)
From Coq Require Import List Bool NArith Arith.
From BV Require Import Lib.PyStr Gen.Tables.
Import ListNotations.

(* newline= argument of open():  None (argument absent or None) = universal newlines *)
Inductive nlmode := NlUniversal | NlEmpty | NlGiven (s : list N).
Definition nlmode_of (o : option (list N)) : nlmode :=
  match o with
  | None => NlUniversal
  | Some [] => NlEmpty
  | Some s => NlGiven s
  end.

(* reading: with universal newlines \r\n and \r become \n; with newline='' nothing is translated;
   with newline=<sep> lines are only split on sep, the text is unchanged *)
Fixpoint universal_read (s : str) : list N :=
  match s with
  | [] => []
  | 13%N :: 10%N :: t => 10%N :: universal_read t
  | 13%N :: t => 10%N :: universal_read t
  | c :: t => c :: universal_read t
  end.
Definition read_translate (m : nlmode) (s : str) : list N :=
  match m with NlUniversal => universal_read s | _ => s end.

(* writing: with newline=None "\n" becomes os.linesep; with '' or '\n' nothing is translated;
   with another separator "\n" becomes that separator *)
Definition write_translate (m : nlmode) (os_linesep : list N) (s : str) : list N :=
  match m with
  | NlUniversal => sreplace [10%N] os_linesep s
  | NlEmpty => s
  | NlGiven sep => if eqb_str sep [10%N] then s else sreplace [10%N] sep s
  end.

(* encoding= argument: None means the locale's preferred encoding *)
Definition effective_encoding (enc : option (list N)) (locale_enc : list N) : list N :=
  match enc with Some e => e | None => locale_enc end.

Definition s_utf8 : list N := [117;116;102;45;56]%N.

Definition call_newline (c : list N * option (list N) * option (list N) * option (list N)) : nlmode :=
  let '(_, _, nl, _) := c in nlmode_of nl.
Definition call_encoding (c : list N * option (list N) * option (list N) * option (list N)) : option (list N) :=
  let '(_, _, _, enc) := c in enc.
Definition call_mode (c : list N * option (list N) * option (list N) * option (list N)) : option (list N) :=
  let '(_, m, _, _) := c in m.
Definition is_read_call (c : list N * option (list N) * option (list N) * option (list N)) : bool :=
  match call_mode c with Some (114%N :: _) => true | _ => false end.       (* mode starts with 'r' *)
Definition is_write_call (c : list N * option (list N) * option (list N) * option (list N)) : bool :=
  match call_mode c with Some (119%N :: _) => true | _ => false end.       (* mode starts with 'w' *)

(* the condition under which read-then-write is the identity on code points in every locale *)
Definition call_transparent (c : list N * option (list N) * option (list N) * option (list N)) : bool :=
  match call_newline c with NlEmpty => true | _ => false end &&
  match call_encoding c with Some e => eqb_str e s_utf8 | None => false end.
