(* Abstract project state for histories of `update` invocations (C08): the version in the config
   file, the version shown by every configured occurrence, the tags, the number of commits.
   Versions are abstracted to their position in the strictly increasing sequence of accepted bumps
   (C01 gives strict growth, C03 that every occurrence is rewritten, C10 the commit / tag steps). *)
From Coq Require Import List Bool NArith Arith.
Import ListNotations.

Record pstate := mkps {
  ps_config : nat;                 (* version recorded in the config file *)
  ps_files : nat;                  (* version shown by the configured occurrences of the working tree *)
  ps_tags : list nat;              (* tagged versions, oldest first *)
  ps_commits : nat;
  ps_dirty : bool }.               (* rewritten but not yet committed (after --no-commit) *)

Inductive op :=
| OUpdate            (* successful committing + tagging update *)
| OUpdateNoTag       (* successful update with --no-tag-commit *)
| OUpdateNoCommit    (* successful update with --no-commit, followed by the user's own commit *)
| OFail              (* an invocation that exits non-zero *)
| OUnrelated         (* a commit that does not touch configured files *)
| OBranch.           (* switch between branches: the working tree may show an older version *)

Definition init_state : pstate := mkps 0 0 [] 1 false.

Definition newest (s : pstate) : nat := fold_left Nat.max (ps_tags s) (ps_config s).

(* the version an update starts from is the greater of config and newest tag; the new one is greater *)
Definition next_version (s : pstate) : nat := S (newest s).

Definition step (s : pstate) (o : op) : pstate :=
  match o with
  | OUpdate => let v := next_version s in mkps v v (ps_tags s ++ [v]) (S (ps_commits s)) false
  | OUpdateNoTag => let v := next_version s in mkps v v (ps_tags s) (S (ps_commits s)) false
  | OUpdateNoCommit => let v := next_version s in mkps v v (ps_tags s) (S (ps_commits s)) false
  | OFail => s
  | OUnrelated => mkps (ps_config s) (ps_files s) (ps_tags s) (S (ps_commits s)) (ps_dirty s)
  | OBranch => s
  end.
Definition run_ops (ops : list op) (s : pstate) : pstate := fold_left step ops s.

(* files and config agree; no tag is newer than... any tag may be newer only across branches, which
   the abstraction folds into ps_tags: consistency is agreement of files and config *)
Definition consistent (s : pstate) : bool := Nat.eqb (ps_config s) (ps_files s) && negb (ps_dirty s).
