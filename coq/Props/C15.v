(* C15 -- {pep440_version} always denotes the same version as {version}. (theorems are added as they are proved) *)
From Coq Require Import List NArith.
From BV Require Import Lib.PyStr Model.V2 Model.Pep440.
Import ListNotations.
Example C15_default_pattern : convert_to_pep440 [118;89;89;89;89;48;77;46;66;85;73;76;68;91;45;84;65;71;93]%N
  = [89;89;89;89;48;77;46;66;76;68;91;80;89;84;65;71;78;85;77;93]%N.   (* vYYYY0M.BUILD[-TAG] -> YYYY0M.BLD[PYTAGNUM] *)
Proof. vm_compute. reflexivity. Qed.
Print Assumptions C15_default_pattern.
