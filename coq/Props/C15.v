(* C15 -- {pep440_version} always denotes the same version as {version}: the pattern side.
   Proofs are in Proofs/Pep440PatternFacts.v; this file only restates them. *)
From Coq Require Import List Bool NArith Arith.
From BV Require Import Lib.PyStr Gen.Tables Model.V2 Proofs.Pep440PatternFacts.
Import ListNotations.
Local Open Scope N_scope.

(* 0W->WW 0U->UU 0V->VV 0M->MM 0D->DD 00J->JJJ BUILD->BLD TAG->PYTAG *)
Theorem C15_repo_pep440_substitutions :
  PEP440_PART_SUBSTITUTIONS =
  [ ([48;87], [87;87]); ([48;85], [85;85]); ([48;86], [86;86]); ([48;77], [77;77]); ([48;68], [68;68]);
    ([48;48;74], [74;74;74]); ([66;85;73;76;68], [66;76;68]); ([84;65;71], [80;89;84;65;71]) ].
Proof. exact repo_pep440_substitutions. Qed.
Print Assumptions C15_repo_pep440_substitutions.

(* vYYYY0M.BUILD[-TAG]            ->  YYYY0M.BLD[PYTAGNUM]
   YYYY.BUILD[-TAG]               ->  YYYY.BLD[PYTAGNUM]
   vYYYY.0M.0D                    ->  YYYY.MM.DD[PYTAGNUM]
   MAJOR.MINOR.PATCH[-TAG[NUM]]   ->  MAJOR.MINOR.PATCH[][PYTAGNUM]
   vMAJOR.MINOR.PATCH[PYTAGNUM]   ->  MAJOR.MINOR.PATCH[PYTAGNUM]
   YYYY.0W.PATCH[-TAGNUM]         ->  YYYY.WW.PATCH[PYTAGNUM]
   vYY.0M.BUILD                   ->  YY.MM.BLD[PYTAGNUM] *)
Theorem C15_readme_conversions :
  map convert_to_pep440
    [ [118;89;89;89;89;48;77;46;66;85;73;76;68;91;45;84;65;71;93];
      [89;89;89;89;46;66;85;73;76;68;91;45;84;65;71;93];
      [118;89;89;89;89;46;48;77;46;48;68];
      [77;65;74;79;82;46;77;73;78;79;82;46;80;65;84;67;72;91;45;84;65;71;91;78;85;77;93;93];
      [118;77;65;74;79;82;46;77;73;78;79;82;46;80;65;84;67;72;91;80;89;84;65;71;78;85;77;93];
      [89;89;89;89;46;48;87;46;80;65;84;67;72;91;45;84;65;71;78;85;77;93];
      [118;89;89;46;48;77;46;66;85;73;76;68] ]
  = [ [89;89;89;89;48;77;46;66;76;68;91;80;89;84;65;71;78;85;77;93];
      [89;89;89;89;46;66;76;68;91;80;89;84;65;71;78;85;77;93];
      [89;89;89;89;46;77;77;46;68;68;91;80;89;84;65;71;78;85;77;93];
      [77;65;74;79;82;46;77;73;78;79;82;46;80;65;84;67;72;91;93;91;80;89;84;65;71;78;85;77;93];
      [77;65;74;79;82;46;77;73;78;79;82;46;80;65;84;67;72;91;80;89;84;65;71;78;85;77;93];
      [89;89;89;89;46;87;87;46;80;65;84;67;72;91;80;89;84;65;71;78;85;77;93];
      [89;89;46;77;77;46;66;76;68;91;80;89;84;65;71;78;85;77;93] ].
Proof. exact readme_conversions. Qed.
Print Assumptions C15_readme_conversions.

Theorem C15_convert_drops_v_prefix : forall p, prefixb [118] p = false ->
  convert_to_pep440 (118 :: p) = convert_to_pep440 p.
Proof. exact convert_drops_v_prefix. Qed.
Print Assumptions C15_convert_drops_v_prefix.

(* why the side condition is needed: vvYYYY -> vYYYY[PYTAGNUM] but vYYYY -> YYYY[PYTAGNUM] *)
Example C15_convert_vv_counterexample :
  convert_to_pep440 [118; 118; 89; 89; 89; 89] = [118; 89; 89; 89; 89; 91; 80; 89; 84; 65; 71; 78; 85; 77; 93]
  /\ convert_to_pep440 [118; 89; 89; 89; 89] = [89; 89; 89; 89; 91; 80; 89; 84; 65; 71; 78; 85; 77; 93].
Proof. exact convert_vv_counterexample. Qed.
Print Assumptions C15_convert_vv_counterexample.

Theorem C15_convert_ends_with_pytagnum : forall p, str_in s_PYTAGNUM (convert_to_pep440 p) = true.
Proof. exact convert_ends_with_pytagnum. Qed.
Print Assumptions C15_convert_ends_with_pytagnum.

Theorem C15_convert_appends_pytagnum : forall p,
  let p4 := pep440_names_pass p (filter pep440_keep (sreplace [92; 93] [] (sreplace [92; 91] [] (strip_v p)))) in
  str_in s_PYTAGNUM p4 = false ->
  exists q, convert_to_pep440 p = q ++ [91] ++ s_PYTAGNUM ++ [93].
Proof. exact convert_appends_pytagnum. Qed.
Print Assumptions C15_convert_appends_pytagnum.

Theorem C15_pytag_tables_inverse :
  forallb (fun '(tag, pytag) =>
             match assoc pytag TAG_BY_PEP440_TAG with
             | Some t => match assoc t PEP440_TAG_BY_TAG with Some p => eqb_str p pytag | None => false end
             | None => false
             end) PEP440_TAG_BY_TAG = true.
Proof. exact pytag_tables_inverse. Qed.
Print Assumptions C15_pytag_tables_inverse.

(* ---- Proofs.TaggedFacts ---- *)
From Coq Require Import List Bool NArith ZArith Arith.
From BV Require Import Lib.PyStr Lib.Decimal Lib.Regex Model.Pep440 Proofs.DottedJoinFacts Proofs.TaggedFacts.
Import ListNotations.
Theorem C15_to_pep440_tagged_sep : forall (v : bool) (ds : list (list N)) (sep : list N) (t : btag) (num : list N), ds <> [] -> Forall dstr ds -> sep_ok sep -> all_digits num = true -> to_pep440 (tagged v ds sep t num) = DottedFacts.dotted (map undec ds) ++ canon_suffix t (undec num).
Proof. exact to_pep440_tagged_sep. Qed.
Print Assumptions C15_to_pep440_tagged_sep.

Theorem C15_is_pep440_tagged : forall (v : bool) (ds : list (list N)) (sep : list N) (t : btag) (num : list N), ds <> [] -> Forall dstr ds -> sep_ok sep -> all_digits num = true -> is_pep440 (tagged v ds sep t num) = true.
Proof. exact is_pep440_tagged. Qed.
Print Assumptions C15_is_pep440_tagged.

(* ---- Proofs.Pep440VersionE2E ---- *)
From Coq Require Import List Bool NArith ZArith Arith.
From BV Require Import Lib.PyStr Lib.Decimal Lib.Regex Model.V2 Model.Pep440 Model.Cli Model.Rewrite Proofs.DottedFacts Proofs.Pep440VersionE2E.
Import ListNotations.
Theorem C15_convert_PV : convert_to_pep440 PV = PP.
Proof. exact convert_PV. Qed.
Print Assumptions C15_convert_PV.

Theorem C15_norm_version : normalize_pattern PV s_version_ph = PV.
Proof. exact norm_version. Qed.
Print Assumptions C15_norm_version.

Theorem C15_norm_pep440 : normalize_pattern PV s_pep440_ph = PP.
Proof. exact norm_pep440. Qed.
Print Assumptions C15_norm_pep440.

Theorem C15_update_writes : forall (v : vinfo) (t : option (ltag * N)), state_of v t -> option_map cp_repl (v2_cpat PV s_version_ph v) = Some (vt (Z.to_N (v_major v)) (Z.to_N (v_minor v)) (Z.to_N (v_patch v)) t) /\ option_map cp_repl (v2_cpat PV s_pep440_ph v) = Some (pt (Z.to_N (v_major v)) (Z.to_N (v_minor v)) (Z.to_N (v_patch v)) t).
Proof. exact update_writes. Qed.
Print Assumptions C15_update_writes.

Theorem C15_c15_same_version : forall (a b c : N) (t : option (ltag * N)), is_pep440 (vt a b c t) = true /\ is_pep440 (pt a b c t) = true /\ parse_pep440 (pt a b c t) = parse_pep440 (vt a b c t) /\ version_key (pt a b c t) = version_key (vt a b c t) /\ to_pep440 (vt a b c t) = to_pep440 (pt a b c t) /\ ver_lt (pt a b c t) (vt a b c t) = false /\ ver_lt (vt a b c t) (pt a b c t) = false /\ ver_le (pt a b c t) (vt a b c t) = true /\ ver_le (vt a b c t) (pt a b c t) = true.
Proof. exact c15_same_version. Qed.
Print Assumptions C15_c15_same_version.

Theorem C15_pt_literal_iff : forall (a b c : N) (t : option (ltag * N)), pt a b c t = to_pep440 (vt a b c t) <-> dotless t = true.
Proof. exact pt_literal_iff. Qed.
Print Assumptions C15_pt_literal_iff.

Theorem C15_pt_post_dev : forall a b c n : N, pt a b c (Some (Lpost, n)) = dotted [a; b; c] ++ s_post ++ dec n /\ to_pep440 (vt a b c (Some (Lpost, n))) = dotted [a; b; c] ++ [46%N] ++ s_post ++ dec n /\ pt a b c (Some (Ldev, n)) = dotted [a; b; c] ++ s_dev ++ dec n /\ to_pep440 (vt a b c (Some (Ldev, n))) = dotted [a; b; c] ++ [46%N] ++ s_dev ++ dec n.
Proof. exact pt_post_dev. Qed.
Print Assumptions C15_pt_post_dev.

Theorem C15_pt_shape : forall (a b c : N) (t : option (ltag * N)), pt a b c t = dec a ++ [46%N] ++ dec b ++ [46%N] ++ dec c ++ pytext t ++ match t with | Some (_, n) => dec n | None => [] end /\ (exists (d : N) (tl : list N), pt a b c t = d :: tl /\ is_digit d = true) /\ (forall x : N, In x [a; b; c; lnum t] -> dec x = [48%N] \/ hd 0%N (dec x) <> 48%N) /\ assoc (tagtext t) Tables.PEP440_TAG_BY_TAG = Some (pytext t).
Proof. exact pt_shape. Qed.
Print Assumptions C15_pt_shape.

Theorem C15_pt_read_back : forall (today : Z) (a b c : N) (t : option (ltag * N)), exists v : vinfo, parse_version_info today (pt a b c t) (convert_to_pep440 PV) = POk v /\ v = ST.svt_vinfo today (Z.of_N a) (Z.of_N b) (Z.of_N c) (pstate t) /\ v_major v = Z.of_N a /\ v_minor v = Z.of_N b /\ v_patch v = Z.of_N c /\ v_pytag v = pytext t /\ v_num v = Z.of_N (lnum t) /\ v_tag v = back_tag t /\ format_version v (convert_to_pep440 PV) = Some (pt a b c t).
Proof. exact pt_read_back. Qed.
Print Assumptions C15_pt_read_back.

Theorem C15_c15_roundtrip : forall (today : Z) (a b c : N) (t : option (ltag * N)) (v : vinfo), parse_version_info today (vt a b c t) PV = POk v -> format_version v (normalize_pattern PV s_version_ph) = Some (vt a b c t) /\ format_version v (normalize_pattern PV s_pep440_ph) = Some (pt a b c t) /\ is_pep440 (pt a b c t) = true /\ version_key (pt a b c t) = version_key (vt a b c t) /\ to_pep440 (pt a b c t) = to_pep440 (vt a b c t).
Proof. exact c15_roundtrip. Qed.
Print Assumptions C15_c15_roundtrip.

Theorem C15_c15_semver_update : forall (today : Z) (v : vinfo) (t : option (ltag * N)), state_of v t -> exists sv sp : list N, option_map cp_repl (v2_cpat PV s_version_ph v) = Some sv /\ option_map cp_repl (v2_cpat PV s_pep440_ph v) = Some sp /\ is_pep440 sv = true /\ is_pep440 sp = true /\ version_key sp = version_key sv /\ to_pep440 sv = to_pep440 sp /\ (dotless t = true -> sp = to_pep440 sv) /\ (exists v' : vinfo, parse_version_info today sp (convert_to_pep440 PV) = POk v' /\ v_major v' = Z.of_N (Z.to_N (v_major v)) /\ v_minor v' = Z.of_N (Z.to_N (v_minor v)) /\ v_patch v' = Z.of_N (Z.to_N (v_patch v)) /\ v_pytag v' = v_pytag v /\ v_num v' = v_num v).
Proof. exact c15_semver_update. Qed.
Print Assumptions C15_c15_semver_update.

Theorem C15_convert_P2 : convert_to_pep440 P2 = P2'.
Proof. exact convert_P2. Qed.
Print Assumptions C15_convert_P2.

Theorem C15_norm2_pep440 : normalize_pattern P2 s_pep440_ph = P2'.
Proof. exact norm2_pep440. Qed.
Print Assumptions C15_norm2_pep440.

Theorem C15_c15_calver : forall (y m : N) (bid : list N) (t : option (ltag * N)), (m <= 12)%N -> all_digits bid = true -> bid <> [] -> lnum t = 0%N -> is_pep440 (cvt y m bid t) = true /\ is_pep440 (cpt y m bid t) = true /\ parse_pep440 (cpt y m bid t) = parse_pep440 (cvt y m bid t) /\ version_key (cpt y m bid t) = version_key (cvt y m bid t) /\ to_pep440 (cvt y m bid t) = to_pep440 (cpt y m bid t) /\ ver_lt (cpt y m bid t) (cvt y m bid t) = false /\ ver_lt (cvt y m bid t) (cpt y m bid t) = false.
Proof. exact c15_calver. Qed.
Print Assumptions C15_c15_calver.

Theorem C15_c15_calver_update : forall (v : vinfo) (y m : Z) (t : option (ltag * N)), v_year_y v = Some y -> v_month v = Some m -> (Z.to_N m <= 12)%N -> state_of v t -> lnum t = 0%N -> all_digits (v_bid v) = true -> v_bid v <> [] -> exists sv sp : list N, option_map cp_repl (v2_cpat P2 s_version_ph v) = Some sv /\ option_map cp_repl (v2_cpat P2 s_pep440_ph v) = Some sp /\ is_pep440 sv = true /\ is_pep440 sp = true /\ version_key sp = version_key sv /\ to_pep440 sv = to_pep440 sp /\ (Z.to_N y <> 0%N -> dotless t = true -> sp = to_pep440 sv).
Proof. exact c15_calver_update. Qed.
Print Assumptions C15_c15_calver_update.

Theorem C15_cpt_literal_iff : forall (y m : N) (bid : list N) (t : option (ltag * N)), y <> 0%N -> (m <= 12)%N -> cpt y m bid t = to_pep440 (cpt y m bid t) <-> dotless t = true.
Proof. exact cpt_literal_iff. Qed.
Print Assumptions C15_cpt_literal_iff.

Theorem C15_bld_zero_not_read_back : forall today : Z, format_version (CV.cv_vinfo 2024 1 [48%N; 48%N; 48%N]) P2' = Some [50%N; 48%N; 50%N; 52%N; 48%N; 49%N; 46%N; 48%N] /\ parse_version_info today [50%N; 48%N; 50%N; 52%N; 48%N; 49%N; 46%N; 48%N] P2' = PErr.
Proof. exact bld_zero_not_read_back. Qed.
Print Assumptions C15_bld_zero_not_read_back.
