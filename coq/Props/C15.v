(* C15 -- {pep440_version} always denotes the same version as {version}: the pattern side.
   Proofs are in Proofs/Pep440PatternFacts.v; this file only restates them. *)
From Coq Require Import List Bool NArith Arith.
From BV Require Import Lib.PyStr Gen.Tables Model.V2 Proofs.Pep440PatternFacts.
Import ListNotations.
Local Open Scope N_scope.

(* 0W->WW 0U->UU 0V->VV 0M->MM 0D->DD 00J->JJJ BUILD->BLD TAG->PYTAG *)
Theorem C15_repo_pep440_substitutions :
  PEP440_PART_SUBSTITUTIONS =
  [ ([48;87], [87;87]); ([48;85], [85;85]); ([48;86], [86;86]); ([48;77], [77;77]); ([48;68], [68;68]);
    ([48;48;74], [74;74;74]); ([66;85;73;76;68], [66;76;68]); ([84;65;71], [80;89;84;65;71]) ].
Proof. exact repo_pep440_substitutions. Qed.
Print Assumptions C15_repo_pep440_substitutions.

(* vYYYY0M.BUILD[-TAG]            ->  YYYY0M.BLD[PYTAGNUM]
   YYYY.BUILD[-TAG]               ->  YYYY.BLD[PYTAGNUM]
   vYYYY.0M.0D                    ->  YYYY.MM.DD[PYTAGNUM]
   MAJOR.MINOR.PATCH[-TAG[NUM]]   ->  MAJOR.MINOR.PATCH[][PYTAGNUM]
   vMAJOR.MINOR.PATCH[PYTAGNUM]   ->  MAJOR.MINOR.PATCH[PYTAGNUM]
   YYYY.0W.PATCH[-TAGNUM]         ->  YYYY.WW.PATCH[PYTAGNUM]
   vYY.0M.BUILD                   ->  YY.MM.BLD[PYTAGNUM] *)
Theorem C15_readme_conversions :
  map convert_to_pep440
    [ [118;89;89;89;89;48;77;46;66;85;73;76;68;91;45;84;65;71;93];
      [89;89;89;89;46;66;85;73;76;68;91;45;84;65;71;93];
      [118;89;89;89;89;46;48;77;46;48;68];
      [77;65;74;79;82;46;77;73;78;79;82;46;80;65;84;67;72;91;45;84;65;71;91;78;85;77;93;93];
      [118;77;65;74;79;82;46;77;73;78;79;82;46;80;65;84;67;72;91;80;89;84;65;71;78;85;77;93];
      [89;89;89;89;46;48;87;46;80;65;84;67;72;91;45;84;65;71;78;85;77;93];
      [118;89;89;46;48;77;46;66;85;73;76;68] ]
  = [ [89;89;89;89;48;77;46;66;76;68;91;80;89;84;65;71;78;85;77;93];
      [89;89;89;89;46;66;76;68;91;80;89;84;65;71;78;85;77;93];
      [89;89;89;89;46;77;77;46;68;68;91;80;89;84;65;71;78;85;77;93];
      [77;65;74;79;82;46;77;73;78;79;82;46;80;65;84;67;72;91;93;91;80;89;84;65;71;78;85;77;93];
      [77;65;74;79;82;46;77;73;78;79;82;46;80;65;84;67;72;91;80;89;84;65;71;78;85;77;93];
      [89;89;89;89;46;87;87;46;80;65;84;67;72;91;80;89;84;65;71;78;85;77;93];
      [89;89;46;77;77;46;66;76;68;91;80;89;84;65;71;78;85;77;93] ].
Proof. exact readme_conversions. Qed.
Print Assumptions C15_readme_conversions.

Theorem C15_convert_drops_v_prefix : forall p, prefixb [118] p = false ->
  convert_to_pep440 (118 :: p) = convert_to_pep440 p.
Proof. exact convert_drops_v_prefix. Qed.
Print Assumptions C15_convert_drops_v_prefix.

(* why the side condition is needed: vvYYYY -> vYYYY[PYTAGNUM] but vYYYY -> YYYY[PYTAGNUM] *)
Example C15_convert_vv_counterexample :
  convert_to_pep440 [118; 118; 89; 89; 89; 89] = [118; 89; 89; 89; 89; 91; 80; 89; 84; 65; 71; 78; 85; 77; 93]
  /\ convert_to_pep440 [118; 89; 89; 89; 89] = [89; 89; 89; 89; 91; 80; 89; 84; 65; 71; 78; 85; 77; 93].
Proof. exact convert_vv_counterexample. Qed.
Print Assumptions C15_convert_vv_counterexample.

Theorem C15_convert_ends_with_pytagnum : forall p, str_in s_PYTAGNUM (convert_to_pep440 p) = true.
Proof. exact convert_ends_with_pytagnum. Qed.
Print Assumptions C15_convert_ends_with_pytagnum.

Theorem C15_convert_appends_pytagnum : forall p,
  let p4 := pep440_names_pass p (filter pep440_keep (sreplace [92; 93] [] (sreplace [92; 91] [] (strip_v p)))) in
  str_in s_PYTAGNUM p4 = false ->
  exists q, convert_to_pep440 p = q ++ [91] ++ s_PYTAGNUM ++ [93].
Proof. exact convert_appends_pytagnum. Qed.
Print Assumptions C15_convert_appends_pytagnum.

Theorem C15_pytag_tables_inverse :
  forallb (fun '(tag, pytag) =>
             match assoc pytag TAG_BY_PEP440_TAG with
             | Some t => match assoc t PEP440_TAG_BY_TAG with Some p => eqb_str p pytag | None => false end
             | None => false
             end) PEP440_TAG_BY_TAG = true.
Proof. exact pytag_tables_inverse. Qed.
Print Assumptions C15_pytag_tables_inverse.

(* ---- Proofs.TaggedFacts ---- *)
From Coq Require Import List Bool NArith ZArith Arith.
From BV Require Import Lib.PyStr Lib.Decimal Lib.Regex Model.Pep440 Proofs.DottedJoinFacts Proofs.TaggedFacts.
Import ListNotations.
Theorem C15_to_pep440_tagged_sep : forall (v : bool) (ds : list (list N)) (sep : list N) (t : btag) (num : list N), ds <> [] -> Forall dstr ds -> sep_ok sep -> all_digits num = true -> to_pep440 (tagged v ds sep t num) = DottedFacts.dotted (map undec ds) ++ canon_suffix t (undec num).
Proof. exact to_pep440_tagged_sep. Qed.
Print Assumptions C15_to_pep440_tagged_sep.

Theorem C15_is_pep440_tagged : forall (v : bool) (ds : list (list N)) (sep : list N) (t : btag) (num : list N), ds <> [] -> Forall dstr ds -> sep_ok sep -> all_digits num = true -> is_pep440 (tagged v ds sep t num) = true.
Proof. exact is_pep440_tagged. Qed.
Print Assumptions C15_is_pep440_tagged.
