(* C10 -- VCS steps run only as configured, in order, and stop at the first failure.
   Checked over the complete product all_cfgs x all_opts x all_worlds (45 x 432 x 768 points). *)
From Coq Require Import List Bool NArith.
From BV Require Import Lib.PyStr Model.Vcs Proofs.VcsFactsC10.
Import ListNotations.
Local Open Scope N_scope.

(* the enumerations are complete *)
Theorem C10_all_opts_complete : forall o, In o all_opts.
Proof. exact all_opts_complete. Qed.
Print Assumptions C10_all_opts_complete.
Theorem C10_all_cfgs_complete : forall c, (c_tag c = true -> c_commit c = true) -> (c_push c = true -> c_commit c = true) -> In c all_cfgs.
Proof. exact all_cfgs_complete. Qed.
Print Assumptions C10_all_cfgs_complete.
Theorem C10_all_worlds_complete : forall w, (w_dirty w < 4)%N -> (w_nfiles w = 1 \/ w_nfiles w = 2)%nat -> In w all_worlds.
Proof. exact all_worlds_complete. Qed.
Print Assumptions C10_all_worlds_complete.

(* fetch, status, write, pre-hook, add*, commit, post-hook, tag, push: ranks strictly increase, EAdd may repeat *)
Theorem C10_order_ok : forall c o w, In c all_cfgs -> In o all_opts -> In w all_worlds ->
  sorted_rank (fst (update_trace c o w)) = true.
Proof. exact order_ok. Qed.
Print Assumptions C10_order_ok.

Theorem C10_gating_ok : forall c o w, In c all_cfgs -> In o all_opts -> In w all_worlds ->
  (forall e, In e (fst (update_trace c o w)) -> is_tag_ev e = true \/ is_push_ev e = true -> In ECommit (fst (update_trace c o w))) /\
  (eff_commit c o = false -> forall e, In e (fst (update_trace c o w)) -> is_commit_ev e = false).
Proof. exact gating_ok. Qed.
Print Assumptions C10_gating_ok.

Theorem C10_enabled_ok : forall c o w, In c all_cfgs -> In o all_opts -> In w all_worlds ->
  (forall e, In e (fst (update_trace c o w)) -> is_tag_ev e = true -> eff_tag c o = true) /\
  (forall e, In e (fst (update_trace c o w)) -> is_push_ev e = true -> eff_push c o = true /\ w_remote w = true) /\
  (In EHookPre (fst (update_trace c o w)) -> c_pre c <> HookAbsent) /\
  (In EHookPost (fst (update_trace c o w)) -> c_post c <> HookAbsent).
Proof. exact enabled_ok. Qed.
Print Assumptions C10_enabled_ok.

Theorem C10_stop_ok : forall c o w, In c all_cfgs -> In o all_opts -> In w all_worlds ->
  forall e, w_fail w = Some e -> In e (fst (update_trace c o w)) ->
  (exists pre, fst (update_trace c o w) = pre ++ [e]) /\ snd (update_trace c o w) = false.
Proof. exact stop_ok. Qed.
Print Assumptions C10_stop_ok.

Theorem C10_dry_ok : forall c o w, In c all_cfgs -> In o all_opts -> In w all_worlds ->
  o_dry o = true -> forall e, In e (fst (update_trace c o w)) -> e = EFetch.
Proof. exact dry_ok. Qed.
Print Assumptions C10_dry_ok.

Theorem C10_nofetch_ok : forall c o w, In c all_cfgs -> In o all_opts -> In w all_worlds ->
  o_fetch o = false -> ~ In EFetch (fst (update_trace c o w)).
Proof. exact nofetch_ok. Qed.
Print Assumptions C10_nofetch_ok.

(* holds for every configuration, not only the enumerated ones *)
Theorem C10_contradiction_ok : forall c o w, parse_vcs_options c o = None -> update_trace c o w = ([], false).
Proof. exact contradiction_ok. Qed.
Print Assumptions C10_contradiction_ok.

Theorem C10_dirty_ok : forall c o w, In c all_cfgs -> In o all_opts -> In w all_worlds ->
  eff_commit c o = true -> w_has_vcs w = true -> (w_dirty w = 2 \/ (w_dirty w = 1 /\ o_allow_dirty o = false)) ->
  o_dry o = false -> ~ In EWrite (fst (update_trace c o w)) /\ snd (update_trace c o w) = false.
Proof. exact dirty_ok. Qed.
Print Assumptions C10_dirty_ok.

Theorem C10_write_before_vcs : forall c o w, In c all_cfgs -> In o all_opts -> In w all_worlds ->
  forall pre e post, fst (update_trace c o w) = pre ++ e :: post -> is_vcs_write_ev e = true -> In EWrite pre.
Proof. exact write_before_vcs. Qed.
Print Assumptions C10_write_before_vcs.

Example C10_full_sequence :
  update_trace (mkucfg true true true HookOk HookOk) (mkuopts None None None false false true false) (mkworld true true 0 false 2 None)
  = ([EFetch; EStatus; EWrite; EHookPre; EAdd; EAdd; ECommit; EHookPost; ETagAnnotated; EPushTag], true).
Proof. vm_compute. reflexivity. Qed.
Print Assumptions C10_full_sequence.

(* the commit fails: nothing after it, exit code not 0 *)
Example C10_commit_fails :
  update_trace (mkucfg true true true HookOk HookOk) (mkuopts None None None false false true false) (mkworld true true 0 false 2 (Some ECommit))
  = ([EFetch; EStatus; EWrite; EHookPre; EAdd; EAdd; ECommit], false).
Proof. vm_compute. reflexivity. Qed.
Print Assumptions C10_commit_fails.

(* ---- structural facts extracted from the source by T1: order of the steps in the code ---- *)
From BV Require Import Gen.Tables.
Local Open Scope N_scope.

(* ---- call orders extracted from the source by T1: the steps this property rests on ---- *)
From Coq Require Import Strings.String.
From BV Require Import Lib.StrLit Gen.Tables Proofs.OrderC10.
Local Open Scope string_scope.

(* in cli.update the options are merged first and the dry return comes before the update proper *)
Theorem C10_repo_order_update :
  restrict (lits ["_parse_vcs_options"; "<if dry: return>"; "_try_update"]) ORDER_CLI_UPDATE
  = lits ["_parse_vcs_options"; "<if dry: return>"; "_try_update"].
Proof. exact c10_order_update. Qed.
Print Assumptions C10_repo_order_update.

(* in cli._update: dirty check, rewrite, then the VCS steps *)
Theorem C10_repo_order__update :
  restrict (lits ["vcs.get_vcs_api"; "vcs.assert_not_dirty"; "v2rewrite.rewrite_files"; "v1rewrite.rewrite_files"; "vcs.commit"]) ORDER_CLI__UPDATE
  = lits ["vcs.get_vcs_api"; "vcs.assert_not_dirty"; "v2rewrite.rewrite_files"; "v1rewrite.rewrite_files"; "vcs.commit"].
Proof. exact c10_order__update. Qed.
Print Assumptions C10_repo_order__update.

(* in vcs.commit: pre hook, add, commit, post hook, tag, push of the tag, push *)
Theorem C10_repo_order_vcs_commit :
  restrict (lits ["hooks.run"; "vcs_api.add"; "vcs_api.commit"; "vcs_api.tag"; "vcs_api.push_tag"; "vcs_api.push"]) ORDER_VCS_COMMIT
  = lits ["hooks.run"; "vcs_api.add"; "vcs_api.commit"; "hooks.run"; "vcs_api.tag"; "vcs_api.push_tag"; "vcs_api.push"].
Proof. exact c10_order_vcs_commit. Qed.
Print Assumptions C10_repo_order_vcs_commit.
