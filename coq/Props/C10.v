(* C10 -- VCS steps run only as configured, in order, and stop at the first failure. (theorems are added as they are proved) *)
From Coq Require Import List NArith.
From BV Require Import Lib.PyStr Model.Vcs.
Import ListNotations.
Example C10_full_sequence :
  update_trace (mkucfg true true true HookOk HookOk) (mkuopts None None None false false true false) (mkworld true true 0 false 2 None)
  = ([EFetch; EStatus; EWrite; EHookPre; EAdd; EAdd; ECommit; EHookPost; ETagAnnotated; EPushTag], true).
Proof. vm_compute. reflexivity. Qed.
Print Assumptions C10_full_sequence.
