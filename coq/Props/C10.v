(* C10 -- VCS steps run only as configured, in order, and stop at the first failure.
   Checked over the complete product all_cfgs x all_opts x all_worlds (45 x 432 x 768 points). *)
From Coq Require Import List Bool NArith.
From BV Require Import Lib.PyStr Model.Vcs Proofs.VcsFacts.
Import ListNotations.
Local Open Scope N_scope.

(* the enumerations are complete *)
Theorem C10_all_opts_complete : forall o, In o all_opts.
Proof. exact all_opts_complete. Qed.
Print Assumptions C10_all_opts_complete.
Theorem C10_all_cfgs_complete : forall c, (c_tag c = true -> c_commit c = true) -> (c_push c = true -> c_commit c = true) -> In c all_cfgs.
Proof. exact all_cfgs_complete. Qed.
Print Assumptions C10_all_cfgs_complete.
Theorem C10_all_worlds_complete : forall w, (w_dirty w < 4)%N -> (w_nfiles w = 1 \/ w_nfiles w = 2)%nat -> In w all_worlds.
Proof. exact all_worlds_complete. Qed.
Print Assumptions C10_all_worlds_complete.

(* fetch, status, write, pre-hook, add*, commit, post-hook, tag, push: ranks strictly increase, EAdd may repeat *)
Theorem C10_order_ok : forall c o w, In c all_cfgs -> In o all_opts -> In w all_worlds ->
  sorted_rank (fst (update_trace c o w)) = true.
Proof. exact order_ok. Qed.
Print Assumptions C10_order_ok.

Theorem C10_gating_ok : forall c o w, In c all_cfgs -> In o all_opts -> In w all_worlds ->
  (forall e, In e (fst (update_trace c o w)) -> is_tag_ev e = true \/ is_push_ev e = true -> In ECommit (fst (update_trace c o w))) /\
  (eff_commit c o = false -> forall e, In e (fst (update_trace c o w)) -> is_commit_ev e = false).
Proof. exact gating_ok. Qed.
Print Assumptions C10_gating_ok.

Theorem C10_enabled_ok : forall c o w, In c all_cfgs -> In o all_opts -> In w all_worlds ->
  (forall e, In e (fst (update_trace c o w)) -> is_tag_ev e = true -> eff_tag c o = true) /\
  (forall e, In e (fst (update_trace c o w)) -> is_push_ev e = true -> eff_push c o = true /\ w_remote w = true) /\
  (In EHookPre (fst (update_trace c o w)) -> c_pre c <> HookAbsent) /\
  (In EHookPost (fst (update_trace c o w)) -> c_post c <> HookAbsent).
Proof. exact enabled_ok. Qed.
Print Assumptions C10_enabled_ok.

Theorem C10_stop_ok : forall c o w, In c all_cfgs -> In o all_opts -> In w all_worlds ->
  forall e, w_fail w = Some e -> In e (fst (update_trace c o w)) ->
  (exists pre, fst (update_trace c o w) = pre ++ [e]) /\ snd (update_trace c o w) = false.
Proof. exact stop_ok. Qed.
Print Assumptions C10_stop_ok.

Theorem C10_dry_ok : forall c o w, In c all_cfgs -> In o all_opts -> In w all_worlds ->
  o_dry o = true -> forall e, In e (fst (update_trace c o w)) -> e = EFetch.
Proof. exact dry_ok. Qed.
Print Assumptions C10_dry_ok.

Theorem C10_nofetch_ok : forall c o w, In c all_cfgs -> In o all_opts -> In w all_worlds ->
  o_fetch o = false -> ~ In EFetch (fst (update_trace c o w)).
Proof. exact nofetch_ok. Qed.
Print Assumptions C10_nofetch_ok.

(* holds for every configuration, not only the enumerated ones *)
Theorem C10_contradiction_ok : forall c o w, parse_vcs_options c o = None -> update_trace c o w = ([], false).
Proof. exact contradiction_ok. Qed.
Print Assumptions C10_contradiction_ok.

Theorem C10_dirty_ok : forall c o w, In c all_cfgs -> In o all_opts -> In w all_worlds ->
  eff_commit c o = true -> w_has_vcs w = true -> (w_dirty w = 2 \/ (w_dirty w = 1 /\ o_allow_dirty o = false)) ->
  o_dry o = false -> ~ In EWrite (fst (update_trace c o w)) /\ snd (update_trace c o w) = false.
Proof. exact dirty_ok. Qed.
Print Assumptions C10_dirty_ok.

Theorem C10_write_before_vcs : forall c o w, In c all_cfgs -> In o all_opts -> In w all_worlds ->
  forall pre e post, fst (update_trace c o w) = pre ++ e :: post -> is_vcs_write_ev e = true -> In EWrite pre.
Proof. exact write_before_vcs. Qed.
Print Assumptions C10_write_before_vcs.

Example C10_full_sequence :
  update_trace (mkucfg true true true HookOk HookOk) (mkuopts None None None false false true false) (mkworld true true 0 false 2 None)
  = ([EFetch; EStatus; EWrite; EHookPre; EAdd; EAdd; ECommit; EHookPost; ETagAnnotated; EPushTag], true).
Proof. vm_compute. reflexivity. Qed.
Print Assumptions C10_full_sequence.

(* the commit fails: nothing after it, exit code not 0 *)
Example C10_commit_fails :
  update_trace (mkucfg true true true HookOk HookOk) (mkuopts None None None false false true false) (mkworld true true 0 false 2 (Some ECommit))
  = ([EFetch; EStatus; EWrite; EHookPre; EAdd; EAdd; ECommit], false).
Proof. vm_compute. reflexivity. Qed.
Print Assumptions C10_commit_fails.

(* ---- structural facts extracted from the source by T1: order of the steps in the code ---- *)
From BV Require Import Gen.Tables Proofs.StructureFacts.
Local Open Scope N_scope.
Theorem C10_repo_order_cli__update :
  ORDER_CLI__UPDATE = [
  [118;99;115;46;103;101;116;95;118;99;115;95;97;112;105] (* vcs.get_vcs_api *);
  [118;99;115;46;97;115;115;101;114;116;95;110;111;116;95;100;105;114;116;121] (* vcs.assert_not_dirty *);
  [118;50;114;101;119;114;105;116;101;46;114;101;119;114;105;116;101;95;102;105;108;101;115] (* v2rewrite.rewrite_files *);
  [118;49;114;101;119;114;105;116;101;46;114;101;119;114;105;116;101;95;102;105;108;101;115] (* v1rewrite.rewrite_files *);
  [118;99;115;46;99;111;109;109;105;116] (* vcs.commit *)
  ].
Proof. exact repo_order_cli__update. Qed.
Print Assumptions C10_repo_order_cli__update.

Theorem C10_repo_order_vcs_commit :
  ORDER_VCS_COMMIT = [
  [104;111;111;107;115;46;114;117;110] (* hooks.run *);
  [118;99;115;95;97;112;105;46;97;100;100] (* vcs_api.add *);
  [118;99;115;95;97;112;105;46;99;111;109;109;105;116] (* vcs_api.commit *);
  [104;111;111;107;115;46;114;117;110] (* hooks.run *);
  [118;99;115;95;97;112;105;46;116;97;103] (* vcs_api.tag *);
  [118;99;115;95;97;112;105;46;112;117;115;104;95;116;97;103] (* vcs_api.push_tag *);
  [118;99;115;95;97;112;105;46;112;117;115;104] (* vcs_api.push *)
  ].
Proof. exact repo_order_vcs_commit. Qed.
Print Assumptions C10_repo_order_vcs_commit.

Theorem C10_repo_order_cli_update :
  ORDER_CLI_UPDATE = [
  [95;118;97;108;105;100;97;116;101;95;114;101;108;101;97;115;101;95;116;97;103] (* _validate_release_tag *);
  [95;118;97;108;105;100;97;116;101;95;100;97;116;101] (* _validate_date *);
  [99;111;110;102;105;103;46;105;110;105;116] (* config.init *);
  [95;112;97;114;115;101;95;118;99;115;95;111;112;116;105;111;110;115] (* _parse_vcs_options *);
  [95;117;112;100;97;116;101;95;99;102;103;95;102;114;111;109;95;118;99;115] (* _update_cfg_from_vcs *);
  [105;110;99;114;95;100;105;115;112;97;116;99;104] (* incr_dispatch *);
  [95;105;115;95;118;97;108;105;100;95;118;101;114;115;105;111;110] (* _is_valid_version *);
  [95;112;114;105;110;116;95;100;105;102;102] (* _print_diff *);
  [99;111;109;109;105;116;95;109;115;103;95;116;101;109;112;108;97;116;101;46;102;111;114;109;97;116] (* commit_msg_template.format *);
  [116;97;103;95;109;115;103;95;116;101;109;112;108;97;116;101;46;102;111;114;109;97;116] (* tag_msg_template.format *);
  [60;105;102;32;100;114;121;58;32;114;101;116;117;114;110;62] (* <if dry: return> *);
  [95;116;114;121;95;117;112;100;97;116;101] (* _try_update *)
  ].
Proof. exact repo_order_cli_update. Qed.
Print Assumptions C10_repo_order_cli_update.
