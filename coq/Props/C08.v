(* C08 -- any sequence of updates keeps files, config and tags in agreement. *)
From Coq Require Import List Bool NArith Arith Sorted.
From BV Require Import Model.Project Proofs.ProjectFacts.
Import ListNotations.

Theorem C08_step_preserves_consistent : forall s o, consistent s = true -> consistent (step s o) = true.
Proof. exact step_preserves_consistent. Qed.
Print Assumptions C08_step_preserves_consistent.

Theorem C08_run_preserves_consistent : forall ops s, consistent s = true -> consistent (run_ops ops s) = true.
Proof. exact run_preserves_consistent. Qed.
Print Assumptions C08_run_preserves_consistent.

Theorem C08_update_strictly_increases : forall s o, In o [OUpdate; OUpdateNoTag; OUpdateNoCommit] ->
  (newest s < ps_config (step s o))%nat /\ ps_config (step s o) = newest (step s o).
Proof. exact update_strictly_increases. Qed.
Print Assumptions C08_update_strictly_increases.

Theorem C08_fail_changes_nothing : forall s, step s OFail = s.
Proof. exact fail_changes_nothing. Qed.
Print Assumptions C08_fail_changes_nothing.

(* tag versions strictly increase along any history *)
Theorem C08_tags_sorted : forall ops, StronglySorted lt (ps_tags (run_ops ops init_state)).
Proof. exact tags_sorted. Qed.
Print Assumptions C08_tags_sorted.

Theorem C08_tags_below_config : forall ops t,
  In t (ps_tags (run_ops ops init_state)) -> (t <= ps_config (run_ops ops init_state))%nat.
Proof. exact tags_below_config. Qed.
Print Assumptions C08_tags_below_config.

Theorem C08_one_commit_per_update : forall s,
  ps_commits (step s OUpdate) = S (ps_commits s) /\ ps_tags (step s OUpdate) = ps_tags s ++ [ps_config (step s OUpdate)].
Proof. exact one_commit_per_update. Qed.
Print Assumptions C08_one_commit_per_update.

(* along a history no tag exceeds the config version, so a further update moves exactly one step up *)
Theorem C08_next_update_possible : forall ops,
  let s := run_ops ops init_state in ps_config (step s OUpdate) = S (ps_config s).
Proof. exact next_update_possible. Qed.
Print Assumptions C08_next_update_possible.

Example C08_smoke : consistent (run_ops [OUpdate; OFail; OUpdateNoTag; OUpdate] init_state) = true.
Proof. vm_compute. reflexivity. Qed.
Print Assumptions C08_smoke.
