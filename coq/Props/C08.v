(* C08 -- any sequence of updates keeps files, config and tags in agreement. (theorems are added as they are proved) *)
From Coq Require Import List NArith.
From BV Require Import Model.Project.
Import ListNotations.
Example C08_smoke : consistent (run_ops [OUpdate; OFail; OUpdateNoTag; OUpdate] init_state) = true.
Proof. vm_compute. reflexivity. Qed.
Print Assumptions C08_smoke.
