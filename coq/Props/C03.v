(* C03 -- after an update no configured occurrence is left stale: every match that iter_matches yields is
   replaced by its pattern's rendering, and rewrite_lines succeeds exactly when every pattern was found.
   Statements only; the proofs are in Proofs/RewriteFacts.v. *)
From Coq Require Import List Bool NArith Arith.
From BV Require Import Lib.PyStr Model.Rewrite Proofs.RewriteFacts.
Import ListNotations.

Theorem C03_iter_matches_separated : forall lines pats, ForallOrdPairs separated (iter_matches lines pats).
Proof. exact iter_matches_separated. Qed.
Print Assumptions C03_iter_matches_separated.

Theorem C03_iter_matches_in_line : forall lines pats m, (forall p, In p pats -> span_ok p) -> In m (iter_matches lines pats) ->
   (pm_line m < length lines)%nat /\ (pm_end m <= length (nth (pm_line m) lines []))%nat /\ In (pm_pat m) pats /\
   cp_search (pm_pat m) (nth (pm_line m) lines []) = Some (pm_start m, pm_end m).
Proof. exact iter_matches_in_line. Qed.
Print Assumptions C03_iter_matches_in_line.

Theorem C03_apply_matches_spec : forall ms lines, ForallOrdPairs separated ms ->
  (forall m, In m ms -> (pm_start m <= pm_end m)%nat /\ (pm_line m < length lines)%nat /\
                        (pm_end m <= length (nth (pm_line m) lines []))%nat) ->
  length (apply_matches ms lines) = length lines /\
  forall i, (i < length lines)%nat ->
    nth i (apply_matches ms lines) [] = replace_spans (nth i lines []) 0 (spans_on ms i).
Proof. exact apply_matches_spec. Qed.
Print Assumptions C03_apply_matches_spec.

Theorem C03_rewrite_lines_ok_iff : forall pats lines,
  (exists nl, rewrite_lines pats lines = RwOk nl) <-> forallb (pat_found (iter_matches lines pats)) pats = true.
Proof. exact rewrite_lines_ok_iff. Qed.
Print Assumptions C03_rewrite_lines_ok_iff.

Example C03_two_patterns_one_line :
  rewrite_lines [ex_pA; ex_pB] [ex_line] = RwOk [ex_new_line] /\
  rewrite_lines [ex_pB; ex_pA] [ex_line] = RwOk [ex_new_line] /\
  str_in (cp_repl ex_pA) ex_new_line = true /\ str_in (cp_repl ex_pB) ex_new_line = true.
Proof. exact two_patterns_one_line. Qed.
Print Assumptions C03_two_patterns_one_line.

(* ---- Proofs.RewriteOccFacts ---- *)
From Coq Require Import List Bool NArith ZArith Arith.
From BV Require Import Lib.PyStr Model.Rewrite Proofs.RewriteFacts Proofs.RewriteOccFacts.
Import ListNotations.
Theorem C03_replace_spans_occurrence : forall (spans : list span) (line : list N) (off k a b : nat) (r : list N), spans_wf off (length line) spans -> nth_error spans k = Some (a, b, r) -> firstn (length r) (skipn (out_pos off spans k) (replace_spans line off spans)) = r.
Proof. exact replace_spans_occurrence. Qed.
Print Assumptions C03_replace_spans_occurrence.

Theorem C03_rewrite_lines_occurrences : forall (pats : list cpat) (lines nl : list (list N)), (forall p : cpat, In p pats -> span_ok p) -> rewrite_lines pats lines = RwOk nl -> forall i : nat, i < length lines -> let sp := spans_on (iter_matches lines pats) i in forall (k a b : nat) (r : list N), nth_error sp k = Some (a, b, r) -> firstn (length r) (skipn (out_pos 0 sp k) (nth i nl [])) = r.
Proof. exact rewrite_lines_occurrences. Qed.
Print Assumptions C03_rewrite_lines_occurrences.

Theorem C03_rewrite_lines_every_match_written : forall (pats : list cpat) (lines nl : list (list N)), (forall p : cpat, In p pats -> span_ok p) -> rewrite_lines pats lines = RwOk nl -> forall m : pmatch, In m (iter_matches lines pats) -> exists pos : nat, firstn (length (cp_repl (pm_pat m))) (skipn pos (nth (pm_line m) nl [])) = cp_repl (pm_pat m).
Proof. exact rewrite_lines_every_match_written. Qed.
Print Assumptions C03_rewrite_lines_every_match_written.

Theorem C03_ex_occurrences : let sp := spans_on (iter_matches [ex_line] [ex_pA; ex_pB]) 0 in sp = [(2, 5, cp_repl ex_pA); (8, 10, cp_repl ex_pB)] /\ spans_wf 0 (length ex_line) sp /\ out_pos 0 sp 0 = 2 /\ out_pos 0 sp 1 = 10 /\ firstn (length (cp_repl ex_pA)) (skipn 2 ex_new_line) = cp_repl ex_pA /\ firstn (length (cp_repl ex_pB)) (skipn 10 ex_new_line) = cp_repl ex_pB /\ replace_spans ex_line 0 sp = ex_new_line /\ length ex_new_line + sum_cut sp = length ex_line + sum_repl sp.
Proof. exact ex_occurrences. Qed.
Print Assumptions C03_ex_occurrences.

(* ---- Proofs.RewriteCompleteFacts ---- *)
From Coq Require Import List Bool NArith ZArith Arith.
From BV Require Import Lib.PyStr Model.Rewrite Proofs.RewriteFacts Proofs.RewriteCompleteFacts.
Import ListNotations.
Theorem C03_has_overlap_spec : forall (m : pmatch) (spans : list (nat * nat * nat)), has_overlap m spans = true <-> (exists ln s e : nat, In (ln, s, e) spans /\ ln = pm_line m /\ pm_start m <= e /\ s <= pm_end m).
Proof. exact has_overlap_spec. Qed.
Print Assumptions C03_has_overlap_spec.

Theorem C03_iter_matches_yield_iff : forall (lines : list (list N)) (pats : list cpat) (m : pmatch), In m (iter_matches lines pats) <-> (exists pre post : list pmatch, candidates lines pats = pre ++ m :: post /\ (forall c : pmatch, In c pre -> pm_line c = pm_line m -> pm_end c < pm_start m \/ pm_end m < pm_start c)).
Proof. exact iter_matches_yield_iff. Qed.
Print Assumptions C03_iter_matches_yield_iff.

Theorem C03_iter_matches_complete : forall (lines : list (list N)) (pats : list cpat) (p : cpat) (i a b : nat), In p pats -> i < length lines -> cp_search p (nth i lines []) = Some (a, b) -> a < b -> exists pre post : list pmatch, candidates lines pats = pre ++ {| pm_pat := p; pm_line := i; pm_start := a; pm_end := b |} :: post /\ (In {| pm_pat := p; pm_line := i; pm_start := a; pm_end := b |} (iter_matches lines pats) \/ (exists c : pmatch, In c pre /\ pm_line c = i /\ a <= pm_end c /\ pm_start c <= b)).
Proof. exact iter_matches_complete. Qed.
Print Assumptions C03_iter_matches_complete.

Theorem C03_iter_matches_first_pattern_complete : forall (lines : list (list N)) (p0 : cpat) (rest : list cpat) (i a b : nat), i < length lines -> cp_search p0 (nth i lines []) = Some (a, b) -> a < b -> In {| pm_pat := p0; pm_line := i; pm_start := a; pm_end := b |} (iter_matches lines (p0 :: rest)).
Proof. exact iter_matches_first_pattern_complete. Qed.
Print Assumptions C03_iter_matches_first_pattern_complete.

Theorem C03_iter_matches_apart_complete : forall (lines : list (list N)) (pats : list cpat) (p : cpat) (i a b : nat), In p pats -> i < length lines -> cp_search p (nth i lines []) = Some (a, b) -> a < b -> (forall c : pmatch, In c (candidates lines pats) -> pm_line c = i -> (pm_end c < a \/ b < pm_start c) \/ pm_start c = a /\ pm_end c = b /\ pm_pat c = p) -> In {| pm_pat := p; pm_line := i; pm_start := a; pm_end := b |} (iter_matches lines pats).
Proof. exact iter_matches_apart_complete. Qed.
Print Assumptions C03_iter_matches_apart_complete.

Theorem C03_later_pattern_left_is_yielded : map span_of (candidates [ex_line] [ex_pB; ex_pA]) = [(0, 8, 10); (0, 2, 5)] /\ map span_of (iter_matches [ex_line] [ex_pB; ex_pA]) = [(0, 8, 10); (0, 2, 5)] /\ map (fun m : pmatch => cp_id (pm_pat m)) (iter_matches [ex_line] [ex_pB; ex_pA]) = [cp_id ex_pB; cp_id ex_pA] /\ rewrite_lines [ex_pB; ex_pA] [ex_line] = RwOk [ex_new_line].
Proof. exact later_pattern_left_is_yielded. Qed.
Print Assumptions C03_later_pattern_left_is_yielded.

Theorem C03_touching_match_is_dropped : map span_of (candidates [ex_touch_line] [ex_pA; ex_pB]) = [(0, 0, 3); (0, 3, 5)] /\ map span_of (iter_matches [ex_touch_line] [ex_pA; ex_pB]) = [(0, 0, 3)] /\ map span_of (iter_matches [ex_touch_line] [ex_pB; ex_pA]) = [(0, 3, 5)] /\ rewrite_lines [ex_pA; ex_pB] [ex_touch_line] = RwGreedy.
Proof. exact touching_match_is_dropped. Qed.
Print Assumptions C03_touching_match_is_dropped.
