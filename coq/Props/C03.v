(* C03 — after an update no configured occurrence is left stale. (theorems are added as they are proved) *)
From Coq Require Import List NArith.
From BV Require Import Lib.PyStr Model.Rewrite.
Import ListNotations.
Example C03_smoke : detect_line_sep [97;13;10;98]%N = [13;10]%N.
Proof. vm_compute. reflexivity. Qed.
Print Assumptions C03_smoke.
