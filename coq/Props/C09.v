(* C09 -- the current version is the greatest matching tag in scope. (theorems are added as they are proved) *)
From Coq Require Import List NArith ZArith.
From BV Require Import Lib.PyStr Model.V2 Model.Vcs.
Import ListNotations.
Example C09_smoke : sort_tags_desc [[49;46;57]; [49;46;49;48]]%N = [[49;46;49;48]; [49;46;57]]%N.   (* 1.10 above 1.9 *)
Proof. vm_compute. reflexivity. Qed.
Print Assumptions C09_smoke.
