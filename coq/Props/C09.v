(* C09 -- the current version is the greatest matching tag in scope. *)
From Coq Require Import List Bool NArith ZArith Permutation.
From BV Require Import Lib.PyStr Model.V2 Model.Pep440 Model.V1 Model.Vcs Proofs.VcsFactsC09.
Import ListNotations.
Local Open Scope N_scope.

Theorem C09_sort_tags_desc_perm : forall l, Permutation (sort_tags_desc l) l.
Proof. exact sort_tags_desc_perm. Qed.
Print Assumptions C09_sort_tags_desc_perm.

(* the head of the sorted list is the first tag of the input whose key is maximal *)
Theorem C09_sort_tags_desc_head_spec : forall l x, hd_error (sort_tags_desc l) = Some x ->
  exists pre post, l = pre ++ x :: post /\
    (forall y, In y pre -> key_lt (version_key y) (version_key x) = true) /\
    (forall y, In y post -> key_le (version_key y) (version_key x) = true).
Proof. exact sort_tags_desc_head_spec. Qed.
Print Assumptions C09_sort_tags_desc_head_spec.

Theorem C09_sort_tags_desc_head_max : forall l x, hd_error (sort_tags_desc l) = Some x ->
  In x l /\ forall y, In y l -> key_le (version_key y) (version_key x) = true.
Proof. exact sort_tags_desc_head_max. Qed.
Print Assumptions C09_sort_tags_desc_head_max.

Theorem C09_sort_tags_desc_first_among_equals : forall l x, hd_error (sort_tags_desc l) = Some x ->
  forall pre y post, l = pre ++ y :: post -> version_key y = version_key x ->
  exists pre' post', l = pre' ++ x :: post' /\ (length pre' <= length pre)%nat.
Proof. exact sort_tags_desc_first_among_equals. Qed.
Print Assumptions C09_sort_tags_desc_first_among_equals.

Theorem C09_latest_is_valid : forall today isnew pat tags t, latest_tag today isnew pat tags = Some (Some t) ->
  In t tags /\ (if isnew then is_valid today t pat else v1_is_valid t pat) = Some true.
Proof. exact latest_is_valid. Qed.
Print Assumptions C09_latest_is_valid.

Theorem C09_latest_is_greatest : forall today isnew pat tags t, latest_tag today isnew pat tags = Some (Some t) ->
  forall u, In u tags -> (if isnew then is_valid today u pat else v1_is_valid u pat) = Some true -> ver_le u t = true.
Proof. exact latest_is_greatest. Qed.
Print Assumptions C09_latest_is_greatest.

Theorem C09_invalid_tags_inert : forall today (isnew : bool) pat (tags : list (list N)) junk,
  (if isnew then is_valid today junk pat else v1_is_valid junk pat) = Some false ->
  forall pre post, latest_tag today isnew pat (pre ++ junk :: post) = latest_tag today isnew pat (pre ++ post).
Proof. exact invalid_tags_inert. Qed.
Print Assumptions C09_invalid_tags_inert.

Theorem C09_no_valid_tag_keeps_config : forall today isnew pat cfgv sc tags,
  latest_tag today isnew pat tags = Some None -> resolve_current today isnew pat cfgv sc tags = Some cfgv.
Proof. exact no_valid_tag_keeps_config. Qed.
Print Assumptions C09_no_valid_tag_keeps_config.

Theorem C09_default_scope_takes_greater : forall today isnew pat cfgv tags t,
  latest_tag today isnew pat tags = Some (Some t) ->
  resolve_current today isnew pat cfgv ScopeDefault tags = Some (if ver_le t cfgv then cfgv else t).
Proof. exact default_scope_takes_greater. Qed.
Print Assumptions C09_default_scope_takes_greater.

Theorem C09_other_scopes_take_tag : forall today isnew pat cfgv tags t sc, sc <> ScopeDefault ->
  latest_tag today isnew pat tags = Some (Some t) -> resolve_current today isnew pat cfgv sc tags = Some t.
Proof. exact other_scopes_take_tag. Qed.
Print Assumptions C09_other_scopes_take_tag.

Example C09_smoke : sort_tags_desc [[49;46;57]; [49;46;49;48]] = [[49;46;49;48]; [49;46;57]].   (* 1.10 above 1.9 *)
Proof. vm_compute. reflexivity. Qed.
Print Assumptions C09_smoke.

(* pattern MAJOR.MINOR.PATCH, tags 1.9.0 1.10.0 junk : the latest tag is 1.10.0; with 1.2.0 in the config an update starts
   from 1.10.0, with 2.0.0 in the config it starts from 2.0.0 unless the tag scope is branch / global *)
Example C09_latest_of_three :
  let pat := [77;65;74;79;82;46;77;73;78;79;82;46;80;65;84;67;72] in
  let tags := [[49;46;57;46;48]; [49;46;49;48;46;48]; [106;117;110;107]] in
  latest_tag 738000%Z true pat tags = Some (Some [49;46;49;48;46;48]) /\
  resolve_current 738000%Z true pat [49;46;50;46;48] ScopeDefault tags = Some [49;46;49;48;46;48] /\
  resolve_current 738000%Z true pat [50;46;48;46;48] ScopeDefault tags = Some [50;46;48;46;48] /\
  resolve_current 738000%Z true pat [50;46;48;46;48] ScopeBranch tags = Some [49;46;49;48;46;48].
Proof. vm_compute. repeat split; reflexivity. Qed.
Print Assumptions C09_latest_of_three.

(* ---- call orders extracted from the source by T1: the steps this property rests on ---- *)
From Coq Require Import Strings.String.
From BV Require Import Lib.StrLit Gen.Tables Proofs.OrderC09.
Local Open Scope string_scope.

(* in cli.update the tag scope given on the command line is merged before the current version is resolved from the tags, and the increment starts from the resolved version *)
Theorem C09_repo_order_update :
  restrict (lits ["_parse_vcs_options"; "_update_cfg_from_vcs"; "incr_dispatch"]) ORDER_CLI_UPDATE
  = lits ["_parse_vcs_options"; "_update_cfg_from_vcs"; "incr_dispatch"].
Proof. exact c09_order_update. Qed.
Print Assumptions C09_repo_order_update.
