(* C17 — BUILD numbers grow numerically and lexically forever. *)
From Coq Require Import List NArith.
From BV Require Import Lib.PyStr Lib.Decimal Model.Lexid.
Import ListNotations.

Example next_id_examples :
  next_id [48;57;57;57]%N = Some [49;49;48;48;48]%N /\ next_id [57;57]%N = None.
Proof. split; vm_compute; reflexivity. Qed.
Print Assumptions next_id_examples.
