(* C17 — BUILD numbers grow numerically and lexically forever. *)
From Coq Require Import List Bool NArith Arith.
From BV Require Import Lib.PyStr Lib.Decimal Model.Lexid Proofs.DecimalFacts Proofs.LexidFacts Proofs.LexidChainFacts.
Import ListNotations.

Theorem C17_next_id_none_iff : forall s : list N,
  all_digits s = true -> (next_id s = None <-> all_nines s = true).
Proof. exact next_id_none_iff. Qed.
Print Assumptions C17_next_id_none_iff.

Theorem C17_next_id_spec : forall s t : list N,
  all_digits s = true -> next_id s = Some t ->
  (undec s < undec t)%N /\ (length s <= length t)%nat /\ lt_str s t = true /\
  all_digits t = true /\ t <> [].
Proof. exact next_id_spec. Qed.
Print Assumptions C17_next_id_spec.

Theorem C17_bump_bid_spec : forall b t : list N,
  all_digits b = true -> b <> [] -> bump_bid b = Some t ->
  (undec b < undec t)%N /\ all_digits t = true /\ (4 <= length t)%nat /\ (1000 <= undec t)%N
  /\ ((4 <= length b)%nat -> lt_str b t = true)
  /\ ((1000 <= undec b)%N -> (length b <= length t)%nat).
Proof. exact bump_bid_spec. Qed.
Print Assumptions C17_bump_bid_spec.

Theorem C17_bump_bid_none_iff : forall b : list N,
  all_digits b = true -> b <> [] ->
  (bump_bid b = None <->
   all_nines (if (undec b <? 1000)%N then dec (undec b + 1000) else b) = true).
Proof. exact bump_bid_none_iff. Qed.
Print Assumptions C17_bump_bid_none_iff.

(* every consecutive pair of a bump chain: numeric increase always;
   string increase from the first generated value on *)
Theorem C17_bump_chain_spec : forall (n : nat) (b : list N) (l : list (list N)),
  all_digits b = true -> b <> [] -> bump_chain n b = Some l ->
  length l = n /\
  (forall i x y, nth_error (b :: l) i = Some x -> nth_error l i = Some y ->
      (undec x < undec y)%N /\
      ((1 <= i)%nat \/ (4 <= length b)%nat -> lt_str x y = true)).
Proof. exact bump_chain_spec. Qed.
Print Assumptions C17_bump_chain_spec.

(* any two values of a chain, however far apart: numeric increase always, string increase
   from the first generated value on (or from the start when it has four digits) *)
Theorem C17_bump_chain_all_pairs : forall (n : nat) (b : list N) (l : list (list N)),
  all_digits b = true -> b <> [] -> bump_chain n b = Some l ->
  forall d i x y, nth_error (b :: l) i = Some x -> nth_error (b :: l) (i + S d)%nat = Some y ->
    (undec x < undec y)%N /\ ((1 <= i)%nat \/ (4 <= length b)%nat -> lt_str x y = true).
Proof. exact bump_chain_all_pairs. Qed.
Print Assumptions C17_bump_chain_all_pairs.

Theorem C17_bump_chain_no_repeat : forall (n : nat) (b : list N) (l : list (list N)),
  all_digits b = true -> b <> [] -> bump_chain n b = Some l ->
  forall i j x, (i < j)%nat -> nth_error (b :: l) i = Some x -> nth_error (b :: l) j = Some x -> False.
Proof. exact bump_chain_no_repeat. Qed.
Print Assumptions C17_bump_chain_no_repeat.

Theorem C17_lt_str_trans : forall a b c : list N,
  lt_str a b = true -> lt_str b c = true -> lt_str a c = true.
Proof. exact lt_str_trans. Qed.
Print Assumptions C17_lt_str_trans.

Theorem C17_undec_dec : forall n : N, undec (dec n) = n.
Proof. exact undec_dec. Qed.
Print Assumptions C17_undec_dec.

Theorem C17_dec_canonical : forall s : list N,
  all_digits s = true -> s <> [] -> (hd 0%N s <> 48%N \/ s = [48%N]) ->
  dec (undec s) = s.
Proof. exact dec_canonical. Qed.
Print Assumptions C17_dec_canonical.

(* hypotheses are satisfiable on non-trivial ids:
   next_id "0999" = "11000", next_id "99" overflows, bump "0001" = "1002" *)
Example C17_next_id_examples :
  all_digits [48;57;57;57]%N = true /\
  next_id [48;57;57;57]%N = Some [49;49;48;48;48]%N /\
  next_id [57;57]%N = None /\
  bump_bid [48;48;48;49]%N = Some [49;48;48;50]%N.
Proof. vm_compute; repeat split; reflexivity. Qed.
Print Assumptions C17_next_id_examples.

(* "0998" -> "1999" -> "22000" -> "22001" *)
Example C17_bump_chain_example :
  all_digits [48;57;57;56]%N = true /\
  bump_chain 3 [48;57;57;56]%N =
    Some [[49;57;57;57]; [50;50;48;48;48]; [50;50;48;48;49]]%N.
Proof. vm_compute; split; reflexivity. Qed.
Print Assumptions C17_bump_chain_example.
