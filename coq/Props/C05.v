(* C05 — bump semantics follow the documented part rules. *)
From Coq Require Import List Bool NArith ZArith Arith String Ascii.
From BV Require Import Lib.PyStr Lib.Calendar Model.Lexid Model.V2 Model.Cli Gen.Tables Proofs.IncrFacts.
Import ListNotations.

(* everything resettable to the right of the first changed part is reset, nothing else *)
Theorem C05_reset_items_spec : forall fields old cur,
  reset_items fields old cur false = inits (after_first_changed old cur fields).
Proof. exact reset_items_spec. Qed.
Print Assumptions C05_reset_items_spec.

Theorem C05_reset_items_none_changed : forall fields old cur,
  (forall f, In f fields -> changed old cur f = false) -> reset_items fields old cur false = [].
Proof. exact reset_items_none_changed. Qed.
Print Assumptions C05_reset_items_none_changed.

(* calendar guard *)
Theorem C05_pin_date_keeps_calendar : forall today v i x,
  nth_error (cal_list v) i = Some (Some x) -> nth_error (ver_to_cal_info today v) i = Some (Some x).
Proof. exact pin_date_keeps_calendar. Qed.
Print Assumptions C05_pin_date_keeps_calendar.

Theorem C05_pin_date_fills_missing : forall today v i, (i < 9)%nat ->
  nth_error (cal_list v) i = Some None -> nth_error (ver_to_cal_info today v) i = nth_error (cinfo_of_ord today) i.
Proof. exact pin_date_fills_missing. Qed.
Print Assumptions C05_pin_date_fills_missing.

Theorem C05_cal_never_backwards : forall old cur_c,
  let cur := if is_cal_gt (cal_list old) cur_c then old else set_cal old cur_c in
  List.length cur_c = 9%nat -> is_cal_gt (cal_list old) (cal_list cur) = false.
Proof. exact cal_never_backwards. Qed.
Print Assumptions C05_cal_never_backwards.

Theorem C05_is_cal_gt_irrefl : forall l, is_cal_gt l l = false.
Proof. exact is_cal_gt_irrefl. Qed.
Print Assumptions C05_is_cal_gt_irrefl.

(* _incr_numeric = apply the flags ([bumped]), then the rollover reset *)
Theorem C05_incr_numeric_bumped : forall raw old cur fl,
  incr_numeric raw old cur fl =
  match bumped cur fl with None => None | Some c => reset_rollover_fields raw old c end.
Proof. exact incr_numeric_bumped. Qed.
Print Assumptions C05_incr_numeric_bumped.

Theorem C05_bumped_fields : forall cur fl c, bumped cur fl = Some c ->
  v_major c = (if f_major fl then v_major cur + 1 else v_major cur)%Z
  /\ v_minor c = (if f_minor fl then v_minor cur + 1 else v_minor cur)%Z
  /\ v_patch c = (if f_patch fl then v_patch cur + 1 else v_patch cur)%Z
  /\ v_inc0 c = (if f_pin_increments fl then v_inc0 cur else v_inc0 cur + 1)%Z
  /\ v_inc1 c = (if f_pin_increments fl then v_inc1 cur else v_inc1 cur + 1)%Z
  /\ v_num c = (match f_tag fl with
                | Some (x :: t) => if eqb_str (x :: t) (v_tag cur)
                                   then (if f_tag_num fl then v_num cur + 1 else v_num cur) else 0
                | _ => if f_tag_num fl then v_num cur + 1 else v_num cur
                end)%Z
  /\ v_tag c = (match f_tag fl with Some (x :: t) => x :: t | _ => v_tag cur end)
  /\ (match f_tag fl with
      | Some (x :: t) => assoc (x :: t) PEP440_TAG_BY_TAG = Some (v_pytag c)
      | _ => v_pytag c = v_pytag cur
      end)
  /\ bump_bid (v_bid cur) = Some (v_bid c)
  /\ cal_list c = cal_list cur
  /\ v_githash c = v_githash cur /\ v_hexhash c = v_hexhash cur.
Proof. exact bumped_fields. Qed.
Print Assumptions C05_bumped_fields.

(* the SemVer table of the README, for all numbers: pattern MAJOR.MINOR.PATCH *)
Theorem C05_semver_rules :
  let raw := [77;65;74;79;82;46;77;73;78;79;82;46;80;65;84;67;72]%N in
  forall old fl c,
  f_tag fl = None -> f_tag_num fl = false -> incr_numeric raw old old fl = Some c ->
  (v_major c, v_minor c, v_patch c) =
    (if f_major fl then (v_major old + 1, 0, 0)
     else if f_minor fl then (v_major old, v_minor old + 1, 0)
     else if f_patch fl then (v_major old, v_minor old, v_patch old + 1)
     else (v_major old, v_minor old, v_patch old))%Z.
Proof. exact semver_rules. Qed.
Print Assumptions C05_semver_rules.

(* --tag-num needs a non-final effective tag *)
Theorem C05_tag_num_needs_tag : forall today old raw fl d, f_tag_num fl = true ->
  (match f_tag fl with
   | Some (x :: t) => eqb_str (x :: t) s_final = true
   | _ => forall v, parse_version_info today old raw = POk v ->
          eqb_str (v_tag (if is_cal_gt (cal_list v) (if f_pin_date fl then ver_to_cal_info today v else cinfo_of_ord d)
                          then v
                          else set_cal v (if f_pin_date fl then ver_to_cal_info today v else cinfo_of_ord d))) s_final = true
   end) ->
  forall s, incr today old raw fl d <> INew s.
Proof. exact tag_num_needs_tag. Qed.
Print Assumptions C05_tag_num_needs_tag.

Theorem C05_incr_changes_version : forall today old raw fl d s,
  incr today old raw fl d = INew s -> s <> old /\ s <> [].
Proof. exact incr_changes_version. Qed.
Print Assumptions C05_incr_changes_version.

Theorem C05_incr_rejects_bad_week_pattern : forall today old raw fl d,
  is_valid_week_pattern raw = false -> incr today old raw fl d = INone.
Proof. exact incr_rejects_bad_week_pattern. Qed.
Print Assumptions C05_incr_rejects_bad_week_pattern.

(* ------------------------------------------------------------------ non-vacuity on concrete strings *)
Fixpoint S' (s : string) : list N :=
  match s with EmptyString => [] | String c t => N_of_ascii c :: S' t end.

(* SemVer rows: --minor resets PATCH; --major --minor --patch together = --major;
   the parsed record of 1.2.3 goes to (1,3,0) under --minor --patch *)
Example C05_ex_semver :
  let raw := S' "MAJOR.MINOR.PATCH" in
  incr 740163%Z (S' "1.2.3") raw (mkflags false true false None false false false) 740163%Z = INew (S' "1.3.0")
  /\ incr 740163%Z (S' "1.2.3") raw (mkflags true true true None false false false) 740163%Z = INew (S' "2.0.0")
  /\ incr 740163%Z (S' "1.2.3") raw (mkflags false false false None false false false) 740163%Z = INone
  /\ match parse_version_info 740163%Z (S' "1.2.3") raw with
     | POk v => match incr_numeric raw v v (mkflags false true true None false false false) with
                | Some c => Some (v_major c, v_minor c, v_patch c)
                | None => None
                end
     | _ => None
     end = Some (1, 3, 0)%Z.
Proof. vm_compute. repeat split; reflexivity. Qed.
Print Assumptions C05_ex_semver.

(* tags, --tag-num, calendar guard and week-pattern check on concrete versions (today = 2027-07-02) *)
Example C05_ex_tag_and_calendar :
  let rawt := S' "MAJOR.MINOR.PATCH[-TAGNUM]" in
  let fl0 := mkflags false false false None false false false in
  incr 740163%Z (S' "1.2.3") rawt (mkflags false false false None true false false) 740163%Z = INone
  /\ incr 740163%Z (S' "1.2.3") rawt (mkflags false false false (Some (S' "final")) true false false) 740163%Z = INone
  /\ incr 740163%Z (S' "1.2.3-beta1") rawt (mkflags false false false None true false false) 740163%Z = INew (S' "1.2.3-beta2")
  /\ incr 740163%Z (S' "1.2.3-beta1") rawt (mkflags false false false (Some (S' "rc")) false false false) 740163%Z = INew (S' "1.2.3-rc0")
  /\ incr 740163%Z (S' "v209901.1001") (S' "vYYYY0M.BUILD") fl0 740163%Z = INew (S' "v209901.1002")
  /\ incr 740163%Z (S' "v202001.1001") (S' "vYYYY0M.BUILD") fl0 740163%Z = INew (S' "v202707.1002")
  /\ incr 740163%Z (S' "v202001.1001") (S' "vYYYY0M.BUILD") (mkflags false false false None false false true) 740163%Z
     = INew (S' "v202001.1002")
  /\ is_valid_week_pattern (S' "YYYY.VV") = false
  /\ incr 740163%Z (S' "2020.10") (S' "YYYY.VV") fl0 740163%Z = INone.
Proof. vm_compute. repeat split; reflexivity. Qed.
Print Assumptions C05_ex_tag_and_calendar.

(* ---- Proofs.ResetFacts ---- *)
From Coq Require Import List Bool NArith ZArith Arith.
From BV Require Import Lib.PyStr Model.V2 Proofs.IncrFacts Proofs.ResetFacts.
Import ListNotations.
Theorem C05_repo_initial_values : Tables.V2_FIELD_INITIAL_VALUES = [(n_major, [48%N]); (n_minor, [48%N]); (n_patch, [48%N]); (n_num, [48%N]); (n_inc0, [48%N]); (n_inc1, [49%N])].
Proof. exact repo_initial_values. Qed.
Print Assumptions C05_repo_initial_values.

Theorem C05_reset_rollover_fields_spec : forall (raw : list N) (fields : list (list N)) (old c r : vinfo), parse_pattern_fields raw = Some fields -> reset_rollover_fields raw old c = Some r -> (forall f : list N, In f resettable -> get_field r f = (if existsb (eqb_str f) (after_first_changed old c fields) then Some (Some (FInt match assoc f Tables.V2_FIELD_INITIAL_VALUES with | Some i => zundec i | None => 0 end)) else get_field c f)) /\ (forall f : list N, ~ In f resettable -> get_field r f = get_field c f).
Proof. exact reset_rollover_fields_spec. Qed.
Print Assumptions C05_reset_rollover_fields_spec.

Theorem C05_incr_numeric_spec : forall (raw : list N) (fields : list (list N)) (old cur : vinfo) (fl : flags) (r : vinfo), parse_pattern_fields raw = Some fields -> incr_numeric raw old cur fl = Some r -> exists c : vinfo, bumped cur fl = Some c /\ (forall f : list N, In f resettable -> get_field r f = (if existsb (eqb_str f) (after_first_changed old c fields) then Some (Some (FInt match assoc f Tables.V2_FIELD_INITIAL_VALUES with | Some i => zundec i | None => 0 end)) else get_field c f)) /\ (forall f : list N, ~ In f resettable -> get_field r f = get_field c f).
Proof. exact incr_numeric_spec. Qed.
Print Assumptions C05_incr_numeric_spec.

(* ---- Proofs.SemverE2E ---- *)
From Coq Require Import List Bool NArith ZArith Arith.
From BV Require Import Lib.PyStr Lib.Decimal Model.V2 Model.Pep440 Model.Cli Proofs.DottedFacts Proofs.SemverE2E.
Import ListNotations.
(* semver_incr :
   forall (today date : Z) (fl : flags) (ma mi pa : N), only_part_flags fl -> f_major fl || f_minor fl || f_patch fl = true -> incr today (dotted [ma; mi; pa]) P fl date = INew (dotted (semver_next fl ma mi pa)) *)
Theorem C05_semver_incr : ltac:(let t := type of semver_incr in exact t).
Proof. exact semver_incr. Qed.
Print Assumptions C05_semver_incr.

(* semver_incr_noflag :
   forall (today date : Z) (fl : flags) (ma mi pa : N), only_part_flags fl -> f_major fl = false -> f_minor fl = false -> f_patch fl = false -> incr today (dotted [ma; mi; pa]) P fl date = INone *)
Theorem C05_semver_incr_noflag : ltac:(let t := type of semver_incr_noflag in exact t).
Proof. exact semver_incr_noflag. Qed.
Print Assumptions C05_semver_incr_noflag.

(* semver_format_gen :
   forall v : vinfo, format_version v P = Some (dotted [Z.to_N (v_major v); Z.to_N (v_minor v); Z.to_N (v_patch v)]) *)
Theorem C05_semver_format_gen : ltac:(let t := type of semver_format_gen in exact t).
Proof. exact semver_format_gen. Qed.
Print Assumptions C05_semver_format_gen.

(* semver_parse :
   forall (today : Z) (ma mi pa : N), exists v : vinfo, parse_version_info today (dotted [ma; mi; pa]) P = POk v /\ v_major v = Z.of_N ma /\ v_minor v = Z.of_N mi /\ v_patch v = Z.of_N pa /\ v_tag v = s_final /\ v_pytag v = [] /\ v_num v = 0%Z /\ v_bid v = [49%N; 48%N; 48%N; 48%N] /\ cal_list v = cinfo_of_ord today *)
Theorem C05_semver_parse : ltac:(let t := type of semver_parse in exact t).
Proof. exact semver_parse. Qed.
Print Assumptions C05_semver_parse.

(* ---- Proofs.CalverE2E ---- *)
From Coq Require Import List Bool NArith ZArith Arith.
From BV Require Import Lib.PyStr Lib.Decimal Lib.Calendar Model.V2 Model.Pep440 Model.Cli Model.Lexid Proofs.DottedFacts Proofs.DottedJoinFacts Proofs.CalverE2E.
Import ListNotations.
(* calver_incr :
   forall (today date : Z) (fl : flags) (y m : N) (bid b' : list N), (1000 <= y <= 9999)%N -> (1 <= m <= 12)%N -> all_digits bid = true -> bid <> [] -> no_flags fl -> bump_bid bid = Some b' -> incr today (cv y m bid) P fl date = INew (calver_next y m b' date) *)
Theorem C05_calver_incr : ltac:(let t := type of calver_incr in exact t).
Proof. exact calver_incr. Qed.
Print Assumptions C05_calver_incr.

(* calver_parse_eq :
   forall (today : Z) (y m : N) (bid : list N), (1000 <= y <= 9999)%N -> (1 <= m <= 12)%N -> all_digits bid = true -> bid <> [] -> parse_version_info today (cv y m bid) P = POk (cv_vinfo (Z.of_N y) (Z.of_N m) bid) *)
Theorem C05_calver_parse_eq : ltac:(let t := type of calver_parse_eq in exact t).
Proof. exact calver_parse_eq. Qed.
Print Assumptions C05_calver_parse_eq.

(* calver_format_gen :
   forall (v : vinfo) (y m : Z), v_year_y v = Some y -> v_month v = Some m -> v_tag v = s_final -> all_digits (v_bid v) = true -> format_version v P = Some (cv (Z.to_N y) (Z.to_N m) (v_bid v)) *)
Theorem C05_calver_format_gen : ltac:(let t := type of calver_format_gen in exact t).
Proof. exact calver_format_gen. Qed.
Print Assumptions C05_calver_format_gen.

(* ---- Proofs.SemverTagE2E ---- *)
From Coq Require Import List Bool NArith ZArith Arith.
From BV Require Import Lib.PyStr Lib.Decimal Lib.Calendar Model.V2 Model.Pep440 Model.Cli Model.Lexid Proofs.DottedFacts Proofs.SemverTagE2E.
Import ListNotations.
Theorem C05_svt_parse_eq : forall (today : Z) (a b c : N) (t : option (ptag * N)), parse_version_info today (svt a b c t) P = POk (svt_vinfo today (Z.of_N a) (Z.of_N b) (Z.of_N c) t).
Proof. exact svt_parse_eq. Qed.
Print Assumptions C05_svt_parse_eq.

Theorem C05_svt_format : forall (today : Z) (a b c : N) (t : option (ptag * N)), format_version (svt_vinfo today (Z.of_N a) (Z.of_N b) (Z.of_N c) t) P = Some (svt a b c t).
Proof. exact svt_format. Qed.
Print Assumptions C05_svt_format.

Theorem C05_svt_incr : forall (today date : Z) (fl : flags) (ft : option (option ptag)) (a b c : N) (t : option (ptag * N)), f_tag fl = option_map ltext ft -> incr today (svt a b c t) P fl date = incr_spec fl ft a b c t.
Proof. exact svt_incr. Qed.
Print Assumptions C05_svt_incr.

Theorem C05_svt_cmd_tag_tagnum : forall (today : Z) (fl : flags) (p : ptag) (a b c : N) (t : option (ptag * N)) (d : option Z), f_tag fl = Some (ltext (Some p)) -> f_tag_num fl = true -> part_flag fl = false -> date_ok fl d -> let new := svt a b c (Some (p, if eqb_otag (Some p) (otag t) then (tnum t + 1)%N else 0%N)) in test_cmd_v2 today (svt a b c t) P fl (option_map Some d) None = (if eqb_otag (Some p) (otag t) || (trank (otag t) <? trank (Some p))%N then Exit0 new (to_pep440 new) else ExitErr).
Proof. exact svt_cmd_tag_tagnum. Qed.
Print Assumptions C05_svt_cmd_tag_tagnum.

Theorem C05_valid_tag_abstract : forall fl : flags, validate_release_tag (f_tag fl) = true -> exists ft : option (option ptag), f_tag fl = option_map ltext ft.
Proof. exact valid_tag_abstract. Qed.
Print Assumptions C05_valid_tag_abstract.

(* ---- Proofs.CalverTagE2E ---- *)
From Coq Require Import List Bool NArith ZArith Arith.
From BV Require Import Lib.PyStr Lib.Decimal Lib.Calendar Model.V2 Model.Pep440 Model.Cli Model.Lexid Proofs.DottedFacts Proofs.CalverTagE2E.
Import ListNotations.
Theorem C05_cvt_parse_eq : forall (today : Z) (y m : N) (bid : list N) (t : option PE.ltag), (1000 <= y <= 9999)%N -> (1 <= m <= 12)%N -> all_digits bid = true -> bid <> [] -> parse_version_info today (cvt y m bid t) P = POk (cvt_vinfo (Z.of_N y) (Z.of_N m) bid t).
Proof. exact cvt_parse_eq. Qed.
Print Assumptions C05_cvt_parse_eq.

Theorem C05_cvt_format_gen : forall (v : vinfo) (y m : Z) (t : option PE.ltag), v_year_y v = Some y -> v_month v = Some m -> v_tag v = ttext t -> all_digits (v_bid v) = true -> format_version v P = Some (cvt (Z.to_N y) (Z.to_N m) (v_bid v) t).
Proof. exact cvt_format_gen. Qed.
Print Assumptions C05_cvt_format_gen.

Theorem C05_group_shown_iff_tagged : forall (y m : N) (bid : list N) (t : option PE.ltag), cvt y m bid t = CV.cv y m bid <-> t = None.
Proof. exact group_shown_iff_tagged. Qed.
Print Assumptions C05_group_shown_iff_tagged.

Theorem C05_cvt_incr : forall (today date : Z) (fl : flags) (ft : option (option ST.ptag)) (y m : N) (bid b' : list N) (t : option PE.ltag), (1000 <= y <= 9999)%N -> (1 <= m <= 12)%N -> all_digits bid = true -> bid <> [] -> tag_flags fl ft -> bump_bid bid = Some b' -> incr today (cvt y m bid t) P fl date = INew (cvt_next y m b' (next_tag ft t) date).
Proof. exact cvt_incr. Qed.
Print Assumptions C05_cvt_incr.

Theorem C05_cvt_incr_overflow : forall (today date : Z) (fl : flags) (ft : option (option ST.ptag)) (y m : N) (bid : list N) (t : option PE.ltag), (1000 <= y <= 9999)%N -> (1 <= m <= 12)%N -> all_digits bid = true -> bid <> [] -> tag_flags fl ft -> bump_bid bid = None -> incr today (cvt y m bid t) P fl date = ICrash.
Proof. exact cvt_incr_overflow. Qed.
Print Assumptions C05_cvt_incr_overflow.

Theorem C05_tag_flags_complete : forall fl : flags, f_major fl = false -> f_minor fl = false -> f_patch fl = false -> f_tag_num fl = false -> f_pin_date fl = false -> validate_release_tag (f_tag fl) = true -> exists ft : option (option ST.ptag), tag_flags fl ft.
Proof. exact tag_flags_complete. Qed.
Print Assumptions C05_tag_flags_complete.
