(* C05 — bump semantics follow the documented part rules. (theorems are added as they are proved) *)
From Coq Require Import List NArith ZArith.
From BV Require Import Lib.PyStr Model.V2 Model.Cli.
Import ListNotations.

Example C05_smoke : parse_pattern_fields [77;65;74;79;82;46;77;73;78;79;82]%N = Some [n_major; n_minor].
Proof. vm_compute. reflexivity. Qed.
Print Assumptions C05_smoke.
