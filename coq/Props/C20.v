(* C20 -- legacy {...} patterns render, read back and increase consistently. (theorems are added as they are proved) *)
From Coq Require Import List NArith.
From BV Require Import Lib.PyStr Model.V2 Model.V1 Model.CliAll.
Import ListNotations.
Example C20_dispatch_pycalver : has_v1_part [123;112;121;99;97;108;118;101;114;125]%N = true.
Proof. vm_compute. reflexivity. Qed.
Print Assumptions C20_dispatch_pycalver.
