(* C20 -- legacy {...} patterns render, read back and increase consistently. *)
From Coq Require Import List Bool NArith ZArith.
From BV Require Import Lib.PyStr Model.V2 Model.Cli Model.V1 Model.CliAll Proofs.ConfigFacts.
Import ListNotations.
Local Open Scope N_scope.

Theorem C20_str_in_brace_has_braces : forall name raw,
  str_in (brace name) raw = true -> mem_chr 123 raw = true /\ mem_chr 125 raw = true.
Proof. exact str_in_brace_has_braces. Qed.
Print Assumptions C20_str_in_brace_has_braces.

(* the two engine switches never disagree: a pattern sent to the legacy engine is never classified as new *)
Theorem C20_dispatch_consistent_v1 : forall raw, has_v1_part raw = true -> is_new_pattern raw = false.
Proof. exact dispatch_consistent_v1. Qed.
Print Assumptions C20_dispatch_consistent_v1.

Theorem C20_dispatch_consistent_v2 : forall raw, is_new_pattern raw = true -> has_v1_part raw = false.
Proof. exact dispatch_consistent_v2. Qed.
Print Assumptions C20_dispatch_consistent_v2.

(* pycalver semver year month dom doy quarter build_no release MAJOR MINOR PATCH pep440_pycalver pep440_version *)
Theorem C20_repo_v1_parts_known :
  forallb (fun p => existsb (eqb_str p) v1_parts)
    [ [112;121;99;97;108;118;101;114]; [115;101;109;118;101;114]; [121;101;97;114]; [109;111;110;116;104]; [100;111;109]; [100;111;121];
      [113;117;97;114;116;101;114]; [98;117;105;108;100;95;110;111]; [114;101;108;101;97;115;101]; [77;65;74;79;82]; [77;73;78;79;82];
      [80;65;84;67;72]; [112;101;112;52;52;48;95;112;121;99;97;108;118;101;114]; [112;101;112;52;52;48;95;118;101;114;115;105;111;110] ] = true.
Proof. exact repo_v1_parts_known. Qed.
Print Assumptions C20_repo_v1_parts_known.

(* v201712.0033-beta under {pycalver}: parses to year 2017, quarter 4, month 12, build 0033, tag beta; renders back
   to itself; incremented on 2018-06-01 (ordinal 736845) gives v201806.0034-beta *)
Example C20_pycalver_roundtrip :
  v1_parse_version_info [118;50;48;49;55;49;50;46;48;48;51;51;45;98;101;116;97] [123;112;121;99;97;108;118;101;114;125]
    = POk (mkv1 (Some 2017%Z) (Some 4%Z) (Some 12%Z) None None None None 0%Z 0%Z 0%Z [48;48;51;51] [98;101;116;97]) /\
  v1_format_version (mkv1 (Some 2017%Z) (Some 4%Z) (Some 12%Z) None None None None 0%Z 0%Z 0%Z [48;48;51;51] [98;101;116;97])
                    [123;112;121;99;97;108;118;101;114;125]
    = Some [118;50;48;49;55;49;50;46;48;48;51;51;45;98;101;116;97] /\
  v1_incr [118;50;48;49;55;49;50;46;48;48;51;51;45;98;101;116;97] [123;112;121;99;97;108;118;101;114;125]
          (mkflags false false false None false false false) 736845%Z
    = INew [118;50;48;49;56;48;54;46;48;48;51;52;45;98;101;116;97].
Proof. exact pycalver_roundtrip. Qed.
Print Assumptions C20_pycalver_roundtrip.

(* 1.2.3 under {semver}: patch gives 1.2.4, minor 1.3.0, major 2.0.0, no flag leaves it unchanged *)
Example C20_semver_bump :
  v1_incr [49;46;50;46;51] [123;115;101;109;118;101;114;125] (mkflags false false true None false false false) 736845%Z = INew [49;46;50;46;52] /\
  v1_incr [49;46;50;46;51] [123;115;101;109;118;101;114;125] (mkflags false true false None false false false) 736845%Z = INew [49;46;51;46;48] /\
  v1_incr [49;46;50;46;51] [123;115;101;109;118;101;114;125] (mkflags true false false None false false false) 736845%Z = INew [50;46;48;46;48] /\
  v1_incr [49;46;50;46;51] [123;115;101;109;118;101;114;125] (mkflags false false false None false false false) 736845%Z = INone.
Proof. exact semver_bump. Qed.
Print Assumptions C20_semver_bump.

Example C20_dispatch_pycalver : has_v1_part [123;112;121;99;97;108;118;101;114;125] = true.
Proof. vm_compute. reflexivity. Qed.
Print Assumptions C20_dispatch_pycalver.
