(* C20 -- legacy {...} patterns render, read back and increase consistently. *)
From Coq Require Import List Bool NArith ZArith.
From BV Require Import Lib.PyStr Model.V2 Model.Cli Model.V1 Model.CliAll Proofs.DispatchFacts.
Import ListNotations.
Local Open Scope N_scope.

Theorem C20_str_in_brace_has_braces : forall name raw,
  str_in (brace name) raw = true -> mem_chr 123 raw = true /\ mem_chr 125 raw = true.
Proof. exact str_in_brace_has_braces. Qed.
Print Assumptions C20_str_in_brace_has_braces.

(* the two engine switches never disagree: a pattern sent to the legacy engine is never classified as new *)
Theorem C20_dispatch_consistent_v1 : forall raw, has_v1_part raw = true -> is_new_pattern raw = false.
Proof. exact dispatch_consistent_v1. Qed.
Print Assumptions C20_dispatch_consistent_v1.

Theorem C20_dispatch_consistent_v2 : forall raw, is_new_pattern raw = true -> has_v1_part raw = false.
Proof. exact dispatch_consistent_v2. Qed.
Print Assumptions C20_dispatch_consistent_v2.

(* pycalver semver year month dom doy quarter build_no release MAJOR MINOR PATCH pep440_pycalver pep440_version *)
Theorem C20_repo_v1_parts_known :
  forallb (fun p => existsb (eqb_str p) v1_parts)
    [ [112;121;99;97;108;118;101;114]; [115;101;109;118;101;114]; [121;101;97;114]; [109;111;110;116;104]; [100;111;109]; [100;111;121];
      [113;117;97;114;116;101;114]; [98;117;105;108;100;95;110;111]; [114;101;108;101;97;115;101]; [77;65;74;79;82]; [77;73;78;79;82];
      [80;65;84;67;72]; [112;101;112;52;52;48;95;112;121;99;97;108;118;101;114]; [112;101;112;52;52;48;95;118;101;114;115;105;111;110] ] = true.
Proof. exact repo_v1_parts_known. Qed.
Print Assumptions C20_repo_v1_parts_known.

(* v201712.0033-beta under {pycalver}: parses to year 2017, quarter 4, month 12, build 0033, tag beta; renders back
   to itself; incremented on 2018-06-01 (ordinal 736845) gives v201806.0034-beta *)
Example C20_pycalver_roundtrip :
  v1_parse_version_info [118;50;48;49;55;49;50;46;48;48;51;51;45;98;101;116;97] [123;112;121;99;97;108;118;101;114;125]
    = POk (mkv1 (Some 2017%Z) (Some 4%Z) (Some 12%Z) None None None None 0%Z 0%Z 0%Z [48;48;51;51] [98;101;116;97]) /\
  v1_format_version (mkv1 (Some 2017%Z) (Some 4%Z) (Some 12%Z) None None None None 0%Z 0%Z 0%Z [48;48;51;51] [98;101;116;97])
                    [123;112;121;99;97;108;118;101;114;125]
    = Some [118;50;48;49;55;49;50;46;48;48;51;51;45;98;101;116;97] /\
  v1_incr [118;50;48;49;55;49;50;46;48;48;51;51;45;98;101;116;97] [123;112;121;99;97;108;118;101;114;125]
          (mkflags false false false None false false false) 736845%Z
    = INew [118;50;48;49;56;48;54;46;48;48;51;52;45;98;101;116;97].
Proof. exact pycalver_roundtrip. Qed.
Print Assumptions C20_pycalver_roundtrip.

(* 1.2.3 under {semver}: patch gives 1.2.4, minor 1.3.0, major 2.0.0, no flag leaves it unchanged *)
Example C20_semver_bump :
  v1_incr [49;46;50;46;51] [123;115;101;109;118;101;114;125] (mkflags false false true None false false false) 736845%Z = INew [49;46;50;46;52] /\
  v1_incr [49;46;50;46;51] [123;115;101;109;118;101;114;125] (mkflags false true false None false false false) 736845%Z = INew [49;46;51;46;48] /\
  v1_incr [49;46;50;46;51] [123;115;101;109;118;101;114;125] (mkflags true false false None false false false) 736845%Z = INew [50;46;48;46;48] /\
  v1_incr [49;46;50;46;51] [123;115;101;109;118;101;114;125] (mkflags false false false None false false false) 736845%Z = INone.
Proof. exact semver_bump. Qed.
Print Assumptions C20_semver_bump.

Example C20_dispatch_pycalver : has_v1_part [123;112;121;99;97;108;118;101;114;125] = true.
Proof. vm_compute. reflexivity. Qed.
Print Assumptions C20_dispatch_pycalver.

(* ---- Proofs.V1Facts ---- *)
From Coq Require Import List Bool NArith ZArith Arith.
From BV Require Import Lib.PyStr Lib.Decimal Lib.Regex Model.V2 Model.V1 Proofs.V1Facts.
Import ListNotations.
(* semver_regex :
   v1_compile_re (v1_normalize P_semver P_semver) = Some R_semver *)
Theorem C20_semver_regex : ltac:(let t := type of semver_regex in exact t).
Proof. exact semver_regex. Qed.
Print Assumptions C20_semver_regex.

(* pycalver_regex :
   v1_compile_re (v1_normalize P_pycalver P_pycalver) = Some R_pycalver *)
Theorem C20_pycalver_regex : ltac:(let t := type of pycalver_regex in exact t).
Proof. exact pycalver_regex. Qed.
Print Assumptions C20_pycalver_regex.

(* v1_semver_render :
   forall v : v1info, (0 <= w_major v)%Z -> (0 <= w_minor v)%Z -> (0 <= w_patch v)%Z -> has_key (w_tag v) Tables.PEP440_TAG_BY_TAG = true -> v1_format_version v P_semver = Some (zdec (w_major v) ++ [46%N] ++ zdec (w_minor v) ++ [46%N] ++ zdec (w_patch v)) *)
Theorem C20_v1_semver_render : ltac:(let t := type of v1_semver_render in exact t).
Proof. exact v1_semver_render. Qed.
Print Assumptions C20_v1_semver_render.

(* v1_semver_roundtrip :
   forall ma mi pa : N, let s := dec ma ++ [46%N] ++ dec mi ++ [46%N] ++ dec pa in exists v : v1info, v1_parse_version_info s P_semver = POk v /\ w_major v = Z.of_N ma /\ w_minor v = Z.of_N mi /\ w_patch v = Z.of_N pa /\ w_tag v = s_final *)
Theorem C20_v1_semver_roundtrip : ltac:(let t := type of v1_semver_roundtrip in exact t).
Proof. exact v1_semver_roundtrip. Qed.
Print Assumptions C20_v1_semver_roundtrip.

(* v1_semver_parse_exact :
   forall ma mi pa : N, v1_parse_version_info (dec ma ++ [46%N] ++ dec mi ++ [46%N] ++ dec pa) P_semver = POk {| w_year := None; w_quarter := None; w_month := None; w_dom := None; w_doy := None; w_iso_week := None; w_us_week := None; w_major := Z.of_N ma; w_minor := Z.of_N mi; w_patch := Z.of_N pa; w_bid := [48%N; 48%N; 48%N; 49%N]; w_tag := s_final |} *)
Theorem C20_v1_semver_parse_exact : ltac:(let t := type of v1_semver_parse_exact in exact t).
Proof. exact v1_semver_parse_exact. Qed.
Print Assumptions C20_v1_semver_parse_exact.

(* v1_semver_rejects_suffix :
   forall (ma mi pa c : N) (t : list N), is_digit c = false -> v1_parse_version_info (dec ma ++ [46%N] ++ dec mi ++ [46%N] ++ dec pa ++ c :: t) P_semver = PErr *)
Theorem C20_v1_semver_rejects_suffix : ltac:(let t := type of v1_semver_rejects_suffix in exact t).
Proof. exact v1_semver_rejects_suffix. Qed.
Print Assumptions C20_v1_semver_rejects_suffix.

(* v1_semver_parse_render :
   forall ma mi pa : N, let s := dec ma ++ [46%N] ++ dec mi ++ [46%N] ++ dec pa in exists v : v1info, v1_parse_version_info s P_semver = POk v /\ v1_format_version v P_semver = Some s *)
Theorem C20_v1_semver_parse_render : ltac:(let t := type of v1_semver_parse_render in exact t).
Proof. exact v1_semver_parse_render. Qed.
Print Assumptions C20_v1_semver_parse_render.

(* v1_pycalver_roundtrip :
   forall (y m : N) (bid tag : list N), (1000 <= y <= 9999)%N -> (1 <= m <= 12)%N -> all_digits bid = true -> 4 <= length bid -> In tag v1_tags -> let s := [118%N] ++ dec y ++ pad 2 m ++ [46%N] ++ bid ++ [45%N] ++ tag in exists v : v1info, v1_parse_version_info s P_pycalver = POk v /\ w_year v = Some (Z.of_N y) /\ w_month v = Some (Z.of_N m) /\ w_bid v = bid /\ w_tag v = tag *)
Theorem C20_v1_pycalver_roundtrip : ltac:(let t := type of v1_pycalver_roundtrip in exact t).
Proof. exact v1_pycalver_roundtrip. Qed.
Print Assumptions C20_v1_pycalver_roundtrip.

(* v1_pycalver_roundtrip_final :
   forall (y m : N) (bid : list N), (1000 <= y <= 9999)%N -> (1 <= m <= 12)%N -> all_digits bid = true -> 4 <= length bid -> let s := [118%N] ++ dec y ++ pad 2 m ++ [46%N] ++ bid in exists v : v1info, v1_parse_version_info s P_pycalver = POk v /\ w_year v = Some (Z.of_N y) /\ w_month v = Some (Z.of_N m) /\ w_bid v = bid /\ w_tag v = s_final *)
Theorem C20_v1_pycalver_roundtrip_final : ltac:(let t := type of v1_pycalver_roundtrip_final in exact t).
Proof. exact v1_pycalver_roundtrip_final. Qed.
Print Assumptions C20_v1_pycalver_roundtrip_final.

(* v1_pycalver_parse_exact :
   forall (y m : N) (bid : list N) (otag : option (list N)), (1000 <= y <= 9999)%N -> (1 <= m <= 12)%N -> all_digits bid = true -> 4 <= length bid -> match otag with | Some t => In t (v1_tags ++ [s_final]) | None => True end -> v1_parse_version_info ([118%N] ++ dec y ++ pad 2 m ++ [46%N] ++ bid ++ match otag with | Some t => [45%N] ++ t | None => [] end) P_pycalver = POk {| w_year := Some (Z.of_N y); w_quarter := Some (Calendar.quarter_from_month (Z.of_N m)); w_month := Some (Z.of_N m); w_dom := None; w_doy := None; w_iso_week := None; w_us_week := None; w_major := 0; w_minor := 0; w_patch := 0; w_bid := bid; w_tag := match otag with | Some t => t | None => s_final end |} *)
Theorem C20_v1_pycalver_parse_exact : ltac:(let t := type of v1_pycalver_parse_exact in exact t).
Proof. exact v1_pycalver_parse_exact. Qed.
Print Assumptions C20_v1_pycalver_parse_exact.

(* v1_pycalver_rejects_suffix :
   forall (y m : N) (bid tag : list N) (c : N) (t : list N), (1000 <= y <= 9999)%N -> (1 <= m <= 12)%N -> all_digits bid = true -> 4 <= length bid -> In tag v1_tags -> v1_parse_version_info ([118%N] ++ dec y ++ pad 2 m ++ [46%N] ++ bid ++ [45%N] ++ tag ++ c :: t) P_pycalver = PErr *)
Theorem C20_v1_pycalver_rejects_suffix : ltac:(let t := type of v1_pycalver_rejects_suffix in exact t).
Proof. exact v1_pycalver_rejects_suffix. Qed.
Print Assumptions C20_v1_pycalver_rejects_suffix.

(* v1_pycalver_render :
   forall (v : v1info) (y m : N), w_year v = Some (Z.of_N y) -> w_month v = Some (Z.of_N m) -> has_key (w_tag v) Tables.PEP440_TAG_BY_TAG = true -> v1_format_version v P_pycalver = Some ([118%N] ++ dec y ++ pad 2 m ++ [46%N] ++ w_bid v ++ (if eqb_str (w_tag v) s_final then [] else [45%N] ++ w_tag v)) *)
Theorem C20_v1_pycalver_render : ltac:(let t := type of v1_pycalver_render in exact t).
Proof. exact v1_pycalver_render. Qed.
Print Assumptions C20_v1_pycalver_render.

(* v1_pycalver_parse_render :
   forall (y m : N) (bid tag : list N), (1000 <= y <= 9999)%N -> (1 <= m <= 12)%N -> all_digits bid = true -> 4 <= length bid -> In tag v1_tags -> let s := [118%N] ++ dec y ++ pad 2 m ++ [46%N] ++ bid ++ [45%N] ++ tag in exists v : v1info, v1_parse_version_info s P_pycalver = POk v /\ v1_format_version v P_pycalver = Some s *)
Theorem C20_v1_pycalver_parse_render : ltac:(let t := type of v1_pycalver_parse_render in exact t).
Proof. exact v1_pycalver_parse_render. Qed.
Print Assumptions C20_v1_pycalver_parse_render.

(* v1_pycalver_parse_render_final :
   forall (y m : N) (bid : list N), (1000 <= y <= 9999)%N -> (1 <= m <= 12)%N -> all_digits bid = true -> 4 <= length bid -> let s := [118%N] ++ dec y ++ pad 2 m ++ [46%N] ++ bid in exists v : v1info, v1_parse_version_info s P_pycalver = POk v /\ v1_format_version v P_pycalver = Some s *)
Theorem C20_v1_pycalver_parse_render_final : ltac:(let t := type of v1_pycalver_parse_render_final in exact t).
Proof. exact v1_pycalver_parse_render_final. Qed.
Print Assumptions C20_v1_pycalver_parse_render_final.

(* ---- the derived {pep440_version} pattern of every mapped legacy version pattern is its systematic conversion ---- *)
From Coq Require Import Strings.String.
From BV Require Import Lib.PyStr Lib.StrLit Gen.Tables Proofs.V1MapFacts.
Local Open Scope string_scope.
Theorem C20_repo_v1_pep440_mapping_systematic :
  forallb (fun '(vp, repl) => eqb_str (v1_pep440_of vp) repl) V1_PEP440_MAPPING = true
  /\ map fst V1_PEP440_MAPPING = lits ["{pycalver}"; "{semver}"; "v{year}{month}{build}{release}"; "{year}{month}{build}{release}";
                                         "v{year}{build}{release}"; "{year}{build}{release}"].
Proof. exact repo_v1_pep440_mapping_systematic. Qed.
Print Assumptions C20_repo_v1_pep440_mapping_systematic.

(* ---- Proofs.V1E2E ---- *)
From Coq Require Import List Bool NArith ZArith Arith.
From BV Require Import Lib.PyStr Lib.Decimal Lib.Calendar Model.V2 Model.Pep440 Model.Cli Model.V1 Model.CliAll Model.Lexid Proofs.DottedFacts Proofs.V1E2E.
Import ListNotations.
(* v1_semver_e2e :
   forall (today : Z) (fl : flags) (a b c : N) (d : option Z), SE.only_part_flags fl -> one_part_flag fl = true -> let new := dotted (if f_major fl then [(a + 1)%N; 0%N; 0%N] else if f_minor fl then [a; (b + 1)%N; 0%N] else [a; b; (c + 1)%N]) in test_cmd today (dotted [a; b; c]) V1Facts.P_semver fl (option_map Some d) None = Exit0 new (to_pep440 new) /\ to_pep440 new = new /\ ver_lt (dotted [a; b; c]) new = true /\ new = dotted (SE.semver_next fl a b c) *)
Theorem C20_v1_semver_e2e : ltac:(let t := type of v1_semver_e2e in exact t).
Proof. exact v1_semver_e2e. Qed.
Print Assumptions C20_v1_semver_e2e.

(* v1_semver_test_cmd :
   forall (today : Z) (fl : flags) (a b c : N) (d : option Z), SE.only_part_flags fl -> part_flag fl = true -> let new := dotted (sv1_next fl a b c) in test_cmd today (dotted [a; b; c]) V1Facts.P_semver fl (option_map Some d) None = Exit0 new (to_pep440 new) /\ to_pep440 new = new /\ ver_lt (dotted [a; b; c]) new = true *)
Theorem C20_v1_semver_test_cmd : ltac:(let t := type of v1_semver_test_cmd in exact t).
Proof. exact v1_semver_test_cmd. Qed.
Print Assumptions C20_v1_semver_test_cmd.

(* v1_semver_noflag :
   forall (today : Z) (fl : flags) (a b c : N) (d : option Z), SE.only_part_flags fl -> part_flag fl = false -> test_cmd today (dotted [a; b; c]) V1Facts.P_semver fl (option_map Some d) None = ExitErr *)
Theorem C20_v1_semver_noflag : ltac:(let t := type of v1_semver_noflag in exact t).
Proof. exact v1_semver_noflag. Qed.
Print Assumptions C20_v1_semver_noflag.

(* v1_pycalver_e2e :
   forall (today date : Z) (fl : flags) (ft : option (option ST.ptag)) (y m : N) (bid : list N) (T : option ST.ptag), (1000 <= y <= 9999)%N -> (1 <= m <= 12)%N -> all_digits bid = true -> 4 <= length bid -> (0 <= date <= MAX_ORD)%Z -> pyc_flags fl ft -> let T' := next_tag ft T in test_cmd today (pyc y m bid T) V1Facts.P_pycalver fl (Some (Some date)) None = match next_id bid with | Some b' => Exit0 (pyc_next y m b' T' date) (to_pep440 (pyc_next y m b' T' date)) | None => ExitErr end /\ (next_id bid = None <-> LexidFacts.all_nines bid = true) /\ (forall b' : list N, next_id bid = Some b' -> let new := pyc_next y m b' T' date in v1_parse_version_info (pyc y m bid T) V1Facts.P_pycalver = POk (pyc_info (Z.of_N y) (Z.of_N m) bid T) /\ v1_format_version (pyc_info (Z.of_N y) (Z.of_N m) bid T) V1Facts.P_pycalver = Some (pyc y m bid T) /\ v1_incr (pyc y m bid T) V1Facts.P_pycalver fl date = INew new /\ ver_lt (pyc y m bid T) new = true /\ (undec bid < undec b')%N /\ all_digits b' = true /\ length bid <= length b' /\ (exists y' m' : N, new = pyc y' m' b' T' /\ (1000 <= y' <= 9999)%N /\ (1 <= m' <= 12)%N /\ (y * 100 + m <= y' * 100 + m')%N /\ (y' = y /\ m' = m \/ y' = Z.to_N (year_y (cal_of date)) /\ m' = Z.to_N (month (cal_of date))) /\ to_pep440 new = dotted [(y' * 100 + m')%N; undec b'] ++ pep_suffix T')) *)
Theorem C20_v1_pycalver_e2e : ltac:(let t := type of v1_pycalver_e2e in exact t).
Proof. exact v1_pycalver_e2e. Qed.
Print Assumptions C20_v1_pycalver_e2e.

(* v1_pycalver_test_cmd :
   forall (today date : Z) (fl : flags) (ft : option (option ST.ptag)) (y m : N) (bid b' : list N) (T : option ST.ptag), (1000 <= y <= 9999)%N -> (1 <= m <= 12)%N -> all_digits bid = true -> 4 <= length bid -> (0 <= date <= MAX_ORD)%Z -> pyc_flags fl ft -> next_id bid = Some b' -> let new := pyc_next y m b' (next_tag ft T) date in test_cmd today (pyc y m bid T) V1Facts.P_pycalver fl (Some (Some date)) None = Exit0 new (to_pep440 new) /\ ver_lt (pyc y m bid T) new = true *)
Theorem C20_v1_pycalver_test_cmd : ltac:(let t := type of v1_pycalver_test_cmd in exact t).
Proof. exact v1_pycalver_test_cmd. Qed.
Print Assumptions C20_v1_pycalver_test_cmd.

(* v1_pycalver_overflow :
   forall (today date : Z) (fl : flags) (ft : option (option ST.ptag)) (y m : N) (bid : list N) (T : option ST.ptag), (1000 <= y <= 9999)%N -> (1 <= m <= 12)%N -> all_digits bid = true -> 4 <= length bid -> pyc_flags fl ft -> LexidFacts.all_nines bid = true -> test_cmd today (pyc y m bid T) V1Facts.P_pycalver fl (Some (Some date)) None = ExitErr *)
Theorem C20_v1_pycalver_overflow : ltac:(let t := type of v1_pycalver_overflow in exact t).
Proof. exact v1_pycalver_overflow. Qed.
Print Assumptions C20_v1_pycalver_overflow.

(* v1_pycalver_tag :
   forall (today date : Z) (Tf : option ST.ptag) (y m : N) (bid b' : list N) (T : option ST.ptag), (1000 <= y <= 9999)%N -> (1 <= m <= 12)%N -> all_digits bid = true -> 4 <= length bid -> (0 <= date <= MAX_ORD)%Z -> next_id bid = Some b' -> let new := pyc_next y m b' Tf date in test_cmd today (pyc y m bid T) V1Facts.P_pycalver {| f_major := false; f_minor := false; f_patch := false; f_tag := Some (ST.ltext Tf); f_tag_num := false; f_pin_increments := false; f_pin_date := false |} (Some (Some date)) None = Exit0 new (to_pep440 new) /\ ver_lt (pyc y m bid T) new = true *)
Theorem C20_v1_pycalver_tag : ltac:(let t := type of v1_pycalver_tag in exact t).
Proof. exact v1_pycalver_tag. Qed.
Print Assumptions C20_v1_pycalver_tag.

(* v1_pycalver_pin_date :
   forall (today : Z) (fl : flags) (ft : option (option ST.ptag)) (y m : N) (bid b' : list N) (T : option ST.ptag), (1000 <= y <= 9999)%N -> (1 <= m <= 12)%N -> all_digits bid = true -> 4 <= length bid -> f_tag fl = option_map ST.ltext ft -> f_tag_num fl = false -> f_pin_date fl = true -> next_id bid = Some b' -> let new := pyc y m b' (next_tag ft T) in test_cmd today (pyc y m bid T) V1Facts.P_pycalver fl None None = Exit0 new (to_pep440 new) /\ ver_lt (pyc y m bid T) new = true /\ (forall d : option Z, test_cmd today (pyc y m bid T) V1Facts.P_pycalver fl (Some d) None = ExitErr) *)
Theorem C20_v1_pycalver_pin_date : ltac:(let t := type of v1_pycalver_pin_date in exact t).
Proof. exact v1_pycalver_pin_date. Qed.
Print Assumptions C20_v1_pycalver_pin_date.

(* pyc_flags_complete :
   forall fl : flags, f_tag_num fl = false -> f_pin_date fl = false -> validate_release_tag (f_tag fl) = true -> exists ft : option (option ST.ptag), pyc_flags fl ft *)
Theorem C20_pyc_flags_complete : ltac:(let t := type of pyc_flags_complete in exact t).
Proof. exact pyc_flags_complete. Qed.
Print Assumptions C20_pyc_flags_complete.

(* to_pep440_pyc :
   forall (y m : N) (bid : list N) (T : option ST.ptag), (m <= 12)%N -> all_digits bid = true -> bid <> [] -> to_pep440 (pyc y m bid T) = dotted [(y * 100 + m)%N; undec bid] ++ pep_suffix T *)
Theorem C20_to_pep440_pyc : ltac:(let t := type of to_pep440_pyc in exact t).
Proof. exact to_pep440_pyc. Qed.
Print Assumptions C20_to_pep440_pyc.
