(* C04 -- the rewrite changes nothing but the matched spans: line separators, untouched lines, the text
   around a match and the newline / encoding handling of open() are preserved.
   Statements only; the proofs are in Proofs/RewriteFacts.v. *)
From Coq Require Import List Bool NArith Arith.
From BV Require Import Lib.PyStr Gen.Tables Model.Rewrite Model.Files Proofs.RewriteFacts Proofs.OpenCallsFacts.
Import ListNotations.

Theorem C04_detect_split_join : forall content,
  join (detect_line_sep content) (ssplit (detect_line_sep content) content) = content.
Proof. exact detect_split_join. Qed.
Print Assumptions C04_detect_split_join.

Theorem C04_join_ssplit : forall sep s, sep <> [] -> join sep (ssplit sep s) = s.
Proof. exact join_ssplit. Qed.
Print Assumptions C04_join_ssplit.

(* only spans change *)
Theorem C04_apply_matches_spec : forall ms lines, ForallOrdPairs separated ms ->
  (forall m, In m ms -> (pm_start m <= pm_end m)%nat /\ (pm_line m < length lines)%nat /\
                        (pm_end m <= length (nth (pm_line m) lines []))%nat) ->
  length (apply_matches ms lines) = length lines /\
  forall i, (i < length lines)%nat ->
    nth i (apply_matches ms lines) [] = replace_spans (nth i lines []) 0 (spans_on ms i).
Proof. exact apply_matches_spec. Qed.
Print Assumptions C04_apply_matches_spec.

Theorem C04_untouched_lines_unchanged : forall ms lines, ForallOrdPairs separated ms ->
  (forall m, In m ms -> (pm_start m <= pm_end m)%nat /\ (pm_line m < length lines)%nat /\
                        (pm_end m <= length (nth (pm_line m) lines []))%nat) ->
  forall i, (forall m, In m ms -> pm_line m <> i) -> nth i (apply_matches ms lines) [] = nth i lines [].
Proof. exact untouched_lines_unchanged. Qed.
Print Assumptions C04_untouched_lines_unchanged.

Theorem C04_newline_empty_transparent : forall linesep s, write_translate NlEmpty linesep (read_translate NlEmpty s) = s.
Proof. exact newline_empty_transparent. Qed.
Print Assumptions C04_newline_empty_transparent.

Theorem C04_universal_newlines_not_transparent : exists linesep s,
  write_translate NlUniversal linesep (read_translate NlUniversal s) <> s.
Proof. exact universal_newlines_not_transparent. Qed.
Print Assumptions C04_universal_newlines_not_transparent.

Theorem C04_repo_open_calls_transparent : forallb call_transparent OPEN_CALLS = true.
Proof. exact repo_open_calls_transparent. Qed.
Print Assumptions C04_repo_open_calls_transparent.

Theorem C04_repo_io_identity : forall c_r c_w locale linesep s, In c_r OPEN_CALLS -> In c_w OPEN_CALLS ->
   write_translate (call_newline c_w) linesep (read_translate (call_newline c_r) s) = s
   /\ effective_encoding (call_encoding c_r) locale = s_utf8 /\ effective_encoding (call_encoding c_w) locale = s_utf8.
Proof. exact repo_io_identity. Qed.
Print Assumptions C04_repo_io_identity.

Theorem C04_eager_ok_writes_all : forall fs items es,
  rewrite_files_eager fs items = (FilesOk, es) -> map fst (writes es) = map fst items.
Proof. exact eager_ok_writes_all. Qed.
Print Assumptions C04_eager_ok_writes_all.

(* ---- Proofs.RewriteOccFacts ---- *)
From Coq Require Import List Bool NArith ZArith Arith.
From BV Require Import Lib.PyStr Model.Rewrite Proofs.RewriteFacts Proofs.RewriteOccFacts.
Import ListNotations.
Theorem C04_replace_spans_length : forall (spans : list span) (line : list N) (off : nat), spans_wf off (length line) spans -> length (replace_spans line off spans) + sum_cut spans = length line + sum_repl spans.
Proof. exact replace_spans_length. Qed.
Print Assumptions C04_replace_spans_length.

Theorem C04_replace_spans_same_pointwise : forall (spans : list span) (line : list N) (off : nat), spans_wf off (length line) spans -> (forall (a b : nat) (r : list N), In (a, b, r) spans -> r = firstn (b - a) (skipn (a - off) line)) -> replace_spans line off spans = line.
Proof. exact replace_spans_same_pointwise. Qed.
Print Assumptions C04_replace_spans_same_pointwise.

Theorem C04_replace_spans_decompose : forall (s1 : list (nat * nat * list N)) (line : list N) (off a b : nat) (r : list N) (s2 : list (nat * nat * list N)), spans_wf off (length line) (s1 ++ (a, b, r) :: s2) -> replace_spans line off (s1 ++ (a, b, r) :: s2) = replace_spans (firstn (a - off) line) off s1 ++ r ++ replace_spans (skipn (b - off) line) b s2.
Proof. exact replace_spans_decompose. Qed.
Print Assumptions C04_replace_spans_decompose.

Theorem C04_rewrite_lines_prefix_kept : forall (pats : list cpat) (lines nl : list (list N)), (forall p : cpat, In p pats -> span_ok p) -> rewrite_lines pats lines = RwOk nl -> forall i : nat, i < length lines -> forall (a b : nat) (r : list N) (t : list (nat * nat * list N)), spans_on (iter_matches lines pats) i = (a, b, r) :: t -> firstn a (nth i nl []) = firstn a (nth i lines []).
Proof. exact rewrite_lines_prefix_kept. Qed.
Print Assumptions C04_rewrite_lines_prefix_kept.

Theorem C04_rewrite_lines_suffix_kept : forall (pats : list cpat) (lines nl : list (list N)), (forall p : cpat, In p pats -> span_ok p) -> rewrite_lines pats lines = RwOk nl -> forall i : nat, i < length lines -> forall (s1 : list (nat * nat * list N)) (a b : nat) (r : list N), spans_on (iter_matches lines pats) i = s1 ++ [(a, b, r)] -> skipn (length (nth i nl []) - (length (nth i lines []) - b)) (nth i nl []) = skipn b (nth i lines []).
Proof. exact rewrite_lines_suffix_kept. Qed.
Print Assumptions C04_rewrite_lines_suffix_kept.

Theorem C04_rewrite_lines_line_length : forall (pats : list cpat) (lines nl : list (list N)), (forall p : cpat, In p pats -> span_ok p) -> rewrite_lines pats lines = RwOk nl -> forall i : nat, i < length lines -> let sp := spans_on (iter_matches lines pats) i in length (nth i nl []) + sum_cut sp = length (nth i lines []) + sum_repl sp.
Proof. exact rewrite_lines_line_length. Qed.
Print Assumptions C04_rewrite_lines_line_length.

Theorem C04_rewrite_lines_same_text_identity : forall (pats : list cpat) (lines nl : list (list N)), (forall p : cpat, In p pats -> span_ok p) -> rewrite_lines pats lines = RwOk nl -> (forall m : pmatch, In m (iter_matches lines pats) -> cp_repl (pm_pat m) = firstn (pm_end m - pm_start m) (skipn (pm_start m) (nth (pm_line m) lines []))) -> nl = lines.
Proof. exact rewrite_lines_same_text_identity. Qed.
Print Assumptions C04_rewrite_lines_same_text_identity.

Theorem C04_ex_identity : let ms := iter_matches [ex_line] [ex_same] in ms <> [] /\ forallb (fun m : pmatch => eqb_str (cp_repl (pm_pat m)) (firstn (pm_end m - pm_start m) (skipn (pm_start m) (nth (pm_line m) [ex_line] [])))) ms = true /\ rewrite_lines [ex_same] [ex_line] = RwOk [ex_line].
Proof. exact ex_identity. Qed.
Print Assumptions C04_ex_identity.
