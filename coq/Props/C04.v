(* C04 -- theorems are added as they are proved *)
From Coq Require Import List NArith.
From BV Require Import Lib.PyStr Model.Rewrite Model.Files.
Import ListNotations.
Example C04_smoke : detect_line_sep [97;13;98]%N = [13]%N.
Proof. vm_compute. reflexivity. Qed.
Print Assumptions C04_smoke.
