(* C04 -- the rewrite changes nothing but the matched spans: line separators, untouched lines, the text
   around a match and the newline / encoding handling of open() are preserved.
   Statements only; the proofs are in Proofs/RewriteFacts.v. *)
From Coq Require Import List Bool NArith Arith.
From BV Require Import Lib.PyStr Gen.Tables Model.Rewrite Model.Files Proofs.RewriteFacts Proofs.OpenCallsFacts.
Import ListNotations.

Theorem C04_detect_split_join : forall content,
  join (detect_line_sep content) (ssplit (detect_line_sep content) content) = content.
Proof. exact detect_split_join. Qed.
Print Assumptions C04_detect_split_join.

Theorem C04_join_ssplit : forall sep s, sep <> [] -> join sep (ssplit sep s) = s.
Proof. exact join_ssplit. Qed.
Print Assumptions C04_join_ssplit.

(* only spans change *)
Theorem C04_apply_matches_spec : forall ms lines, ForallOrdPairs separated ms ->
  (forall m, In m ms -> (pm_start m <= pm_end m)%nat /\ (pm_line m < length lines)%nat /\
                        (pm_end m <= length (nth (pm_line m) lines []))%nat) ->
  length (apply_matches ms lines) = length lines /\
  forall i, (i < length lines)%nat ->
    nth i (apply_matches ms lines) [] = replace_spans (nth i lines []) 0 (spans_on ms i).
Proof. exact apply_matches_spec. Qed.
Print Assumptions C04_apply_matches_spec.

Theorem C04_untouched_lines_unchanged : forall ms lines, ForallOrdPairs separated ms ->
  (forall m, In m ms -> (pm_start m <= pm_end m)%nat /\ (pm_line m < length lines)%nat /\
                        (pm_end m <= length (nth (pm_line m) lines []))%nat) ->
  forall i, (forall m, In m ms -> pm_line m <> i) -> nth i (apply_matches ms lines) [] = nth i lines [].
Proof. exact untouched_lines_unchanged. Qed.
Print Assumptions C04_untouched_lines_unchanged.

Theorem C04_newline_empty_transparent : forall linesep s, write_translate NlEmpty linesep (read_translate NlEmpty s) = s.
Proof. exact newline_empty_transparent. Qed.
Print Assumptions C04_newline_empty_transparent.

Theorem C04_universal_newlines_not_transparent : exists linesep s,
  write_translate NlUniversal linesep (read_translate NlUniversal s) <> s.
Proof. exact universal_newlines_not_transparent. Qed.
Print Assumptions C04_universal_newlines_not_transparent.

Theorem C04_repo_open_calls_transparent : forallb call_transparent OPEN_CALLS = true.
Proof. exact repo_open_calls_transparent. Qed.
Print Assumptions C04_repo_open_calls_transparent.

Theorem C04_repo_io_identity : forall c_r c_w locale linesep s, In c_r OPEN_CALLS -> In c_w OPEN_CALLS ->
   write_translate (call_newline c_w) linesep (read_translate (call_newline c_r) s) = s
   /\ effective_encoding (call_encoding c_r) locale = s_utf8 /\ effective_encoding (call_encoding c_w) locale = s_utf8.
Proof. exact repo_io_identity. Qed.
Print Assumptions C04_repo_io_identity.

Theorem C04_eager_ok_writes_all : forall fs items es,
  rewrite_files_eager fs items = (FilesOk, es) -> map fst (writes es) = map fst items.
Proof. exact eager_ok_writes_all. Qed.
Print Assumptions C04_eager_ok_writes_all.
