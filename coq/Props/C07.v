(* C07 -- literal pattern text matches only itself.
   Proofs are in Proofs/LiteralFacts.v; this file only restates them.
   plain s   : printable ASCII without upper-case letters and without [ ] \ ^ $
   lit_e s   : the literal regex (Lib.Regex.lit s)
   The last two Examples are refutation witnesses for text outside that class. *)
From Coq Require Import List Bool NArith Arith.
From BV Require Import Lib.PyStr Lib.Regex Lib.RegexParse Gen.Tables Model.V2 Proofs.LiteralFacts.
Import ListNotations.
Local Open Scope N_scope.

Theorem C07_repo_escape_table_shape :
  forallb (fun '(c, e) => match c with [x] => eqb_str e [92; x] | _ => false end) RE_PATTERN_ESCAPES = true
  /\ NoDup (map fst RE_PATTERN_ESCAPES).
Proof. exact repo_escape_table_shape. Qed.
Print Assumptions C07_repo_escape_table_shape.

Theorem C07_repo_escapes_cover_metachars :
  forallb (fun c => has_key [c] RE_PATTERN_ESCAPES) [92;45;46;43;42;63;123;125;91;93;40;41;124] = true.
Proof. exact repo_escapes_cover_metachars. Qed.
Print Assumptions C07_repo_escapes_cover_metachars.

Theorem C07_escape_is_charwise : forall s, plain s = true -> escape_pattern s = flat_map escaped_chr s.
Proof. exact escape_is_charwise. Qed.
Print Assumptions C07_escape_is_charwise.

Theorem C07_no_part_in_plain : forall s, plain s = true ->
  iter_part_patterns (replace_brackets (escape_pattern s)) = [].
Proof. exact no_part_in_plain. Qed.
Print Assumptions C07_no_part_in_plain.

Theorem C07_plain_compiles_to_itself_escaped : forall s, plain s = true ->
  compile_pattern_str s = flat_map escaped_chr s.
Proof. exact plain_compiles_to_itself_escaped. Qed.
Print Assumptions C07_plain_compiles_to_itself_escaped.

Theorem C07_plain_compiles_to_literal : forall s, plain s = true ->
  parse_re (compile_pattern_str s) = Some (lit_e s).
Proof. exact plain_compiles_to_literal. Qed.
Print Assumptions C07_plain_compiles_to_literal.

Theorem C07_plain_compile_pattern_re : forall s, plain s = true -> compile_pattern_re s = Some (lit_e s).
Proof. exact plain_compile_pattern_re. Qed.
Print Assumptions C07_plain_compile_pattern_re.

Theorem C07_first_match_lit : forall s f n0 x,
  first_match f n0 (lit_e s) x = if prefixb s x then Some ([], skipn (length s) x) else None.
Proof. exact first_match_lit. Qed.
Print Assumptions C07_first_match_lit.

Theorem C07_search_span_lit : forall s line,
  search_span (lit_e s) line =
  match sfind s line with Some i => Some (i, (i + length s)%nat, s) | None => None end.
Proof. exact search_span_lit. Qed.
Print Assumptions C07_search_span_lit.

Theorem C07_literal_search_iff_contains : forall s line, plain s = true -> s <> [] ->
  ((exists a b t, search_span (lit_e s) line = Some (a, b, t)) <-> str_in s line = true)
  /\ (forall a b t, search_span (lit_e s) line = Some (a, b, t) ->
        t = s /\ firstn (b - a) (skipn a line) = s).
Proof. exact literal_search_iff_contains. Qed.
Print Assumptions C07_literal_search_iff_contains.

Example C07_pipe_is_literal : compile_pattern_str [97; 124; 98] = [97; 92; 124; 98].
Proof. exact pipe_is_literal. Qed.
Print Assumptions C07_pipe_is_literal.

Example C07_caret_mid_is_anchor :
  compile_pattern_str [120; 94; 121] = [120; 94; 121]
  /\ compile_pattern_re [120; 94; 121] = Some (Cat (chr_re 120) (Cat Bol (Cat (chr_re 121) Eps)))
  /\ search_span (Cat (chr_re 120) (Cat Bol (Cat (chr_re 121) Eps))) [120; 94; 121] = None.
Proof. exact caret_mid_is_anchor. Qed.
Print Assumptions C07_caret_mid_is_anchor.

Example C07_backslash_d_is_class :
  compile_pattern_re [97; 92; 100; 98] = Some (Cat (chr_re 97) (Cat digit_re (Cat (chr_re 98) Eps)))
  /\ search_span (Cat (chr_re 97) (Cat digit_re (Cat (chr_re 98) Eps))) [97; 53; 98] = Some (0%nat, 3%nat, [97; 53; 98])
  /\ search_span (Cat (chr_re 97) (Cat digit_re (Cat (chr_re 98) Eps))) [97; 92; 100; 98] = None.
Proof. exact backslash_d_is_class. Qed.
Print Assumptions C07_backslash_d_is_class.
