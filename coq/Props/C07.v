(* C07 -- literal pattern text matches only itself. (theorems are added as they are proved) *)
From Coq Require Import List NArith.
From BV Require Import Lib.PyStr Lib.Regex Lib.RegexParse Model.V2.
Import ListNotations.
Example C07_pipe_is_literal : compile_pattern_str [97;124;98]%N = [97;92;124;98]%N.
Proof. vm_compute. reflexivity. Qed.
Print Assumptions C07_pipe_is_literal.
