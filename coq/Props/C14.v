(* C14 -- calendar parts: coherent pairings (year with quarter/month/day/day-of-year/%W/%U, ISO year
   with ISO week) never run backwards as days go by; the rejected pairings (%Y with %V, %G with %W/%U) do. *)
From Coq Require Import ZArith List Bool.
From BV Require Import Lib.Calendar Model.CalKeys Proofs.CalendarFacts.
Import ListNotations.
Local Open Scope Z_scope.

Theorem C14_cal_periodic : forall n, cal_of (n + ERA) = shift400 (cal_of n).
Proof. exact cal_periodic. Qed.
Print Assumptions C14_cal_periodic.

Theorem C14_coherent_step : forall k, In k coherent_keys -> forall n, 0 <= n ->
  lex_le (key k (cal_of n)) (key k (cal_of (n + 1))) = true.
Proof. exact coherent_step. Qed.
Print Assumptions C14_coherent_step.

Theorem C14_coherent_mono : forall k, In k coherent_keys -> forall n m, 0 <= n <= m ->
  lex_le (key k (cal_of n)) (key k (cal_of m)) = true.
Proof. exact coherent_mono. Qed.
Print Assumptions C14_coherent_mono.

Theorem C14_full_tuple_strict : forall n, 0 <= n ->
  lex_lt (cal_fields (cal_of n)) (cal_fields (cal_of (n + 1))) = true.
Proof. exact full_tuple_strict. Qed.
Print Assumptions C14_full_tuple_strict.

Theorem C14_full_tuple_mono : forall n m, 0 <= n < m ->
  lex_lt (cal_fields (cal_of n)) (cal_fields (cal_of m)) = true.
Proof. exact full_tuple_mono. Qed.
Print Assumptions C14_full_tuple_mono.

Theorem C14_rejected_nonmono : forall k, In k rejected_keys ->
  exists n, 0 <= n /\ lex_le (key k (cal_of n)) (key k (cal_of (n + 1))) = false.
Proof. exact rejected_nonmono. Qed.
Print Assumptions C14_rejected_nonmono.

Theorem C14_coherent_mono_2digit : forall k, In k coherent_keys -> forall n m,
  ORD_2001_01_01 <= n <= m -> m <= ORD_2099_12_31 ->
  lex_le (key2 k (cal_of n)) (key2 k (cal_of m)) = true.
Proof. exact coherent_mono_2digit. Qed.
Print Assumptions C14_coherent_mono_2digit.

Theorem C14_cal_ranges : forall n, 0 <= n -> cal_in_range (cal_of n) = true.
Proof. exact cal_ranges. Qed.
Print Assumptions C14_cal_ranges.

Theorem C14_ord_of_civil : forall n, 0 <= n <= MAX_ORD ->
  let '(y, m, d) := civil n in ord_of_ymd y m d = Some n.
Proof. exact ord_of_civil. Qed.
Print Assumptions C14_ord_of_civil.

Theorem C14_cal_of_ord : forall y m d n, ord_of_ymd y m d = Some n ->
  year_y (cal_of n) = y /\ month (cal_of n) = m /\ dom (cal_of n) = d.
Proof. exact cal_of_ord. Qed.
Print Assumptions C14_cal_of_ord.

(* Concrete instances (ordinal = datetime.date.toordinal() - 1):
   737057 = 2018-12-30 (Sun), 737058 = 2018-12-31 (Mon), 737059 = 2019-01-01 (Tue). *)
Example C14_dates :
  cal_of 737057 = mkcal 2018 2018 4 12 30 364 52 52 52 /\
  cal_of 737058 = mkcal 2018 2019 4 12 31 365 53 52 1 /\
  cal_of 737059 = mkcal 2019 2019 1 1 1 1 0 0 1 /\
  cal_of 737483 = mkcal 2020 2020 1 2 29 60 8 8 9 /\          (* 2020-02-29 *)
  cal_of 766643 = mkcal 2099 2099 4 12 31 365 52 52 53 /\     (* 2099-12-31 *)
  cal_of MAX_ORD = mkcal 9999 9999 4 12 31 365 52 52 52.      (* 9999-12-31 *)
Proof. vm_compute. repeat split. Qed.

(* %Y with %W does not decrease over the ISO year boundary, %Y with %V does (2018 w52 -> 2018 w01) *)
Example C14_yw_vs_yv :
  key [FY; FW] (cal_of 737057) = [2018; 52] /\ key [FY; FW] (cal_of 737058) = [2018; 53] /\
  lex_le (key [FY; FW] (cal_of 737057)) (key [FY; FW] (cal_of 737058)) = true /\
  key [FY; FV] (cal_of 737057) = [2018; 52] /\ key [FY; FV] (cal_of 737058) = [2018; 1] /\
  lex_le (key [FY; FV] (cal_of 737057)) (key [FY; FV] (cal_of 737058)) = false /\
  (* the ISO pairing is fine over the same days: (2018, 52) <= (2019, 1) *)
  lex_le (key [FG; FV] (cal_of 737057)) (key [FG; FV] (cal_of 737058)) = true.
Proof. vm_compute. repeat split. Qed.

(* %G with %W / %U runs backwards over New Year: (2019, 53) -> (2019, 0), (2019, 52) -> (2019, 0) *)
Example C14_gw_gu :
  key [FG; FW] (cal_of 737058) = [2019; 53] /\ key [FG; FW] (cal_of 737059) = [2019; 0] /\
  lex_le (key [FG; FW] (cal_of 737058)) (key [FG; FW] (cal_of 737059)) = false /\
  key [FG; FU] (cal_of 737058) = [2019; 52] /\ key [FG; FU] (cal_of 737059) = [2019; 0] /\
  lex_le (key [FG; FU] (cal_of 737058)) (key [FG; FU] (cal_of 737059)) = false /\
  lex_le (key [FY; FW] (cal_of 737058)) (key [FY; FW] (cal_of 737059)) = true /\
  lex_le (key [FY; FU] (cal_of 737058)) (key [FY; FU] (cal_of 737059)) = true.
Proof. vm_compute. repeat split. Qed.

(* two-digit years: fine inside a century, backwards across it (2099-12-31 -> 2100-01-01: 99 -> 0) *)
Example C14_two_digit_wrap :
  lex_le (key2 [FY; FM; FD] (cal_of 766643)) (key2 [FY; FM; FD] (cal_of 766644)) = false /\
  lex_le (key [FY; FM; FD] (cal_of 766643)) (key [FY; FM; FD] (cal_of 766644)) = true.
Proof. vm_compute. repeat split. Qed.

(* round trip on a leap day, and ValueError cases *)
Example C14_ord_examples :
  ord_of_ymd 2020 2 29 = Some 737483 /\ civil 737483 = (2020, 2, 29) /\
  ord_of_ymd 2019 2 29 = None /\ ord_of_ymd 1900 2 29 = None /\ ord_of_ymd 2000 2 29 = Some 730178 /\
  ord_of_ymd 0 1 1 = None /\ ord_of_ymd 10000 1 1 = None /\ ord_of_ymd 9999 12 31 = Some MAX_ORD.
Proof. vm_compute. repeat split. Qed.

(* ---- Proofs.DottedFacts ---- *)
From Coq Require Import List Bool NArith ZArith Arith.
From BV Require Import Lib.PyStr Lib.Decimal Lib.Calendar Model.CalKeys Model.Pep440 Proofs.DottedFacts.
Import ListNotations.
Theorem C14_parse_rendered_key : forall k : list cfield, In k coherent_keys -> forall n : Z, parse_pep440 (dotted (zkey k n)) = Some {| pv_epoch := 0; pv_release := zkey k n; pv_pre := None; pv_post := None; pv_dev := None; pv_local := None |}.
Proof. exact parse_rendered_key. Qed.
Print Assumptions C14_parse_rendered_key.

Theorem C14_render_mono_dotted : forall k : list cfield, In k coherent_keys -> forall n m : Z, (0 <= n <= m)%Z -> ver_le (dotted (zkey k n)) (dotted (zkey k m)) = true.
Proof. exact render_mono_dotted. Qed.
Print Assumptions C14_render_mono_dotted.

(* ---- Proofs.CalverE2E ---- *)
From Coq Require Import List Bool NArith ZArith Arith.
From BV Require Import Lib.PyStr Lib.Decimal Lib.Calendar Model.V2 Model.Pep440 Model.Cli Model.Lexid Proofs.DottedFacts Proofs.DottedJoinFacts Proofs.CalverE2E.
Import ListNotations.
(* calver_result_greater :
   forall (date : Z) (y m : N) (bid b' : list N), (1 <= m <= 12)%N -> all_digits bid = true -> bid <> [] -> bump_bid bid = Some b' -> ver_lt (cv y m bid) (calver_next y m b' date) = true *)
Theorem C14_calver_result_greater : ltac:(let t := type of calver_result_greater in exact t).
Proof. exact calver_result_greater. Qed.
Print Assumptions C14_calver_result_greater.
