(* C18 -- the same configuration means the same thing in every config format. (theorems are added as they are proved) *)
From Coq Require Import List NArith.
From BV Require Import Lib.PyStr Model.V1 Model.Config.
Import ListNotations.
Example C18_ini_yes_is_true : ini_bool (Some (RStr [89;69;83]%N)) None = Some (RBool true).
Proof. vm_compute. reflexivity. Qed.
Print Assumptions C18_ini_yes_is_true.
