(* C18 -- the same configuration means the same thing in every config format. *)
From Coq Require Import List Bool NArith.
From BV Require Import Lib.PyStr Model.V2 Model.V1 Model.Config Gen.Tables Proofs.ConfigFactsC18.
Import ListNotations.
Local Open Scope N_scope.

Theorem C18_tag_push_require_commit : forall boolf c e, parse_config boolf c = Some e ->
  (e_tag e = true -> e_commit e = true) /\ (e_push e = true -> e_commit e = true).
Proof. exact tag_push_require_commit. Qed.
Print Assumptions C18_tag_push_require_commit.

Theorem C18_ini_truthy_spellings : forall s,
  ini_bool (Some (RStr s)) None = Some (RBool (mem_str (lower_ascii s) INI_TRUTHY)).
Proof. exact ini_truthy_spellings. Qed.
Print Assumptions C18_ini_truthy_spellings.

(* yes true 1 on ; commit: False, tag: None, push: None *)
Theorem C18_repo_truthy_table :
  INI_TRUTHY = [ [121;101;115]; [116;114;117;101]; [49]; [111;110] ] /\
  BOOL_OPTIONS = [ ([99;111;109;109;105;116], Some false); ([116;97;103], None); ([112;117;115;104], None) ].
Proof. exact repo_truthy_table. Qed.
Print Assumptions C18_repo_truthy_table.

(* the two readers agree: an INI file and a TOML file that spell the same abstract settings
   (abscfg, raw_ini, raw_toml in Proofs/ConfigFactsC18.v) give the same effective configuration *)
Theorem C18_formats_agree : forall a spell quote,
  (forall b, mem_str (lower_ascii (spell b)) INI_TRUTHY = b) ->
  (forall s, strip_q (quote s) = strip_q s) ->
  parse_config_ini (raw_ini spell quote a) = parse_config_toml (raw_toml a).
Proof. exact formats_agree. Qed.
Print Assumptions C18_formats_agree.

(* wrapping any value in double quotes satisfies the second hypothesis *)
Theorem C18_strip_q_dquote : forall s, strip_q ([34] ++ s ++ [34]) = strip_q s.
Proof. exact strip_q_dquote. Qed.
Print Assumptions C18_strip_q_dquote.

(* YES / off as spellings, every value in double quotes *)
Theorem C18_formats_agree_quoted : forall a,
  parse_config_ini (raw_ini (fun b => if b then [89;69;83] else [111;102;102]) (fun s => [34] ++ s ++ [34]) a)
  = parse_config_toml (raw_toml a).
Proof. exact formats_agree_quoted. Qed.
Print Assumptions C18_formats_agree_quoted.

Example C18_formats_agree_instance :
  parse_config_ini (raw_ini spell_yes_off quote_dq sample_cfg) = parse_config_toml (raw_toml sample_cfg) /\
  parse_config_toml (raw_toml sample_cfg) =
    Some (mkeff [49;46;50;46;51] [77;65;74;79;82;46;77;73;78;79;82;46;80;65;84;67;72] DEFAULT_COMMIT_MESSAGE DEFAULT_TAG_MESSAGE
                s_global [] [] true true false true).
Proof. exact formats_agree_instance. Qed.
Print Assumptions C18_formats_agree_instance.

Example C18_ini_yes_is_true : ini_bool (Some (RStr [89;69;83])) None = Some (RBool true).
Proof. vm_compute. reflexivity. Qed.
Print Assumptions C18_ini_yes_is_true.
