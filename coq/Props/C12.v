(* C12 -- messages, tag names and paths reach the VCS verbatim. (theorems are added as they are proved) *)
From Coq Require Import List NArith.
From BV Require Import Lib.PyStr Model.V1 Model.Vcs.
Import ListNotations.
(* git commit --message '{message}' with message = it's  ->  ["git"; "commit"; "--message"; "it's"] *)
Example C12_quote_in_message :
  vcs_cmd [103;105;116]%N [99;111;109;109;105;116]%N [([109;101;115;115;97;103;101], [105;116;39;115])]%N
  = Some [[103;105;116]; [99;111;109;109;105;116]; [45;45;109;101;115;115;97;103;101]; [105;116;39;115]]%N.
Proof. vm_compute. reflexivity. Qed.
Print Assumptions C12_quote_in_message.
