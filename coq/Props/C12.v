(* C12 -- messages, tag names and paths reach the VCS verbatim. *)
From Coq Require Import List Bool NArith.
From BV Require Import Lib.PyStr Model.V2 Model.V1 Model.Vcs Gen.Tables Proofs.VcsFactsC12.
Import ListNotations.
Local Open Scope N_scope.

(* str.format on a part that is exactly one replacement field yields the value, whatever it contains *)
Theorem C12_str_format_single_field : forall name v kw,
  (forall c, In c name -> c <> 123 /\ c <> 125 /\ c <> 58) ->
  assoc name kw = Some (VStr v) -> str_format ([123] ++ name ++ [125]) kw = Some v.
Proof. exact str_format_single_field. Qed.
Print Assumptions C12_str_format_single_field.

Theorem C12_str_format_no_braces : forall s kw, (forall c, In c s -> c <> 123 /\ c <> 125) -> str_format s kw = Some s.
Proof. exact str_format_no_braces. Qed.
Print Assumptions C12_str_format_no_braces.

(* the generated table says the repository splits the template before substituting *)
Theorem C12_repo_splits_before_format : VCS_SPLIT_BEFORE_FORMAT = true.
Proof. exact repo_splits_before_format. Qed.
Print Assumptions C12_repo_splits_before_format.

(* git commit --message '{message}' *)
Theorem C12_git_commit_argv : forall m,
  vcs_cmd [103;105;116] [99;111;109;109;105;116] [([109;101;115;115;97;103;101], m)]
  = Some [[103;105;116]; [99;111;109;109;105;116]; [45;45;109;101;115;115;97;103;101]; m].
Proof. exact git_commit_argv. Qed.
Print Assumptions C12_git_commit_argv.

(* git add --update '{path}' *)
Theorem C12_git_add_argv : forall p,
  vcs_cmd [103;105;116] [97;100;100;95;112;97;116;104] [([112;97;116;104], p)]
  = Some [[103;105;116]; [97;100;100]; [45;45;117;112;100;97;116;101]; p].
Proof. exact git_add_argv. Qed.
Print Assumptions C12_git_add_argv.

(* git tag --annotate {tag} --message '{message}' *)
Theorem C12_git_tag_argv : forall t m,
  vcs_cmd [103;105;116] [116;97;103] [([116;97;103], t); ([109;101;115;115;97;103;101], m)]
  = Some [[103;105;116]; [116;97;103]; [45;45;97;110;110;111;116;97;116;101]; t; [45;45;109;101;115;115;97;103;101]; m].
Proof. exact git_tag_argv. Qed.
Print Assumptions C12_git_tag_argv.

(* git tag {tag} *)
Theorem C12_git_tag_light_argv : forall t,
  vcs_cmd [103;105;116] [116;97;103;95;108;105;103;104;116] [([116;97;103], t)]
  = Some [[103;105;116]; [116;97;103]; t].
Proof. exact git_tag_light_argv. Qed.
Print Assumptions C12_git_tag_light_argv.

(* hg commit --logfile '{path}' *)
Theorem C12_hg_commit_argv : forall p,
  vcs_cmd [104;103] [99;111;109;109;105;116] [([112;97;116;104], p)]
  = Some [[104;103]; [99;111;109;109;105;116]; [45;45;108;111;103;102;105;108;101]; p].
Proof. exact hg_commit_argv. Qed.
Print Assumptions C12_hg_commit_argv.

(* hg tag {tag} --message '{message}' *)
Theorem C12_hg_tag_argv : forall t m,
  vcs_cmd [104;103] [116;97;103] [([116;97;103], t); ([109;101;115;115;97;103;101], m)]
  = Some [[104;103]; [116;97;103]; t; [45;45;109;101;115;115;97;103;101]; m].
Proof. exact hg_tag_argv. Qed.
Print Assumptions C12_hg_tag_argv.

(* hg add '{path}' *)
Theorem C12_hg_add_argv : forall p,
  vcs_cmd [104;103] [97;100;100;95;112;97;116;104] [([112;97;116;104], p)]
  = Some [[104;103]; [97;100;100]; p].
Proof. exact hg_add_argv. Qed.
Print Assumptions C12_hg_add_argv.

(* the behaviour before the fix (format, then split) does alter some message *)
Theorem C12_format_then_split_alters : exists m,
  (match str_format [103;105;116;32;99;111;109;109;105;116;32;45;45;109;101;115;115;97;103;101;32;39;123;109;101;115;115;97;103;101;125;39]
                    [([109;101;115;115;97;103;101], VStr m)] with
   | Some s => shlex_split s
   | None => None
   end) <> Some [[103;105;116]; [99;111;109;109;105;116]; [45;45;109;101;115;115;97;103;101]; m].
Proof. exact format_then_split_alters. Qed.
Print Assumptions C12_format_then_split_alters.

(* git commit --message '{message}' with message = it's  ->  ["git"; "commit"; "--message"; "it's"] *)
Example C12_quote_in_message :
  vcs_cmd [103;105;116] [99;111;109;109;105;116] [([109;101;115;115;97;103;101], [105;116;39;115])]
  = Some [[103;105;116]; [99;111;109;109;105;116]; [45;45;109;101;115;115;97;103;101]; [105;116;39;115]].
Proof. vm_compute. reflexivity. Qed.
Print Assumptions C12_quote_in_message.

(* message = a 'b' c : verbatim now; format-then-split would have produced  a b c *)
Example C12_quoted_word_in_message :
  vcs_cmd [103;105;116] [99;111;109;109;105;116] [([109;101;115;115;97;103;101], [97;32;39;98;39;32;99])]
  = Some [[103;105;116]; [99;111;109;109;105;116]; [45;45;109;101;115;115;97;103;101]; [97;32;39;98;39;32;99]] /\
  (match str_format [103;105;116;32;99;111;109;109;105;116;32;45;45;109;101;115;115;97;103;101;32;39;123;109;101;115;115;97;103;101;125;39]
                    [([109;101;115;115;97;103;101], VStr [97;32;39;98;39;32;99])] with
   | Some s => shlex_split s
   | None => None
   end) = Some [[103;105;116]; [99;111;109;109;105;116]; [45;45;109;101;115;115;97;103;101]; [97;32;98;32;99]].
Proof. vm_compute. split; reflexivity. Qed.
Print Assumptions C12_quoted_word_in_message.
