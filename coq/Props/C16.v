(* C16 — version comparison is a total order that agrees with PEP 440. (theorems are added as they are proved) *)
From Coq Require Import List NArith.
From BV Require Import Lib.PyStr Model.Pep440.
Import ListNotations.

Example C16_smoke : version_re <> None.
Proof. vm_compute. discriminate. Qed.
Print Assumptions C16_smoke.
