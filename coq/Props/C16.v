(* C16 -- version comparison is a total order on all strings and agrees with the ordering rules of PEP 440.
   Statements only; the proofs are in Proofs/Pep440Facts.v. *)
From Coq Require Import List NArith.
From Coq Require Import Strings.Ascii Strings.String.
From BV Require Import Lib.PyStr Model.Pep440 Proofs.Pep440Facts.
Import ListNotations.
Local Open Scope N_scope.

Theorem C16_cmp_key_refl : forall a, cmp_key a a = Eq.
Proof. exact cmp_key_refl. Qed.
Print Assumptions C16_cmp_key_refl.

Theorem C16_cmp_key_antisym : forall a b, cmp_key b a = CompOpp (cmp_key a b).
Proof. exact cmp_key_antisym. Qed.
Print Assumptions C16_cmp_key_antisym.

Theorem C16_cmp_key_eq_iff : forall a b, cmp_key a b = Eq <-> a = b.
Proof. exact cmp_key_eq_iff. Qed.
Print Assumptions C16_cmp_key_eq_iff.

Theorem C16_cmp_key_trans_lt : forall a b c, cmp_key a b = Lt -> cmp_key b c = Lt -> cmp_key a c = Lt.
Proof. exact cmp_key_trans_lt. Qed.
Print Assumptions C16_cmp_key_trans_lt.

Theorem C16_key_le_refl : forall a, key_le a a = true.
Proof. exact key_le_refl. Qed.
Print Assumptions C16_key_le_refl.

Theorem C16_key_le_trans : forall a b c, key_le a b = true -> key_le b c = true -> key_le a c = true.
Proof. exact key_le_trans. Qed.
Print Assumptions C16_key_le_trans.

Theorem C16_key_le_total : forall a b, key_le a b = true \/ key_le b a = true.
Proof. exact key_le_total. Qed.
Print Assumptions C16_key_le_total.

Theorem C16_key_le_antisym : forall a b, key_le a b = true -> key_le b a = true -> a = b.
Proof. exact key_le_antisym. Qed.
Print Assumptions C16_key_le_antisym.

Theorem C16_legacy_below_pep440 : forall parts e r p po d l, cmp_key (KLegacy parts) (KVer e r p po d l) = Lt.
Proof. exact legacy_below_pep440. Qed.
Print Assumptions C16_legacy_below_pep440.

Theorem C16_ver_le_refl : forall s, ver_le s s = true.
Proof. exact ver_le_refl. Qed.
Print Assumptions C16_ver_le_refl.

Theorem C16_ver_le_trans : forall a b c, ver_le a b = true -> ver_le b c = true -> ver_le a c = true.
Proof. exact ver_le_trans. Qed.
Print Assumptions C16_ver_le_trans.

Theorem C16_ver_le_total : forall a b, ver_le a b = true \/ ver_le b a = true.
Proof. exact ver_le_total. Qed.
Print Assumptions C16_ver_le_total.

Theorem C16_ver_eq_iff_key : forall a b, (ver_le a b = true /\ ver_le b a = true) <-> version_key a = version_key b.
Proof. exact ver_eq_iff_key. Qed.
Print Assumptions C16_ver_eq_iff_key.

Theorem C16_ver_lt_iff_not_le : forall a b, ver_lt a b = negb (ver_le b a).
Proof. exact ver_lt_iff_not_le. Qed.
Print Assumptions C16_ver_lt_iff_not_le.

Theorem C16_non_pep440_below : forall a b, is_pep440 a = false -> is_pep440 b = true -> ver_lt a b = true.
Proof. exact non_pep440_below. Qed.
Print Assumptions C16_non_pep440_below.

Theorem C16_pep440_suffix_chain : forall e r n1 n2 n3 n4 n5,
  key_lt (cmpkey (base e r None None (Some (s_dev, n1)))) (cmpkey (base e r (Some (s_a, n2)) None None)) = true /\
  key_lt (cmpkey (base e r (Some (s_a, n2)) None None)) (cmpkey (base e r (Some (s_b, n3)) None None)) = true /\
  key_lt (cmpkey (base e r (Some (s_b, n3)) None None)) (cmpkey (base e r (Some (s_rc, n4)) None None)) = true /\
  key_lt (cmpkey (base e r (Some (s_rc, n4)) None None)) (cmpkey (base e r None None None)) = true /\
  key_lt (cmpkey (base e r None None None)) (cmpkey (base e r None (Some (s_post, n5)) None)) = true.
Proof. exact pep440_suffix_chain. Qed.
Print Assumptions C16_pep440_suffix_chain.

Theorem C16_pep440_number_order : forall e r l n m, (n < m)%N ->
  key_lt (cmpkey (base e r (Some (l, n)) None None)) (cmpkey (base e r (Some (l, m)) None None)) = true /\
  key_lt (cmpkey (base e r None (Some (l, n)) None)) (cmpkey (base e r None (Some (l, m)) None)) = true /\
  key_lt (cmpkey (base e r None None (Some (l, n)))) (cmpkey (base e r None None (Some (l, m)))) = true.
Proof. exact pep440_number_order. Qed.
Print Assumptions C16_pep440_number_order.

Theorem C16_pep440_dev_below_same : forall e r pre post n,
  key_lt (cmpkey (base e r pre post (Some (s_dev, n)))) (cmpkey (base e r pre post None)) = true.
Proof. exact pep440_dev_below_same. Qed.
Print Assumptions C16_pep440_dev_below_same.

Theorem C16_pep440_trailing_zeros : forall e r pre post dev l,
  cmpkey (mkpver e (r ++ [0%N]) pre post dev l) = cmpkey (mkpver e r pre post dev l).
Proof. exact pep440_trailing_zeros. Qed.
Print Assumptions C16_pep440_trailing_zeros.

Theorem C16_pep440_epoch_dominates : forall e e' r r' p p' po po' d d' l l', (e < e')%N ->
  key_lt (cmpkey (mkpver e r p po d l)) (cmpkey (mkpver e' r' p' po' d' l')) = true.
Proof. exact pep440_epoch_dominates. Qed.
Print Assumptions C16_pep440_epoch_dominates.

Theorem C16_pep440_local_above_public : forall e r p po d l,
  key_lt (cmpkey (mkpver e r p po d None)) (cmpkey (mkpver e r p po d (Some l))) = true.
Proof. exact pep440_local_above_public. Qed.
Print Assumptions C16_pep440_local_above_public.

Theorem C16_pep440_release_order : forall e a b r r' p p' po po' d d' l l', (a < b)%N ->
  key_lt (cmpkey (mkpver e (a :: r) p po d l)) (cmpkey (mkpver e (b :: r') p' po' d' l')) = true.
Proof. exact pep440_release_order. Qed.
Print Assumptions C16_pep440_release_order.

(* concrete strings *)
Definition S' (s : string) := map N_of_ascii (list_ascii_of_string s).

Example C16_ex_dev_below_alpha : ver_lt (S' "1.0.dev1") (S' "1.0a1") = true.
Proof. vm_compute. reflexivity. Qed.
Print Assumptions C16_ex_dev_below_alpha.

Example C16_ex_rc_below_final : ver_lt (S' "1.0rc1") (S' "1.0") = true.
Proof. vm_compute. reflexivity. Qed.
Print Assumptions C16_ex_rc_below_final.

Example C16_ex_trailing_zero : version_key (S' "1.2") = version_key (S' "1.2.0").
Proof. vm_compute. reflexivity. Qed.
Print Assumptions C16_ex_trailing_zero.

Example C16_ex_legacy_below_pep440 : ver_lt (S' "v2017q1.54321") (S' "0.0.1") = true.
Proof. vm_compute. reflexivity. Qed.
Print Assumptions C16_ex_legacy_below_pep440.

Example C16_ex_to_pep440 : to_pep440 (S' "v201811.0007-beta") = S' "201811.7b0".
Proof. vm_compute. reflexivity. Qed.
Print Assumptions C16_ex_to_pep440.

Example C16_ex_final_not_pep440 : is_pep440 (S' "1.0-final") = false.
Proof. vm_compute. reflexivity. Qed.
Print Assumptions C16_ex_final_not_pep440.

(* ---- Proofs.DottedFacts ---- *)
From Coq Require Import List Bool NArith ZArith Arith.
From BV Require Import Lib.PyStr Lib.Decimal Model.Pep440 Proofs.DottedFacts.
Import ListNotations.
Theorem C16_parse_dotted : forall ns : list N, ns <> [] -> parse_pep440 (dotted ns) = Some {| pv_epoch := 0; pv_release := ns; pv_pre := None; pv_post := None; pv_dev := None; pv_local := None |}.
Proof. exact parse_dotted. Qed.
Print Assumptions C16_parse_dotted.

Theorem C16_version_key_dotted : forall ns : list N, ns <> [] -> version_key (dotted ns) = KVer 0 (drop_trailing_zeros ns) PPosInf PNegInf PPosInf None.
Proof. exact version_key_dotted. Qed.
Print Assumptions C16_version_key_dotted.

Theorem C16_is_pep440_dotted : forall ns : list N, ns <> [] -> is_pep440 (dotted ns) = true.
Proof. exact is_pep440_dotted. Qed.
Print Assumptions C16_is_pep440_dotted.

Theorem C16_ver_le_dotted : forall a b : list N, a <> [] -> b <> [] -> length a = length b -> ver_le (dotted a) (dotted b) = match cmp_list N.compare a b with | Gt => false | _ => true end.
Proof. exact ver_le_dotted. Qed.
Print Assumptions C16_ver_le_dotted.

Theorem C16_ver_lt_dotted : forall a b : list N, a <> [] -> b <> [] -> length a = length b -> ver_lt (dotted a) (dotted b) = match cmp_list N.compare a b with | Lt => true | _ => false end.
Proof. exact ver_lt_dotted. Qed.
Print Assumptions C16_ver_lt_dotted.

(* ---- Proofs.TaggedFacts ---- *)
From Coq Require Import List Bool NArith ZArith Arith.
From BV Require Import Lib.PyStr Lib.Decimal Lib.Regex Model.Pep440 Proofs.DottedJoinFacts Proofs.TaggedFacts.
Import ListNotations.
Theorem C16_parse_tagged_sep : forall (v : bool) (ds : list (list N)) (sep : list N) (t : btag) (num : list N), ds <> [] -> Forall dstr ds -> sep_ok sep -> all_digits num = true -> parse_pep440 (tagged v ds sep t num) = Some (tag_pver (map undec ds) t (undec num)).
Proof. exact parse_tagged_sep. Qed.
Print Assumptions C16_parse_tagged_sep.

Theorem C16_is_pep440_tagged : forall (v : bool) (ds : list (list N)) (sep : list N) (t : btag) (num : list N), ds <> [] -> Forall dstr ds -> sep_ok sep -> all_digits num = true -> is_pep440 (tagged v ds sep t num) = true.
Proof. exact is_pep440_tagged. Qed.
Print Assumptions C16_is_pep440_tagged.

Theorem C16_to_pep440_tagged_sep : forall (v : bool) (ds : list (list N)) (sep : list N) (t : btag) (num : list N), ds <> [] -> Forall dstr ds -> sep_ok sep -> all_digits num = true -> to_pep440 (tagged v ds sep t num) = DottedFacts.dotted (map undec ds) ++ canon_suffix t (undec num).
Proof. exact to_pep440_tagged_sep. Qed.
Print Assumptions C16_to_pep440_tagged_sep.

Theorem C16_tag_rank_lt : forall (v v' : bool) (ds : list (list N)) (sep sep' : list N) (t1 t2 : btag) (n m : list N), ds <> [] -> Forall dstr ds -> sep_ok sep -> sep_ok sep' -> all_digits n = true -> all_digits m = true -> (rank t1 < rank t2)%N -> ver_lt (tagged v ds sep t1 n) (tagged v' ds sep' t2 m) = true /\ ver_lt (tagged v' ds sep' t2 m) (tagged v ds sep t1 n) = false.
Proof. exact tag_rank_lt. Qed.
Print Assumptions C16_tag_rank_lt.

Theorem C16_tag_vs_final : forall (v v' : bool) (ds : list (list N)) (sep : list N) (t : btag) (n : list N), ds <> [] -> Forall dstr ds -> sep_ok sep -> all_digits n = true -> ver_lt (tagged v ds sep t n) (untagged v' ds) = (rank t <? rank_final)%N /\ ver_lt (untagged v' ds) (tagged v ds sep t n) = (rank_final <? rank t)%N.
Proof. exact tag_vs_final. Qed.
Print Assumptions C16_tag_vs_final.

Theorem C16_tag_num_order : forall (v v' : bool) (ds : list (list N)) (sep sep' : list N) (t1 t2 : btag) (n m : list N), ds <> [] -> Forall dstr ds -> sep_ok sep -> sep_ok sep' -> all_digits n = true -> all_digits m = true -> rank t1 = rank t2 -> ver_lt (tagged v ds sep t1 n) (tagged v' ds sep' t2 m) = (undec n <? undec m)%N.
Proof. exact tag_num_order. Qed.
Print Assumptions C16_tag_num_order.

Theorem C16_tag_order_strings : forall ds : list (list N), ds <> [] -> Forall dstr ds -> forall n1 n2 n3 n4 n5 : list N, all_digits n1 = true -> all_digits n2 = true -> all_digits n3 = true -> all_digits n4 = true -> all_digits n5 = true -> ver_lt (tagged false ds [45%N] Tdev n1) (tagged false ds [45%N] Talpha n2) = true /\ ver_lt (tagged false ds [45%N] Talpha n2) (tagged false ds [45%N] Tbeta n3) = true /\ ver_lt (tagged false ds [45%N] Tbeta n3) (tagged false ds [45%N] Trc n4) = true /\ ver_lt (tagged false ds [45%N] Trc n4) (join [46%N] ds) = true /\ ver_lt (join [46%N] ds) (tagged false ds [45%N] Tpost n5) = true.
Proof. exact tag_order_strings. Qed.
Print Assumptions C16_tag_order_strings.

Theorem C16_tag_downgrade_general : forall (v v' : bool) (ds : list (list N)) (sep sep' : list N) (t1 t2 : btag) (n m : list N), ds <> [] -> Forall dstr ds -> sep_ok sep -> sep_ok sep' -> all_digits n = true -> all_digits m = true -> (rank t2 < rank t1)%N -> ver_lt (tagged v ds sep t1 n) (tagged v' ds sep' t2 m) = false.
Proof. exact tag_downgrade_general. Qed.
Print Assumptions C16_tag_downgrade_general.

Theorem C16_preview_is_rc : forall (v : bool) (ds : list (list N)) (sep num : list N), ds <> [] -> Forall dstr ds -> sep_ok sep -> all_digits num = true -> version_key (tagged v ds sep Tpreview num) = version_key (tagged v ds sep Trc num).
Proof. exact preview_is_rc. Qed.
Print Assumptions C16_preview_is_rc.

Theorem C16_alpha_is_a : forall (v : bool) (ds : list (list N)) (sep num : list N), ds <> [] -> Forall dstr ds -> sep_ok sep -> all_digits num = true -> version_key (tagged v ds sep Talpha num) = version_key (tagged v ds sep Ta num).
Proof. exact alpha_is_a. Qed.
Print Assumptions C16_alpha_is_a.

Theorem C16_beta_is_b : forall (v : bool) (ds : list (list N)) (sep num : list N), ds <> [] -> Forall dstr ds -> sep_ok sep -> all_digits num = true -> version_key (tagged v ds sep Tbeta num) = version_key (tagged v ds sep Tb num).
Proof. exact beta_is_b. Qed.
Print Assumptions C16_beta_is_b.

Theorem C16_tag_number_default : forall (v v' : bool) (ds : list (list N)) (sep sep' : list N) (t : btag), ds <> [] -> Forall dstr ds -> sep_ok sep -> sep_ok sep' -> version_key (tagged v ds sep t []) = version_key (tagged v' ds sep' t [48%N]).
Proof. exact tag_number_default. Qed.
Print Assumptions C16_tag_number_default.

(* the premises of the tagged theorems are satisfiable: 1.2.3-beta1 is such a string, and the order theorem
   gives 1.2.3-beta1 < 1.2.3-rc0 < 1.2.3 < 1.2.3-post0 without evaluating the comparison *)
From Coq Require Import Strings.String.
From BV Require Import Lib.StrLit.
Example C16_tagged_premises :
  let ds := [[49%N]; [50%N]; [51%N]] in
  ds <> [] /\ Forall dstr ds /\ TaggedFacts.sep_ok [45%N] /\ all_digits [49%N] = true
  /\ tagged false ds [45%N] Tbeta [49%N] = lit "1.2.3-beta1"
  /\ untagged false ds = lit "1.2.3".
Proof.
  cbv zeta. repeat split; try discriminate; try reflexivity.
  - repeat constructor; try discriminate.
  - right; left; reflexivity.
Qed.
Print Assumptions C16_tagged_premises.
