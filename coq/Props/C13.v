(* C13 -- the dry run predicts the real run: when the diff path succeeds the write path succeeds and writes
   exactly the contents the diff was computed from; when it fails for a reason shared with the write path,
   the write path fails too and writes nothing.
   Statements only; the proofs are in Proofs/RewriteFacts.v. *)
From Coq Require Import List Bool NArith Arith Permutation.
From BV Require Import Lib.PyStr Gen.Tables Model.Rewrite Proofs.RewriteFacts Proofs.EagerFacts.
Import ListNotations.

Theorem C13_dry_ok_real_ok : forall fs changed items sorted_items l, Permutation items sorted_items -> NoDup (map fst items) ->
   diff_files fs changed sorted_items = (FilesOk, l) ->
   exists es, rewrite_files_eager fs items = (FilesOk, es) /\ Permutation (writes es) l.
Proof. exact dry_ok_real_ok. Qed.
Print Assumptions C13_dry_ok_real_ok.

Theorem C13_dry_error_real_noop : forall fs changed items sorted_items r l, Permutation items sorted_items ->
  diff_files fs changed sorted_items = (r, l) -> r <> FilesOk ->
  (forall it c nc, In it sorted_items -> fs (fst it) = Some c -> new_content (snd it) c = Some nc ->
                   eqb_str nc c && existsb changed (snd it) = false) ->
  exists r' es, rewrite_files_eager fs items = (r', es) /\ r' <> FilesOk /\ writes es = [].
Proof. exact dry_error_real_noop. Qed.
Print Assumptions C13_dry_error_real_noop.

Theorem C13_repo_rewrite_is_eager : REWRITE_FILES_EAGER_V2 = true /\ REWRITE_FILES_EAGER_V1 = true.
Proof. exact repo_rewrite_is_eager. Qed.
Print Assumptions C13_repo_rewrite_is_eager.

(* ---- structural facts extracted from the source by T1: order of the steps in the code ---- *)
From BV Require Import Gen.Tables.
Local Open Scope N_scope.

(* ---- call orders extracted from the source by T1: the steps this property rests on ---- *)
From Coq Require Import Strings.String.
From BV Require Import Lib.StrLit Gen.Tables Proofs.OrderC13.
Local Open Scope string_scope.

(* in cli.update everything that can fail before files are written (tag resolution, increment, gate, diff, both message templates) comes before the dry return, and the real update directly after it *)
Theorem C13_repo_order_update :
  restrict (lits ["_update_cfg_from_vcs"; "incr_dispatch"; "_is_valid_version"; "_print_diff"; "commit_msg_template.format"; "tag_msg_template.format"; "<if dry: return>"; "_try_update"]) ORDER_CLI_UPDATE
  = lits ["_update_cfg_from_vcs"; "incr_dispatch"; "_is_valid_version"; "_print_diff"; "commit_msg_template.format"; "tag_msg_template.format"; "<if dry: return>"; "_try_update"].
Proof. exact c13_order_update. Qed.
Print Assumptions C13_repo_order_update.
