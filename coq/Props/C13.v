(* C13 -- the dry run predicts the real run: when the diff path succeeds the write path succeeds and writes
   exactly the contents the diff was computed from; when it fails for a reason shared with the write path,
   the write path fails too and writes nothing.
   Statements only; the proofs are in Proofs/RewriteFacts.v. *)
From Coq Require Import List Bool NArith Arith Permutation.
From BV Require Import Lib.PyStr Gen.Tables Model.Rewrite Proofs.RewriteFacts.
Import ListNotations.

Theorem C13_dry_ok_real_ok : forall fs changed items sorted_items l, Permutation items sorted_items -> NoDup (map fst items) ->
   diff_files fs changed sorted_items = (FilesOk, l) ->
   exists es, rewrite_files_eager fs items = (FilesOk, es) /\ Permutation (writes es) l.
Proof. exact dry_ok_real_ok. Qed.
Print Assumptions C13_dry_ok_real_ok.

Theorem C13_dry_error_real_noop : forall fs changed items sorted_items r l, Permutation items sorted_items ->
  diff_files fs changed sorted_items = (r, l) -> r <> FilesOk ->
  (forall it c nc, In it sorted_items -> fs (fst it) = Some c -> new_content (snd it) c = Some nc ->
                   eqb_str nc c && existsb changed (snd it) = false) ->
  exists r' es, rewrite_files_eager fs items = (r', es) /\ r' <> FilesOk /\ writes es = [].
Proof. exact dry_error_real_noop. Qed.
Print Assumptions C13_dry_error_real_noop.

Theorem C13_repo_rewrite_is_eager : REWRITE_FILES_EAGER_V2 = true /\ REWRITE_FILES_EAGER_V1 = true.
Proof. exact repo_rewrite_is_eager. Qed.
Print Assumptions C13_repo_rewrite_is_eager.

(* ---- structural facts extracted from the source by T1: order of the steps in the code ---- *)
From BV Require Import Gen.Tables Proofs.StructureFacts.
Local Open Scope N_scope.
Theorem C13_repo_order_cli_update :
  ORDER_CLI_UPDATE = [
  [95;118;97;108;105;100;97;116;101;95;114;101;108;101;97;115;101;95;116;97;103] (* _validate_release_tag *);
  [95;118;97;108;105;100;97;116;101;95;100;97;116;101] (* _validate_date *);
  [99;111;110;102;105;103;46;105;110;105;116] (* config.init *);
  [95;112;97;114;115;101;95;118;99;115;95;111;112;116;105;111;110;115] (* _parse_vcs_options *);
  [95;117;112;100;97;116;101;95;99;102;103;95;102;114;111;109;95;118;99;115] (* _update_cfg_from_vcs *);
  [105;110;99;114;95;100;105;115;112;97;116;99;104] (* incr_dispatch *);
  [95;105;115;95;118;97;108;105;100;95;118;101;114;115;105;111;110] (* _is_valid_version *);
  [95;112;114;105;110;116;95;100;105;102;102] (* _print_diff *);
  [99;111;109;109;105;116;95;109;115;103;95;116;101;109;112;108;97;116;101;46;102;111;114;109;97;116] (* commit_msg_template.format *);
  [116;97;103;95;109;115;103;95;116;101;109;112;108;97;116;101;46;102;111;114;109;97;116] (* tag_msg_template.format *);
  [60;105;102;32;100;114;121;58;32;114;101;116;117;114;110;62] (* <if dry: return> *);
  [95;116;114;121;95;117;112;100;97;116;101] (* _try_update *)
  ].
Proof. exact repo_order_cli_update. Qed.
Print Assumptions C13_repo_order_cli_update.
