(* C01 — a successful bump yields a valid, strictly greater version. *)
From Coq Require Import List Bool NArith ZArith Arith String Ascii.
From BV Require Import Lib.PyStr Lib.Regex Lib.RegexParse Model.V2 Model.Pep440 Model.Cli Gen.Tables
  Proofs.CliFacts Proofs.IncrFacts.
Import ListNotations.

Theorem C01_gate_ok_spec : forall today raw old new, is_valid_version_v2 today raw old new = GateOk ->
  (exists v, parse_version_info today new raw = POk v) /\ ver_lt old new = true /\ version_key old <> version_key new.
Proof. exact gate_ok_spec. Qed.
Print Assumptions C01_gate_ok_spec.

(* a parsed version matches the pattern in full *)
Theorem C01_parse_ok_full_match : forall today s raw v, parse_version_info today s raw = POk v ->
  exists r e, compile_pattern_re (normalize_pattern raw raw) = Some r /\ re_match r s = Some (e, []).
Proof. exact parse_ok_full_match. Qed.
Print Assumptions C01_parse_ok_full_match.

Theorem C01_gate_rejects_equal_key : forall today raw old new,
  version_key new = version_key old -> is_valid_version_v2 today raw old new <> GateOk.
Proof. exact gate_rejects_equal_key. Qed.
Print Assumptions C01_gate_rejects_equal_key.

Theorem C01_gate_rejects_lower : forall today raw old new,
  ver_lt new old = true -> is_valid_version_v2 today raw old new <> GateOk.
Proof. exact gate_rejects_lower. Qed.
Print Assumptions C01_gate_rejects_lower.

Theorem C01_test_exit0_sound : forall today old raw fl date setv new pep,
  test_cmd_v2 today old raw fl date setv = Exit0 new pep ->
  is_valid_version_v2 today raw old new = GateOk
  /\ (exists v, parse_version_info today new raw = POk v)
  /\ ver_lt old new = true
  /\ pep = to_pep440 new
  /\ validate_release_tag (f_tag fl) = true
  /\ validate_flags raw fl = true
  /\ (match setv with Some s => new = s | None => exists d, incr today old raw fl d = INew new end).
Proof. exact test_exit0_sound. Qed.
Print Assumptions C01_test_exit0_sound.

Theorem C01_test_set_version_same_rejected : forall today old raw fl date,
  test_cmd_v2 today old raw fl date (Some old) = ExitErr.
Proof. exact test_set_version_same_rejected. Qed.
Print Assumptions C01_test_set_version_same_rejected.

Theorem C01_test_pin_date_and_date_rejected : forall today old raw fl d setv,
  f_pin_date fl = true -> test_cmd_v2 today old raw fl (Some d) setv = ExitErr.
Proof. exact test_pin_date_and_date_rejected. Qed.
Print Assumptions C01_test_pin_date_and_date_rejected.

Theorem C01_test_invalid_tag_rejected : forall today old raw fl date setv t,
  f_tag fl = Some t -> existsb (eqb_str t) VALID_RELEASE_TAG_VALUES = false ->
  test_cmd_v2 today old raw fl date setv = ExitErr.
Proof. exact test_invalid_tag_rejected. Qed.
Print Assumptions C01_test_invalid_tag_rejected.

Theorem C01_incr_changes_version : forall today old raw fl d s,
  incr today old raw fl d = INew s -> s <> old /\ s <> [].
Proof. exact incr_changes_version. Qed.
Print Assumptions C01_incr_changes_version.

(* ------------------------------------------------------------------ non-vacuity on concrete strings *)
Fixpoint S' (s : string) : list N :=
  match s with EmptyString => [] | String c t => N_of_ascii c :: S' t end.

(* bumpver test 1.2.3 MAJOR.MINOR.PATCH --patch *)
Example C01_ex_patch :
  test_cmd_v2 740163%Z (S' "1.2.3") (S' "MAJOR.MINOR.PATCH") (mkflags false false true None false false false) None None
  = Exit0 (S' "1.2.4") (S' "1.2.4").
Proof. vm_compute. reflexivity. Qed.
Print Assumptions C01_ex_patch.

(* --set-version 1.2.3.0 : matches the pattern, differs as a string, but is PEP 440-equal to 1.2.3 -> refused *)
Example C01_ex_equal_key_rejected :
  let raw := S' "MAJOR.MINOR.PATCH[.INC0]" in
  let fl := mkflags false false false None false false false in
  is_valid 740163%Z (S' "1.2.3.0") raw = Some true
  /\ eqb_key (version_key (S' "1.2.3.0")) (version_key (S' "1.2.3")) = true
  /\ is_valid_version_v2 740163%Z raw (S' "1.2.3") (S' "1.2.3.0") = GateReject
  /\ test_cmd_v2 740163%Z (S' "1.2.3") raw fl None (Some (S' "1.2.3.0")) = ExitErr
  /\ test_cmd_v2 740163%Z (S' "1.2.3") raw fl None (Some (S' "1.2.2.5")) = ExitErr
  /\ test_cmd_v2 740163%Z (S' "1.2.3") raw fl None None = Exit0 (S' "1.2.3.1") (S' "1.2.3.1").
Proof. vm_compute. repeat split; reflexivity. Qed.
Print Assumptions C01_ex_equal_key_rejected.

(* ---- structural facts extracted from the source by T1: order of the steps in the code ---- *)
From BV Require Import Gen.Tables.
Local Open Scope N_scope.
(* ---- Proofs.SemverE2E ---- *)
From Coq Require Import List Bool NArith ZArith Arith.
From BV Require Import Lib.PyStr Lib.Decimal Model.V2 Model.Pep440 Model.Cli Proofs.DottedFacts Proofs.SemverE2E.
Import ListNotations.
(* semver_test_cmd :
   forall (today : Z) (fl : flags) (ma mi pa : N) (d : option Z), only_part_flags fl -> f_major fl || f_minor fl || f_patch fl = true -> test_cmd_v2 today (dotted [ma; mi; pa]) P fl (option_map Some d) None = Exit0 (dotted (semver_next fl ma mi pa)) (dotted (semver_next fl ma mi pa)) /\ ver_lt (dotted [ma; mi; pa]) (dotted (semver_next fl ma mi pa)) = true *)
Theorem C01_semver_test_cmd : ltac:(let t := type of semver_test_cmd in exact t).
Proof. exact semver_test_cmd. Qed.
Print Assumptions C01_semver_test_cmd.

(* semver_parse_eq :
   forall (today : Z) (ma mi pa : N), parse_version_info today (dotted [ma; mi; pa]) P = POk (sv_vinfo today (Z.of_N ma) (Z.of_N mi) (Z.of_N pa)) *)
Theorem C01_semver_parse_eq : ltac:(let t := type of semver_parse_eq in exact t).
Proof. exact semver_parse_eq. Qed.
Print Assumptions C01_semver_parse_eq.

(* to_pep440_dotted :
   forall ns : list N, ns <> [] -> to_pep440 (dotted ns) = dotted ns *)
Theorem C01_to_pep440_dotted : ltac:(let t := type of to_pep440_dotted in exact t).
Proof. exact to_pep440_dotted. Qed.
Print Assumptions C01_to_pep440_dotted.

(* ---- Proofs.CalverE2E ---- *)
From Coq Require Import List Bool NArith ZArith Arith.
From BV Require Import Lib.PyStr Lib.Decimal Lib.Calendar Model.V2 Model.Pep440 Model.Cli Model.Lexid Proofs.DottedFacts Proofs.DottedJoinFacts Proofs.CalverE2E.
Import ListNotations.
(* calver_test_cmd :
   forall (today date : Z) (fl : flags) (y m : N) (bid b' : list N), (1000 <= y <= 9999)%N -> (1 <= m <= 12)%N -> all_digits bid = true -> bid <> [] -> (0 <= date <= MAX_ORD)%Z -> no_flags fl -> bump_bid bid = Some b' -> test_cmd_v2 today (cv y m bid) P fl (Some (Some date)) None = Exit0 (calver_next y m b' date) (to_pep440 (calver_next y m b' date)) *)
Theorem C01_calver_test_cmd : ltac:(let t := type of calver_test_cmd in exact t).
Proof. exact calver_test_cmd. Qed.
Print Assumptions C01_calver_test_cmd.

(* calver_test_cmd_today :
   forall (today : Z) (fl : flags) (y m : N) (bid b' : list N), (1000 <= y <= 9999)%N -> (1 <= m <= 12)%N -> all_digits bid = true -> bid <> [] -> (0 <= today <= MAX_ORD)%Z -> no_flags fl -> bump_bid bid = Some b' -> test_cmd_v2 today (cv y m bid) P fl None None = Exit0 (calver_next y m b' today) (to_pep440 (calver_next y m b' today)) *)
Theorem C01_calver_test_cmd_today : ltac:(let t := type of calver_test_cmd_today in exact t).
Proof. exact calver_test_cmd_today. Qed.
Print Assumptions C01_calver_test_cmd_today.

(* calver_e2e :
   forall (today date : Z) (fl : flags) (y m : N) (bid b' : list N), (1000 <= y <= 9999)%N -> (1 <= m <= 12)%N -> all_digits bid = true -> bid <> [] -> (0 <= date <= MAX_ORD)%Z -> no_flags fl -> bump_bid bid = Some b' -> let new := calver_next y m b' date in test_cmd_v2 today (cv y m bid) P fl (Some (Some date)) None = Exit0 new (to_pep440 new) /\ ver_lt (cv y m bid) new = true /\ (undec bid < undec b')%N /\ all_digits b' = true /\ (exists y' m' : N, new = cv y' m' b' /\ (1000 <= y' <= 9999)%N /\ (1 <= m' <= 12)%N /\ (y * 100 + m <= y' * 100 + m')%N /\ to_pep440 new = dotted [(y' * 100 + m')%N; undec b']) *)
Theorem C01_calver_e2e : ltac:(let t := type of calver_e2e in exact t).
Proof. exact calver_e2e. Qed.
Print Assumptions C01_calver_e2e.

(* parse_vdj :
   forall ds : list (list N), Forall dstr ds -> ds <> [] -> parse_pep440 (118%N :: dj ds) = Some {| pv_epoch := 0; pv_release := map undec ds; pv_pre := None; pv_post := None; pv_dev := None; pv_local := None |} *)
Theorem C01_parse_vdj : ltac:(let t := type of parse_vdj in exact t).
Proof. exact parse_vdj. Qed.
Print Assumptions C01_parse_vdj.

(* ---- call orders extracted from the source by T1: the steps this property rests on ---- *)
From Coq Require Import Strings.String.
From BV Require Import Lib.StrLit Gen.Tables Proofs.OrderC01.
Local Open Scope string_scope.

(* in cli.update the command line options are merged before the version to start from is resolved, the gate runs after the increment and before anything is printed as a diff or written *)
Theorem C01_repo_order_update :
  restrict (lits ["_parse_vcs_options"; "_update_cfg_from_vcs"; "incr_dispatch"; "_is_valid_version"; "_print_diff"; "_try_update"]) ORDER_CLI_UPDATE
  = lits ["_parse_vcs_options"; "_update_cfg_from_vcs"; "incr_dispatch"; "_is_valid_version"; "_print_diff"; "_try_update"].
Proof. exact c01_order_update. Qed.
Print Assumptions C01_repo_order_update.

(* in cli.test the gate runs after the increment and before the two output lines *)
Theorem C01_repo_order_test :
  restrict (lits ["incr_dispatch"; "_is_valid_version"; "version.to_pep440"; "click.echo"]) ORDER_CLI_TEST
  = lits ["incr_dispatch"; "_is_valid_version"; "version.to_pep440"; "click.echo"; "click.echo"].
Proof. exact c01_order_test. Qed.
Print Assumptions C01_repo_order_test.

(* ---- Proofs.TaggedFacts ---- *)
From Coq Require Import List Bool NArith ZArith Arith.
From BV Require Import Lib.PyStr Lib.Decimal Lib.Regex Model.Pep440 Proofs.DottedJoinFacts Proofs.TaggedFacts.
Import ListNotations.
Theorem C01_tag_rank_lt : forall (v v' : bool) (ds : list (list N)) (sep sep' : list N) (t1 t2 : btag) (n m : list N), ds <> [] -> Forall dstr ds -> sep_ok sep -> sep_ok sep' -> all_digits n = true -> all_digits m = true -> (rank t1 < rank t2)%N -> ver_lt (tagged v ds sep t1 n) (tagged v' ds sep' t2 m) = true /\ ver_lt (tagged v' ds sep' t2 m) (tagged v ds sep t1 n) = false.
Proof. exact tag_rank_lt. Qed.
Print Assumptions C01_tag_rank_lt.

Theorem C01_tag_vs_final : forall (v v' : bool) (ds : list (list N)) (sep : list N) (t : btag) (n : list N), ds <> [] -> Forall dstr ds -> sep_ok sep -> all_digits n = true -> ver_lt (tagged v ds sep t n) (untagged v' ds) = (rank t <? rank_final)%N /\ ver_lt (untagged v' ds) (tagged v ds sep t n) = (rank_final <? rank t)%N.
Proof. exact tag_vs_final. Qed.
Print Assumptions C01_tag_vs_final.

Theorem C01_tag_downgrade_general : forall (v v' : bool) (ds : list (list N)) (sep sep' : list N) (t1 t2 : btag) (n m : list N), ds <> [] -> Forall dstr ds -> sep_ok sep -> sep_ok sep' -> all_digits n = true -> all_digits m = true -> (rank t2 < rank t1)%N -> ver_lt (tagged v ds sep t1 n) (tagged v' ds sep' t2 m) = false.
Proof. exact tag_downgrade_general. Qed.
Print Assumptions C01_tag_downgrade_general.

(* ---- Proofs.SemverTagE2E ---- *)
From Coq Require Import List Bool NArith ZArith Arith.
From BV Require Import Lib.PyStr Lib.Decimal Lib.Calendar Model.V2 Model.Pep440 Model.Cli Model.Lexid Proofs.DottedFacts Proofs.SemverTagE2E.
Import ListNotations.
Theorem C01_svt_test_cmd : forall (today : Z) (fl : flags) (ft : option (option ptag)) (a b c : N) (t : option (ptag * N)) (d : option Z), f_tag fl = option_map ltext ft -> match d with | Some _ => f_pin_date fl = false | None => True end -> let new := svt_new fl ft a b c t in test_cmd_v2 today (svt a b c t) P fl (option_map Some d) None = (if tagnum_on_final fl ft t then ExitErr else if accepted fl ft t then Exit0 new (to_pep440 new) else ExitErr) /\ (tagnum_on_final fl ft t = false -> accepted fl ft t = true -> ver_lt (svt a b c t) new = true) /\ (tagnum_on_final fl ft t = false -> accepted fl ft t = false -> ver_lt (svt a b c t) new = false).
Proof. exact svt_test_cmd. Qed.
Print Assumptions C01_svt_test_cmd.

Theorem C01_svt_cmd_noflag : forall (today : Z) (fl : flags) (a b c : N) (t : option (ptag * N)) (d : option Z), f_tag fl = None -> f_tag_num fl = false -> part_flag fl = false -> date_ok fl d -> test_cmd_v2 today (svt a b c t) P fl (option_map Some d) None = ExitErr.
Proof. exact svt_cmd_noflag. Qed.
Print Assumptions C01_svt_cmd_noflag.

Theorem C01_svt_cmd_parts : forall (today : Z) (fl : flags) (a b c : N) (t : option (ptag * N)) (d : option Z), f_tag fl = None -> f_tag_num fl = false -> part_flag fl = true -> date_ok fl d -> let new := svt (next_a fl a) (next_b fl b) (next_c fl c) (reset_num t) in test_cmd_v2 today (svt a b c t) P fl (option_map Some d) None = Exit0 new (to_pep440 new) /\ ver_lt (svt a b c t) new = true.
Proof. exact svt_cmd_parts. Qed.
Print Assumptions C01_svt_cmd_parts.

Theorem C01_svt_cmd_tag : forall (today : Z) (fl : flags) (T : option ptag) (a b c : N) (t : option (ptag * N)) (d : option Z), f_tag fl = Some (ltext T) -> f_tag_num fl = false -> part_flag fl = false -> date_ok fl d -> let new := svt a b c (fresh_tag T) in test_cmd_v2 today (svt a b c t) P fl (option_map Some d) None = (if (trank (otag t) <? trank T)%N then Exit0 new (to_pep440 new) else ExitErr) /\ ver_lt (svt a b c t) new = (trank (otag t) <? trank T)%N.
Proof. exact svt_cmd_tag. Qed.
Print Assumptions C01_svt_cmd_tag.

Theorem C01_svt_cmd_tagnum : forall (today : Z) (fl : flags) (a b c : N) (p : ptag) (n : N) (d : option Z), f_tag fl = None -> f_tag_num fl = true -> part_flag fl = false -> date_ok fl d -> let new := svt a b c (Some (p, (n + 1)%N)) in test_cmd_v2 today (svt a b c (Some (p, n))) P fl (option_map Some d) None = Exit0 new (to_pep440 new) /\ ver_lt (svt a b c (Some (p, n))) new = true.
Proof. exact svt_cmd_tagnum. Qed.
Print Assumptions C01_svt_cmd_tagnum.

Theorem C01_svt_cmd_tagnum_final : forall (today : Z) (fl : flags) (ft : option (option ptag)) (a b c : N) (t : option (ptag * N)) (d : option Z), f_tag fl = option_map ltext ft -> f_tag_num fl = true -> next_otag ft t = None -> date_ok fl d -> test_cmd_v2 today (svt a b c t) P fl (option_map Some d) None = ExitErr.
Proof. exact svt_cmd_tagnum_final. Qed.
Print Assumptions C01_svt_cmd_tagnum_final.

Theorem C01_svt_cmd_tag_parts : forall (today : Z) (fl : flags) (T : option ptag) (a b c : N) (t : option (ptag * N)) (d : option Z), f_tag fl = Some (ltext T) -> f_tag_num fl = false -> part_flag fl = true -> date_ok fl d -> let new := svt (next_a fl a) (next_b fl b) (next_c fl c) (fresh_tag T) in test_cmd_v2 today (svt a b c t) P fl (option_map Some d) None = Exit0 new (to_pep440 new) /\ ver_lt (svt a b c t) new = true.
Proof. exact svt_cmd_tag_parts. Qed.
Print Assumptions C01_svt_cmd_tag_parts.

Theorem C01_svt_order : forall (a b c : N) (t : option (ptag * N)) (a' b' c' : N) (t' : option (ptag * N)), ver_lt (svt a b c t) (svt a' b' c' t') = match svt_cmp a b c t a' b' c' t' with | Lt => true | _ => false end /\ ver_le (svt a b c t) (svt a' b' c' t') = match svt_cmp a b c t a' b' c' t' with | Gt => false | _ => true end.
Proof. exact svt_order. Qed.
Print Assumptions C01_svt_order.

Theorem C01_to_pep440_svt : forall (a b c : N) (t : option (ptag * N)), to_pep440 (svt a b c t) = dotted [a; b; c] ++ pep_suffix t.
Proof. exact to_pep440_svt. Qed.
Print Assumptions C01_to_pep440_svt.

Theorem C01_invalid_tag_rejected : forall (today : Z) (old : list N) (fl : flags) (d : option (option Z)) (sv : option (list N)), validate_release_tag (f_tag fl) = false -> test_cmd_v2 today old P fl d sv = ExitErr.
Proof. exact invalid_tag_rejected. Qed.
Print Assumptions C01_invalid_tag_rejected.

(* the premises of the tagged end-to-end theorem are satisfiable, and the theorem (not an evaluation) gives the result:
   `bumpver test 1.2.3b0 MAJOR.MINOR.PATCH[PYTAGNUM] --tag rc` announces 1.2.3rc0, and `--tag alpha` is refused *)
Example C01_svt_instance :
  let fl_rc := mkflags false false false (Some (ltext (Some Prc))) false false false in
  let fl_a := mkflags false false false (Some (ltext (Some Pa))) false false false in
  svt 1 2 3 (Some (Pb, 0%N)) = StrLit.lit "1.2.3b0" /\
  test_cmd_v2 738000%Z (svt 1 2 3 (Some (Pb, 0%N))) P fl_rc None None = Exit0 (StrLit.lit "1.2.3rc0") (StrLit.lit "1.2.3rc0") /\
  test_cmd_v2 738000%Z (svt 1 2 3 (Some (Pb, 0%N))) P fl_a None None = ExitErr.
Proof.
  cbv zeta. split; [vm_compute; reflexivity|]. split.
  - pose proof (svt_cmd_tag 738000%Z (mkflags false false false (Some (ltext (Some Prc))) false false false) (Some Prc) 1 2 3 (Some (Pb, 0%N)) None
                  eq_refl eq_refl eq_refl I) as [H _].
    cbv zeta in H. change (option_map Some (@None Z)) with (@None (option Z)) in H. rewrite H. vm_compute. reflexivity.
  - pose proof (svt_cmd_tag 738000%Z (mkflags false false false (Some (ltext (Some Pa))) false false false) (Some Pa) 1 2 3 (Some (Pb, 0%N)) None
                  eq_refl eq_refl eq_refl I) as [H _].
    cbv zeta in H. change (option_map Some (@None Z)) with (@None (option Z)) in H. rewrite H. vm_compute. reflexivity.
Qed.
Print Assumptions C01_svt_instance.

(* ---- Proofs.CalverTagE2E ---- *)
From Coq Require Import List Bool NArith ZArith Arith.
From BV Require Import Lib.PyStr Lib.Decimal Lib.Calendar Model.V2 Model.Pep440 Model.Cli Model.Lexid Proofs.DottedFacts Proofs.CalverTagE2E.
Import ListNotations.
Theorem C01_cvt_test_cmd : forall (today date : Z) (fl : flags) (ft : option (option ST.ptag)) (y m : N) (bid b' : list N) (t : option PE.ltag), (1000 <= y <= 9999)%N -> (1 <= m <= 12)%N -> all_digits bid = true -> bid <> [] -> (0 <= date <= MAX_ORD)%Z -> tag_flags fl ft -> bump_bid bid = Some b' -> let new := cvt_next y m b' (next_tag ft t) date in test_cmd_v2 today (cvt y m bid t) P fl (Some (Some date)) None = Exit0 new (to_pep440 new) /\ ver_lt (cvt y m bid t) new = true.
Proof. exact cvt_test_cmd. Qed.
Print Assumptions C01_cvt_test_cmd.

Theorem C01_cvt_test_cmd_today : forall (today : Z) (fl : flags) (ft : option (option ST.ptag)) (y m : N) (bid b' : list N) (t : option PE.ltag), (1000 <= y <= 9999)%N -> (1 <= m <= 12)%N -> all_digits bid = true -> bid <> [] -> (0 <= today <= MAX_ORD)%Z -> tag_flags fl ft -> bump_bid bid = Some b' -> let new := cvt_next y m b' (next_tag ft t) today in test_cmd_v2 today (cvt y m bid t) P fl None None = Exit0 new (to_pep440 new).
Proof. exact cvt_test_cmd_today. Qed.
Print Assumptions C01_cvt_test_cmd_today.

Theorem C01_cvt_test_cmd_overflow : forall (today date : Z) (fl : flags) (ft : option (option ST.ptag)) (y m : N) (bid : list N) (t : option PE.ltag), (1000 <= y <= 9999)%N -> (1 <= m <= 12)%N -> all_digits bid = true -> bid <> [] -> tag_flags fl ft -> bump_bid bid = None -> test_cmd_v2 today (cvt y m bid t) P fl (Some (Some date)) None = ExitErr.
Proof. exact cvt_test_cmd_overflow. Qed.
Print Assumptions C01_cvt_test_cmd_overflow.

Theorem C01_cvt_result_greater : forall (date : Z) (y m : N) (bid b' : list N) (t t' : option PE.ltag), (1 <= m <= 12)%N -> all_digits bid = true -> bid <> [] -> bump_bid bid = Some b' -> ver_lt (cvt y m bid t) (cvt_next y m b' t' date) = true.
Proof. exact cvt_result_greater. Qed.
Print Assumptions C01_cvt_result_greater.

Theorem C01_cvt_tag_downgrade_greater : forall (y m : N) (bid b' : list N), (1 <= m <= 12)%N -> all_digits bid = true -> bid <> [] -> bump_bid bid = Some b' -> ver_lt (cvt y m bid (Some PE.Lrc)) (cvt y m b' (Some PE.Lalpha)) = true /\ ver_lt (cvt y m bid None) (cvt y m b' (Some PE.Ldev)) = true /\ ver_lt (cvt y m bid (Some PE.Lpost)) (cvt y m b' (Some PE.Ldev)) = true /\ ver_lt (cvt y m bid (Some PE.Lbeta)) (cvt y m b' (Some PE.Lbeta)) = true.
Proof. exact cvt_tag_downgrade_greater. Qed.
Print Assumptions C01_cvt_tag_downgrade_greater.

Theorem C01_calver_tag_e2e : forall (today date : Z) (fl : flags) (ft : option (option ST.ptag)) (y m : N) (bid b' : list N) (t : option PE.ltag), (1000 <= y <= 9999)%N -> (1 <= m <= 12)%N -> all_digits bid = true -> bid <> [] -> (0 <= date <= MAX_ORD)%Z -> tag_flags fl ft -> bump_bid bid = Some b' -> let t' := next_tag ft t in let new := cvt_next y m b' t' date in parse_version_info today (cvt y m bid t) P = POk (cvt_vinfo (Z.of_N y) (Z.of_N m) bid t) /\ format_version (cvt_vinfo (Z.of_N y) (Z.of_N m) bid t) P = Some (cvt y m bid t) /\ incr today (cvt y m bid t) P fl date = INew new /\ test_cmd_v2 today (cvt y m bid t) P fl (Some (Some date)) None = Exit0 new (to_pep440 new) /\ ver_lt (cvt y m bid t) new = true /\ (undec bid < undec b')%N /\ all_digits b' = true /\ (exists y' m' : N, new = cvt y' m' b' t' /\ (1000 <= y' <= 9999)%N /\ (1 <= m' <= 12)%N /\ (y * 100 + m <= y' * 100 + m')%N /\ (y' = y /\ m' = m \/ y' = Z.to_N (year_y (cal_of date)) /\ m' = Z.to_N (month (cal_of date))) /\ to_pep440 new = pep_text y' m' b' t').
Proof. exact calver_tag_e2e. Qed.
Print Assumptions C01_calver_tag_e2e.
