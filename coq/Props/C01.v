(* C01 — a successful bump yields a valid, strictly greater version. *)
From Coq Require Import List Bool NArith ZArith Arith String Ascii.
From BV Require Import Lib.PyStr Lib.Regex Lib.RegexParse Model.V2 Model.Pep440 Model.Cli Gen.Tables
  Proofs.CliFacts Proofs.IncrFacts.
Import ListNotations.

Theorem C01_gate_ok_spec : forall today raw old new, is_valid_version_v2 today raw old new = GateOk ->
  (exists v, parse_version_info today new raw = POk v) /\ ver_lt old new = true /\ version_key old <> version_key new.
Proof. exact gate_ok_spec. Qed.
Print Assumptions C01_gate_ok_spec.

(* a parsed version matches the pattern in full *)
Theorem C01_parse_ok_full_match : forall today s raw v, parse_version_info today s raw = POk v ->
  exists r e, compile_pattern_re (normalize_pattern raw raw) = Some r /\ re_match r s = Some (e, []).
Proof. exact parse_ok_full_match. Qed.
Print Assumptions C01_parse_ok_full_match.

Theorem C01_gate_rejects_equal_key : forall today raw old new,
  version_key new = version_key old -> is_valid_version_v2 today raw old new <> GateOk.
Proof. exact gate_rejects_equal_key. Qed.
Print Assumptions C01_gate_rejects_equal_key.

Theorem C01_gate_rejects_lower : forall today raw old new,
  ver_lt new old = true -> is_valid_version_v2 today raw old new <> GateOk.
Proof. exact gate_rejects_lower. Qed.
Print Assumptions C01_gate_rejects_lower.

Theorem C01_test_exit0_sound : forall today old raw fl date setv new pep,
  test_cmd_v2 today old raw fl date setv = Exit0 new pep ->
  is_valid_version_v2 today raw old new = GateOk
  /\ (exists v, parse_version_info today new raw = POk v)
  /\ ver_lt old new = true
  /\ pep = to_pep440 new
  /\ validate_release_tag (f_tag fl) = true
  /\ validate_flags raw fl = true
  /\ (match setv with Some s => new = s | None => exists d, incr today old raw fl d = INew new end).
Proof. exact test_exit0_sound. Qed.
Print Assumptions C01_test_exit0_sound.

Theorem C01_test_set_version_same_rejected : forall today old raw fl date,
  test_cmd_v2 today old raw fl date (Some old) = ExitErr.
Proof. exact test_set_version_same_rejected. Qed.
Print Assumptions C01_test_set_version_same_rejected.

Theorem C01_test_pin_date_and_date_rejected : forall today old raw fl d setv,
  f_pin_date fl = true -> test_cmd_v2 today old raw fl (Some d) setv = ExitErr.
Proof. exact test_pin_date_and_date_rejected. Qed.
Print Assumptions C01_test_pin_date_and_date_rejected.

Theorem C01_test_invalid_tag_rejected : forall today old raw fl date setv t,
  f_tag fl = Some t -> existsb (eqb_str t) VALID_RELEASE_TAG_VALUES = false ->
  test_cmd_v2 today old raw fl date setv = ExitErr.
Proof. exact test_invalid_tag_rejected. Qed.
Print Assumptions C01_test_invalid_tag_rejected.

Theorem C01_incr_changes_version : forall today old raw fl d s,
  incr today old raw fl d = INew s -> s <> old /\ s <> [].
Proof. exact incr_changes_version. Qed.
Print Assumptions C01_incr_changes_version.

(* ------------------------------------------------------------------ non-vacuity on concrete strings *)
Fixpoint S' (s : string) : list N :=
  match s with EmptyString => [] | String c t => N_of_ascii c :: S' t end.

(* bumpver test 1.2.3 MAJOR.MINOR.PATCH --patch *)
Example C01_ex_patch :
  test_cmd_v2 740163%Z (S' "1.2.3") (S' "MAJOR.MINOR.PATCH") (mkflags false false true None false false false) None None
  = Exit0 (S' "1.2.4") (S' "1.2.4").
Proof. vm_compute. reflexivity. Qed.
Print Assumptions C01_ex_patch.

(* --set-version 1.2.3.0 : matches the pattern, differs as a string, but is PEP 440-equal to 1.2.3 -> refused *)
Example C01_ex_equal_key_rejected :
  let raw := S' "MAJOR.MINOR.PATCH[.INC0]" in
  let fl := mkflags false false false None false false false in
  is_valid 740163%Z (S' "1.2.3.0") raw = Some true
  /\ eqb_key (version_key (S' "1.2.3.0")) (version_key (S' "1.2.3")) = true
  /\ is_valid_version_v2 740163%Z raw (S' "1.2.3") (S' "1.2.3.0") = GateReject
  /\ test_cmd_v2 740163%Z (S' "1.2.3") raw fl None (Some (S' "1.2.3.0")) = ExitErr
  /\ test_cmd_v2 740163%Z (S' "1.2.3") raw fl None (Some (S' "1.2.2.5")) = ExitErr
  /\ test_cmd_v2 740163%Z (S' "1.2.3") raw fl None None = Exit0 (S' "1.2.3.1") (S' "1.2.3.1").
Proof. vm_compute. repeat split; reflexivity. Qed.
Print Assumptions C01_ex_equal_key_rejected.
