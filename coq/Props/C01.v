(* C01 — a successful bump yields a valid, strictly greater version. (theorems are added as they are proved) *)
From Coq Require Import List NArith ZArith.
From BV Require Import Lib.PyStr Model.V2 Model.Pep440 Model.Cli.
Import ListNotations.

Example C01_smoke : is_new_pattern [77;65;74;79;82]%N = true.
Proof. vm_compute. reflexivity. Qed.
Print Assumptions C01_smoke.
