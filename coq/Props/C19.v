(* C19 -- init always produces a configuration that bumpver itself can use. (theorems are added as they are proved) *)
From Coq Require Import List NArith.
From BV Require Import Lib.PyStr Model.V1 Model.Config Gen.Tables.
Import ListNotations.
Example C19_empty_dir_picks_fallback : pick_config [] = CONFIG_FALLBACK.
Proof. vm_compute. reflexivity. Qed.
Print Assumptions C19_empty_dir_picks_fallback.
