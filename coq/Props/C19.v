(* C19 -- init always produces a configuration that bumpver itself can use.
   all_layouts (Proofs/ConfigFactsC19.v): every combination of absent / empty / unrelated text / text with a
   bumpver section for the five config-capable files, and absent / present for README.md, README.rst,
   setup.py: 4^5 * 2^3 = 8192 project directories.  layout_iv is the initial version 2026.1001-alpha. *)
From Coq Require Import List Bool NArith.
From BV Require Import Lib.PyStr Model.V2 Model.V1 Model.Config Gen.Tables Proofs.ConfigFactsC19.
Import ListNotations.
Local Open Scope N_scope.

Theorem C19_all_layouts_count : N.of_nat (length all_layouts) = 8192.
Proof. exact all_layouts_count. Qed.
Print Assumptions C19_all_layouts_count.

(* if some candidate file has a bumpver section then the picked file is such a file -- for every directory *)
Theorem C19_prefers_section_file_any_dir : forall d,
  existsb (cand_has_section d) CONFIG_CANDIDATES = true ->
  In (pick_config d) CONFIG_CANDIDATES /\ cand_has_section d (pick_config d) = true.
Proof. exact prefers_section_file_any_dir. Qed.
Print Assumptions C19_prefers_section_file_any_dir.

Theorem C19_prefers_section_file : forall d, In d all_layouts ->
  existsb (cand_has_section d) CONFIG_CANDIDATES = true ->
  In (pick_config d) CONFIG_CANDIDATES /\ cand_has_section d (pick_config d) = true.
Proof. exact prefers_section_file. Qed.
Print Assumptions C19_prefers_section_file.

(* if some candidate exists the picked file exists, otherwise the fallback name is used -- for every directory *)
Theorem C19_picks_existing_any_dir : forall d,
  (existsb (dir_has d) CONFIG_CANDIDATES = true -> In (pick_config d) CONFIG_CANDIDATES /\ dir_has d (pick_config d) = true) /\
  (existsb (dir_has d) CONFIG_CANDIDATES = false -> pick_config d = CONFIG_FALLBACK).
Proof. exact picks_existing_any_dir. Qed.
Print Assumptions C19_picks_existing_any_dir.

Theorem C19_picks_existing : forall d, In d all_layouts ->
  (existsb (dir_has d) CONFIG_CANDIDATES = true -> In (pick_config d) CONFIG_CANDIDATES /\ dir_has d (pick_config d) = true) /\
  (existsb (dir_has d) CONFIG_CANDIDATES = false -> pick_config d = CONFIG_FALLBACK).
Proof. exact picks_existing. Qed.
Print Assumptions C19_picks_existing.

(* prior content of the config file is a prefix of the new content -- for every directory and version *)
Theorem C19_init_appends_any_dir : forall d v f new, init_cmd d false false v = InitWrote f new ->
  f = pick_config d /\ match dir_get d f with Some old => prefixb old new = true | None => True end.
Proof. exact init_appends_any_dir. Qed.
Print Assumptions C19_init_appends_any_dir.

Theorem C19_init_appends : forall d, In d all_layouts -> forall f new, init_cmd d false false layout_iv = InitWrote f new ->
  f = pick_config d /\ match dir_get d f with Some old => prefixb old new = true | None => True end.
Proof. exact init_appends. Qed.
Print Assumptions C19_init_appends.

(* after init, the file init wrote is the one that is picked, and it has a bumpver section *)
Theorem C19_init_self_selecting : forall d, In d all_layouts -> forall f new, init_cmd d false false layout_iv = InitWrote f new ->
  pick_config (dir_set d f new) = f /\ has_bumpver_section new = true.
Proof. exact init_self_selecting. Qed.
Print Assumptions C19_init_self_selecting.

Theorem C19_init_never_errors : forall d, In d all_layouts -> init_cmd d false false layout_iv <> InitError.
Proof. exact init_never_errors. Qed.
Print Assumptions C19_init_never_errors.

(* the dry run reports the same file and the same text that the real run appends *)
Theorem C19_dry_writes_nothing : forall d, In d all_layouts ->
  exists text, init_cmd d false true layout_iv = InitDry (pick_config d) text /\
               init_cmd d false false layout_iv = InitWrote (pick_config d) (appended d (pick_config d) text).
Proof. exact dry_writes_nothing. Qed.
Print Assumptions C19_dry_writes_nothing.

Theorem C19_dry_matches_real_any_dir : forall d v f text, init_cmd d false true v = InitDry f text ->
  f = pick_config d /\ init_cmd d false false v = InitWrote f (appended d f text).
Proof. exact dry_matches_real_any_dir. Qed.
Print Assumptions C19_dry_matches_real_any_dir.

Theorem C19_refuses_when_configured : forall d, In d all_layouts -> forall dry, init_cmd d true dry layout_iv = InitRefused.
Proof. exact refuses_when_configured. Qed.
Print Assumptions C19_refuses_when_configured.

(* the appended text names every present file among setup.py, README.md, README.rst and records the initial version *)
Theorem C19_init_mentions_existing_files : forall d, In d all_layouts -> forall f text, init_cmd d false true layout_iv = InitDry f text ->
  (forall n, In n mention_names -> dir_has d n = true -> str_in n text = true) /\ str_in (t_cv_assign ++ layout_iv) text = true.
Proof. exact init_mentions_existing_files. Qed.
Print Assumptions C19_init_mentions_existing_files.

Example C19_empty_dir_picks_fallback : pick_config [] = CONFIG_FALLBACK.
Proof. vm_compute. reflexivity. Qed.
Print Assumptions C19_empty_dir_picks_fallback.

(* ---- structural facts extracted from the source by T1: order of the steps in the code ---- *)
From BV Require Import Gen.Tables.
Local Open Scope N_scope.

(* ---- call orders extracted from the source by T1: the steps this property rests on ---- *)
From Coq Require Import Strings.String.
From BV Require Import Lib.StrLit Gen.Tables Proofs.OrderC19.
Local Open Scope string_scope.

(* cli.init: refuse when configured, compute the default, write *)
Theorem C19_repo_order_init :
  restrict (lits ["config.init"; "sys.exit"; "config.default_config"; "config.write_content"]) ORDER_CLI_INIT
  = lits ["config.init"; "sys.exit"; "config.default_config"; "sys.exit"; "config.write_content"].
Proof. exact c19_order_init. Qed.
Print Assumptions C19_repo_order_init.

(* this year's initial version: the formats read from the source use the calendar year *)
From BV Require Import Proofs.InitFacts.
Theorem C19_repo_initial_version_formats :
  INITIAL_VERSION_FMT = lit "%Y.1001-alpha" /\ INITIAL_VERSION_PEP440_FMT = lit "%Y.1001a0".
Proof. exact repo_initial_version_formats. Qed.
Print Assumptions C19_repo_initial_version_formats.

(* ---- Proofs.SelfPatternFacts ---- *)
From Coq Require Import List Bool NArith ZArith Arith.
From BV Require Import Lib.PyStr Lib.StrLit Model.V2 Model.Config Proofs.SelfPatternFacts.
Import ListNotations.
Theorem C19_self_pattern_go_found : forall (hdr h : list N) (mid : list (list N)) (cvline : list N) (post : list (list N)) (cv vp : list N) (b : bool), header_of hdr = Some h -> mem_str h cfg_section_names = true -> (forall l : list N, In l mid -> header_of l = None /\ is_section_line l = false /\ prefixb s_current_version (strip_ws l) = false) -> prefixb s_current_version (strip_ws cvline) = true -> self_pattern_go (hdr :: mid ++ cvline :: post) b cv vp = Some (sreplace (strip_q cv) (strip_q vp) (strip_ws cvline)).
Proof. exact self_pattern_go_found. Qed.
Print Assumptions C19_self_pattern_go_found.

Theorem C19_header_of_general : forall ind name sp cmt : list N, forallb (fun c : N => mem_chr c ws_chars) ind = true -> name <> [] -> forallb name_char name = true -> forallb (fun c : N => mem_chr c ws_chars) sp = true -> comment_tail cmt = true -> header_of (ind ++ 91%N :: name ++ 93%N :: sp ++ cmt) = Some (91%N :: name ++ [93%N]).
Proof. exact header_of_general. Qed.
Print Assumptions C19_header_of_general.

Theorem C19_self_pattern_toml_by_hand : self_pattern (lit (String.String (Ascii.Ascii true false false false true true false false) (String.String (Ascii.Ascii false true true true false true false false) (String.String (Ascii.Ascii false true false false true true false false) (String.String (Ascii.Ascii false true true true false true false false) (String.String (Ascii.Ascii true true false false true true false false) String.EmptyString)))))) (lit (String.String (Ascii.Ascii true false true true false false true false) (String.String (Ascii.Ascii true false false false false false true false) (String.String (Ascii.Ascii false true false true false false true false) (String.String (Ascii.Ascii true true true true false false true false) (String.String (Ascii.Ascii false true false false true false true false) (String.String (Ascii.Ascii false true true true false true false false) (String.String (Ascii.Ascii true false true true false false true false) (String.String (Ascii.Ascii true false false true false false true false) (String.String (Ascii.Ascii false true true true false false true false) (String.String (Ascii.Ascii true true true true false false true false) (String.String (Ascii.Ascii false true false false true false true false) (String.String (Ascii.Ascii false true true true false true false false) (String.String (Ascii.Ascii false false false false true false true false) (String.String (Ascii.Ascii true false false false false false true false) (String.String (Ascii.Ascii false false true false true false true false) (String.String (Ascii.Ascii true true false false false false true false) (String.String (Ascii.Ascii false false false true false false true false) String.EmptyString)))))))))))))))))) (lit (String.String (Ascii.Ascii true true false true true false true false) (String.String (Ascii.Ascii false false true false true true true false) (String.String (Ascii.Ascii true true true true false true true false) (String.String (Ascii.Ascii true true true true false true true false) (String.String (Ascii.Ascii false false true true false true true false) (String.String (Ascii.Ascii false true true true false true false false) (String.String (Ascii.Ascii false true false false false true true false) (String.String (Ascii.Ascii true false true false true true true false) (String.String (Ascii.Ascii true false true true false true true false) (String.String (Ascii.Ascii false false false false true true true false) (String.String (Ascii.Ascii false true true false true true true false) (String.String (Ascii.Ascii true false true false false true true false) (String.String (Ascii.Ascii false true false false true true true false) (String.String (Ascii.Ascii true false true true true false true false) (String.String (Ascii.Ascii false false false false false true false false) (String.String (Ascii.Ascii true true false false false true false false) (String.String (Ascii.Ascii false false false false false true false false) (String.String (Ascii.Ascii false true false false false true true false) (String.String (Ascii.Ascii true false false true true true true false) (String.String (Ascii.Ascii false false false false false true false false) (String.String (Ascii.Ascii false false false true false true true false) (String.String (Ascii.Ascii true false false false false true true false) (String.String (Ascii.Ascii false true true true false true true false) (String.String (Ascii.Ascii false false true false false true true false) String.EmptyString)))))))))))))))))))))))) ++ [10%N] ++ lit (String.String (Ascii.Ascii false false false false false true false false) (String.String (Ascii.Ascii false false false false false true false false) (String.String (Ascii.Ascii false false false false false true false false) (String.String (Ascii.Ascii false false false false false true false false) (String.String (Ascii.Ascii true true false false false true true false) (String.String (Ascii.Ascii true false true false true true true false) (String.String (Ascii.Ascii false true false false true true true false) (String.String (Ascii.Ascii false true false false true true true false) (String.String (Ascii.Ascii true false true false false true true false) (String.String (Ascii.Ascii false true true true false true true false) (String.String (Ascii.Ascii false false true false true true true false) (String.String (Ascii.Ascii true true true true true false true false) (String.String (Ascii.Ascii false true true false true true true false) (String.String (Ascii.Ascii true false true false false true true false) (String.String (Ascii.Ascii false true false false true true true false) (String.String (Ascii.Ascii true true false false true true true false) (String.String (Ascii.Ascii true false false true false true true false) (String.String (Ascii.Ascii true true true true false true true false) (String.String (Ascii.Ascii false true true true false true true false) (String.String (Ascii.Ascii false false false false false true false false) (String.String (Ascii.Ascii true false true true true true false false) (String.String (Ascii.Ascii false false false false false true false false) (String.String (Ascii.Ascii false true false false false true false false) (String.String (Ascii.Ascii true false false false true true false false) (String.String (Ascii.Ascii false true true true false true false false) (String.String (Ascii.Ascii false true false false true true false false) (String.String (Ascii.Ascii false true true true false true false false) (String.String (Ascii.Ascii true true false false true true false false) (String.String (Ascii.Ascii false true false false false true false false) String.EmptyString))))))))))))))))))))))))))))) ++ [10%N] ++ lit (String.String (Ascii.Ascii false false false false false true false false) (String.String (Ascii.Ascii false false false false false true false false) (String.String (Ascii.Ascii false false false false false true false false) (String.String (Ascii.Ascii false false false false false true false false) (String.String (Ascii.Ascii false true true false true true true false) (String.String (Ascii.Ascii true false true false false true true false) (String.String (Ascii.Ascii false true false false true true true false) (String.String (Ascii.Ascii true true false false true true true false) (String.String (Ascii.Ascii true false false true false true true false) (String.String (Ascii.Ascii true true true true false true true false) (String.String (Ascii.Ascii false true true true false true true false) (String.String (Ascii.Ascii true true true true true false true false) (String.String (Ascii.Ascii false false false false true true true false) (String.String (Ascii.Ascii true false false false false true true false) (String.String (Ascii.Ascii false false true false true true true false) (String.String (Ascii.Ascii false false true false true true true false) (String.String (Ascii.Ascii true false true false false true true false) (String.String (Ascii.Ascii false true false false true true true false) (String.String (Ascii.Ascii false true true true false true true false) (String.String (Ascii.Ascii false false false false false true false false) (String.String (Ascii.Ascii true false true true true true false false) (String.String (Ascii.Ascii false false false false false true false false) (String.String (Ascii.Ascii false true false false false true false false) (String.String (Ascii.Ascii true false true true false false true false) (String.String (Ascii.Ascii true false false false false false true false) (String.String (Ascii.Ascii false true false true false false true false) (String.String (Ascii.Ascii true true true true false false true false) (String.String (Ascii.Ascii false true false false true false true false) (String.String (Ascii.Ascii false true true true false true false false) (String.String (Ascii.Ascii true false true true false false true false) (String.String (Ascii.Ascii true false false true false false true false) (String.String (Ascii.Ascii false true true true false false true false) (String.String (Ascii.Ascii true true true true false false true false) (String.String (Ascii.Ascii false true false false true false true false) (String.String (Ascii.Ascii false true true true false true false false) (String.String (Ascii.Ascii false false false false true false true false) (String.String (Ascii.Ascii true false false false false false true false) (String.String (Ascii.Ascii false false true false true false true false) (String.String (Ascii.Ascii true true false false false false true false) (String.String (Ascii.Ascii false false false true false false true false) (String.String (Ascii.Ascii false true false false false true false false) String.EmptyString))))))))))))))))))))))))))))))))))))))))) ++ [10%N]) = Some (lit (String.String (Ascii.Ascii true true false false false true true false) (String.String (Ascii.Ascii true false true false true true true false) (String.String (Ascii.Ascii false true false false true true true false) (String.String (Ascii.Ascii false true false false true true true false) (String.String (Ascii.Ascii true false true false false true true false) (String.String (Ascii.Ascii false true true true false true true false) (String.String (Ascii.Ascii false false true false true true true false) (String.String (Ascii.Ascii true true true true true false true false) (String.String (Ascii.Ascii false true true false true true true false) (String.String (Ascii.Ascii true false true false false true true false) (String.String (Ascii.Ascii false true false false true true true false) (String.String (Ascii.Ascii true true false false true true true false) (String.String (Ascii.Ascii true false false true false true true false) (String.String (Ascii.Ascii true true true true false true true false) (String.String (Ascii.Ascii false true true true false true true false) (String.String (Ascii.Ascii false false false false false true false false) (String.String (Ascii.Ascii true false true true true true false false) (String.String (Ascii.Ascii false false false false false true false false) (String.String (Ascii.Ascii false true false false false true false false) (String.String (Ascii.Ascii true false true true false false true false) (String.String (Ascii.Ascii true false false false false false true false) (String.String (Ascii.Ascii false true false true false false true false) (String.String (Ascii.Ascii true true true true false false true false) (String.String (Ascii.Ascii false true false false true false true false) (String.String (Ascii.Ascii false true true true false true false false) (String.String (Ascii.Ascii true false true true false false true false) (String.String (Ascii.Ascii true false false true false false true false) (String.String (Ascii.Ascii false true true true false false true false) (String.String (Ascii.Ascii true true true true false false true false) (String.String (Ascii.Ascii false true false false true false true false) (String.String (Ascii.Ascii false true true true false true false false) (String.String (Ascii.Ascii false false false false true false true false) (String.String (Ascii.Ascii true false false false false false true false) (String.String (Ascii.Ascii false false true false true false true false) (String.String (Ascii.Ascii true true false false false false true false) (String.String (Ascii.Ascii false false false true false false true false) (String.String (Ascii.Ascii false true false false false true false false) String.EmptyString)))))))))))))))))))))))))))))))))))))).
Proof. exact self_pattern_toml_by_hand. Qed.
Print Assumptions C19_self_pattern_toml_by_hand.
