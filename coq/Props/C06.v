(* C06 -- a failing update leaves every file untouched: all files are validated before the first write.
   Statements only; the proofs are in Proofs/RewriteFacts.v. *)
From Coq Require Import List Bool NArith Arith Permutation.
From BV Require Import Lib.PyStr Gen.Tables Model.Rewrite Proofs.RewriteFacts.
Import ListNotations.

Theorem C06_eager_atomic : forall fs items r es, rewrite_files_eager fs items = (r, es) -> r <> FilesOk -> writes es = [].
Proof. exact eager_atomic. Qed.
Print Assumptions C06_eager_atomic.

Theorem C06_lazy_not_atomic : exists fs items r es, rewrite_files_lazy fs items = (r, es) /\ r <> FilesOk /\ writes es <> [].
Proof. exact lazy_not_atomic. Qed.
Print Assumptions C06_lazy_not_atomic.

Theorem C06_repo_rewrite_is_eager : REWRITE_FILES_EAGER_V2 = true /\ REWRITE_FILES_EAGER_V1 = true.
Proof. exact repo_rewrite_is_eager. Qed.
Print Assumptions C06_repo_rewrite_is_eager.

Theorem C06_dry_error_real_noop : forall fs changed items sorted_items r l, Permutation items sorted_items ->
  diff_files fs changed sorted_items = (r, l) -> r <> FilesOk ->
  (forall it c nc, In it sorted_items -> fs (fst it) = Some c -> new_content (snd it) c = Some nc ->
                   eqb_str nc c && existsb changed (snd it) = false) ->
  exists r' es, rewrite_files_eager fs items = (r', es) /\ r' <> FilesOk /\ writes es = [].
Proof. exact dry_error_real_noop. Qed.
Print Assumptions C06_dry_error_real_noop.

Theorem C06_bad_item_real_noop : forall fs items,
  (exists it, In it items /\ (fs (fst it) = None \/ exists c, fs (fst it) = Some c /\ new_content (snd it) c = None)) ->
  exists r es, rewrite_files_eager fs items = (r, es) /\ r <> FilesOk /\ writes es = [].
Proof. exact bad_item_real_noop. Qed.
Print Assumptions C06_bad_item_real_noop.

(* ---- structural facts extracted from the source by T1: order of the steps in the code ---- *)
From BV Require Import Gen.Tables Proofs.StructureFacts.
Local Open Scope N_scope.
Theorem C06_repo_order_cli__update :
  ORDER_CLI__UPDATE = [
  [118;99;115;46;103;101;116;95;118;99;115;95;97;112;105] (* vcs.get_vcs_api *);
  [118;99;115;46;97;115;115;101;114;116;95;110;111;116;95;100;105;114;116;121] (* vcs.assert_not_dirty *);
  [118;50;114;101;119;114;105;116;101;46;114;101;119;114;105;116;101;95;102;105;108;101;115] (* v2rewrite.rewrite_files *);
  [118;49;114;101;119;114;105;116;101;46;114;101;119;114;105;116;101;95;102;105;108;101;115] (* v1rewrite.rewrite_files *);
  [118;99;115;46;99;111;109;109;105;116] (* vcs.commit *)
  ].
Proof. exact repo_order_cli__update. Qed.
Print Assumptions C06_repo_order_cli__update.
