(* C06 -- a failing update leaves every file untouched: all files are validated before the first write.
   Statements only; the proofs are in Proofs/RewriteFacts.v. *)
From Coq Require Import List Bool NArith Arith Permutation.
From BV Require Import Lib.PyStr Gen.Tables Model.Rewrite Proofs.RewriteFacts Proofs.EagerFacts.
Import ListNotations.

Theorem C06_eager_atomic : forall fs items r es, rewrite_files_eager fs items = (r, es) -> r <> FilesOk -> writes es = [].
Proof. exact eager_atomic. Qed.
Print Assumptions C06_eager_atomic.

Theorem C06_lazy_not_atomic : exists fs items r es, rewrite_files_lazy fs items = (r, es) /\ r <> FilesOk /\ writes es <> [].
Proof. exact lazy_not_atomic. Qed.
Print Assumptions C06_lazy_not_atomic.

Theorem C06_repo_rewrite_is_eager : REWRITE_FILES_EAGER_V2 = true /\ REWRITE_FILES_EAGER_V1 = true.
Proof. exact repo_rewrite_is_eager. Qed.
Print Assumptions C06_repo_rewrite_is_eager.

Theorem C06_dry_error_real_noop : forall fs changed items sorted_items r l, Permutation items sorted_items ->
  diff_files fs changed sorted_items = (r, l) -> r <> FilesOk ->
  (forall it c nc, In it sorted_items -> fs (fst it) = Some c -> new_content (snd it) c = Some nc ->
                   eqb_str nc c && existsb changed (snd it) = false) ->
  exists r' es, rewrite_files_eager fs items = (r', es) /\ r' <> FilesOk /\ writes es = [].
Proof. exact dry_error_real_noop. Qed.
Print Assumptions C06_dry_error_real_noop.

Theorem C06_bad_item_real_noop : forall fs items,
  (exists it, In it items /\ (fs (fst it) = None \/ exists c, fs (fst it) = Some c /\ new_content (snd it) c = None)) ->
  exists r es, rewrite_files_eager fs items = (r, es) /\ r <> FilesOk /\ writes es = [].
Proof. exact bad_item_real_noop. Qed.
Print Assumptions C06_bad_item_real_noop.

(* ---- structural facts extracted from the source by T1: order of the steps in the code ---- *)
From BV Require Import Gen.Tables.
Local Open Scope N_scope.

(* ---- call orders extracted from the source by T1: the steps this property rests on ---- *)
From Coq Require Import Strings.String.
From BV Require Import Lib.StrLit Gen.Tables Proofs.OrderC06.
Local Open Scope string_scope.

(* in cli._update files are rewritten after the dirty check and before any VCS write *)
Theorem C06_repo_order__update :
  restrict (lits ["vcs.assert_not_dirty"; "v2rewrite.rewrite_files"; "v1rewrite.rewrite_files"; "vcs.commit"]) ORDER_CLI__UPDATE
  = lits ["vcs.assert_not_dirty"; "v2rewrite.rewrite_files"; "v1rewrite.rewrite_files"; "vcs.commit"].
Proof. exact c06_order__update. Qed.
Print Assumptions C06_repo_order__update.
