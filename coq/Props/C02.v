(* C02 — rendered versions are accepted by their own pattern and read back unchanged.
   Restatements only; the proofs are in Proofs/RegexFacts.v and Proofs/PatAstFacts.v. *)
From Coq Require Import List Bool NArith ZArith Arith.
From BV Require Import Lib.PyStr Lib.Decimal Lib.Types Lib.Regex Lib.RegexParse Model.V2 Gen.Tables
  Model.PatAst Proofs.RegexFacts Proofs.PatAstFacts.
Import ListNotations.

(* ---- the matcher never looks past a character that every class of the regex rejects ---- *)
Theorem C02_rems_local : forall fuel n0 n0' r c t,
  no_atom_accepts r c = true -> no_anchor r = true ->
  forall x, rems fuel n0 r (x ++ c :: t) = map (fun '(e, s) => (e, s ++ c :: t)) (rems fuel n0' r x).
Proof. exact rems_local. Qed.
Print Assumptions C02_rems_local.

(* ---- nor past its maximal width ---- *)
Theorem C02_rems_width : forall r w, no_anchor r = true -> maxw r = Some w ->
  forall f n0 n0' rest x, (w <= length x)%nat ->
    rems f n0 r (x ++ rest) = map (fun '(e, s) => (e, s ++ rest)) (rems f n0' r x).
Proof. exact rems_width. Qed.
Print Assumptions C02_rems_width.

(* ---- round trip on the AST layer ---- *)
Theorem C02_roundtrip_ast : forall v p tail f n0,
  sep_ok v p tail -> (length (fmt v p ++ tail) <= f)%nat ->
  first_match f n0 (comp p) (fmt v p ++ tail) = Some (envof v p, tail).
Proof. exact roundtrip_ast. Qed.
Print Assumptions C02_roundtrip_ast.

(* ---- numeric parts, over the generated PART_PATTERNS ---- *)
Theorem C02_numeric_parts_regex : forall n,
  (In n [P_MAJOR; P_MINOR; P_PATCH; P_BUILD; P_NUM; P_INC0] ->
     part_regex n = Some (Cat (plus_re digit_re) Eps)) /\
  (In n [P_BLD; P_INC1] ->
     part_regex n = Some (Cat (Cls false [(49, 57)]%N) (Cat (Star digit_re) Eps))).
Proof. exact numeric_parts_regex. Qed.
Print Assumptions C02_numeric_parts_regex.

Theorem C02_numeric_part_sep : forall name n rest f n0,
  In name [P_MAJOR; P_MINOR; P_PATCH; P_BUILD; P_NUM; P_INC0] \/ (In name [P_BLD; P_INC1] /\ n <> 0%N) ->
  nodigit_head rest = true -> (length (dec n ++ rest) <= f)%nat ->
  first_match f n0 (pre name) (dec n ++ rest) = Some ([], rest).
Proof. exact numeric_part_sep. Qed.
Print Assumptions C02_numeric_part_sep.

Theorem C02_numeric0_part_sep_str : forall name ds rest f n0,
  In name [P_MAJOR; P_MINOR; P_PATCH; P_BUILD; P_NUM; P_INC0] ->
  all_digits ds = true -> ds <> [] -> nodigit_head rest = true ->
  (length (ds ++ rest) <= f)%nat ->
  first_match f n0 (pre name) (ds ++ rest) = Some ([], rest).
Proof. exact numeric0_part_sep_str. Qed.
Print Assumptions C02_numeric0_part_sep_str.

(* ---- finite parts, over the generated PART_PATTERNS and PART_FORMATS ---- *)
Theorem C02_finite_parts_fullmatch :
  forallb (fun '(name, texts) =>
             forallb (fun t => match re_match (pre name) t with Some ([], []) => true | _ => false end) texts)
          fin_domain = true.
Proof. exact finite_parts_fullmatch. Qed.
Print Assumptions C02_finite_parts_fullmatch.

Theorem C02_finite_parts_sep : forall name texts t rest f n0,
  In (name, texts) fin_domain -> In t texts ->
  head_rejected_by (pre name) rest = true ->
  (length (t ++ rest) <= f)%nat ->
  first_match f n0 (pre name) (t ++ rest) = Some ([], rest).
Proof. exact finite_parts_sep. Qed.
Print Assumptions C02_finite_parts_sep.

Theorem C02_fixed_parts_sep : forall name texts t rest f n0,
  In (name, texts) fin_domain -> In t texts -> mem_str name fixed_parts = true ->
  (length (t ++ rest) <= f)%nat ->
  first_match f n0 (pre name) (t ++ rest) = Some ([], rest).
Proof. exact fixed_parts_sep. Qed.
Print Assumptions C02_fixed_parts_sep.

Theorem C02_cal_part_sep : forall v name fld lo cnt z rest,
  In (name, lo, cnt) fin_cal_spec ->
  part_field name = Some fld -> get_field v fld = Some (Some (FInt z)) ->
  (lo <= z < lo + Z.of_N cnt)%Z ->
  head_rejected_by (pre name) rest = true \/ mem_str name fixed_parts = true ->
  part_sep_ok v name rest.
Proof. exact cal_part_sep. Qed.
Print Assumptions C02_cal_part_sep.

(* ---- known finding: week 53 of %W / %U is rendered but not recognised ---- *)
Theorem C02_week53_refuted : forall name, In name [P_WW; P_0W; P_UU; P_0U] ->
  fmtpart name 53 = dec 53 /\ forall e, re_match (pre name) (dec 53) <> Some (e, []).
Proof. exact week53_refuted. Qed.
Print Assumptions C02_week53_refuted.

(* boundary of the two-digit year parts: a year ending in 00 renders as "0", which YY / GG reject *)
Theorem C02_yy_century_refuted : forall name, In name [P_YY; P_GG] ->
  fmtpart name 2000 = dec 0 /\ re_match (pre name) (dec 0) = None.
Proof. exact yy_century_refuted. Qed.
Print Assumptions C02_yy_century_refuted.

(* ---- instances of the round trip: the premises are satisfiable ---- *)
Theorem C02_roundtrip_semver : forall v,
  (0 <= v_major v)%Z -> (0 <= v_minor v)%Z -> (0 <= v_patch v)%Z ->
  let p := PLit [118]%N (PPart P_MAJOR (PLit [46]%N (PPart P_MINOR
             (POpt (PLit [46]%N (PPart P_PATCH PNil)) PNil)))) in
  re_match (comp p) (fmt v p) = Some (envof v p, []).
Proof. exact roundtrip_semver. Qed.
Print Assumptions C02_roundtrip_semver.

Theorem C02_roundtrip_calver : forall v y m,
  v_year_y v = Some y -> (1000 <= y <= 9999)%Z ->
  v_month v = Some m -> (1 <= m <= 12)%Z ->
  all_digits (v_bid v) = true -> v_bid v <> [] ->
  In (v_tag v) tag_texts ->
  let p := PLit [118]%N (PPart P_YYYY (PPart P_0M (PLit [46]%N (PPart P_BUILD
             (POpt (PLit [45]%N (PPart P_TAG PNil)) PNil))))) in
  re_match (comp p) (fmt v p) = Some (envof v p, []).
Proof. exact roundtrip_calver. Qed.
Print Assumptions C02_roundtrip_calver.

(* ---- string layer (Model/V2.v): the same pattern as text, compiled the way bumpver does ---- *)
Example C02_string_layer_instance :
  let ptxt := [118;89;89;89;89;48;77;46;66;85;73;76;68;91;45;84;65;71;93]%N in  (* vYYYY0M.BUILD[-TAG] *)
  let vtxt := [118;50;48;50;52;48;49;46;49;48;48;49;45;98;101;116;97]%N in      (* v202401.1001-beta *)
  let p := PLit [118]%N (PPart P_YYYY (PPart P_0M (PLit [46]%N (PPart P_BUILD
             (POpt (PLit [45]%N (PPart P_TAG PNil)) PNil))))) in
  print p = ptxt
  /\ parse_re (compile_pattern_str ptxt) <> None
  /\ match compile_pattern_re ptxt with
     | Some r => re_match r vtxt = re_match (comp p) vtxt
                 /\ re_fullmatch_first r vtxt =
                    Some [ ([121;101;97;114;95;121], [50;48;50;52]);      (* year_y = 2024 *)
                           ([109;111;110;116;104], [48;49]);              (* month = 01 *)
                           ([98;105;100], [49;48;48;49]);                 (* bid = 1001 *)
                           ([116;97;103], [98;101;116;97]) ]%N            (* tag = beta *)
     | None => False
     end.
Proof. vm_compute. repeat split. discriminate. Qed.
Print Assumptions C02_string_layer_instance.

(* ---- Proofs.BridgeFacts ---- *)
From Coq Require Import List Bool NArith ZArith Arith.
From BV Require Import Lib.PyStr Lib.Regex Model.V2 Model.PatAst Model.PatParse Proofs.RegexFacts Proofs.BridgeFacts.
Import ListNotations.
Theorem C02_part_sep_ok_b_sound : forall (v : vinfo) (n rest : list N), part_sep_ok_b v n rest = true -> part_sep_ok v n rest.
Proof. exact part_sep_ok_b_sound. Qed.
Print Assumptions C02_part_sep_ok_b_sound.

Theorem C02_sep_ok_b_sound : forall (v : vinfo) (p : pat) (tail : list N), sep_ok_b v p tail = true -> sep_ok v p tail.
Proof. exact sep_ok_b_sound. Qed.
Print Assumptions C02_sep_ok_b_sound.

Theorem C02_sep_ok_b_roundtrip : forall (v : vinfo) (p : pat), sep_ok_b v p [] = true -> re_match (comp p) (fmt v p) = Some (envof v p, []).
Proof. exact sep_ok_b_roundtrip. Qed.
Print Assumptions C02_sep_ok_b_roundtrip.

Theorem C02_bridge_ok_spec : forall (v : vinfo) (s : list N), bridge_ok v s = true -> exists p : pat, parse_pat s = Some p /\ print p = s /\ sep_ok v p [] /\ format_version v s = Some (render v p) /\ re_match (comp p) (fmt v p) = Some (envof v p, []) /\ (exists r : re, compile_pattern_re s = Some r /\ re_match r (fmt v p) = Some (envof v p, [])).
Proof. exact bridge_ok_spec. Qed.
Print Assumptions C02_bridge_ok_spec.
