(* C02 — rendered versions are accepted by their own pattern and read back unchanged. (theorems added below as they are proved) *)
From Coq Require Import List NArith ZArith.
From BV Require Import Lib.PyStr Lib.Regex Lib.RegexParse Model.V2.
Import ListNotations.

Example C02_smoke :
  compile_pattern_str [118;89;89;89;89;46;66;85;73;76;68]%N <> [].
Proof. vm_compute. discriminate. Qed.
Print Assumptions C02_smoke.
