(* C11 -- uncommitted changes are never swept into the bump commit. *)
From Coq Require Import List Bool NArith.
From BV Require Import Lib.PyStr Model.V2 Model.Vcs Proofs.VcsFactsC11.
Import ListNotations.
Local Open Scope N_scope.

(* porcelain_line xy path = xy ++ " " ++ path ;
   wf_path p = p is not empty, has no surrounding white space, no line break, no " -> " inside, and does not start with "-> " *)
Theorem C11_status_single_line : forall xy path required,
  length xy = 2%nat -> (forall c, In c xy -> is_linebreak c = false) -> wf_path path ->
  dirty_files (porcelain_line xy path ++ [10]) required =
  if mem_str path required || negb (eqb_str (strip_ws xy) s_untracked) then [path] else [].
Proof. exact status_single_line. Qed.
Print Assumptions C11_status_single_line.

Theorem C11_untracked_unrelated_inert : forall path required, wf_path path -> mem_str path required = false ->
  forall allow, assert_not_dirty (porcelain_line s_untracked path ++ [10]) required allow = DirtyOk.
Proof. exact untracked_unrelated_inert. Qed.
Print Assumptions C11_untracked_unrelated_inert.

Theorem C11_dirty_pattern_file_blocks : forall xy path required allow,
  length xy = 2%nat -> (forall c, In c xy -> is_linebreak c = false) -> wf_path path -> mem_str path required = true ->
  assert_not_dirty (porcelain_line xy path ++ [10]) required allow = DirtyAbort.
Proof. exact dirty_pattern_file_blocks. Qed.
Print Assumptions C11_dirty_pattern_file_blocks.

Theorem C11_abort_rule : forall out required allow,
  assert_not_dirty out required allow = DirtyAbort <->
  ((allow = false /\ dirty_files out required <> []) \/ existsb (fun f => mem_str f required) (dirty_files out required) = true).
Proof. exact abort_rule. Qed.
Print Assumptions C11_abort_rule.

(* why wf_path excludes a path starting with "-> " : the line " M -> x" is read as a rename with an empty source *)
Example C11_wf_path_needs_prefix_condition :
  let p := [45;62;32;120] in
  (strip_ws p = p /\ forallb (fun c => negb (is_linebreak c)) p = true /\ str_in [32;45;62;32] p = false) /\
  dirty_files (porcelain_line s_untracked p ++ [10]) [] = [] /\
  dirty_files (porcelain_line [32;77] p ++ [10]) [] = [[]; [120]].
Proof. exact wf_path_needs_prefix_condition. Qed.
Print Assumptions C11_wf_path_needs_prefix_condition.

(* " M a.txt" : the pattern file is reported dirty, and --allow-dirty does not let it through *)
Example C11_modified_pattern_file :
  dirty_files [32;77;32;97;46;116;120;116;10] [[97;46;116;120;116]] = [[97;46;116;120;116]] /\
  assert_not_dirty [32;77;32;97;46;116;120;116;10] [[97;46;116;120;116]] true = DirtyAbort.
Proof. vm_compute. split; reflexivity. Qed.
Print Assumptions C11_modified_pattern_file.

(* "?? b.txt" next to the pattern file a.txt : ignored, with or without --allow-dirty *)
Example C11_untracked_other_file :
  dirty_files [63;63;32;98;46;116;120;116;10] [[97;46;116;120;116]] = [] /\
  assert_not_dirty [63;63;32;98;46;116;120;116;10] [[97;46;116;120;116]] false = DirtyOk.
Proof. vm_compute. split; reflexivity. Qed.
Print Assumptions C11_untracked_other_file.

(* ---- structural facts extracted from the source by T1: order of the steps in the code ---- *)
From BV Require Import Gen.Tables.
Local Open Scope N_scope.

(* ---- call orders extracted from the source by T1: the steps this property rests on ---- *)
From Coq Require Import Strings.String.
From BV Require Import Lib.StrLit Gen.Tables Proofs.OrderC11.
Local Open Scope string_scope.

(* vcs.assert_not_dirty reads the status once and then decides *)
Theorem C11_repo_order_assert_not_dirty :
  restrict (lits ["vcs_api.status"; "sys.exit"]) ORDER_VCS_ASSERT_NOT_DIRTY
  = lits ["vcs_api.status"; "sys.exit"; "sys.exit"].
Proof. exact c11_order_assert_not_dirty. Qed.
Print Assumptions C11_repo_order_assert_not_dirty.

(* in cli._update the dirty check precedes every write *)
Theorem C11_repo_order__update :
  restrict (lits ["vcs.assert_not_dirty"; "v2rewrite.rewrite_files"; "v1rewrite.rewrite_files"; "vcs.commit"]) ORDER_CLI__UPDATE
  = lits ["vcs.assert_not_dirty"; "v2rewrite.rewrite_files"; "v1rewrite.rewrite_files"; "vcs.commit"].
Proof. exact c11_order__update. Qed.
Print Assumptions C11_repo_order__update.

(* the status commands extracted from the source ask for the plain status of the whole working tree *)
From Coq Require Import Strings.String.
From BV Require Import Lib.StrLit Gen.Tables.
Theorem C11_repo_status_templates :
  assoc (StrLit.lit "status") VCS_SUBCOMMANDS_GIT = Some (StrLit.lit "git status --porcelain --untracked-files=all") /\
  assoc (StrLit.lit "status") VCS_SUBCOMMANDS_HG = Some (StrLit.lit "hg status -umard").
Proof. exact repo_status_templates. Qed.
Print Assumptions C11_repo_status_templates.
