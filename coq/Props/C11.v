(* C11 -- uncommitted changes are never swept into the bump commit. *)
From Coq Require Import List Bool NArith.
From BV Require Import Lib.PyStr Model.V2 Model.Vcs Proofs.VcsFacts.
Import ListNotations.
Local Open Scope N_scope.

(* porcelain_line xy path = xy ++ " " ++ path ;
   wf_path p = p is not empty, has no surrounding white space, no line break, no " -> " inside, and does not start with "-> " *)
Theorem C11_status_single_line : forall xy path required,
  length xy = 2%nat -> (forall c, In c xy -> is_linebreak c = false) -> wf_path path ->
  dirty_files (porcelain_line xy path ++ [10]) required =
  if mem_str path required || negb (eqb_str (strip_ws xy) s_untracked) then [path] else [].
Proof. exact status_single_line. Qed.
Print Assumptions C11_status_single_line.

Theorem C11_untracked_unrelated_inert : forall path required, wf_path path -> mem_str path required = false ->
  forall allow, assert_not_dirty (porcelain_line s_untracked path ++ [10]) required allow = DirtyOk.
Proof. exact untracked_unrelated_inert. Qed.
Print Assumptions C11_untracked_unrelated_inert.

Theorem C11_dirty_pattern_file_blocks : forall xy path required allow,
  length xy = 2%nat -> (forall c, In c xy -> is_linebreak c = false) -> wf_path path -> mem_str path required = true ->
  assert_not_dirty (porcelain_line xy path ++ [10]) required allow = DirtyAbort.
Proof. exact dirty_pattern_file_blocks. Qed.
Print Assumptions C11_dirty_pattern_file_blocks.

Theorem C11_abort_rule : forall out required allow,
  assert_not_dirty out required allow = DirtyAbort <->
  ((allow = false /\ dirty_files out required <> []) \/ existsb (fun f => mem_str f required) (dirty_files out required) = true).
Proof. exact abort_rule. Qed.
Print Assumptions C11_abort_rule.

(* why wf_path excludes a path starting with "-> " : the line " M -> x" is read as a rename with an empty source *)
Example C11_wf_path_needs_prefix_condition :
  let p := [45;62;32;120] in
  (strip_ws p = p /\ forallb (fun c => negb (is_linebreak c)) p = true /\ str_in [32;45;62;32] p = false) /\
  dirty_files (porcelain_line s_untracked p ++ [10]) [] = [] /\
  dirty_files (porcelain_line [32;77] p ++ [10]) [] = [[]; [120]].
Proof. exact wf_path_needs_prefix_condition. Qed.
Print Assumptions C11_wf_path_needs_prefix_condition.

(* " M a.txt" : the pattern file is reported dirty, and --allow-dirty does not let it through *)
Example C11_modified_pattern_file :
  dirty_files [32;77;32;97;46;116;120;116;10] [[97;46;116;120;116]] = [[97;46;116;120;116]] /\
  assert_not_dirty [32;77;32;97;46;116;120;116;10] [[97;46;116;120;116]] true = DirtyAbort.
Proof. vm_compute. split; reflexivity. Qed.
Print Assumptions C11_modified_pattern_file.

(* "?? b.txt" next to the pattern file a.txt : ignored, with or without --allow-dirty *)
Example C11_untracked_other_file :
  dirty_files [63;63;32;98;46;116;120;116;10] [[97;46;116;120;116]] = [] /\
  assert_not_dirty [63;63;32;98;46;116;120;116;10] [[97;46;116;120;116]] false = DirtyOk.
Proof. vm_compute. split; reflexivity. Qed.
Print Assumptions C11_untracked_other_file.

(* ---- structural facts extracted from the source by T1: order of the steps in the code ---- *)
From BV Require Import Gen.Tables Proofs.StructureFacts.
Local Open Scope N_scope.
Theorem C11_repo_order_vcs_assert_not_dirty :
  ORDER_VCS_ASSERT_NOT_DIRTY = [
  [118;99;115;95;97;112;105;46;115;116;97;116;117;115] (* vcs_api.status *);
  [115;121;115;46;101;120;105;116] (* sys.exit *);
  [115;121;115;46;101;120;105;116] (* sys.exit *)
  ].
Proof. exact repo_order_vcs_assert_not_dirty. Qed.
Print Assumptions C11_repo_order_vcs_assert_not_dirty.

Theorem C11_repo_order_cli__update :
  ORDER_CLI__UPDATE = [
  [118;99;115;46;103;101;116;95;118;99;115;95;97;112;105] (* vcs.get_vcs_api *);
  [118;99;115;46;97;115;115;101;114;116;95;110;111;116;95;100;105;114;116;121] (* vcs.assert_not_dirty *);
  [118;50;114;101;119;114;105;116;101;46;114;101;119;114;105;116;101;95;102;105;108;101;115] (* v2rewrite.rewrite_files *);
  [118;49;114;101;119;114;105;116;101;46;114;101;119;114;105;116;101;95;102;105;108;101;115] (* v1rewrite.rewrite_files *);
  [118;99;115;46;99;111;109;109;105;116] (* vcs.commit *)
  ].
Proof. exact repo_order_cli__update. Qed.
Print Assumptions C11_repo_order_cli__update.
