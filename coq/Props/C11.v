(* C11 -- uncommitted changes are never swept into the bump commit. (theorems are added as they are proved) *)
From Coq Require Import List NArith.
From BV Require Import Lib.PyStr Model.Vcs.
Import ListNotations.
(* " M a.txt" : the pattern file is reported dirty, and --allow-dirty does not let it through *)
Example C11_modified_pattern_file :
  dirty_files [32;77;32;97;46;116;120;116;10]%N [[97;46;116;120;116]%N] = [[97;46;116;120;116]%N] /\
  assert_not_dirty [32;77;32;97;46;116;120;116;10]%N [[97;46;116;120;116]%N] true = DirtyAbort.
Proof. vm_compute. split; reflexivity. Qed.
Print Assumptions C11_modified_pattern_file.
