(* Call-order facts C01 rests on, over the call orders T1 extracts from the source (translate/t1_calls.py).
   Each states the relative order and multiplicity of exactly the steps that matter for the property;
   steps that do not matter may move without breaking it. *)
From Coq Require Import List NArith Strings.String.
From BV Require Import Lib.PyStr Lib.StrLit Gen.Tables.
Import ListNotations.
Local Open Scope string_scope.

(* in cli.update the command line options are merged before the version to start from is resolved, the gate runs after the increment and before anything is printed as a diff or written *)
Theorem c01_order_update :
  restrict (lits ["_parse_vcs_options"; "_update_cfg_from_vcs"; "incr_dispatch"; "_is_valid_version"; "_print_diff"; "_try_update"]) ORDER_CLI_UPDATE
  = lits ["_parse_vcs_options"; "_update_cfg_from_vcs"; "incr_dispatch"; "_is_valid_version"; "_print_diff"; "_try_update"].
Proof. vm_compute. reflexivity. Qed.

(* in cli.test the gate runs after the increment and before the two output lines *)
Theorem c01_order_test :
  restrict (lits ["incr_dispatch"; "_is_valid_version"; "version.to_pep440"; "click.echo"]) ORDER_CLI_TEST
  = lits ["incr_dispatch"; "_is_valid_version"; "version.to_pep440"; "click.echo"; "click.echo"].
Proof. vm_compute. reflexivity. Qed.
