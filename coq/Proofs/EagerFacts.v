(* C06 / C13: the shape of rewrite_files extracted from the source by T1 -- both engines iterate over the fully
   computed list of rewritten files (so every pattern of every file is validated before the first write). *)
From Coq Require Import List Bool NArith Arith Lia.
From BV Require Import Lib.PyStr Gen.Tables Model.V2 Model.Rewrite Model.Files.
Import ListNotations.

Theorem repo_rewrite_is_eager : REWRITE_FILES_EAGER_V2 = true /\ REWRITE_FILES_EAGER_V1 = true.
Proof. split; reflexivity. Qed.
