(* C11 (porcelain parsing and the dirty rules). *)
From Coq Require Import List Bool NArith ZArith Arith Lia Permutation.
From BV Require Import Lib.PyStr Lib.Decimal Lib.Regex Lib.RegexParse Model.V2 Model.Pep440 Model.V1 Model.Vcs Gen.Tables Proofs.Pep440Facts.
Import ListNotations.
Local Open Scope N_scope.

(* ================================================================== C11 *)
Definition porcelain_line (xy path : list N) : list N := xy ++ [32] ++ path.

(* a path as git prints it on a porcelain line: not empty, no surrounding white space, no line
   break, no " -> " inside, and (added, see [wf_path_needs_prefix_condition]) not starting with "-> " *)
Definition wf_path (p : list N) : Prop :=
  p <> [] /\ strip_ws p = p /\ (forall c, In c p -> is_linebreak c = false) /\
  str_in [32;45;62;32] p = false /\ prefixb [45;62;32] p = false.

(* Without the last conjunct the statement of status_single_line is false: the path "-> x" satisfies the
   other four conditions, but the line "?? -> x" is read as a rename with an empty source. *)
Example wf_path_needs_prefix_condition :
  let p := [45;62;32;120] in
  (strip_ws p = p /\ forallb (fun c => negb (is_linebreak c)) p = true /\ str_in [32;45;62;32] p = false) /\
  dirty_files (porcelain_line s_untracked p ++ [10]) [] = [] /\
  dirty_files (porcelain_line [32;77] p ++ [10]) [] = [[]; [120]].
Proof. vm_compute. repeat split; reflexivity. Qed.

Lemma splitlines_go_nolb : forall s cur rest, (forall c, In c s -> is_linebreak c = false) ->
  splitlines_go (s ++ rest) cur = splitlines_go rest (rev s ++ cur).
Proof.
  induction s as [|c s IH]; intros cur rest H; [reflexivity|].
  cbn [app splitlines_go rev]. rewrite (H c (or_introl eq_refl)). rewrite IH by (intros; apply H; right; assumption).
  rewrite <- app_assoc. reflexivity.
Qed.

Lemma splitlines_single : forall s, (forall c, In c s -> is_linebreak c = false) -> splitlines (s ++ [10]) = [s].
Proof.
  intros s H. unfold splitlines. rewrite splitlines_go_nolb by assumption.
  cbn [splitlines_go]. change (is_linebreak 10) with true. cbv iota. rewrite app_nil_r, rev_involutive. reflexivity.
Qed.

Lemma split_go_absent : forall sep s, sfind sep s = None -> split_go sep O s = [s].
Proof.
  induction s as [|c s IH]; intros H; [reflexivity|].
  cbn [sfind] in H. cbn [split_go]. destruct (prefixb sep (c :: s)); [discriminate H|].
  destruct (sfind sep s); [discriminate H|]. rewrite IH by reflexivity. reflexivity.
Qed.

Lemma ssplit_absent : forall sep s, sep <> [] -> str_in sep s = false -> ssplit sep s = [s].
Proof.
  intros sep s Hs H. unfold ssplit. destruct sep; [contradiction Hs; reflexivity|].
  apply split_go_absent. unfold str_in in H. destruct (sfind (n :: sep) s); [discriminate H|reflexivity].
Qed.

Lemma str_in_after_space : forall p, str_in [32;45;62;32] p = false -> prefixb [45;62;32] p = false ->
  str_in [32;45;62;32] (32 :: p) = false.
Proof.
  intros p H1 H2. unfold str_in in *. cbn [sfind].
  change (prefixb [32;45;62;32] (32 :: p)) with (prefixb [45;62;32] p). rewrite H2.
  destruct (sfind [32;45;62;32] p); [discriminate H1|reflexivity].
Qed.

Lemma status_items_single : forall xy path, length xy = 2%nat -> (forall c, In c xy -> is_linebreak c = false) -> wf_path path ->
  status_items (porcelain_line xy path ++ [10]) = [(strip_ws xy, 32 :: path)].
Proof.
  intros xy path Hl Hxy (Hne & Hst & Hlb & Hin & Hpre).
  unfold status_items, porcelain_line. rewrite splitlines_single.
  2:{ intros c Hc. apply in_app_or in Hc. destruct Hc as [Hc|Hc]; [apply Hxy; assumption|].
      destruct Hc as [<-|Hc]; [reflexivity|apply Hlb; assumption]. }
  destruct xy as [|a [|b [|? ?]]]; try discriminate Hl.
  cbn [flat_map app firstn skipn]. rewrite ssplit_absent; [reflexivity|discriminate|].
  apply str_in_after_space; assumption.
Qed.

Theorem status_single_line : forall xy path required, length xy = 2%nat -> (forall c, In c xy -> is_linebreak c = false) -> wf_path path ->
  dirty_files (porcelain_line xy path ++ [10]) required =
  if mem_str path required || negb (eqb_str (strip_ws xy) s_untracked) then [path] else [].
Proof.
  intros xy path required Hl Hxy Hwf. unfold dirty_files. rewrite status_items_single by assumption.
  destruct Hwf as (_ & Hst & _).
  assert (E : strip_ws (32 :: path) = path).
  { unfold strip_ws, strip in *. change (lstrip ws_chars (32 :: path)) with (lstrip ws_chars path). exact Hst. }
  cbn [flat_map]. rewrite E, app_nil_r. reflexivity.
Qed.

Theorem untracked_unrelated_inert : forall path required, wf_path path -> mem_str path required = false ->
  forall allow, assert_not_dirty (porcelain_line s_untracked path ++ [10]) required allow = DirtyOk.
Proof.
  intros path required Hwf Hm allow. unfold assert_not_dirty.
  rewrite status_single_line; [|reflexivity| |assumption].
  2:{ intros c [<-|[<-|[]]]; reflexivity. }
  rewrite Hm. change (eqb_str (strip_ws s_untracked) s_untracked) with true. cbn [orb negb existsb].
  rewrite andb_false_r. reflexivity.
Qed.

Theorem dirty_pattern_file_blocks : forall xy path required allow, length xy = 2%nat -> (forall c, In c xy -> is_linebreak c = false) ->
  wf_path path -> mem_str path required = true ->
  assert_not_dirty (porcelain_line xy path ++ [10]) required allow = DirtyAbort.
Proof.
  intros xy path required allow Hl Hxy Hwf Hm. unfold assert_not_dirty.
  rewrite status_single_line by assumption. rewrite Hm. cbn [orb existsb]. rewrite Hm.
  destruct allow; reflexivity.
Qed.

Theorem abort_rule : forall out required allow,
  assert_not_dirty out required allow = DirtyAbort <->
  ((allow = false /\ dirty_files out required <> []) \/ existsb (fun f => mem_str f required) (dirty_files out required) = true).
Proof.
  intros out required allow. unfold assert_not_dirty.
  destruct allow; cbn [negb andb].
  - destruct (existsb _ _); split; intros H; auto; try discriminate H.
    destruct H as [[H _]|H]; discriminate H.
  - destruct (dirty_files out required) as [|d l]; cbn [negb existsb].
    + split; [intros H; discriminate H|]. intros [[_ H]|H]; [contradiction H; reflexivity|discriminate H].
    + split; [|reflexivity]. intros _. left. split; [reflexivity|discriminate].
Qed.


(* the status text the parser is written for: both command sets ask for the plain machine-readable status of the whole
   working tree, untracked files listed one by one (fix bf03dd4: without --untracked-files=all git shows only the directory of a
   wholly untracked directory, which hides an untracked pattern file inside it) *)
From Coq Require Import Strings.String.
From BV Require Import Lib.StrLit.
Theorem repo_status_templates :
  assoc (StrLit.lit "status") VCS_SUBCOMMANDS_GIT = Some (StrLit.lit "git status --porcelain --untracked-files=all") /\
  assoc (StrLit.lit "status") VCS_SUBCOMMANDS_HG = Some (StrLit.lit "hg status -umard").
Proof. vm_compute. split; reflexivity. Qed.
