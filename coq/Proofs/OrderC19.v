(* Call-order facts C19 rests on, over the call orders T1 extracts from the source (translate/t1_calls.py).
   Each states the relative order and multiplicity of exactly the steps that matter for the property;
   steps that do not matter may move without breaking it. *)
From Coq Require Import List NArith Strings.String.
From BV Require Import Lib.PyStr Lib.StrLit Gen.Tables.
Import ListNotations.
Local Open Scope string_scope.

(* cli.init: refuse when configured, compute the default, write *)
Theorem c19_order_init :
  restrict (lits ["config.init"; "sys.exit"; "config.default_config"; "config.write_content"]) ORDER_CLI_INIT
  = lits ["config.init"; "sys.exit"; "config.default_config"; "sys.exit"; "config.write_content"].
Proof. vm_compute. reflexivity. Qed.
