(* Facts about the proleptic Gregorian calendar model (Lib/Calendar.v) and calendar keys (Model/CalKeys.v).
   Method: everything that concerns a single day (or two consecutive days) is decided by one vm_compute
   sweep over one 400-year era [0, 146097), lifted to all n >= 0 by periodicity (cal_periodic), and
   extended from one step to n <= m by induction and transitivity of the lexicographic order. *)
From Coq Require Import ZArith List Bool Lia ZifyBool.
From BV Require Import Lib.Calendar Model.CalKeys.
Import ListNotations.
Local Open Scope Z_scope.

(* ------------------------------------------------------------------------------------------ *)
(** * Small arithmetic lemmas *)

Lemma div4_shift x q : (x + 400 * q) / 4 = x / 4 + 100 * q.
Proof. replace (x + 400 * q) with (x + (100 * q) * 4) by ring. apply Z.div_add; lia. Qed.
Lemma div100_shift x q : (x + 400 * q) / 100 = x / 100 + 4 * q.
Proof. replace (x + 400 * q) with (x + (4 * q) * 100) by ring. apply Z.div_add; lia. Qed.
Lemma div400_shift x q : (x + 400 * q) / 400 = x / 400 + q.
Proof. replace (x + 400 * q) with (x + q * 400) by ring. apply Z.div_add; lia. Qed.
Lemma mod4_shift x q : (x + 400 * q) mod 4 = x mod 4.
Proof. replace (x + 400 * q) with (x + (100 * q) * 4) by ring. apply Z.mod_add; lia. Qed.
Lemma mod100_shift x q : (x + 400 * q) mod 100 = x mod 100.
Proof. replace (x + 400 * q) with (x + (4 * q) * 100) by ring. apply Z.mod_add; lia. Qed.
Lemma mod400_shift x q : (x + 400 * q) mod 400 = x mod 400.
Proof. replace (x + 400 * q) with (x + q * 400) by ring. apply Z.mod_add; lia. Qed.
Lemma mod7_era n q : (n + q * 146097) mod 7 = n mod 7.
Proof. replace (n + q * 146097) with (n + (q * 20871) * 7) by ring. apply Z.mod_add; lia. Qed.

Lemma is_leap_shift y q : is_leap (y + 400 * q) = is_leap y.
Proof. unfold is_leap. now rewrite mod4_shift, mod100_shift, mod400_shift. Qed.

Lemma days_before_year_shift y q : days_before_year (y + 400 * q) = days_before_year y + q * 146097.
Proof.
  unfold days_before_year; cbv zeta.
  replace (y + 400 * q - 1) with (y - 1 + 400 * q) by ring.
  rewrite div4_shift, div100_shift, div400_shift. ring.
Qed.

Lemma days_in_month_shift y q m : days_in_month (y + 400 * q) m = days_in_month y m.
Proof. unfold days_in_month. now rewrite is_leap_shift. Qed.

Lemma days_before_month_shift y q m : days_before_month (y + 400 * q) m = days_before_month y m.
Proof. unfold days_before_month. now rewrite is_leap_shift. Qed.

Lemma iso_p_shift y q : iso_p (y + 400 * q) = iso_p y.
Proof.
  unfold iso_p. rewrite div4_shift, div100_shift, div400_shift.
  replace (y + 400 * q + (y / 4 + 100 * q) - (y / 100 + 4 * q) + (y / 400 + q))
    with (y + y / 4 - y / 100 + y / 400 + (71 * q) * 7) by ring.
  apply Z.mod_add; lia.
Qed.

Lemma iso_weeks_in_shift y q : iso_weeks_in (y + 400 * q) = iso_weeks_in y.
Proof.
  unfold iso_weeks_in.
  replace (y + 400 * q - 1) with (y - 1 + 400 * q) by ring.
  now rewrite !iso_p_shift.
Qed.

Lemma days_in_month_bound y m : 28 <= days_in_month y m <= 31.
Proof.
  unfold days_in_month.
  destruct (m =? 2); [destruct (is_leap y); lia|].
  destruct ((m =? 4) || (m =? 6) || (m =? 9) || (m =? 11)); lia.
Qed.

(* ------------------------------------------------------------------------------------------ *)
(** * Periodicity: 400 years = 146097 days = 20871 weeks *)

Lemma civil_periodic n : civil (n + ERA) = let '(y, m, d) := civil n in (y + 400, m, d).
Proof.
  unfold civil, ERA; cbv zeta.
  replace (n + 146097 + 306) with (n + 306 + 1 * 146097) by ring.
  rewrite Z.div_add, Z.mod_add by lia.
  set (doe := (n + 306) mod 146097).
  set (era := (n + 306) / 146097).
  set (yoe := (doe - doe / 1460 + doe / 36524 - doe / 146096) / 365).
  set (dy := doe - (365 * yoe + yoe / 4 - yoe / 100)).
  set (mp := (5 * dy + 2) / 153).
  destruct ((if mp <? 10 then mp + 3 else mp - 9) <=? 2); f_equal; f_equal; ring.
Qed.

Lemma cal_of_civil n : civil n = (year_y (cal_of n), month (cal_of n), dom (cal_of n)).
Proof.
  unfold cal_of. destruct (civil n) as [[y m] d]; cbv zeta.
  destruct (_ <? 1); [reflexivity|]. destruct (_ <? _); reflexivity.
Qed.

Theorem cal_periodic : forall n, cal_of (n + ERA) = shift400 (cal_of n).
Proof.
  intro n. unfold cal_of. rewrite civil_periodic.
  destruct (civil n) as [[y m] d]; cbv zeta.
  replace (y + 400) with (y + 400 * 1) by ring.
  replace (y + 400 * 1 - 1) with (y - 1 + 400 * 1) by ring.
  rewrite days_before_year_shift, !iso_weeks_in_shift.
  unfold ERA. replace (n + 146097) with (n + 1 * 146097) by ring.
  rewrite mod7_era.
  replace (n + 1 * 146097 - (days_before_year y + 1 * 146097) + 1) with (n - days_before_year y + 1) by ring.
  set (j := n - days_before_year y + 1).
  set (wd := n mod 7).
  destruct (_ <? 1); [unfold shift400; cbn; f_equal; ring|].
  destruct (_ <? _); unfold shift400; cbn; f_equal; ring.
Qed.

(* shifting both year components by an arbitrary constant *)
Definition shiftk (k : Z) (c : cal) : cal :=
  mkcal (year_y c + k) (year_g c + k) (quarter c) (month c) (dom c) (doy c) (week_w c) (week_u c) (week_v c).

Lemma shiftk_0 c : shiftk 0 c = c.
Proof. destruct c; unfold shiftk; cbn. f_equal; ring. Qed.

Lemma shift400_shiftk k c : shift400 (shiftk k c) = shiftk (k + 400) c.
Proof. unfold shift400, shiftk; cbn. f_equal; ring. Qed.

Lemma cal_shift : forall q, 0 <= q -> forall r, cal_of (r + q * ERA) = shiftk (400 * q) (cal_of r).
Proof.
  apply (natlike_ind (fun q => forall r, cal_of (r + q * ERA) = shiftk (400 * q) (cal_of r))).
  - intro r. rewrite shiftk_0. f_equal. ring.
  - intros q Hq IH r.
    replace (r + Z.succ q * ERA) with (r + q * ERA + ERA) by ring.
    rewrite cal_periodic, IH, shift400_shiftk. f_equal. ring.
Qed.

(* every n >= 0 is r + q * ERA with r in the first era *)
Lemma era_split n : 0 <= n -> exists q r, 0 <= q /\ 0 <= r < ERA /\ n = r + q * ERA.
Proof.
  intro Hn. exists (n / ERA), (n mod ERA). unfold ERA.
  pose proof (Z.div_mod n 146097 ltac:(lia)).
  pose proof (Z.mod_pos_bound n 146097 ltac:(lia)).
  pose proof (Z.div_pos n 146097 Hn ltac:(lia)).
  lia.
Qed.

(* ------------------------------------------------------------------------------------------ *)
(** * Iteration specs *)

Lemma range_all_iter f a len :
  exists b, N.iter len (fun '(i, acc) => (i + 1, acc && f i)) (a, true) = (a + Z.of_N len, b)
            /\ (b = true -> forall i, a <= i < a + Z.of_N len -> f i = true).
Proof.
  induction len as [|len IH] using N.peano_ind.
  - exists true. cbn. split; [f_equal; ring | intros _ i Hi; lia].
  - destruct IH as (b & E & Hb). rewrite N.iter_succ, E.
    exists (b && f (a + Z.of_N len)). split.
    + f_equal. rewrite N2Z.inj_succ. ring.
    + intros Hand i Hi. apply andb_true_iff in Hand. destruct Hand as [Hb1 Hf].
      rewrite N2Z.inj_succ in Hi.
      destruct (Z.eq_dec i (a + Z.of_N len)) as [->|Hne]; [exact Hf|].
      apply Hb; [exact Hb1 | lia].
Qed.

Lemma range_all_spec : forall f a len, range_all f a len = true ->
  forall i, a <= i < a + Z.of_N len -> f i = true.
Proof.
  intros f a len H. unfold range_all in H.
  destruct (range_all_iter f a len) as (b & E & Hb). rewrite E in H. cbn in H. exact (Hb H).
Qed.

(* a sweep over pairs of consecutive days that computes each cal_of only once *)
Definition sweep2_step (P : Z -> cal -> cal -> bool) (st : Z * cal * bool) : Z * cal * bool :=
  let '(i, c, acc) := st in let c' := cal_of (i + 1) in (i + 1, c', acc && P i c c').
Definition sweep2 (P : Z -> cal -> cal -> bool) (a : Z) (len : N) : bool :=
  snd (N.iter len (sweep2_step P) (a, cal_of a, true)).

Lemma sweep2_iter P a len :
  exists b, N.iter len (sweep2_step P) (a, cal_of a, true) = (a + Z.of_N len, cal_of (a + Z.of_N len), b)
            /\ (b = true -> forall i, a <= i < a + Z.of_N len -> P i (cal_of i) (cal_of (i + 1)) = true).
Proof.
  induction len as [|len IH] using N.peano_ind.
  - exists true. cbn [N.iter Z.of_N]. rewrite Z.add_0_r. split; [reflexivity | intros _ i Hi; lia].
  - destruct IH as (b & E & Hb). rewrite N.iter_succ, E. unfold sweep2_step; cbv beta iota zeta.
    exists (b && P (a + Z.of_N len) (cal_of (a + Z.of_N len)) (cal_of (a + Z.of_N len + 1))). split.
    + rewrite N2Z.inj_succ. unfold Z.succ. rewrite Z.add_assoc. reflexivity.
    + intros Hand i Hi. apply andb_true_iff in Hand. destruct Hand as [Hb1 Hf].
      rewrite N2Z.inj_succ in Hi.
      destruct (Z.eq_dec i (a + Z.of_N len)) as [->|Hne]; [exact Hf|].
      apply Hb; [exact Hb1 | lia].
Qed.

Lemma sweep2_spec P a len : sweep2 P a len = true ->
  forall i, a <= i < a + Z.of_N len -> P i (cal_of i) (cal_of (i + 1)) = true.
Proof.
  intros H. unfold sweep2 in H.
  destruct (sweep2_iter P a len) as (b & E & Hb). rewrite E in H. cbn [snd] in H. exact (Hb H).
Qed.

(* ------------------------------------------------------------------------------------------ *)
(** * Lexicographic order *)

Lemma lex_le_refl : forall a, lex_le a a = true.
Proof.
  induction a as [|x a IH]; [reflexivity|]. cbn. rewrite Z.eqb_refl, IH. apply orb_true_r.
Qed.

Lemma lex_le_trans : forall a b c, length a = length b -> length b = length c ->
  lex_le a b = true -> lex_le b c = true -> lex_le a c = true.
Proof.
  induction a as [|x a IH]; intros b c Hab Hbc H1 H2; [reflexivity|].
  destruct b as [|y b]; [discriminate|]. destruct c as [|z c]; [discriminate|].
  cbn in *. injection Hab as Hab. injection Hbc as Hbc.
  apply orb_true_iff in H1, H2. apply orb_true_iff.
  rewrite andb_true_iff, Z.ltb_lt, Z.eqb_eq in *.
  destruct H1 as [H1|[H1 H1']], H2 as [H2|[H2 H2']];
    [left; lia | left; lia | left; lia | right; split; [lia | eapply IH; eauto]].
Qed.

Lemma lex_lt_trans : forall a b c, length a = length b -> length b = length c ->
  lex_lt a b = true -> lex_lt b c = true -> lex_lt a c = true.
Proof.
  induction a as [|x a IH]; intros b c Hab Hbc H1 H2.
  - destruct b; [discriminate H1|]. discriminate.
  - destruct b as [|y b]; [discriminate|]. destruct c as [|z c]; [discriminate|].
    cbn in *. injection Hab as Hab. injection Hbc as Hbc.
    apply orb_true_iff in H1, H2. apply orb_true_iff.
    rewrite andb_true_iff, Z.ltb_lt, Z.eqb_eq in *.
    destruct H1 as [H1|[H1 H1']], H2 as [H2|[H2 H2']];
      [left; lia | left; lia | left; lia | right; split; [lia | eapply IH; eauto]].
Qed.

Lemma ltb_shift x y k : (x + k <? y + k) = (x <? y).
Proof. lia. Qed.
Lemma eqb_shift x y k : (x + k =? y + k) = (x =? y).
Proof. lia. Qed.

Lemma lex_le_shift k d c1 c2 :
  lex_le (key k (shiftk d c1)) (key k (shiftk d c2)) = lex_le (key k c1) (key k c2).
Proof.
  induction k as [|f k IH]; [reflexivity|]. unfold key in *. cbn [map lex_le]. rewrite IH.
  destruct f; cbn; rewrite ?ltb_shift, ?eqb_shift; reflexivity.
Qed.

Lemma lex_lt_shift k d c1 c2 :
  lex_lt (key k (shiftk d c1)) (key k (shiftk d c2)) = lex_lt (key k c1) (key k c2).
Proof.
  induction k as [|f k IH]; [reflexivity|]. unfold key in *. cbn [map lex_lt]. rewrite IH.
  destruct f; cbn; rewrite ?ltb_shift, ?eqb_shift; reflexivity.
Qed.

Lemma key_length k c : length (key k c) = length k.
Proof. apply map_length. Qed.

Definition all_fields : list cfield := [FY; FG; FQ; FM; FD; FJ; FW; FU; FV].
Lemma cal_fields_key c : cal_fields c = key all_fields c.
Proof. reflexivity. Qed.

Lemma cal_in_range_shift d c : cal_in_range (shiftk d c) = cal_in_range c.
Proof.
  unfold cal_in_range, shiftk; cbn.
  replace (year_y c + d - 1 <=? year_g c + d) with (year_y c - 1 <=? year_g c) by lia.
  replace (year_g c + d <=? year_y c + d + 1) with (year_g c <=? year_y c + 1) by lia.
  reflexivity.
Qed.

(* ------------------------------------------------------------------------------------------ *)
(** * The era sweep: one pass over the 146097 days of years 1..400 *)

Definition ord_ok (n : Z) (c : cal) : bool :=
  (1 <=? year_y c) && (dom c <=? days_in_month (year_y c) (month c)) &&
  (days_before_year (year_y c) + days_before_month (year_y c) (month c) + dom c - 1 =? n).

Definition dayP (n : Z) (c c' : cal) : bool :=
  forallb (fun k => lex_le (key k c) (key k c')) coherent_keys &&
  lex_lt (cal_fields c) (cal_fields c') && cal_in_range c && ord_ok n c.

Lemma era_sweep : sweep2 dayP 0 146097 = true.
Proof. vm_cast_no_check (eq_refl true). Qed.

Lemma era_day r : 0 <= r < ERA -> dayP r (cal_of r) (cal_of (r + 1)) = true.
Proof.
  intro H. apply (sweep2_spec _ _ _ era_sweep).
  change (Z.of_N 146097) with 146097. unfold ERA in H. lia.
Qed.

Lemma era_day_parts r : 0 <= r < ERA ->
  (forall k, In k coherent_keys -> lex_le (key k (cal_of r)) (key k (cal_of (r + 1))) = true) /\
  lex_lt (cal_fields (cal_of r)) (cal_fields (cal_of (r + 1))) = true /\
  cal_in_range (cal_of r) = true /\ ord_ok r (cal_of r) = true.
Proof.
  intro Hr. pose proof (era_day r Hr) as H. unfold dayP in H.
  apply andb_true_iff in H. destruct H as [H H4].
  apply andb_true_iff in H. destruct H as [H H3].
  apply andb_true_iff in H. destruct H as [H1 H2].
  rewrite forallb_forall in H1. auto.
Qed.

(* from the first era to every day, for predicates on consecutive days that ignore a common year shift *)
Lemma lift_pair (Q : cal -> cal -> bool) :
  (forall d c1 c2, Q (shiftk d c1) (shiftk d c2) = Q c1 c2) ->
  (forall r, 0 <= r < ERA -> Q (cal_of r) (cal_of (r + 1)) = true) ->
  forall n, 0 <= n -> Q (cal_of n) (cal_of (n + 1)) = true.
Proof.
  intros Hinv Hera n Hn. destruct (era_split n Hn) as (q & r & Hq & Hr & ->).
  replace (r + q * ERA + 1) with (r + 1 + q * ERA) by ring.
  rewrite !cal_shift by assumption. rewrite Hinv. auto.
Qed.

(* ------------------------------------------------------------------------------------------ *)
(** * Coherent keys are monotone *)

Theorem coherent_step : forall k, In k coherent_keys -> forall n, 0 <= n ->
  lex_le (key k (cal_of n)) (key k (cal_of (n + 1))) = true.
Proof.
  intros k Hk. apply (lift_pair (fun c c' => lex_le (key k c) (key k c'))).
  - intros; apply lex_le_shift.
  - intros r Hr. destruct (era_day_parts r Hr) as (H & _). auto.
Qed.

Lemma coherent_mono_add k : In k coherent_keys -> forall n, 0 <= n -> forall d, 0 <= d ->
  lex_le (key k (cal_of n)) (key k (cal_of (n + d))) = true.
Proof.
  intros Hk n Hn.
  apply (natlike_ind (fun d => lex_le (key k (cal_of n)) (key k (cal_of (n + d))) = true)).
  - rewrite Z.add_0_r. apply lex_le_refl.
  - intros d Hd IH. eapply lex_le_trans; [| | exact IH |].
    + rewrite !key_length; reflexivity.
    + rewrite !key_length; reflexivity.
    + replace (n + Z.succ d) with (n + d + 1) by lia. apply coherent_step; [assumption | lia].
Qed.

Theorem coherent_mono : forall k, In k coherent_keys -> forall n m, 0 <= n <= m ->
  lex_le (key k (cal_of n)) (key k (cal_of m)) = true.
Proof.
  intros k Hk n m [Hn Hnm]. replace m with (n + (m - n)) by ring.
  apply coherent_mono_add; [assumption | assumption | lia].
Qed.

Theorem full_tuple_strict : forall n, 0 <= n ->
  lex_lt (cal_fields (cal_of n)) (cal_fields (cal_of (n + 1))) = true.
Proof.
  intros n Hn. rewrite !cal_fields_key.
  apply (lift_pair (fun c c' => lex_lt (key all_fields c) (key all_fields c'))); [| | assumption].
  - intros; apply lex_lt_shift.
  - intros r Hr. destruct (era_day_parts r Hr) as (_ & H & _). rewrite <- !cal_fields_key. exact H.
Qed.

Lemma full_tuple_mono_add n : 0 <= n -> forall d, 0 <= d ->
  lex_lt (cal_fields (cal_of n)) (cal_fields (cal_of (n + 1 + d))) = true.
Proof.
  intros Hn.
  apply (natlike_ind (fun d => lex_lt (cal_fields (cal_of n)) (cal_fields (cal_of (n + 1 + d))) = true)).
  - rewrite Z.add_0_r. apply full_tuple_strict; assumption.
  - intros d Hd IH. eapply lex_lt_trans; [| | exact IH |].
    + reflexivity.
    + reflexivity.
    + replace (n + 1 + Z.succ d) with (n + 1 + d + 1) by lia. apply full_tuple_strict; lia.
Qed.

Theorem full_tuple_mono : forall n m, 0 <= n < m ->
  lex_lt (cal_fields (cal_of n)) (cal_fields (cal_of m)) = true.
Proof.
  intros n m [Hn Hnm]. replace m with (n + 1 + (m - n - 1)) by ring.
  apply full_tuple_mono_add; lia.
Qed.

(* 2018-12-30 -> 2018-12-31: %Y stays 2018, %V drops 52 -> 1.
   2018-12-31 -> 2019-01-01: %G stays 2019, %W drops 53 -> 0 and %U drops 52 -> 0. *)
Theorem rejected_nonmono : forall k, In k rejected_keys ->
  exists n, 0 <= n /\ lex_le (key k (cal_of n)) (key k (cal_of (n + 1))) = false.
Proof.
  intros k Hk. unfold rejected_keys in Hk. cbn [In] in Hk.
  destruct Hk as [<-|[<-|[<-|[]]]].
  - exists 737057. split; [lia | vm_compute; reflexivity].
  - exists 737058. split; [lia | vm_compute; reflexivity].
  - exists 737058. split; [lia | vm_compute; reflexivity].
Qed.

Theorem cal_ranges : forall n, 0 <= n -> cal_in_range (cal_of n) = true.
Proof.
  intros n Hn. destruct (era_split n Hn) as (q & r & Hq & Hr & ->).
  rewrite cal_shift by assumption. rewrite cal_in_range_shift.
  destruct (era_day_parts r Hr) as (_ & _ & H & _). exact H.
Qed.

(* ------------------------------------------------------------------------------------------ *)
(** * Two-digit years *)

Lemma In_FY : In [FY] coherent_keys.
Proof. unfold coherent_keys; repeat (first [left; reflexivity | right]). Qed.
Lemma In_FG : In [FG] coherent_keys.
Proof. unfold coherent_keys; repeat (first [left; reflexivity | right]). Qed.

Lemma year_y_mono n m : 0 <= n <= m -> year_y (cal_of n) <= year_y (cal_of m).
Proof. intro H. pose proof (coherent_mono [FY] In_FY n m H) as L. unfold key in L; cbn [map cget lex_le] in L. lia. Qed.
Lemma year_g_mono n m : 0 <= n <= m -> year_g (cal_of n) <= year_g (cal_of m).
Proof. intro H. pose proof (coherent_mono [FG] In_FG n m H) as L. unfold key in L; cbn [map cget lex_le] in L. lia. Qed.

Lemma mod100_century x : 2000 <= x < 2100 -> x mod 100 = x + -2000.
Proof. intro H. symmetry. apply Z.mod_unique with (q := 20); lia. Qed.

Lemma key2_key k c : 2000 <= year_y c < 2100 -> 2000 <= year_g c < 2100 ->
  key2 k c = key k (shiftk (-2000) c).
Proof.
  intros Hy Hg. unfold key2, key. apply map_ext. intro f.
  destruct f; cbn; try reflexivity; apply mod100_century; assumption.
Qed.

Theorem coherent_mono_2digit : forall k, In k coherent_keys -> forall n m,
  ORD_2001_01_01 <= n <= m -> m <= ORD_2099_12_31 ->
  lex_le (key2 k (cal_of n)) (key2 k (cal_of m)) = true.
Proof.
  intros k Hk n m [Hn Hnm] Hm.
  assert (Ly : year_y (cal_of ORD_2001_01_01) = 2001) by (vm_compute; reflexivity).
  assert (Lg : year_g (cal_of ORD_2001_01_01) = 2001) by (vm_compute; reflexivity).
  assert (Uy : year_y (cal_of ORD_2099_12_31) = 2099) by (vm_compute; reflexivity).
  assert (Ug : year_g (cal_of ORD_2099_12_31) = 2099) by (vm_compute; reflexivity).
  assert (H0 : 0 <= ORD_2001_01_01) by (unfold ORD_2001_01_01; lia).
  assert (By : forall i, ORD_2001_01_01 <= i <= ORD_2099_12_31 ->
               2000 <= year_y (cal_of i) < 2100 /\ 2000 <= year_g (cal_of i) < 2100).
  { intros i Hi.
    pose proof (year_y_mono ORD_2001_01_01 i ltac:(lia)).
    pose proof (year_y_mono i ORD_2099_12_31 ltac:(lia)).
    pose proof (year_g_mono ORD_2001_01_01 i ltac:(lia)).
    pose proof (year_g_mono i ORD_2099_12_31 ltac:(lia)).
    lia. }
  destruct (By n ltac:(lia)) as [Hny Hng]. destruct (By m ltac:(lia)) as [Hmy Hmg].
  rewrite !key2_key by assumption. rewrite lex_le_shift.
  apply coherent_mono; [assumption | lia].
Qed.

(* ------------------------------------------------------------------------------------------ *)
(** * Civil date <-> ordinal *)

Theorem ord_of_civil : forall n, 0 <= n <= MAX_ORD ->
  let '(y, m, d) := civil n in ord_of_ymd y m d = Some n.
Proof.
  intros n [Hn Hmax]. rewrite cal_of_civil.
  assert (Ymax : year_y (cal_of n) <= 9999).
  { pose proof (year_y_mono n MAX_ORD ltac:(lia)) as L.
    assert (E : year_y (cal_of MAX_ORD) = 9999) by (vm_compute; reflexivity). lia. }
  destruct (era_split n Hn) as (q & r & Hq & Hr & ->).
  rewrite cal_shift in * by assumption.
  destruct (era_day_parts r Hr) as (_ & _ & Hrange & Hok).
  unfold shiftk in *; cbn [year_y month dom] in *.
  unfold ord_of_ymd.
  rewrite days_in_month_shift, days_before_year_shift, days_before_month_shift.
  unfold ord_ok in Hok. unfold cal_in_range in Hrange. unfold ERA.
  set (y0 := year_y (cal_of r)) in *. set (m0 := month (cal_of r)) in *. set (d0 := dom (cal_of r)) in *.
  set (dim := days_in_month y0 m0) in *. set (dby := days_before_year y0) in *.
  set (dbm := days_before_month y0 m0) in *.
  destruct (_ && _) eqn:E in |- *; [f_equal; lia | exfalso; lia].
Qed.

(* every valid (year in 1..400, month, day) -- swept directly *)
Definition civ_eqb (t : Z * Z * Z) (y m d : Z) : bool :=
  let '(a, b, c) := t in (a =? y) && (b =? m) && (c =? d).
Definition ymdP (i : Z) : bool :=
  let y := i / 372 + 1 in let m := (i mod 372) / 31 + 1 in let d := i mod 31 + 1 in
  negb (d <=? days_in_month y m) ||
  civ_eqb (civil (days_before_year y + days_before_month y m + d - 1)) y m d.

Lemma ymd_sweep : range_all ymdP 0 148800 = true.
Proof. vm_cast_no_check (eq_refl true). Qed.

Lemma ymd_era y m d : 1 <= y <= 400 -> 1 <= m <= 12 -> 1 <= d <= days_in_month y m ->
  civil (days_before_year y + days_before_month y m + d - 1) = (y, m, d).
Proof.
  intros Hy Hm Hd. pose proof (days_in_month_bound y m) as Hb.
  set (i := (y - 1) * 372 + (m - 1) * 31 + (d - 1)).
  assert (Hi : 0 <= i < 0 + Z.of_N 148800) by (change (Z.of_N 148800) with 148800; subst i; lia).
  pose proof (range_all_spec _ _ _ ymd_sweep i Hi) as H. unfold ymdP in H; cbv zeta in H.
  assert (E1 : i / 372 + 1 = y) by (subst i; Z.div_mod_to_equations; lia).
  assert (E2 : i mod 372 / 31 + 1 = m) by (subst i; Z.div_mod_to_equations; lia).
  assert (E3 : i mod 31 + 1 = d) by (subst i; Z.div_mod_to_equations; lia).
  rewrite E1, E2, E3 in H.
  destruct (civil _) as [[a b] c]. unfold civ_eqb in H.
  destruct (d <=? days_in_month y m) eqn:Ed; [|lia].
  cbn [negb orb] in H. rewrite !andb_true_iff, !Z.eqb_eq in H. destruct H as [[-> ->] ->]. reflexivity.
Qed.

Lemma year_split y : 1 <= y -> exists q y0, 0 <= q /\ 1 <= y0 <= 400 /\ y = y0 + 400 * q.
Proof.
  intro Hy. exists ((y - 1) / 400), ((y - 1) mod 400 + 1).
  pose proof (Z.div_mod (y - 1) 400 ltac:(lia)).
  pose proof (Z.mod_pos_bound (y - 1) 400 ltac:(lia)).
  pose proof (Z.div_pos (y - 1) 400 ltac:(lia) ltac:(lia)).
  lia.
Qed.

Theorem cal_of_ord : forall y m d n, ord_of_ymd y m d = Some n ->
  year_y (cal_of n) = y /\ month (cal_of n) = m /\ dom (cal_of n) = d.
Proof.
  intros y m d n H. unfold ord_of_ymd in H.
  destruct (_ && _) eqn:E in H; [|discriminate]. injection H as <-.
  assert (Hy : 1 <= y) by lia.
  destruct (year_split y Hy) as (q & y0 & Hq & Hy0 & ->).
  rewrite days_in_month_shift in E.
  rewrite days_before_year_shift, days_before_month_shift.
  assert (Hm : 1 <= m <= 12) by lia. assert (Hd : 1 <= d <= days_in_month y0 m) by lia.
  pose proof (ymd_era y0 m d Hy0 Hm Hd) as C. rewrite cal_of_civil in C.
  set (n0 := days_before_year y0 + days_before_month y0 m + d - 1) in *.
  replace (days_before_year y0 + q * 146097 + days_before_month y0 m + d - 1) with (n0 + q * ERA)
    by (unfold ERA; subst n0; ring).
  rewrite cal_shift by assumption. unfold shiftk; cbn [year_y month dom].
  injection C as -> -> ->. auto.
Qed.

Print Assumptions cal_periodic.
Print Assumptions coherent_step.
Print Assumptions coherent_mono.
Print Assumptions full_tuple_strict.
Print Assumptions full_tuple_mono.
Print Assumptions rejected_nonmono.
Print Assumptions coherent_mono_2digit.
Print Assumptions cal_ranges.
Print Assumptions ord_of_civil.
Print Assumptions cal_of_ord.
