(* C10 (the update sequence), checked over the complete finite product of configurations / options / worlds. *)
From Coq Require Import List Bool NArith ZArith Arith Lia Permutation.
From BV Require Import Lib.PyStr Lib.Decimal Lib.Regex Lib.RegexParse Model.V2 Model.Pep440 Model.V1 Model.Vcs Gen.Tables Proofs.Pep440Facts.
Import ListNotations.
Local Open Scope N_scope.

(* ================================================================== C10 *)
(* ---- complete enumerations *)
Definition all_bools : list bool := [false; true].
Definition all_tri : list (option bool) := [None; Some false; Some true].
Definition all_hooks : list hookst := [HookAbsent; HookOk; HookFails].
Definition all_evs : list ev :=
  [EFetch; EStatus; EWrite; EHookPre; EAdd; ECommit; EHookPost; ETagAnnotated; ETagLight; EPushTag; EPush].
(* (commit, tag, push): config._parse_config rejects tag or push without commit *)
Definition all_ctp : list (bool * bool * bool) :=
  [(false, false, false); (true, false, false); (true, true, false); (true, false, true); (true, true, true)].

Definition all_cfgs : list ucfg :=
  flat_map (fun '(c, t, p) => flat_map (fun pre => map (fun post => mkucfg c t p pre post) all_hooks) all_hooks) all_ctp.
Definition all_opts : list uopts :=
  flat_map (fun oc => flat_map (fun ot => flat_map (fun op => flat_map (fun dry => flat_map (fun ad => flat_map (fun fe =>
    map (fun ig => mkuopts oc ot op dry ad fe ig) all_bools) all_bools) all_bools) all_bools) all_tri) all_tri) all_tri.
Definition all_worlds : list world :=
  flat_map (fun hv => flat_map (fun rm => flat_map (fun d => flat_map (fun te => flat_map (fun nf =>
    map (fun fl => mkworld hv rm d te nf fl) (None :: map Some all_evs)) [1%nat; 2%nat]) all_bools) [0; 1; 2; 3]) all_bools) all_bools.

Example enumeration_sizes : (length all_cfgs, length all_opts, length all_worlds) = (45%nat, 432%nat, 768%nat).
Proof. vm_compute. reflexivity. Qed.

Lemma in_all_bools : forall b, In b all_bools. Proof. intros [|]; cbn; auto. Qed.
Lemma in_all_tri : forall b, In b all_tri. Proof. intros [[|]|]; cbn; auto. Qed.
Lemma in_all_hooks : forall h, In h all_hooks. Proof. intros []; cbn; auto. Qed.
Lemma in_all_evs : forall e, In e all_evs. Proof. intros []; cbn; auto 12. Qed.

Theorem all_opts_complete : forall o, In o all_opts.
Proof.
  intros [oc ot op dry ad fe ig]. unfold all_opts.
  apply in_flat_map; exists oc; split; [apply in_all_tri|].
  apply in_flat_map; exists ot; split; [apply in_all_tri|].
  apply in_flat_map; exists op; split; [apply in_all_tri|].
  apply in_flat_map; exists dry; split; [apply in_all_bools|].
  apply in_flat_map; exists ad; split; [apply in_all_bools|].
  apply in_flat_map; exists fe; split; [apply in_all_bools|].
  apply in_map, in_all_bools.
Qed.

Theorem all_cfgs_complete : forall c, (c_tag c = true -> c_commit c = true) -> (c_push c = true -> c_commit c = true) -> In c all_cfgs.
Proof.
  intros [c t p pre post] H1 H2. cbn [c_tag c_commit c_push] in *. unfold all_cfgs.
  apply in_flat_map; exists (c, t, p); split.
  - destruct c, t, p; cbn; auto 6; try (specialize (H1 eq_refl); discriminate H1); specialize (H2 eq_refl); discriminate H2.
  - apply in_flat_map; exists pre; split; [apply in_all_hooks|]. apply in_map, in_all_hooks.
Qed.

Theorem all_worlds_complete : forall w, (w_dirty w < 4)%N -> (w_nfiles w = 1 \/ w_nfiles w = 2)%nat -> In w all_worlds.
Proof.
  intros [hv rm d te nf fl] H1 H2. cbn [w_dirty w_nfiles] in *. unfold all_worlds.
  apply in_flat_map; exists hv; split; [apply in_all_bools|].
  apply in_flat_map; exists rm; split; [apply in_all_bools|].
  apply in_flat_map; exists d; split.
  { assert (d = 0 \/ d = 1 \/ d = 2 \/ d = 3) as [ -> | [ -> | [ -> | -> ] ] ] by lia; cbn; auto. }
  apply in_flat_map; exists te; split; [apply in_all_bools|].
  apply in_flat_map; exists nf; split; [destruct H2 as [ -> | -> ]; cbn; auto|].
  apply in_map. destruct fl as [e|]; [right; apply in_map, in_all_evs|left; reflexivity].
Qed.

(* ---- the properties, as boolean functions of the result of update_trace *)
(* event classes *)
Definition is_ev (a b : ev) : bool :=
  match a, b with
  | EFetch, EFetch | EStatus, EStatus | EWrite, EWrite | EHookPre, EHookPre | EAdd, EAdd | ECommit, ECommit
  | EHookPost, EHookPost | ETagAnnotated, ETagAnnotated | ETagLight, ETagLight | EPushTag, EPushTag | EPush, EPush => true
  | _, _ => false
  end.
Definition is_tag_ev (e : ev) : bool := match e with ETagAnnotated | ETagLight => true | _ => false end.
Definition is_push_ev (e : ev) : bool := match e with EPushTag | EPush => true | _ => false end.
Definition is_commit_ev (e : ev) : bool :=       (* everything that only happens when a commit is made *)
  match e with EHookPre | EAdd | ECommit | EHookPost | ETagAnnotated | ETagLight | EPushTag | EPush => true | _ => false end.
Definition is_vcs_write_ev (e : ev) : bool := match e with EHookPre | EAdd | ECommit => true | _ => false end.
Definition impb (a b : bool) : bool := if a then b else true.

(* the two kinds of tag, and the two kinds of push, share a rank *)
Definition ev_rank (e : ev) : N := match e with ETagLight => 7 | EPush => 9 | _ => ev_code e end.
(* [before a b]: b may directly follow a, i.e. rank a < rank b, or both are EAdd *)
Definition before (a b : ev) : bool :=
  match a, b with
  | EFetch, EFetch => false | EFetch, _ => true
  | EStatus, (EFetch | EStatus) => false | EStatus, _ => true
  | EWrite, (EFetch | EStatus | EWrite) => false | EWrite, _ => true
  | EHookPre, (EFetch | EStatus | EWrite | EHookPre) => false | EHookPre, _ => true
  | EAdd, (EFetch | EStatus | EWrite | EHookPre) => false | EAdd, _ => true
  | ECommit, (EHookPost | ETagAnnotated | ETagLight | EPushTag | EPush) => true | ECommit, _ => false
  | EHookPost, (ETagAnnotated | ETagLight | EPushTag | EPush) => true | EHookPost, _ => false
  | (ETagAnnotated | ETagLight), (EPushTag | EPush) => true
  | _, _ => false
  end.
Lemma before_spec : forall a b, before a b = (ev_rank a <? ev_rank b) || (is_ev a EAdd && is_ev b EAdd).
Proof. intros [] []; reflexivity. Qed.
Lemma is_ev_spec : forall a b, is_ev a b = ev_eqb a b.
Proof. intros [] []; reflexivity. Qed.

(* canonical order: ranks strictly increase, except that EAdd may repeat *)
Fixpoint sorted_rank (l : list ev) : bool :=
  match l with
  | a :: ((b :: _) as t) => before a b && sorted_rank t
  | _ => true
  end.
(* no VCS-writing step occurs before the first EWrite, nor without one *)
Fixpoint write_first (l : list ev) : bool :=
  match l with
  | [] => true
  | e :: t => match e with EWrite => true | _ => if is_vcs_write_ev e then false else write_first t end
  end.
Fixpoint last_is (e : ev) (l : list ev) : bool :=
  match l with [] => false | [x] => is_ev x e | _ :: t => last_is e t end.

Definition pc_commit (pc : option ucfg) : bool := match pc with Some c' => c_commit c' | None => false end.
Definition pc_tag (pc : option ucfg) : bool := match pc with Some c' => c_tag c' | None => false end.
Definition pc_push (pc : option ucfg) : bool := match pc with Some c' => c_push c' | None => false end.
(* the flags in force after the command line has been merged into the configuration *)
Definition eff_commit (c : ucfg) (o : uopts) : bool := pc_commit (parse_vcs_options c o).
Definition eff_tag (c : ucfg) (o : uopts) : bool := pc_tag (parse_vcs_options c o).
Definition eff_push (c : ucfg) (o : uopts) : bool := pc_push (parse_vcs_options c o).
Definition hook_present (h : hookst) : bool := match h with HookAbsent => false | _ => true end.
Definition is_nil {A} (l : list A) : bool := match l with [] => true | _ => false end.

(* the properties as functions of pc = parse_vcs_options c o and r = update_trace c o w *)
Definition order_p (r : list ev * bool) : bool := sorted_rank (fst r).
Definition gating_p (pc : option ucfg) (r : list ev * bool) : bool :=
  impb (existsb (fun e => is_tag_ev e || is_push_ev e) (fst r)) (existsb (is_ev ECommit) (fst r)) &&
  impb (negb (pc_commit pc)) (negb (existsb is_commit_ev (fst r))).
Definition enabled_p (pc : option ucfg) (c : ucfg) (w : world) (r : list ev * bool) : bool :=
  impb (existsb is_tag_ev (fst r)) (pc_tag pc) &&
  impb (existsb is_push_ev (fst r)) (pc_push pc && w_remote w) &&
  impb (existsb (is_ev EHookPre) (fst r)) (hook_present (c_pre c)) &&
  impb (existsb (is_ev EHookPost) (fst r)) (hook_present (c_post c)).
Definition stop_p (w : world) (r : list ev * bool) : bool :=
  match w_fail w with
  | Some e => impb (existsb (is_ev e) (fst r)) (last_is e (fst r) && negb (snd r))
  | None => true
  end.
Definition dry_p (o : uopts) (r : list ev * bool) : bool := impb (o_dry o) (forallb (is_ev EFetch) (fst r)).
Definition nofetch_p (o : uopts) (r : list ev * bool) : bool := impb (negb (o_fetch o)) (negb (existsb (is_ev EFetch) (fst r))).
Definition contradiction_p (pc : option ucfg) (r : list ev * bool) : bool :=
  match pc with None => is_nil (fst r) && negb (snd r) | Some _ => true end.
Definition dirty_p (pc : option ucfg) (o : uopts) (w : world) (r : list ev * bool) : bool :=
  impb (pc_commit pc && w_has_vcs w && ((w_dirty w =? 2) || ((w_dirty w =? 1) && negb (o_allow_dirty o))) && negb (o_dry o))
       (negb (existsb (is_ev EWrite) (fst r)) && negb (snd r)).
Definition write_p (r : list ev * bool) : bool := write_first (fst r).

Definition order_okb (c : ucfg) (o : uopts) (w : world) : bool := order_p (update_trace c o w).
Definition gating_okb (c : ucfg) (o : uopts) (w : world) : bool := gating_p (parse_vcs_options c o) (update_trace c o w).
Definition enabled_okb (c : ucfg) (o : uopts) (w : world) : bool := enabled_p (parse_vcs_options c o) c w (update_trace c o w).
Definition stop_okb (c : ucfg) (o : uopts) (w : world) : bool := stop_p w (update_trace c o w).
Definition dry_okb (c : ucfg) (o : uopts) (w : world) : bool := dry_p o (update_trace c o w).
Definition nofetch_okb (c : ucfg) (o : uopts) (w : world) : bool := nofetch_p o (update_trace c o w).
Definition contradiction_okb (c : ucfg) (o : uopts) (w : world) : bool := contradiction_p (parse_vcs_options c o) (update_trace c o w).
Definition dirty_okb (c : ucfg) (o : uopts) (w : world) : bool := dirty_p (parse_vcs_options c o) o w (update_trace c o w).
Definition write_before_vcsb (c : ucfg) (o : uopts) (w : world) : bool := write_p (update_trace c o w).

(* all nine in one pass: the options are merged once per (c, o), the trace is computed once per point *)
Definition all_q (pc : option ucfg) (c : ucfg) (o : uopts) (w : world) : bool :=
  let r := update_trace c o w in
  order_p r && gating_p pc r && enabled_p pc c w r && stop_p w r && dry_p o r && nofetch_p o r &&
  contradiction_p pc r && dirty_p pc o w r && write_p r.

(* the whole product in one pass (about 15 million points) *)
Lemma product_check :
  forallb (fun c => forallb (fun o => (fun pc => forallb (fun w => all_q pc c o w) all_worlds) (parse_vcs_options c o)) all_opts) all_cfgs = true.
Proof. vm_cast_no_check (eq_refl true). Qed.

Lemma product_point : forall c o w, In c all_cfgs -> In o all_opts -> In w all_worlds ->
  all_q (parse_vcs_options c o) c o w = true.
Proof.
  intros c o w Hc Ho Hw.
  pose proof (proj1 (forallb_forall _ all_cfgs) product_check c Hc) as H1. cbv beta in H1.
  pose proof (proj1 (forallb_forall _ all_opts) H1 o Ho) as H2. cbv beta in H2.
  exact (proj1 (forallb_forall _ all_worlds) H2 w Hw).
Qed.

Lemma product_point_all : forall c o w, In c all_cfgs -> In o all_opts -> In w all_worlds ->
  order_okb c o w = true /\ gating_okb c o w = true /\ enabled_okb c o w = true /\ stop_okb c o w = true /\
  dry_okb c o w = true /\ nofetch_okb c o w = true /\ contradiction_okb c o w = true /\ dirty_okb c o w = true /\
  write_before_vcsb c o w = true.
Proof.
  intros c o w Hc Ho Hw. pose proof (product_point c o w Hc Ho Hw) as H. unfold all_q in H. cbv zeta in H.
  repeat (apply andb_true_iff in H; let H' := fresh "H" in destruct H as [H H']).
  unfold order_okb, gating_okb, enabled_okb, stop_okb, dry_okb, nofetch_okb, contradiction_okb, dirty_okb, write_before_vcsb.
  repeat split; assumption.
Qed.

(* ---- boolean form *)
Section Bool_form.
Variables (c : ucfg) (o : uopts) (w : world).
Hypotheses (Hc : In c all_cfgs) (Ho : In o all_opts) (Hw : In w all_worlds).
Theorem order_ok_b : order_okb c o w = true. Proof. apply (product_point_all c o w Hc Ho Hw). Qed.
Theorem gating_ok_b : gating_okb c o w = true. Proof. apply (product_point_all c o w Hc Ho Hw). Qed.
Theorem enabled_ok_b : enabled_okb c o w = true. Proof. apply (product_point_all c o w Hc Ho Hw). Qed.
Theorem stop_ok_b : stop_okb c o w = true. Proof. apply (product_point_all c o w Hc Ho Hw). Qed.
Theorem dry_ok_b : dry_okb c o w = true. Proof. apply (product_point_all c o w Hc Ho Hw). Qed.
Theorem nofetch_ok_b : nofetch_okb c o w = true. Proof. apply (product_point_all c o w Hc Ho Hw). Qed.
Theorem contradiction_ok_b : contradiction_okb c o w = true. Proof. apply (product_point_all c o w Hc Ho Hw). Qed.
Theorem dirty_ok_b : dirty_okb c o w = true. Proof. apply (product_point_all c o w Hc Ho Hw). Qed.
Theorem write_before_vcs_b : write_before_vcsb c o w = true. Proof. apply (product_point_all c o w Hc Ho Hw). Qed.
End Bool_form.

(* ---- reading the booleans *)
Lemma is_ev_true : forall a b, is_ev a b = true <-> a = b.
Proof. intros [] []; split; intros H; try reflexivity; try discriminate H. Qed.
Lemma existsb_is_ev : forall e l, existsb (is_ev e) l = true <-> In e l.
Proof.
  intros e l. rewrite existsb_exists. split.
  - intros (x & Hx & E). apply is_ev_true in E. subst. assumption.
  - intros H. exists e. split; [assumption|apply is_ev_true; reflexivity].
Qed.
Lemma existsb_false_all : forall (f : ev -> bool) l, existsb f l = false -> forall e, In e l -> f e = false.
Proof.
  intros f l H e He. destruct (f e) eqn:E; [|reflexivity].
  assert (existsb f l = true) as H' by (apply existsb_exists; exists e; auto). rewrite H in H'. discriminate H'.
Qed.
Lemma impb_true : forall a b, impb a b = true -> a = true -> b = true.
Proof. intros a b H ->. exact H. Qed.
Lemma last_is_spec : forall e l, last_is e l = true -> exists pre, l = pre ++ [e].
Proof.
  induction l as [|x l IH]; intros H; [discriminate H|].
  destruct l as [|y l].
  - cbn in H. apply is_ev_true in H. subst. exists []. reflexivity.
  - change (last_is e (x :: y :: l)) with (last_is e (y :: l)) in H. destruct (IH H) as [pre E].
    exists (x :: pre). cbn [app]. rewrite <- E. reflexivity.
Qed.
Lemma write_first_spec : forall l, write_first l = true ->
  forall pre e post, l = pre ++ e :: post -> is_vcs_write_ev e = true -> In EWrite pre.
Proof.
  induction l as [|x l IH]; intros H pre e post E He.
  - destruct pre; discriminate E.
  - destruct pre as [|p pre]; cbn [app] in E; injection E as -> ->.
    + destruct e; try discriminate He; discriminate H.
    + destruct p; try (left; reflexivity); cbn [write_first is_vcs_write_ev] in H; try discriminate H;
        right; apply (IH H pre e post eq_refl He).
Qed.

(* ---- the properties as statements about the trace *)
Section Prop_form.
Variables (c : ucfg) (o : uopts) (w : world).
Hypotheses (Hc : In c all_cfgs) (Ho : In o all_opts) (Hw : In w all_worlds).
Let tr := fst (update_trace c o w).
Let exit_ok := snd (update_trace c o w).

(* fetch, status, write, pre-hook, add*, commit, post-hook, tag, push *)
Theorem order_ok : sorted_rank tr = true.
Proof. exact (order_ok_b c o w Hc Ho Hw). Qed.

Theorem gating_ok :
  (forall e, In e tr -> is_tag_ev e = true \/ is_push_ev e = true -> In ECommit tr) /\
  (eff_commit c o = false -> forall e, In e tr -> is_commit_ev e = false).
Proof.
  pose proof (gating_ok_b c o w Hc Ho Hw) as H. unfold gating_okb, gating_p in H. fold tr in H.
  apply andb_true_iff in H. destruct H as [H1 H2]. split.
  - intros e He Hcls. apply existsb_is_ev. apply (impb_true _ _ H1). apply existsb_exists. exists e. split; [assumption|].
    destruct Hcls as [-> | ->]; [reflexivity|apply orb_true_r].
  - intros Hcm. unfold eff_commit in Hcm. rewrite Hcm in H2. cbn [negb impb] in H2. apply negb_true_iff in H2.
    apply existsb_false_all. exact H2.
Qed.

Theorem enabled_ok :
  (forall e, In e tr -> is_tag_ev e = true -> eff_tag c o = true) /\
  (forall e, In e tr -> is_push_ev e = true -> eff_push c o = true /\ w_remote w = true) /\
  (In EHookPre tr -> c_pre c <> HookAbsent) /\
  (In EHookPost tr -> c_post c <> HookAbsent).
Proof.
  pose proof (enabled_ok_b c o w Hc Ho Hw) as H. unfold enabled_okb, enabled_p in H. fold tr in H.
  apply andb_true_iff in H. destruct H as [H H4]. apply andb_true_iff in H. destruct H as [H H3].
  apply andb_true_iff in H. destruct H as [H1 H2]. split; [|split; [|split]].
  - intros e He Hcls. apply (impb_true _ _ H1). apply existsb_exists. exists e. auto.
  - intros e He Hcls. apply andb_true_iff. apply (impb_true _ _ H2). apply existsb_exists. exists e. auto.
  - intros He E. apply existsb_is_ev in He. pose proof (impb_true _ _ H3 He) as X. rewrite E in X. discriminate X.
  - intros He E. apply existsb_is_ev in He. pose proof (impb_true _ _ H4 He) as X. rewrite E in X. discriminate X.
Qed.

Theorem stop_ok : forall e, w_fail w = Some e -> In e tr -> (exists pre, tr = pre ++ [e]) /\ exit_ok = false.
Proof.
  intros e Hf He. pose proof (stop_ok_b c o w Hc Ho Hw) as H. unfold stop_okb, stop_p in H. fold tr exit_ok in H.
  rewrite Hf in H. apply existsb_is_ev in He. pose proof (impb_true _ _ H He) as X.
  apply andb_true_iff in X. destruct X as [X1 X2]. split; [apply last_is_spec; assumption|].
  apply negb_true_iff in X2. exact X2.
Qed.

Theorem dry_ok : o_dry o = true -> forall e, In e tr -> e = EFetch.
Proof.
  intros Hd e He. pose proof (dry_ok_b c o w Hc Ho Hw) as H. unfold dry_okb, dry_p in H. fold tr in H.
  rewrite Hd in H. cbn [impb] in H. rewrite forallb_forall in H. specialize (H e He). apply is_ev_true in H. auto.
Qed.

Theorem nofetch_ok : o_fetch o = false -> ~ In EFetch tr.
Proof.
  intros Hf He. pose proof (nofetch_ok_b c o w Hc Ho Hw) as H. unfold nofetch_okb, nofetch_p in H. fold tr in H.
  rewrite Hf in H. cbn [negb impb] in H. apply existsb_is_ev in He. rewrite He in H. discriminate H.
Qed.

Theorem dirty_ok :
  eff_commit c o = true -> w_has_vcs w = true -> (w_dirty w = 2 \/ (w_dirty w = 1 /\ o_allow_dirty o = false)) ->
  o_dry o = false -> ~ In EWrite tr /\ exit_ok = false.
Proof.
  intros H1 H2 H3 H4. pose proof (dirty_ok_b c o w Hc Ho Hw) as H. unfold dirty_okb, dirty_p in H. fold tr exit_ok in H.
  unfold eff_commit in H1. rewrite H1, H2, H4 in H.
  assert (E : (w_dirty w =? 2) || ((w_dirty w =? 1) && negb (o_allow_dirty o)) = true).
  { destruct H3 as [-> | [-> ->]]; reflexivity. }
  rewrite E in H. cbn [andb negb impb] in H. apply andb_true_iff in H. destruct H as [X1 X2].
  apply negb_true_iff in X1, X2. split; [|exact X2]. intros He. apply existsb_is_ev in He. rewrite He in X1. discriminate X1.
Qed.

(* every one of pre-hook / add / commit comes after the write *)
Theorem write_before_vcs : forall pre e post, tr = pre ++ e :: post -> is_vcs_write_ev e = true -> In EWrite pre.
Proof. apply write_first_spec. exact (write_before_vcs_b c o w Hc Ho Hw). Qed.
End Prop_form.

(* contradictory flags are reported before anything happens: true of every configuration, not only the enumerated ones *)
Theorem contradiction_ok : forall c o w, parse_vcs_options c o = None -> update_trace c o w = ([], false).
Proof. intros c o w H. unfold update_trace. rewrite H. reflexivity. Qed.
