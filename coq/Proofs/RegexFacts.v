(* Facts about the backtracking matcher of Lib/Regex.v: equation lemmas, composition of preferred
   matches, independence of fuel and of n0, two locality theorems (rejected next character; bounded
   width), and the behaviour of [0-9]+ / [1-9][0-9]* on digit strings. *)
From Coq Require Import List Bool NArith Arith Lia.
From BV Require Import Lib.PyStr Lib.Regex.
Import ListNotations.

(* ------------------------------------------------------------------ list helpers *)
Lemma flat_map_map {A B C} (f : B -> list C) (g : A -> B) l :
  flat_map f (map g l) = flat_map (fun x => f (g x)) l.
Proof. induction l; simpl; congruence. Qed.
Lemma map_flat_map {A B C} (f : A -> list B) (g : B -> C) l :
  map g (flat_map f l) = flat_map (fun x => map g (f x)) l.
Proof. induction l; simpl; [reflexivity|]. rewrite map_app. congruence. Qed.
Lemma flat_map_ext_in {A B} (f g : A -> list B) l :
  (forall x, In x l -> f x = g x) -> flat_map f l = flat_map g l.
Proof. induction l; simpl; intros H; [reflexivity|]. rewrite H by auto. rewrite IHl; auto. Qed.
Lemma flat_map_nil {A B} (f : A -> list B) l : (forall x, f x = []) -> flat_map f l = [].
Proof. intros H. induction l; simpl; [reflexivity|]. rewrite H, IHl. reflexivity. Qed.
Lemma hd_error_map {A B} (g : A -> B) l : hd_error (map g l) = option_map g (hd_error l).
Proof. destruct l; reflexivity. Qed.

(* ------------------------------------------------------------------ equation lemmas *)
Lemma rems_eps f n0 s : rems f n0 Eps s = [([], s)].
Proof. destruct f; reflexivity. Qed.
Lemma rems_cls f n0 neg p s :
  rems f n0 (Cls neg p) s = match s with c :: t => if cls_accepts neg p c then [([], t)] else [] | [] => [] end.
Proof. destruct f; reflexivity. Qed.
Lemma rems_cat f n0 a b s :
  rems f n0 (Cat a b) s =
  flat_map (fun '(e1, s1) => map (fun '(e2, s2) => (e1 ++ e2, s2)) (rems f n0 b s1)) (rems f n0 a s).
Proof. destruct f; reflexivity. Qed.
Lemma rems_alt f n0 a b s : rems f n0 (Alt a b) s = rems f n0 a s ++ rems f n0 b s.
Proof. destruct f; reflexivity. Qed.
Lemma rems_grp f n0 n a s :
  rems f n0 (Grp n a) s = map (fun '(e, s') => ((n, take_consumed s s') :: e, s')) (rems f n0 a s).
Proof. destruct f; reflexivity. Qed.
Lemma rems_bol f n0 s : rems f n0 Bol s = if Nat.eqb (length s) n0 then [([], s)] else [].
Proof. destruct f; reflexivity. Qed.
Lemma rems_eol f n0 s :
  rems f n0 Eol s = match s with [] => [([], s)] | [10%N] => [([], s)] | _ => [] end.
Proof. destruct f; reflexivity. Qed.
Lemma rems_star0 n0 a s : rems 0 n0 (Star a) s = [([], s)].
Proof. reflexivity. Qed.
Lemma rems_starS f n0 a s :
  rems (S f) n0 (Star a) s =
  flat_map (fun '(e1, s1) =>
              if Nat.ltb (length s1) (length s)
              then map (fun '(e2, s2) => (e1 ++ e2, s2)) (rems f n0 (Star a) s1) else [])
           (rems (S f) n0 a s)
  ++ [([], s)].
Proof. reflexivity. Qed.
Global Opaque rems.

(* ------------------------------------------------------------------ composition of preferred matches *)
Lemma first_eps f n0 s : first_match f n0 Eps s = Some ([], s).
Proof. unfold first_match. rewrite rems_eps. reflexivity. Qed.
Lemma first_cat f n0 a b s e1 y e2 z :
  first_match f n0 a s = Some (e1, y) -> first_match f n0 b y = Some (e2, z) ->
  first_match f n0 (Cat a b) s = Some (e1 ++ e2, z).
Proof.
  unfold first_match. rewrite rems_cat.
  destruct (rems f n0 a s) as [|[e1' y'] l]; simpl; [discriminate|]. intros [= -> ->].
  destruct (rems f n0 b y) as [|[e2' z'] l']; simpl; [discriminate|]. intros [= -> ->]. reflexivity.
Qed.
Lemma first_cat0 f n0 a b s y z :
  first_match f n0 a s = Some ([], y) -> first_match f n0 b y = Some ([], z) ->
  first_match f n0 (Cat a b) s = Some ([], z).
Proof. intros H1 H2. exact (first_cat f n0 a b s [] y [] z H1 H2). Qed.
Lemma first_cat_eps f n0 a s e y :
  first_match f n0 a s = Some (e, y) -> first_match f n0 (Cat a Eps) s = Some (e, y).
Proof.
  intros H. rewrite <- (app_nil_r e). eapply first_cat; [exact H|]. apply first_eps.
Qed.
Lemma first_alt_l f n0 a b s x : first_match f n0 a s = Some x -> first_match f n0 (Alt a b) s = Some x.
Proof. unfold first_match. rewrite rems_alt. destruct (rems f n0 a s); simpl; [discriminate|auto]. Qed.
Lemma first_alt_r f n0 a b s : rems f n0 a s = [] -> first_match f n0 (Alt a b) s = first_match f n0 b s.
Proof. unfold first_match. rewrite rems_alt. intros ->. reflexivity. Qed.
Lemma first_grp f n0 n a s e y :
  first_match f n0 a s = Some (e, y) ->
  first_match f n0 (Grp n a) s = Some ((n, take_consumed s y) :: e, y).
Proof.
  unfold first_match. rewrite rems_grp.
  destruct (rems f n0 a s) as [|[e' y'] l]; simpl; [discriminate|]. intros [= -> ->]. reflexivity.
Qed.
Lemma rems_cat_nil f n0 a b s : rems f n0 a s = [] -> rems f n0 (Cat a b) s = [].
Proof. intros H. rewrite rems_cat, H. reflexivity. Qed.

Lemma take_consumed_app (a b : list N) : take_consumed (a ++ b) b = a.
Proof.
  unfold take_consumed. rewrite app_length.
  replace (length a + length b - length b)%nat with (length a) by lia.
  rewrite firstn_app, Nat.sub_diag, firstn_all. simpl. apply app_nil_r.
Qed.
Lemma take_consumed_ext (x s' rest : list N) :
  take_consumed (x ++ rest) (s' ++ rest) = take_consumed x s'.
Proof.
  unfold take_consumed. rewrite !app_length.
  replace (length x + length rest - (length s' + length rest))%nat with (length x - length s')%nat by lia.
  rewrite firstn_app. replace (length x - length s' - length x)%nat with 0%nat by lia.
  simpl. apply app_nil_r.
Qed.

(* ------------------------------------------------------------------ literals *)
Lemma cls_single c : cls_accepts false [(c, c)] c = true.
Proof. unfold cls_accepts, inr; simpl. rewrite N.leb_refl. reflexivity. Qed.
Lemma cls_single_ne c d : c <> d -> cls_accepts false [(c, c)] d = false.
Proof.
  unfold cls_accepts, inr; simpl. intros H.
  destruct (N.leb_spec c d), (N.leb_spec d c); simpl; auto. exfalso; apply H; lia.
Qed.
Lemma first_lit f n0 l tail : first_match f n0 (lit l) (l ++ tail) = Some ([], tail).
Proof.
  induction l as [|c l IH]; simpl.
  - apply first_eps.
  - eapply first_cat0; [|exact IH].
    unfold first_match. rewrite rems_cls, cls_single. reflexivity.
Qed.
(* a non-empty literal does not match the empty string or a string with another first character *)
Lemma rems_lit_nomatch f n0 d l s :
  match s with [] => True | c :: _ => d <> c end -> rems f n0 (lit (d :: l)) s = [].
Proof.
  intros H. simpl. rewrite rems_cat, rems_cls. destruct s as [|c t]; [reflexivity|].
  rewrite cls_single_ne by exact H. reflexivity.
Qed.

(* ------------------------------------------------------------------ anchors, n0, fuel *)
Fixpoint no_anchor (r : re) : bool :=
  match r with
  | Bol | Eol => false
  | Cat a b | Alt a b => no_anchor a && no_anchor b
  | Star a | Grp _ a => no_anchor a
  | _ => true
  end.

(* without ^ the subject length n0 is never looked at *)
Lemma rems_n0_irrel : forall r, no_anchor r = true ->
  forall f n0 n0' s, rems f n0 r s = rems f n0' r s.
Proof.
  induction r as [|neg p|a IHa b IHb|a IHa b IHb|a IHa|n a IHa| |]; intros Hna f n0 n0' s; simpl in Hna.
  - rewrite !rems_eps. reflexivity.
  - rewrite !rems_cls. reflexivity.
  - apply andb_true_iff in Hna as [Ha Hb]. rewrite !rems_cat, (IHa Ha f n0 n0' s).
    apply flat_map_ext_in; intros [e1 s1] _. rewrite (IHb Hb f n0 n0' s1). reflexivity.
  - apply andb_true_iff in Hna as [Ha Hb]. rewrite !rems_alt, (IHa Ha f n0 n0' s), (IHb Hb f n0 n0' s). reflexivity.
  - revert s. induction f as [|f IHf]; intros s.
    + rewrite !rems_star0. reflexivity.
    + rewrite !rems_starS, (IHa Hna (S f) n0 n0' s). f_equal.
      apply flat_map_ext_in; intros [e1 s1] _. rewrite (IHf s1). reflexivity.
  - rewrite !rems_grp, (IHa Hna f n0 n0' s). reflexivity.
  - discriminate.
  - discriminate.
Qed.

(* a remainder is never longer than the subject *)
Lemma rems_len : forall r f n0 s e s', In (e, s') (rems f n0 r s) -> (length s' <= length s)%nat.
Proof.
  induction r as [|neg p|a IHa b IHb|a IHa b IHb|a IHa|n a IHa| |]; intros f n0 s e s' Hin.
  - rewrite rems_eps in Hin. destruct Hin as [[= _ <-]|[]]. lia.
  - rewrite rems_cls in Hin. destruct s as [|c t]; [destruct Hin|].
    destruct (cls_accepts neg p c); [|destruct Hin]. destruct Hin as [[= _ <-]|[]]. simpl; lia.
  - rewrite rems_cat in Hin. apply in_flat_map in Hin as [[e1 s1] [H1 H2]].
    apply in_map_iff in H2 as [[e2 s2] [[= _ ->] H2]].
    apply IHa in H1. apply IHb in H2. lia.
  - rewrite rems_alt in Hin. apply in_app_or in Hin as [H|H]; [eapply IHa|eapply IHb]; exact H.
  - revert s e s' Hin. induction f as [|f IHf]; intros s e s' Hin.
    + rewrite rems_star0 in Hin. destruct Hin as [[= _ <-]|[]]. lia.
    + rewrite rems_starS in Hin. apply in_app_or in Hin as [H|H].
      * apply in_flat_map in H as [[e1 s1] [H1 H2]].
        destruct (Nat.ltb_spec (length s1) (length s)) as [Hlt|Hge]; [|destruct H2].
        apply in_map_iff in H2 as [[e2 s2] [[= _ ->] H2]]. apply IHf in H2. lia.
      * destruct H as [[= _ <-]|[]]. lia.
  - rewrite rems_grp in Hin. apply in_map_iff in Hin as [[e1 s1] [[= _ ->] H]]. eapply IHa; exact H.
  - rewrite rems_bol in Hin. destruct (Nat.eqb (length s) n0); [|destruct Hin].
    destruct Hin as [[= _ <-]|[]]. lia.
  - rewrite rems_eol in Hin. destruct s as [|c t]; [destruct Hin as [[= _ <-]|[]]; simpl; lia|].
    destruct c as [|p]; [destruct Hin|].
    do 4 (destruct p as [p|p|]; try destruct Hin).
    destruct t; [|destruct Hin]. destruct Hin as [[= _ <-]|[]]. lia.
Qed.

(* any fuel of at least the subject length gives the same result *)
Lemma rems_fuel : forall r f f' n0 s, (length s <= f)%nat -> (length s <= f')%nat ->
  rems f n0 r s = rems f' n0 r s.
Proof.
  induction r as [|neg p|a IHa b IHb|a IHa b IHb|a IHa|n a IHa| |]; intros f f' n0 s Hf Hf'.
  - rewrite !rems_eps. reflexivity.
  - rewrite !rems_cls. reflexivity.
  - rewrite !rems_cat, (IHa f f' n0 s Hf Hf').
    apply flat_map_ext_in; intros [e1 s1] Hin. apply rems_len in Hin.
    rewrite (IHb f f' n0 s1) by lia. reflexivity.
  - rewrite !rems_alt, (IHa f f' n0 s Hf Hf'), (IHb f f' n0 s Hf Hf'). reflexivity.
  - revert f' s Hf Hf'. induction f as [|k IHk]; intros f' s Hf Hf'.
    + destruct s; [|simpl in Hf; lia]. destruct f' as [|k']; [reflexivity|].
      rewrite rems_star0, rems_starS. rewrite flat_map_nil; [reflexivity|]. intros [e1 s1]. reflexivity.
    + destruct f' as [|k'].
      * destruct s; [|simpl in Hf'; lia].
        rewrite rems_star0, rems_starS. rewrite flat_map_nil; [reflexivity|]. intros [e1 s1]. reflexivity.
      * rewrite !rems_starS, (IHa (S k) (S k') n0 s Hf Hf'). f_equal.
        apply flat_map_ext_in; intros [e1 s1] _.
        destruct (Nat.ltb_spec (length s1) (length s)) as [Hlt|Hge]; [|reflexivity].
        rewrite (IHk k' s1) by lia. reflexivity.
  - rewrite !rems_grp, (IHa f f' n0 s Hf Hf'). reflexivity.
  - rewrite !rems_bol. reflexivity.
  - rewrite !rems_eol. reflexivity.
Qed.

Lemma first_match_fuel r f f' n0 s : (length s <= f)%nat -> (length s <= f')%nat ->
  first_match f n0 r s = first_match f' n0 r s.
Proof. intros H1 H2. unfold first_match. rewrite (rems_fuel r f f' n0 s H1 H2). reflexivity. Qed.

(* ------------------------------------------------------------------ locality 1: the next character is rejected by every atom *)
Definition ext_tail (rest : list N) (p : env * list N) : env * list N := let '(e, s) := p in (e, s ++ rest).

Lemma no_atom_accepts_app a b c :
  forallb (fun '(neg, rs) => negb (cls_accepts neg rs c)) (atoms a ++ atoms b)
  = no_atom_accepts a c && no_atom_accepts b c.
Proof. unfold no_atom_accepts. apply forallb_app. Qed.

Lemma rems_local_gen : forall r c t, no_atom_accepts r c = true -> no_anchor r = true ->
  forall fuel n0 n0' x,
    rems fuel n0 r (x ++ c :: t) = map (ext_tail (c :: t)) (rems fuel n0' r x).
Proof.
  induction r as [|neg p|a IHa b IHb|a IHa b IHb|a IHa|n a IHa| |]; intros c t Hat Hna fuel n0 n0' x.
  - rewrite !rems_eps. reflexivity.
  - rewrite !rems_cls. destruct x as [|y x']; simpl.
    + unfold no_atom_accepts in Hat; simpl in Hat. rewrite andb_true_r in Hat.
      apply negb_true_iff in Hat. rewrite Hat. reflexivity.
    + destruct (cls_accepts neg p y); reflexivity.
  - unfold no_atom_accepts in Hat; simpl in Hat. rewrite no_atom_accepts_app in Hat.
    apply andb_true_iff in Hat as [Ha Hb]. simpl in Hna. apply andb_true_iff in Hna as [Na Nb].
    rewrite !rems_cat, (IHa c t Ha Na fuel n0 n0' x), flat_map_map, map_flat_map.
    apply flat_map_ext_in; intros [e1 s1] _. simpl.
    rewrite (IHb c t Hb Nb fuel n0 n0' s1), !map_map. apply map_ext; intros [e2 s2]; reflexivity.
  - unfold no_atom_accepts in Hat; simpl in Hat. rewrite no_atom_accepts_app in Hat.
    apply andb_true_iff in Hat as [Ha Hb]. simpl in Hna. apply andb_true_iff in Hna as [Na Nb].
    rewrite !rems_alt, map_app, (IHa c t Ha Na fuel n0 n0' x), (IHb c t Hb Nb fuel n0 n0' x). reflexivity.
  - simpl in Hna. change (no_atom_accepts a c = true) in Hat.
    revert x. induction fuel as [|f IHf]; intros x.
    + rewrite !rems_star0. reflexivity.
    + rewrite !rems_starS, map_app. f_equal.
      rewrite (IHa c t Hat Hna (S f) n0 n0' x), flat_map_map, map_flat_map.
      apply flat_map_ext_in; intros [e1 s1] _. simpl. rewrite !app_length. simpl length.
      replace (length s1 + S (length t) <? length x + S (length t))%nat with (length s1 <? length x)%nat.
      2:{ destruct (Nat.ltb_spec (length s1) (length x));
          destruct (Nat.ltb_spec (length s1 + S (length t)) (length x + S (length t))); auto; lia. }
      destruct (length s1 <? length x)%nat; [|reflexivity].
      rewrite (IHf s1), !map_map. apply map_ext; intros [e2 s2]; reflexivity.
  - simpl in Hna. change (no_atom_accepts a c = true) in Hat.
    rewrite !rems_grp, (IHa c t Hat Hna fuel n0 n0' x), !map_map.
    apply map_ext; intros [e s']. simpl. rewrite take_consumed_ext. reflexivity.
  - discriminate.
  - discriminate.
Qed.

(* If no atom of r accepts c and r has no anchors, matching on x ++ c :: t never looks at or past c:
   the matches are those on x with c :: t appended to every remainder.  n0 is irrelevant on both sides. *)
Theorem rems_local : forall fuel n0 n0' r c t,
  no_atom_accepts r c = true -> no_anchor r = true ->
  forall x, rems fuel n0 r (x ++ c :: t) = map (fun '(e, s) => (e, s ++ c :: t)) (rems fuel n0' r x).
Proof. intros fuel n0 n0' r c t Hat Hna x. exact (rems_local_gen r c t Hat Hna fuel n0 n0' x). Qed.

Corollary first_match_local f n0 n0' r c t x e s :
  no_atom_accepts r c = true -> no_anchor r = true ->
  first_match f n0' r x = Some (e, s) ->
  first_match f n0 r (x ++ c :: t) = Some (e, s ++ c :: t).
Proof.
  intros Hat Hna H. unfold first_match in *. rewrite (rems_local f n0 n0' r c t Hat Hna x), hd_error_map, H.
  reflexivity.
Qed.
Corollary first_match_local_none f n0 n0' r c t x :
  no_atom_accepts r c = true -> no_anchor r = true ->
  first_match f n0' r x = None -> first_match f n0 r (x ++ c :: t) = None.
Proof.
  intros Hat Hna H. unfold first_match in *. rewrite (rems_local f n0 n0' r c t Hat Hna x), hd_error_map, H.
  reflexivity.
Qed.
(* a regex that cannot match the empty string cannot match a string whose first character it rejects *)
Corollary rems_rejected_head f n0 n0' r c t :
  no_atom_accepts r c = true -> no_anchor r = true -> rems f n0' r [] = [] -> rems f n0 r (c :: t) = [].
Proof.
  intros Hat Hna H. change (c :: t) with ([] ++ c :: t).
  rewrite (rems_local f n0 n0' r c t Hat Hna []), H. reflexivity.
Qed.

(* from pattern.match(t) to a preferred match inside a longer subject *)
Corollary re_match_lift_local r t e s' rest f n0 :
  no_anchor r = true ->
  match rest with [] => True | c :: _ => no_atom_accepts r c = true end ->
  re_match r t = Some (e, s') ->
  (length (t ++ rest) <= f)%nat ->
  first_match f n0 r (t ++ rest) = Some (e, s' ++ rest).
Proof.
  intros Hna Hrej Hm Hf. unfold re_match in Hm. rewrite app_length in Hf.
  destruct rest as [|c tl].
  - rewrite !app_nil_r. unfold first_match in *.
    rewrite (rems_fuel r f (S (length t)) n0 t) by lia.
    rewrite (rems_n0_irrel r Hna (S (length t)) n0 (length t) t). exact Hm.
  - apply (first_match_local f n0 (length t) r c tl t e s' Hrej Hna).
    rewrite (first_match_fuel r f (S (length t)) (length t) t) by lia. exact Hm.
Qed.

(* ------------------------------------------------------------------ locality 2: bounded width *)
(* the largest number of characters r can consume; None when unbounded *)
Fixpoint maxw (r : re) : option nat :=
  match r with
  | Eps | Bol | Eol => Some 0%nat
  | Cls _ _ => Some 1%nat
  | Cat a b => match maxw a, maxw b with Some x, Some y => Some (x + y)%nat | _, _ => None end
  | Alt a b => match maxw a, maxw b with Some x, Some y => Some (Nat.max x y) | _, _ => None end
  | Star _ => None
  | Grp _ a => maxw a
  end.

Lemma rems_consumed_le : forall r w, maxw r = Some w ->
  forall f n0 s e s', In (e, s') (rems f n0 r s) -> (length s <= length s' + w)%nat.
Proof.
  induction r as [|neg p|a IHa b IHb|a IHa b IHb|a IHa|n a IHa| |]; intros w Hw f n0 s e s' Hin; simpl in Hw.
  - rewrite rems_eps in Hin. destruct Hin as [[= _ <-]|[]]. lia.
  - injection Hw as <-. rewrite rems_cls in Hin. destruct s as [|c t]; [destruct Hin|].
    destruct (cls_accepts neg p c); [|destruct Hin]. destruct Hin as [[= _ <-]|[]]. simpl; lia.
  - destruct (maxw a) as [wa|]; [|discriminate]. destruct (maxw b) as [wb|]; [|discriminate]. injection Hw as <-.
    rewrite rems_cat in Hin. apply in_flat_map in Hin as [[e1 s1] [H1 H2]].
    apply in_map_iff in H2 as [[e2 s2] [[= _ ->] H2]].
    apply (IHa wa eq_refl) in H1. apply (IHb wb eq_refl) in H2. lia.
  - destruct (maxw a) as [wa|]; [|discriminate]. destruct (maxw b) as [wb|]; [|discriminate]. injection Hw as <-.
    rewrite rems_alt in Hin. apply in_app_or in Hin as [H|H].
    + apply (IHa wa eq_refl) in H. lia.
    + apply (IHb wb eq_refl) in H. lia.
  - discriminate.
  - rewrite rems_grp in Hin. apply in_map_iff in Hin as [[e1 s1] [[= _ ->] H]]. eapply IHa; eassumption.
  - injection Hw as <-. rewrite rems_bol in Hin. destruct (Nat.eqb (length s) n0); [|destruct Hin].
    destruct Hin as [[= _ <-]|[]]. lia.
  - injection Hw as <-. rewrite rems_eol in Hin.
    destruct s as [|c t]; [destruct Hin as [[= _ <-]|[]]; simpl; lia|].
    destruct c as [|p]; [destruct Hin|].
    do 4 (destruct p as [p|p|]; try destruct Hin).
    destruct t; [|destruct Hin]. destruct Hin as [[= _ <-]|[]]. lia.
Qed.

(* A regex of width at most w without anchors never looks past the first w characters. *)
Theorem rems_width : forall r w, no_anchor r = true -> maxw r = Some w ->
  forall f n0 n0' rest x, (w <= length x)%nat ->
    rems f n0 r (x ++ rest) = map (fun '(e, s) => (e, s ++ rest)) (rems f n0' r x).
Proof.
  intros r w Hna Hw f n0 n0' rest. change (fun '(e, s) => (e, s ++ rest)) with (ext_tail rest).
  revert w Hna Hw.
  induction r as [|neg p|a IHa b IHb|a IHa b IHb|a IHa|n a IHa| |]; intros w Hna Hw x Hx; simpl in Hw, Hna.
  - rewrite !rems_eps. reflexivity.
  - injection Hw as <-. rewrite !rems_cls. destruct x as [|y x']; [simpl in Hx; lia|]. simpl.
    destruct (cls_accepts neg p y); reflexivity.
  - destruct (maxw a) as [wa|] eqn:Ea; [|discriminate]. destruct (maxw b) as [wb|] eqn:Eb; [|discriminate].
    injection Hw as <-. apply andb_true_iff in Hna as [Na Nb].
    rewrite !rems_cat, (IHa wa Na eq_refl x) by lia. rewrite flat_map_map, map_flat_map.
    apply flat_map_ext_in; intros [e1 s1] Hin. simpl.
    apply (rems_consumed_le a wa Ea) in Hin.
    rewrite (IHb wb Nb eq_refl s1) by lia. rewrite !map_map. apply map_ext; intros [e2 s2]; reflexivity.
  - destruct (maxw a) as [wa|] eqn:Ea; [|discriminate]. destruct (maxw b) as [wb|] eqn:Eb; [|discriminate].
    injection Hw as <-. apply andb_true_iff in Hna as [Na Nb].
    rewrite !rems_alt, map_app, (IHa wa Na eq_refl x), (IHb wb Nb eq_refl x) by lia. reflexivity.
  - discriminate.
  - rewrite !rems_grp, (IHa w Hna Hw x Hx), !map_map.
    apply map_ext; intros [e s']. simpl. rewrite take_consumed_ext. reflexivity.
  - discriminate.
  - discriminate.
Qed.

Corollary re_match_lift_width r w t e s' rest f n0 :
  no_anchor r = true -> maxw r = Some w -> (w <= length t)%nat ->
  re_match r t = Some (e, s') ->
  (length (t ++ rest) <= f)%nat ->
  first_match f n0 r (t ++ rest) = Some (e, s' ++ rest).
Proof.
  intros Hna Hw Hlen Hm Hf. unfold re_match, first_match in *. rewrite app_length in Hf.
  rewrite (rems_width r w Hna Hw f n0 (length t) rest t Hlen), hd_error_map.
  rewrite (rems_fuel r f (S (length t)) (length t) t) by lia. rewrite Hm. reflexivity.
Qed.

(* ------------------------------------------------------------------ digits *)
Definition nodigit_head (s : list N) : bool := match s with [] => true | c :: _ => negb (is_digit c) end.

Lemma cls_digit c : cls_accepts false [(48, 57)]%N c = is_digit c.
Proof.
  unfold cls_accepts, inr, is_digit. cbn [existsb xorb].
  destruct (N.leb 48 c && N.leb c 57); reflexivity.
Qed.
Lemma rems_digit f n0 s :
  rems f n0 digit_re s = match s with c :: t => if is_digit c then [([], t)] else [] | [] => [] end.
Proof. unfold digit_re. rewrite rems_cls. destruct s as [|c t]; [reflexivity|]. rewrite cls_digit. reflexivity. Qed.

(* [0-9]* consumes a whole run of digits *)
Lemma first_star_digits : forall ds f n0 tail,
  all_digits ds = true -> nodigit_head tail = true -> (length ds <= f)%nat ->
  first_match f n0 (Star digit_re) (ds ++ tail) = Some ([], tail).
Proof.
  induction ds as [|d ds IH]; intros f n0 tail Hds Htail Hf.
  - simpl. destruct f.
    + unfold first_match. rewrite rems_star0. reflexivity.
    + unfold first_match. rewrite rems_starS, rems_digit.
      destruct tail as [|c t]; [reflexivity|]. simpl in Htail. apply negb_true_iff in Htail.
      rewrite Htail. reflexivity.
  - destruct f as [|f]; [simpl in Hf; lia|].
    unfold all_digits in Hds. simpl in Hds. apply andb_true_iff in Hds as [Hd Hds'].
    unfold first_match. rewrite rems_starS, rems_digit. cbn [app]. rewrite Hd. cbn [flat_map].
    assert (Hlt : (length (ds ++ tail) <? S (length (ds ++ tail)))%nat = true) by (apply Nat.ltb_lt; lia).
    cbn [length]. rewrite Hlt.
    specialize (IH f n0 tail Hds' Htail ltac:(simpl in Hf; lia)). unfold first_match in IH.
    destruct (rems f n0 (Star digit_re) (ds ++ tail)) as [|[e z] l]; simpl in *; [discriminate|].
    injection IH as -> ->. reflexivity.
Qed.

(* [0-9]+ *)
Lemma first_plus_digits ds f n0 tail :
  all_digits ds = true -> ds <> [] -> nodigit_head tail = true -> (length ds <= f)%nat ->
  first_match f n0 (plus_re digit_re) (ds ++ tail) = Some ([], tail).
Proof.
  intros H Hne Ht Hf. destruct ds as [|d ds]; [congruence|].
  unfold all_digits in H. simpl in H. apply andb_true_iff in H as [Hd Hds]. unfold plus_re.
  eapply first_cat0.
  - unfold first_match. rewrite rems_digit. cbn [app]. rewrite Hd. reflexivity.
  - apply first_star_digits; auto. simpl in Hf; lia.
Qed.

(* [1-9][0-9]* *)
Lemma first_nz_digits d ds f n0 tail :
  (49 <= d <= 57)%N -> all_digits ds = true -> nodigit_head tail = true -> (length ds <= f)%nat ->
  first_match f n0 (Cat (Cls false [(49, 57)]%N) (Star digit_re)) ((d :: ds) ++ tail) = Some ([], tail).
Proof.
  intros Hd Hds Ht Hf. eapply first_cat0.
  - unfold first_match. rewrite rems_cls. cbn [app].
    replace (cls_accepts false [(49, 57)]%N d) with true; [reflexivity|].
    unfold cls_accepts, inr; simpl. symmetry.
    destruct (N.leb_spec 49 d), (N.leb_spec d 57); simpl; auto; lia.
  - apply first_star_digits; auto.
Qed.

(* a digit is not followed by further digits, the preferred match of a single digit class *)
Lemma first_digit d f n0 tail :
  is_digit d = true -> first_match f n0 digit_re (d :: tail) = Some ([], tail).
Proof. intros H. unfold first_match. rewrite rems_digit, H. reflexivity. Qed.

Print Assumptions rems_local.
Print Assumptions rems_width.
Print Assumptions re_match_lift_local.
Print Assumptions re_match_lift_width.
Print Assumptions first_plus_digits.
Print Assumptions first_nz_digits.
