(* C20 (legacy pattern dispatch): proofs over Model/V1.v, Model/CliAll.v. *)
From Coq Require Import List Bool NArith ZArith Arith Lia Sorted.
From BV Require Import Lib.PyStr Model.V2 Model.Cli Model.V1 Model.CliAll Model.Config Model.Project Gen.Tables.
Import ListNotations.
Local Open Scope N_scope.

(* ================================================================== C20 *)
Lemma mem_chr_app : forall c a b, mem_chr c (a ++ b) = mem_chr c a || mem_chr c b.
Proof. intros. unfold mem_chr. apply existsb_app. Qed.

Lemma prefixb_mem_chr : forall c p s, prefixb p s = true -> mem_chr c p = true -> mem_chr c s = true.
Proof.
  intros c. induction p as [|x p IH]; intros s Hp Hm; simpl in *; [discriminate|].
  destruct s as [|y s]; [discriminate|].
  apply andb_true_iff in Hp. destruct Hp as [Hxy Hp]. apply N.eqb_eq in Hxy. subst y.
  simpl. apply orb_true_iff in Hm. destruct Hm as [Hm|Hm]; [rewrite Hm; reflexivity|].
  rewrite (IH s Hp Hm). apply orb_true_r.
Qed.

Lemma str_in_mem_chr : forall c needle s, str_in needle s = true -> mem_chr c needle = true -> mem_chr c s = true.
Proof.
  intros c needle s. unfold str_in. induction s as [|y s IH]; intros H Hm.
  - simpl in H. destruct (prefixb needle []) eqn:Hp; [|discriminate]. exact (prefixb_mem_chr c _ _ Hp Hm).
  - simpl in H. destruct (prefixb needle (y :: s)) eqn:Hp; [exact (prefixb_mem_chr c _ _ Hp Hm)|].
    destruct (sfind needle s) eqn:Hs; [|discriminate].
    simpl. rewrite (IH eq_refl Hm). apply orb_true_r.
Qed.

Lemma str_in_brace_has_braces : forall name raw, str_in (brace name) raw = true -> mem_chr 123 raw = true /\ mem_chr 125 raw = true.
Proof.
  intros name raw H. split; apply (str_in_mem_chr _ _ _ H); unfold brace.
  - reflexivity.
  - rewrite !mem_chr_app. simpl. rewrite orb_true_r. reflexivity.
Qed.

Theorem dispatch_consistent_v1 : forall raw, has_v1_part raw = true -> is_new_pattern raw = false.
Proof.
  intros raw H. unfold has_v1_part in H. apply existsb_exists in H. destruct H as [p [_ Hp]].
  apply str_in_brace_has_braces in Hp. destruct Hp as [Hl _].
  unfold is_new_pattern, has_brace_l. rewrite Hl. reflexivity.
Qed.

Theorem dispatch_consistent_v2 : forall raw, is_new_pattern raw = true -> has_v1_part raw = false.
Proof.
  intros raw H. destruct (has_v1_part raw) eqn:Hv; [|reflexivity].
  rewrite (dispatch_consistent_v1 raw Hv) in H. discriminate H.
Qed.

(* pycalver semver year month dom doy quarter build_no release MAJOR MINOR PATCH pep440_pycalver pep440_version *)
Definition repo_part_names : list (list N) :=
  [ [112;121;99;97;108;118;101;114]; [115;101;109;118;101;114]; [121;101;97;114]; [109;111;110;116;104]; [100;111;109]; [100;111;121];
    [113;117;97;114;116;101;114]; [98;117;105;108;100;95;110;111]; [114;101;108;101;97;115;101]; [77;65;74;79;82]; [77;73;78;79;82];
    [80;65;84;67;72]; [112;101;112;52;52;48;95;112;121;99;97;108;118;101;114]; [112;101;112;52;52;48;95;118;101;114;115;105;111;110] ].

Theorem repo_v1_parts_known : forallb (fun p => existsb (eqb_str p) v1_parts) repo_part_names = true.
Proof. vm_compute. reflexivity. Qed.

Definition v1_noflags : flags := mkflags false false false None false false false.
Definition s_pyc_pattern := [123;112;121;99;97;108;118;101;114;125].                       (* {pycalver} *)
Definition s_pyc_version := [118;50;48;49;55;49;50;46;48;48;51;51;45;98;101;116;97].      (* v201712.0033-beta *)
Definition s_sem_pattern := [123;115;101;109;118;101;114;125].                              (* {semver} *)

Definition s_123 := [49;46;50;46;51].                                                        (* 1.2.3 *)
(* 2018-06-01 as a day ordinal (days since 0001-01-01) *)
Definition d_2018_06_01 : Z := 736845%Z.

Definition pyc_info : v1info :=
  mkv1 (Some 2017%Z) (Some 4%Z) (Some 12%Z) None None None None 0%Z 0%Z 0%Z [48;48;51;51] [98;101;116;97].

(* v201712.0033-beta reads as year 2017, month 12, build 0033, tag beta and renders back to itself;
   incremented in June 2018 it becomes v201806.0034-beta *)
Example pycalver_roundtrip :
  v1_parse_version_info s_pyc_version s_pyc_pattern = POk pyc_info /\
  v1_format_version pyc_info s_pyc_pattern = Some s_pyc_version /\
  v1_incr s_pyc_version s_pyc_pattern v1_noflags d_2018_06_01 =
    INew [118;50;48;49;56;48;54;46;48;48;51;52;45;98;101;116;97].
Proof. vm_compute. repeat split; reflexivity. Qed.

(* 1.2.3 -> 1.2.4 (patch), 1.3.0 (minor), 2.0.0 (major); without a flag nothing changes *)
Example semver_bump :
  v1_incr s_123 s_sem_pattern (mkflags false false true None false false false) d_2018_06_01 = INew [49;46;50;46;52] /\
  v1_incr s_123 s_sem_pattern (mkflags false true false None false false false) d_2018_06_01 = INew [49;46;51;46;48] /\
  v1_incr s_123 s_sem_pattern (mkflags true false false None false false false) d_2018_06_01 = INew [50;46;48;46;48] /\
  v1_incr s_123 s_sem_pattern v1_noflags d_2018_06_01 = INone.
Proof. vm_compute. repeat split; reflexivity. Qed.

