(* C19 (config file selection and init): proofs over Model/Config.v, by general lemmas and an exhaustive sweep of the 8192 layouts. *)
From Coq Require Import List Bool NArith ZArith Arith Lia Sorted.
From BV Require Import Lib.PyStr Model.V2 Model.Cli Model.V1 Model.CliAll Model.Config Model.Project Gen.Tables.
Import ListNotations.
Local Open Scope N_scope.

(* ================================================================== C19 *)
Lemma cf_eqb_str_eq : forall a b, eqb_str a b = true -> a = b.
Proof.
  induction a as [|x a IH]; intros [|y b] H; simpl in H; try discriminate H; [reflexivity|].
  apply andb_true_iff in H. destruct H as [Hxy H]. apply N.eqb_eq in Hxy. subst y. f_equal. apply IH. exact H.
Qed.

Lemma cf_eqb_str_refl : forall a, eqb_str a a = true.
Proof. induction a as [|x a IH]; simpl; [reflexivity|]. rewrite N.eqb_refl. exact IH. Qed.

Lemma prefixb_app : forall a b, prefixb a (a ++ b) = true.
Proof. induction a as [|x a IH]; intros b; simpl; [reflexivity|]. rewrite N.eqb_refl. apply IH. Qed.

(* ------------------------------------------------------------------ C19: file selection, for every directory *)
Definition cand_has_section (d : pdir) (f : list N) : bool :=
  match dir_get d f with Some data => has_bumpver_section data | None => false end.

Lemma filter_nil_existsb : forall {A} (p : A -> bool) l, filter p l = [] -> existsb p l = false.
Proof.
  intros A p. induction l as [|x l IH]; simpl; intros H; [reflexivity|].
  destruct (p x); [discriminate H|]. apply IH. exact H.
Qed.

Lemma filter_head_in : forall {A} (p : A -> bool) l x t, filter p l = x :: t -> In x l /\ p x = true.
Proof.
  intros A p l x t H. apply filter_In. rewrite H. left. reflexivity.
Qed.

Theorem prefers_section_file_any_dir : forall d,
  existsb (cand_has_section d) CONFIG_CANDIDATES = true ->
  In (pick_config d) CONFIG_CANDIDATES /\ cand_has_section d (pick_config d) = true.
Proof.
  intros d H. unfold pick_config. fold (cand_has_section d).
  destruct (filter (cand_has_section d) CONFIG_CANDIDATES) as [|f t] eqn:Hf.
  - apply filter_nil_existsb in Hf. rewrite Hf in H. discriminate H.
  - apply filter_head_in in Hf. exact Hf.
Qed.

Theorem picks_existing_any_dir : forall d,
  (existsb (dir_has d) CONFIG_CANDIDATES = true -> In (pick_config d) CONFIG_CANDIDATES /\ dir_has d (pick_config d) = true) /\
  (existsb (dir_has d) CONFIG_CANDIDATES = false -> pick_config d = CONFIG_FALLBACK).
Proof.
  intros d. unfold pick_config. fold (cand_has_section d).
  destruct (filter (cand_has_section d) CONFIG_CANDIDATES) as [|f t] eqn:Hf.
  - destruct (filter (dir_has d) CONFIG_CANDIDATES) as [|g u] eqn:Hg.
    + rewrite (filter_nil_existsb _ _ Hg). split; [intros H; discriminate H|reflexivity].
    + apply filter_head_in in Hg. split; [intros _; exact Hg|].
      intros He. assert (Ht : existsb (dir_has d) CONFIG_CANDIDATES = true) by (apply existsb_exists; exists g; exact Hg).
      rewrite Ht in He. discriminate He.
  - apply filter_head_in in Hf. destruct Hf as [Hin Hf].
    assert (Hd : dir_has d f = true).
    { unfold cand_has_section, dir_get in Hf. unfold dir_has, has_key. destruct (assoc f d); [reflexivity|discriminate Hf]. }
    split; [intros _; split; assumption|].
    intros He. assert (Ht : existsb (dir_has d) CONFIG_CANDIDATES = true) by (apply existsb_exists; exists f; split; assumption).
    rewrite Ht in He. discriminate He.
Qed.

Theorem init_appends_any_dir : forall d v f new, init_cmd d false false v = InitWrote f new ->
  f = pick_config d /\ match dir_get d f with Some old => prefixb old new = true | None => True end.
Proof.
  intros d v f new H. unfold init_cmd in H.
  destruct (default_config d (pick_config d) v) as [text|]; [|discriminate H].
  destruct (dir_get d (pick_config d)) as [old|] eqn:Hg; injection H as <- <-; split; try reflexivity; rewrite Hg.
  - apply prefixb_app.
  - exact I.
Qed.

Theorem refuses_when_configured_any_dir : forall d dry v, init_cmd d true dry v = InitRefused.
Proof. reflexivity. Qed.

(* the dry run shows exactly what the real run appends *)
Definition appended (d : pdir) (f text : list N) : list N :=
  match dir_get d f with Some old => old ++ [10] ++ text | None => text end.

Theorem dry_matches_real_any_dir : forall d v f text, init_cmd d false true v = InitDry f text ->
  f = pick_config d /\ init_cmd d false false v = InitWrote f (appended d f text).
Proof.
  intros d v f text H. unfold init_cmd in *.
  destruct (default_config d (pick_config d) v) as [t|]; [|discriminate H].
  injection H as <- <-. split; [reflexivity|]. unfold appended.
  destruct (dir_get d (pick_config d)); reflexivity.
Qed.

(* ------------------------------------------------------------------ C19: the layout space *)
Definition f_setup_cfg := [115;101;116;117;112;46;99;102;103].
Definition f_pyproject := [112;121;112;114;111;106;101;99;116;46;116;111;109;108].
Definition f_bumpver := [98;117;109;112;118;101;114;46;116;111;109;108].
Definition f_dot_bumpver := [46;98;117;109;112;118;101;114;46;116;111;109;108].
Definition f_pycalver := [112;121;99;97;108;118;101;114;46;116;111;109;108].
Definition f_readme_md := [82;69;65;68;77;69;46;109;100].
Definition f_readme_rst := [82;69;65;68;77;69;46;114;115;116].
Definition f_setup_py := [115;101;116;117;112;46;112;121].

(* [metadata] / name = x *)
Definition t_unrelated := [91;109;101;116;97;100;97;116;97;93;10;110;97;109;101;32;61;32;120;10].
(* [bumpver] / current_version = 1.2.3 (quoted) *)
Definition t_bumpver_section := [91;98;117;109;112;118;101;114;93;10;99;117;114;114;101;110;116;95;118;101;114;115;105;111;110;32;61;32;34;49;46;50;46;51;34;10].
(* [pycalver] / current_version = 1 (quoted) *)
Definition t_pycalver_section := [91;112;121;99;97;108;118;101;114;93;10;99;117;114;114;101;110;116;95;118;101;114;115;105;111;110;32;61;32;34;49;34;10].
(* 2026.1001-alpha *)
Definition layout_iv := [50;48;50;54;46;49;48;48;49;45;97;108;112;104;97].
(* current_version = (followed by an opening double quote) *)
Definition t_cv_assign := [99;117;114;114;101;110;116;95;118;101;114;115;105;111;110;32;61;32;34].

Definition cfg_states (section : list N) : list (option (list N)) := [None; Some []; Some t_unrelated; Some section].
Definition other_states : list (option (list N)) := [None; Some [120; 10]].

Definition layout_axes : list (list N * list (option (list N))) :=
  [ (f_setup_cfg, cfg_states t_bumpver_section); (f_pyproject, cfg_states t_bumpver_section);
    (f_bumpver, cfg_states t_bumpver_section); (f_dot_bumpver, cfg_states t_bumpver_section);
    (f_pycalver, cfg_states t_pycalver_section);
    (f_readme_md, other_states); (f_readme_rst, other_states); (f_setup_py, other_states) ].

Fixpoint layouts (axes : list (list N * list (option (list N)))) : list pdir :=
  match axes with
  | [] => [[]]
  | (f, states) :: t =>
      flat_map (fun rest => map (fun o => match o with Some c => (f, c) :: rest | None => rest end) states) (layouts t)
  end.
Definition all_layouts : list pdir := layouts layout_axes.

Definition mention_names : list (list N) := [f_setup_py; f_readme_md; f_readme_rst].

(* one evaluation of default_config per layout; the statements about init_cmd follow from it *)
Definition chk_all (d : pdir) : bool :=
  let f := pick_config d in
  match default_config d f layout_iv with
  | None => false
  | Some text =>
      let new := appended d f text in
      eqb_str (pick_config (dir_set d f new)) f && has_bumpver_section new &&
      forallb (fun n => implb (dir_has d n) (str_in n text)) mention_names && str_in (t_cv_assign ++ layout_iv) text
  end.

Lemma all_layouts_count : N.of_nat (length all_layouts) = 8192.
Proof. vm_compute. reflexivity. Qed.

Lemma all_layouts_checked : forallb chk_all all_layouts = true.
Proof. vm_cast_no_check (eq_refl true). Qed.

Lemma layout_facts : forall d, In d all_layouts ->
  exists text, default_config d (pick_config d) layout_iv = Some text /\
    pick_config (dir_set d (pick_config d) (appended d (pick_config d) text)) = pick_config d /\
    has_bumpver_section (appended d (pick_config d) text) = true /\
    (forall n, In n mention_names -> dir_has d n = true -> str_in n text = true) /\
    str_in (t_cv_assign ++ layout_iv) text = true.
Proof.
  intros d Hin. pose proof (proj1 (forallb_forall chk_all all_layouts) all_layouts_checked d Hin) as H.
  unfold chk_all in H. cbv zeta in H.
  destruct (default_config d (pick_config d) layout_iv) as [text|]; [|discriminate H].
  exists text. split; [reflexivity|].
  apply andb_true_iff in H. destruct H as [H H4].
  apply andb_true_iff in H. destruct H as [H H3].
  apply andb_true_iff in H. destruct H as [H1 H2].
  split; [apply cf_eqb_str_eq; exact H1|]. split; [exact H2|]. split; [|exact H4].
  intros n Hn Hd. rewrite forallb_forall in H3. specialize (H3 n Hn). rewrite Hd in H3. exact H3.
Qed.

Lemma init_real_of_default : forall d v text, default_config d (pick_config d) v = Some text ->
  init_cmd d false false v = InitWrote (pick_config d) (appended d (pick_config d) text).
Proof.
  intros d v text H. unfold init_cmd, appended. rewrite H. destruct (dir_get d (pick_config d)); reflexivity.
Qed.

Lemma init_dry_of_default : forall d v text, default_config d (pick_config d) v = Some text ->
  init_cmd d false true v = InitDry (pick_config d) text.
Proof. intros d v text H. unfold init_cmd. rewrite H. reflexivity. Qed.

Theorem prefers_section_file : forall d, In d all_layouts ->
  existsb (cand_has_section d) CONFIG_CANDIDATES = true ->
  In (pick_config d) CONFIG_CANDIDATES /\ cand_has_section d (pick_config d) = true.
Proof. intros d _. apply prefers_section_file_any_dir. Qed.

Theorem picks_existing : forall d, In d all_layouts ->
  (existsb (dir_has d) CONFIG_CANDIDATES = true -> In (pick_config d) CONFIG_CANDIDATES /\ dir_has d (pick_config d) = true) /\
  (existsb (dir_has d) CONFIG_CANDIDATES = false -> pick_config d = CONFIG_FALLBACK).
Proof. intros d _. apply picks_existing_any_dir. Qed.

Theorem init_appends : forall d, In d all_layouts -> forall f new, init_cmd d false false layout_iv = InitWrote f new ->
  f = pick_config d /\ match dir_get d f with Some old => prefixb old new = true | None => True end.
Proof. intros d _. apply init_appends_any_dir. Qed.

Theorem init_self_selecting : forall d, In d all_layouts -> forall f new, init_cmd d false false layout_iv = InitWrote f new ->
  pick_config (dir_set d f new) = f /\ has_bumpver_section new = true.
Proof.
  intros d Hin f new H. destruct (layout_facts d Hin) as [text [Hd [H1 [H2 _]]]].
  rewrite (init_real_of_default d layout_iv text Hd) in H. injection H as <- <-. split; assumption.
Qed.

Theorem init_never_errors : forall d, In d all_layouts -> init_cmd d false false layout_iv <> InitError.
Proof.
  intros d Hin. destruct (layout_facts d Hin) as [text [Hd _]].
  rewrite (init_real_of_default d layout_iv text Hd). discriminate.
Qed.

Theorem dry_writes_nothing : forall d, In d all_layouts ->
  exists text, init_cmd d false true layout_iv = InitDry (pick_config d) text /\
               init_cmd d false false layout_iv = InitWrote (pick_config d) (appended d (pick_config d) text).
Proof.
  intros d Hin. destruct (layout_facts d Hin) as [text [Hd _]]. exists text.
  split; [apply init_dry_of_default|apply init_real_of_default]; exact Hd.
Qed.

Theorem refuses_when_configured : forall d, In d all_layouts -> forall dry, init_cmd d true dry layout_iv = InitRefused.
Proof. reflexivity. Qed.

Theorem init_mentions_existing_files : forall d, In d all_layouts -> forall f text, init_cmd d false true layout_iv = InitDry f text ->
  (forall n, In n mention_names -> dir_has d n = true -> str_in n text = true) /\ str_in (t_cv_assign ++ layout_iv) text = true.
Proof.
  intros d Hin f text H. destruct (layout_facts d Hin) as [text' [Hd [_ [_ [H3 H4]]]]].
  rewrite (init_dry_of_default d layout_iv text' Hd) in H. injection H as <- <-. split; assumption.
Qed.

