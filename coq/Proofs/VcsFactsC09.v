(* C09 (current version from the VCS tags). *)
From Coq Require Import List Bool NArith ZArith Arith Lia Permutation.
From BV Require Import Lib.PyStr Lib.Decimal Lib.Regex Lib.RegexParse Model.V2 Model.Pep440 Model.V1 Model.Vcs Gen.Tables Proofs.Pep440Facts.
Import ListNotations.
Local Open Scope N_scope.

(* ================================================================== C09 *)
Local Opaque version_key is_valid v1_is_valid.

Notation vk := version_key (only parsing).

(* ---- order facts in the form used below *)
Lemma key_lt_le : forall a b, key_lt a b = true -> key_le a b = true.
Proof.
  intros a b H. rewrite key_lt_not_le in H. apply negb_true_iff in H.
  destruct (key_le_total a b) as [E|E]; [assumption|]. rewrite E in H. discriminate H.
Qed.
Lemma key_nlt_le : forall a b, key_lt a b = false -> key_le b a = true.
Proof. intros a b H. rewrite key_lt_not_le in H. apply negb_false_iff in H. assumption. Qed.
Lemma key_le_lt_trans : forall a b c, key_le a b = true -> key_lt b c = true -> key_lt a c = true.
Proof.
  intros a b c H1 H2. rewrite key_lt_not_le in *. apply negb_true_iff in H2. apply negb_true_iff.
  destruct (key_le c a) eqn:E; [|reflexivity]. rewrite (key_le_trans c a b E H1) in H2. discriminate H2.
Qed.
Lemma key_lt_trans : forall a b c, key_lt a b = true -> key_lt b c = true -> key_lt a c = true.
Proof. intros a b c H1 H2. apply (key_le_lt_trans a b c); [apply key_lt_le|]; assumption. Qed.
Lemma key_lt_irrefl : forall a, key_lt a a = false.
Proof. intros a. rewrite key_lt_not_le, key_le_refl. reflexivity. Qed.

(* ---- the sort *)
Lemma insert_desc_perm : forall x l, Permutation (insert_desc x l) (x :: l).
Proof.
  induction l as [|y t IH]; [apply Permutation_refl|]. cbn [insert_desc].
  destruct (key_lt (vk y) (vk x)); [apply Permutation_refl|].
  apply perm_trans with (y :: x :: t); [apply perm_skip, IH|apply perm_swap].
Qed.

Lemma fold_insert_perm : forall l acc, Permutation (fold_left (fun a x => insert_desc x a) l acc) (acc ++ l).
Proof.
  induction l as [|x l IH]; intros acc; cbn [fold_left].
  - rewrite app_nil_r. apply Permutation_refl.
  - eapply perm_trans; [apply IH|]. eapply perm_trans; [apply Permutation_app_tail, insert_desc_perm|].
    cbn [app]. apply Permutation_middle.
Qed.

Theorem sort_tags_desc_perm : forall l, Permutation (sort_tags_desc l) l.
Proof. intros l. unfold sort_tags_desc. apply (fold_insert_perm l []). Qed.

Lemma sort_tags_desc_snoc : forall l a, sort_tags_desc (l ++ [a]) = insert_desc a (sort_tags_desc l).
Proof. intros l a. unfold sort_tags_desc. rewrite fold_left_app. reflexivity. Qed.

Lemma sort_tags_desc_nil_inv : forall l, sort_tags_desc l = [] -> l = [].
Proof.
  intros l H. pose proof (sort_tags_desc_perm l) as P. rewrite H in P. apply Permutation_nil in P. assumption.
Qed.

(* the head of the sorted list is the first element of the input whose key is maximal:
   everything before it is strictly smaller, everything after it is not greater *)
Theorem sort_tags_desc_head_spec : forall l x, hd_error (sort_tags_desc l) = Some x ->
  exists pre post, l = pre ++ x :: post /\
    (forall y, In y pre -> key_lt (vk y) (vk x) = true) /\
    (forall y, In y post -> key_le (vk y) (vk x) = true).
Proof.
  induction l as [|a l IH] using rev_ind; intros x H; [discriminate H|].
  rewrite sort_tags_desc_snoc in H.
  destruct (sort_tags_desc l) as [|b s] eqn:E.
  - apply sort_tags_desc_nil_inv in E. subst l. cbn in H. injection H as <-.
    exists [], []. repeat split; intros y [].
  - destruct (IH b eq_refl) as (pre & post & El & Hpre & Hpost).
    cbn [insert_desc] in H. destruct (key_lt (vk b) (vk a)) eqn:Hba; cbn [hd_error] in H; injection H as <-.
    + exists l, []. split; [reflexivity|]. split; [|intros y []].
      intros y Hy. rewrite El in Hy. apply in_app_or in Hy. destruct Hy as [Hy|[<-|Hy]].
      * apply (key_lt_trans _ (vk b)); [apply Hpre; assumption|assumption].
      * assumption.
      * apply (key_le_lt_trans _ (vk b)); [apply Hpost; assumption|assumption].
    + exists pre, (post ++ [a]). split; [rewrite El, <- app_assoc; reflexivity|]. split; [assumption|].
      intros y Hy. apply in_app_or in Hy. destruct Hy as [Hy|[<-|[]]]; [apply Hpost; assumption|].
      apply key_nlt_le. assumption.
Qed.

Theorem sort_tags_desc_head_max : forall l x, hd_error (sort_tags_desc l) = Some x ->
  In x l /\ forall y, In y l -> key_le (vk y) (vk x) = true.
Proof.
  intros l x H. destruct (sort_tags_desc_head_spec l x H) as (pre & post & -> & Hpre & Hpost). split.
  - apply in_or_app. right. left. reflexivity.
  - intros y Hy. apply in_app_or in Hy. destruct Hy as [Hy|[<-|Hy]].
    + apply key_lt_le, Hpre, Hy.
    + apply key_le_refl.
    + apply Hpost, Hy.
Qed.

(* stability: the winner occurs no later than any tag with the same key *)
Theorem sort_tags_desc_first_among_equals : forall l x, hd_error (sort_tags_desc l) = Some x ->
  forall pre y post, l = pre ++ y :: post -> vk y = vk x ->
  exists pre' post', l = pre' ++ x :: post' /\ (length pre' <= length pre)%nat.
Proof.
  intros l x H pre y post El Ek.
  destruct (sort_tags_desc_head_spec l x H) as (pre' & post' & El' & Hpre & _).
  exists pre', post'. split; [assumption|].
  destruct (Nat.le_gt_cases (length pre') (length pre)) as [L|L]; [assumption|exfalso].
  assert (Hy : In y pre').
  { assert (N1 : nth_error l (length pre) = Some y).
    { rewrite El. rewrite nth_error_app2 by lia. rewrite Nat.sub_diag. reflexivity. }
    rewrite El' in N1. rewrite nth_error_app1 in N1 by lia. apply nth_error_In in N1. assumption. }
  specialize (Hpre y Hy). rewrite Ek, key_lt_irrefl in Hpre. discriminate Hpre.
Qed.

(* ---- valid tags *)
Definition tag_valid (today : Z) (isnew : bool) (pat t : list N) : option bool :=
  if isnew then is_valid today t pat else v1_is_valid t pat.

Lemma valid_tags_cons : forall today isnew pat t r,
  valid_tags today isnew pat (t :: r) =
  match tag_valid today isnew pat t, valid_tags today isnew pat r with
  | Some true, Some l => Some (t :: l)
  | Some false, Some l => Some l
  | _, _ => None
  end.
Proof. reflexivity. Qed.

Lemma valid_tags_sound : forall today isnew pat tags l, valid_tags today isnew pat tags = Some l ->
  forall t, In t l -> In t tags /\ tag_valid today isnew pat t = Some true.
Proof.
  induction tags as [|a r IH]; intros l H t Ht.
  - injection H as <-. destruct Ht.
  - rewrite valid_tags_cons in H.
    destruct (tag_valid today isnew pat a) as [[|]|] eqn:Ea; [| |discriminate H];
      destruct (valid_tags today isnew pat r) as [l'|]; try discriminate H; injection H as <-.
    + destruct Ht as [<-|Ht]; [split; [left; reflexivity|assumption]|].
      destruct (IH l' eq_refl t Ht) as [A B]. split; [right; assumption|assumption].
    + destruct (IH l' eq_refl t Ht) as [A B]. split; [right; assumption|assumption].
Qed.

Lemma valid_tags_drop_invalid : forall today isnew pat junk, tag_valid today isnew pat junk = Some false ->
  forall pre post, valid_tags today isnew pat (pre ++ junk :: post) = valid_tags today isnew pat (pre ++ post).
Proof.
  intros today isnew pat junk Hj. induction pre as [|a pre IH]; intros post; cbn [app].
  - rewrite valid_tags_cons, Hj. destruct (valid_tags today isnew pat post); reflexivity.
  - rewrite !valid_tags_cons, IH. reflexivity.
Qed.

Theorem latest_is_valid : forall today isnew pat tags t, latest_tag today isnew pat tags = Some (Some t) ->
  In t tags /\ (if isnew then is_valid today t pat else v1_is_valid t pat) = Some true.
Proof.
  intros today isnew pat tags t H. unfold latest_tag in H.
  destruct (valid_tags today isnew pat tags) as [l|] eqn:E; [|discriminate H]. injection H as H.
  apply sort_tags_desc_head_max in H. destruct H as [H _].
  exact (valid_tags_sound today isnew pat tags l E t H).
Qed.

Theorem invalid_tags_inert : forall today (isnew : bool) pat (tags : list (list N)) junk,
  (if isnew then is_valid today junk pat else v1_is_valid junk pat) = Some false ->
  forall pre post, latest_tag today isnew pat (pre ++ junk :: post) = latest_tag today isnew pat (pre ++ post).
Proof.
  intros today isnew pat tags junk Hj pre post. unfold latest_tag.
  rewrite (valid_tags_drop_invalid today isnew pat junk Hj). reflexivity.
Qed.

(* the latest tag is maximal among the valid tags, and the first such *)
Theorem latest_is_greatest : forall today isnew pat tags t, latest_tag today isnew pat tags = Some (Some t) ->
  forall u, In u tags -> (if isnew then is_valid today u pat else v1_is_valid u pat) = Some true -> ver_le u t = true.
Proof.
  intros today isnew pat tags t H u Hu Hv. unfold latest_tag in H.
  destruct (valid_tags today isnew pat tags) as [l|] eqn:E; [|discriminate H]. injection H as H.
  apply sort_tags_desc_head_max in H. destruct H as [_ H]. unfold ver_le. apply H.
  clear H t. revert l E. induction tags as [|a r IH]; intros l E; [destruct Hu|].
  rewrite valid_tags_cons in E. destruct Hu as [->|Hu].
  - fold (tag_valid today isnew pat u) in Hv. rewrite Hv in E.
    destruct (valid_tags today isnew pat r); [|discriminate E]. injection E as <-. left. reflexivity.
  - destruct (tag_valid today isnew pat a) as [[|]|]; [| |discriminate E];
      destruct (valid_tags today isnew pat r) as [l'|]; try discriminate E; injection E as <-.
    + right. apply (IH Hu l' eq_refl).
    + apply (IH Hu l' eq_refl).
Qed.

Theorem no_valid_tag_keeps_config : forall today isnew pat cfgv sc tags,
  latest_tag today isnew pat tags = Some None -> resolve_current today isnew pat cfgv sc tags = Some cfgv.
Proof. intros today isnew pat cfgv sc tags H. unfold resolve_current. rewrite H. reflexivity. Qed.

Theorem default_scope_takes_greater : forall today isnew pat cfgv tags t,
  latest_tag today isnew pat tags = Some (Some t) ->
  resolve_current today isnew pat cfgv ScopeDefault tags = Some (if ver_le t cfgv then cfgv else t).
Proof.
  intros today isnew pat cfgv tags t H. unfold resolve_current. rewrite H.
  destruct (ver_le t cfgv); reflexivity.
Qed.

Theorem other_scopes_take_tag : forall today isnew pat cfgv tags t sc, sc <> ScopeDefault ->
  latest_tag today isnew pat tags = Some (Some t) -> resolve_current today isnew pat cfgv sc tags = Some t.
Proof.
  intros today isnew pat cfgv tags t sc Hs H. unfold resolve_current. rewrite H.
  destruct sc; [contradiction Hs; reflexivity|reflexivity|reflexivity].
Qed.

