(* Facts about Model/Vcs.v: C12 (values reach the VCS verbatim), C11 (porcelain parsing and the
   dirty rules), C10 (the update sequence, checked over the complete finite product of
   configurations / options / worlds), C09 (current version from the VCS tags). *)
From Coq Require Import List Bool NArith ZArith Arith Lia Permutation.
From BV Require Import Lib.PyStr Lib.Decimal Lib.Regex Lib.RegexParse Model.V2 Model.Pep440 Model.V1 Model.Vcs Gen.Tables Proofs.Pep440Facts.
Import ListNotations.
Local Open Scope N_scope.

(* ================================================================== C12 *)


(* one step of format_go on a character that is neither brace *)
Lemma format_go_other : forall f kw c t, c <> 123 -> c <> 125 ->
  format_go (S f) kw (c :: t) = match format_go f kw t with Some r => Some (c :: r) | None => None end.
Proof.
  intros f kw c t H1 H2. cbn [format_go].
  destruct c as [|p]; [reflexivity|].
  do 8 (destruct p as [p|p|]; try reflexivity; try (exfalso; apply H1; reflexivity); try (exfalso; apply H2; reflexivity)).
Qed.

(* an opening brace not followed by another opening brace starts a replacement field *)
Lemma format_go_field : forall f kw t, (match t with d :: _ => d <> 123 | [] => True end) ->
  format_go (S f) kw (123 :: t) =
  let '(spec, rest) := span_while (fun c => negb (c =? 125) && negb (c =? 123)) t in
  match rest with
  | 125 :: t' => match fmt_field kw spec, format_go f kw t' with Some a, Some r => Some (a ++ r) | _, _ => None end
  | _ => None
  end.
Proof.
  intros f kw t H. cbn [format_go]. destruct t as [|d t]; [reflexivity|].
  destruct d as [|p]; [reflexivity|].
  do 8 (destruct p as [p|p|]; try reflexivity; try (exfalso; apply H; reflexivity)).
Qed.

Lemma span_while_all : forall p s rest, (forall c, In c s -> p c = true) ->
  (match rest with d :: _ => p d = false | [] => True end) -> span_while p (s ++ rest) = (s, rest).
Proof.
  induction s as [|c s IH]; intros rest Hs Hr.
  - destruct rest as [|d r]; [reflexivity|]. cbn [app span_while]. rewrite Hr. reflexivity.
  - cbn [app span_while]. rewrite (Hs c (or_introl eq_refl)). rewrite IH; auto. intros; apply Hs; right; assumption.
Qed.

Lemma str_format_single_field : forall name v kw,
  (forall c, In c name -> c <> 123 /\ c <> 125 /\ c <> 58) ->
  assoc name kw = Some (VStr v) -> str_format ([123] ++ name ++ [125]) kw = Some v.
Proof.
  intros name v kw Hn Ha. unfold str_format. cbn [app length].
  rewrite format_go_field.
  2:{ destruct name as [|d r]; cbn [app]; [discriminate|]. apply (Hn d (or_introl eq_refl)). }
  rewrite (span_while_all _ name [125]).
  2:{ intros c Hc. destruct (Hn c Hc) as (A & B & _). apply N.eqb_neq in A, B. rewrite A, B. reflexivity. }
  2:{ reflexivity. }
  unfold fmt_field. replace name with (name ++ []) at 1 by apply app_nil_r.
  rewrite (span_while_all _ name []).
  2:{ intros c Hc. destruct (Hn c Hc) as (_ & _ & C). apply N.eqb_neq in C. rewrite C. reflexivity. }
  2:{ exact I. }
  rewrite Ha. cbn [format_go]. rewrite app_nil_r. reflexivity.
Qed.

Lemma format_go_no_braces : forall s kw f, (forall c, In c s -> c <> 123 /\ c <> 125) ->
  (length s < f)%nat -> format_go f kw s = Some s.
Proof.
  induction s as [|c s IH]; intros kw f Hs Hf.
  - destruct f; [inversion Hf|]. reflexivity.
  - destruct f; [inversion Hf|]. destruct (Hs c (or_introl eq_refl)) as [A B].
    rewrite format_go_other by assumption. rewrite IH; [reflexivity| |cbn [length] in Hf; lia].
    intros; apply Hs; right; assumption.
Qed.

Lemma str_format_no_braces : forall s kw, (forall c, In c s -> c <> 123 /\ c <> 125) -> str_format s kw = Some s.
Proof. intros. unfold str_format. apply format_go_no_braces; auto. Qed.

(* boolean side conditions, so that concrete templates are discharged by computation *)
Definition no_brace_b (s : list N) : bool := forallb (fun c => negb (c =? 123) && negb (c =? 125)) s.
Definition name_ok_b (s : list N) : bool := forallb (fun c => negb (c =? 123) && negb (c =? 125) && negb (c =? 58)) s.

Lemma no_brace_b_spec : forall s, no_brace_b s = true -> forall c, In c s -> c <> 123 /\ c <> 125.
Proof.
  intros s H c Hc. unfold no_brace_b in H. rewrite forallb_forall in H. specialize (H c Hc).
  apply andb_true_iff in H. destruct H as [A B]. apply negb_true_iff in A, B. apply N.eqb_neq in A, B. auto.
Qed.
Lemma name_ok_b_spec : forall s, name_ok_b s = true -> forall c, In c s -> c <> 123 /\ c <> 125 /\ c <> 58.
Proof.
  intros s H c Hc. unfold name_ok_b in H. rewrite forallb_forall in H. specialize (H c Hc).
  apply andb_true_iff in H. destruct H as [H C]. apply andb_true_iff in H. destruct H as [A B].
  apply negb_true_iff in A, B, C. apply N.eqb_neq in A, B, C. auto.
Qed.

Lemma fmt_literal : forall s kw, no_brace_b s = true -> str_format s kw = Some s.
Proof. intros. apply str_format_no_braces, no_brace_b_spec; assumption. Qed.
Lemma fmt_field1 : forall name v kw, name_ok_b name = true -> assoc name kw = Some (VStr v) ->
  str_format (123 :: name ++ [125]) kw = Some v.
Proof. intros. apply (str_format_single_field name v kw); [apply name_ok_b_spec|]; assumption. Qed.

Theorem repo_splits_before_format : VCS_SPLIT_BEFORE_FORMAT = true.
Proof. reflexivity. Qed.

Lemma vcs_cmd_eq : forall name cmd kw tmpl parts,
  assoc cmd (vcs_table name) = Some tmpl -> shlex_split tmpl = Some parts ->
  vcs_cmd name cmd kw = map_opt (fun p => str_format p (fmt_kw kw)) parts.
Proof.
  intros name cmd kw tmpl parts H1 H2. unfold vcs_cmd. rewrite H1. unfold vcs_argv.
  rewrite repo_splits_before_format, H2. reflexivity.
Qed.

Ltac vcs_start :=
  match goal with
  | |- vcs_cmd ?n ?c ?kw = _ =>
      let tm := eval vm_compute in (assoc c (vcs_table n)) in
      match tm with
      | Some ?tmpl =>
          let ps := eval vm_compute in (shlex_split tmpl) in
          match ps with
          | Some ?parts =>
              rewrite (vcs_cmd_eq n c kw tmpl parts) by (vm_compute; reflexivity);
              cbn [map_opt fmt_kw map]
          end
      end
  end.
Ltac fmt_lit := rewrite fmt_literal by (vm_compute; reflexivity).

(* names of the replacement fields *)
Definition fld_message : list N := [109;101;115;115;97;103;101].
Definition fld_path : list N := [112;97;116;104].
Definition fld_tag : list N := [116;97;103].

(* git commit --message '{message}' *)
Theorem git_commit_argv : forall m,
  vcs_cmd [103;105;116] [99;111;109;109;105;116] [([109;101;115;115;97;103;101], m)]
  = Some [[103;105;116]; [99;111;109;109;105;116]; [45;45;109;101;115;115;97;103;101]; m].
Proof.
  intros m. vcs_start. do 3 fmt_lit.
  rewrite (fmt_field1 fld_message m) by (vm_compute; reflexivity). reflexivity.
Qed.

(* git add --update '{path}' *)
Theorem git_add_argv : forall p,
  vcs_cmd [103;105;116] [97;100;100;95;112;97;116;104] [([112;97;116;104], p)]
  = Some [[103;105;116]; [97;100;100]; [45;45;117;112;100;97;116;101]; p].
Proof.
  intros p. vcs_start. do 3 fmt_lit.
  rewrite (fmt_field1 fld_path p) by (vm_compute; reflexivity). reflexivity.
Qed.

(* git tag --annotate {tag} --message '{message}' *)
Theorem git_tag_argv : forall t m,
  vcs_cmd [103;105;116] [116;97;103] [([116;97;103], t); ([109;101;115;115;97;103;101], m)]
  = Some [[103;105;116]; [116;97;103]; [45;45;97;110;110;111;116;97;116;101]; t; [45;45;109;101;115;115;97;103;101]; m].
Proof.
  intros t m. vcs_start. do 3 fmt_lit.
  rewrite (fmt_field1 fld_tag t) by (vm_compute; reflexivity). fmt_lit.
  rewrite (fmt_field1 fld_message m) by (vm_compute; reflexivity). reflexivity.
Qed.

(* git tag {tag} *)
Theorem git_tag_light_argv : forall t,
  vcs_cmd [103;105;116] [116;97;103;95;108;105;103;104;116] [([116;97;103], t)]
  = Some [[103;105;116]; [116;97;103]; t].
Proof.
  intros t. vcs_start. do 2 fmt_lit.
  rewrite (fmt_field1 fld_tag t) by (vm_compute; reflexivity). reflexivity.
Qed.

(* hg commit --logfile '{path}' *)
Theorem hg_commit_argv : forall p,
  vcs_cmd [104;103] [99;111;109;109;105;116] [([112;97;116;104], p)]
  = Some [[104;103]; [99;111;109;109;105;116]; [45;45;108;111;103;102;105;108;101]; p].
Proof.
  intros p. vcs_start. do 3 fmt_lit.
  rewrite (fmt_field1 fld_path p) by (vm_compute; reflexivity). reflexivity.
Qed.

(* hg tag {tag} --message '{message}' *)
Theorem hg_tag_argv : forall t m,
  vcs_cmd [104;103] [116;97;103] [([116;97;103], t); ([109;101;115;115;97;103;101], m)]
  = Some [[104;103]; [116;97;103]; t; [45;45;109;101;115;115;97;103;101]; m].
Proof.
  intros t m. vcs_start. do 2 fmt_lit.
  rewrite (fmt_field1 fld_tag t) by (vm_compute; reflexivity). fmt_lit.
  rewrite (fmt_field1 fld_message m) by (vm_compute; reflexivity). reflexivity.
Qed.

(* hg add '{path}' *)
Theorem hg_add_argv : forall p,
  vcs_cmd [104;103] [97;100;100;95;112;97;116;104] [([112;97;116;104], p)]
  = Some [[104;103]; [97;100;100]; p].
Proof.
  intros p. vcs_start. do 2 fmt_lit.
  rewrite (fmt_field1 fld_path p) by (vm_compute; reflexivity). reflexivity.
Qed.

(* the behaviour before the fix: format first, split afterwards.  m = a 'b' c *)
Theorem format_then_split_alters : exists m,
  (match str_format [103;105;116;32;99;111;109;109;105;116;32;45;45;109;101;115;115;97;103;101;32;39;123;109;101;115;115;97;103;101;125;39]
                    [([109;101;115;115;97;103;101], VStr m)] with
   | Some s => shlex_split s
   | None => None
   end) <> Some [[103;105;116]; [99;111;109;109;105;116]; [45;45;109;101;115;115;97;103;101]; m].
Proof. exists [97;32;39;98;39;32;99]. vm_compute. intros H; discriminate H. Qed.


(* ================================================================== C11 *)
Definition porcelain_line (xy path : list N) : list N := xy ++ [32] ++ path.

(* a path as git prints it on a porcelain line: not empty, no surrounding white space, no line
   break, no " -> " inside, and (added, see [wf_path_needs_prefix_condition]) not starting with "-> " *)
Definition wf_path (p : list N) : Prop :=
  p <> [] /\ strip_ws p = p /\ (forall c, In c p -> is_linebreak c = false) /\
  str_in [32;45;62;32] p = false /\ prefixb [45;62;32] p = false.

(* Without the last conjunct the statement of status_single_line is false: the path "-> x" satisfies the
   other four conditions, but the line "?? -> x" is read as a rename with an empty source. *)
Example wf_path_needs_prefix_condition :
  let p := [45;62;32;120] in
  (strip_ws p = p /\ forallb (fun c => negb (is_linebreak c)) p = true /\ str_in [32;45;62;32] p = false) /\
  dirty_files (porcelain_line s_untracked p ++ [10]) [] = [] /\
  dirty_files (porcelain_line [32;77] p ++ [10]) [] = [[]; [120]].
Proof. vm_compute. repeat split; reflexivity. Qed.

Lemma splitlines_go_nolb : forall s cur rest, (forall c, In c s -> is_linebreak c = false) ->
  splitlines_go (s ++ rest) cur = splitlines_go rest (rev s ++ cur).
Proof.
  induction s as [|c s IH]; intros cur rest H; [reflexivity|].
  cbn [app splitlines_go rev]. rewrite (H c (or_introl eq_refl)). rewrite IH by (intros; apply H; right; assumption).
  rewrite <- app_assoc. reflexivity.
Qed.

Lemma splitlines_single : forall s, (forall c, In c s -> is_linebreak c = false) -> splitlines (s ++ [10]) = [s].
Proof.
  intros s H. unfold splitlines. rewrite splitlines_go_nolb by assumption.
  cbn [splitlines_go]. change (is_linebreak 10) with true. cbv iota. rewrite app_nil_r, rev_involutive. reflexivity.
Qed.

Lemma split_go_absent : forall sep s, sfind sep s = None -> split_go sep O s = [s].
Proof.
  induction s as [|c s IH]; intros H; [reflexivity|].
  cbn [sfind] in H. cbn [split_go]. destruct (prefixb sep (c :: s)); [discriminate H|].
  destruct (sfind sep s); [discriminate H|]. rewrite IH by reflexivity. reflexivity.
Qed.

Lemma ssplit_absent : forall sep s, sep <> [] -> str_in sep s = false -> ssplit sep s = [s].
Proof.
  intros sep s Hs H. unfold ssplit. destruct sep; [contradiction Hs; reflexivity|].
  apply split_go_absent. unfold str_in in H. destruct (sfind (n :: sep) s); [discriminate H|reflexivity].
Qed.

Lemma str_in_after_space : forall p, str_in [32;45;62;32] p = false -> prefixb [45;62;32] p = false ->
  str_in [32;45;62;32] (32 :: p) = false.
Proof.
  intros p H1 H2. unfold str_in in *. cbn [sfind].
  change (prefixb [32;45;62;32] (32 :: p)) with (prefixb [45;62;32] p). rewrite H2.
  destruct (sfind [32;45;62;32] p); [discriminate H1|reflexivity].
Qed.

Lemma status_items_single : forall xy path, length xy = 2%nat -> (forall c, In c xy -> is_linebreak c = false) -> wf_path path ->
  status_items (porcelain_line xy path ++ [10]) = [(strip_ws xy, 32 :: path)].
Proof.
  intros xy path Hl Hxy (Hne & Hst & Hlb & Hin & Hpre).
  unfold status_items, porcelain_line. rewrite splitlines_single.
  2:{ intros c Hc. apply in_app_or in Hc. destruct Hc as [Hc|Hc]; [apply Hxy; assumption|].
      destruct Hc as [<-|Hc]; [reflexivity|apply Hlb; assumption]. }
  destruct xy as [|a [|b [|? ?]]]; try discriminate Hl.
  cbn [flat_map app firstn skipn]. rewrite ssplit_absent; [reflexivity|discriminate|].
  apply str_in_after_space; assumption.
Qed.

Theorem status_single_line : forall xy path required, length xy = 2%nat -> (forall c, In c xy -> is_linebreak c = false) -> wf_path path ->
  dirty_files (porcelain_line xy path ++ [10]) required =
  if mem_str path required || negb (eqb_str (strip_ws xy) s_untracked) then [path] else [].
Proof.
  intros xy path required Hl Hxy Hwf. unfold dirty_files. rewrite status_items_single by assumption.
  destruct Hwf as (_ & Hst & _).
  assert (E : strip_ws (32 :: path) = path).
  { unfold strip_ws, strip in *. change (lstrip ws_chars (32 :: path)) with (lstrip ws_chars path). exact Hst. }
  cbn [flat_map]. rewrite E, app_nil_r. reflexivity.
Qed.

Theorem untracked_unrelated_inert : forall path required, wf_path path -> mem_str path required = false ->
  forall allow, assert_not_dirty (porcelain_line s_untracked path ++ [10]) required allow = DirtyOk.
Proof.
  intros path required Hwf Hm allow. unfold assert_not_dirty.
  rewrite status_single_line; [|reflexivity| |assumption].
  2:{ intros c [<-|[<-|[]]]; reflexivity. }
  rewrite Hm. change (eqb_str (strip_ws s_untracked) s_untracked) with true. cbn [orb negb existsb].
  rewrite andb_false_r. reflexivity.
Qed.

Theorem dirty_pattern_file_blocks : forall xy path required allow, length xy = 2%nat -> (forall c, In c xy -> is_linebreak c = false) ->
  wf_path path -> mem_str path required = true ->
  assert_not_dirty (porcelain_line xy path ++ [10]) required allow = DirtyAbort.
Proof.
  intros xy path required allow Hl Hxy Hwf Hm. unfold assert_not_dirty.
  rewrite status_single_line by assumption. rewrite Hm. cbn [orb existsb]. rewrite Hm.
  destruct allow; reflexivity.
Qed.

Theorem abort_rule : forall out required allow,
  assert_not_dirty out required allow = DirtyAbort <->
  ((allow = false /\ dirty_files out required <> []) \/ existsb (fun f => mem_str f required) (dirty_files out required) = true).
Proof.
  intros out required allow. unfold assert_not_dirty.
  destruct allow; cbn [negb andb].
  - destruct (existsb _ _); split; intros H; auto; try discriminate H.
    destruct H as [[H _]|H]; discriminate H.
  - destruct (dirty_files out required) as [|d l]; cbn [negb existsb].
    + split; [intros H; discriminate H|]. intros [[_ H]|H]; [contradiction H; reflexivity|discriminate H].
    + split; [|reflexivity]. intros _. left. split; [reflexivity|discriminate].
Qed.

(* ================================================================== C10 *)
(* ---- complete enumerations *)
Definition all_bools : list bool := [false; true].
Definition all_tri : list (option bool) := [None; Some false; Some true].
Definition all_hooks : list hookst := [HookAbsent; HookOk; HookFails].
Definition all_evs : list ev :=
  [EFetch; EStatus; EWrite; EHookPre; EAdd; ECommit; EHookPost; ETagAnnotated; ETagLight; EPushTag; EPush].
(* (commit, tag, push): config._parse_config rejects tag or push without commit *)
Definition all_ctp : list (bool * bool * bool) :=
  [(false, false, false); (true, false, false); (true, true, false); (true, false, true); (true, true, true)].

Definition all_cfgs : list ucfg :=
  flat_map (fun '(c, t, p) => flat_map (fun pre => map (fun post => mkucfg c t p pre post) all_hooks) all_hooks) all_ctp.
Definition all_opts : list uopts :=
  flat_map (fun oc => flat_map (fun ot => flat_map (fun op => flat_map (fun dry => flat_map (fun ad => flat_map (fun fe =>
    map (fun ig => mkuopts oc ot op dry ad fe ig) all_bools) all_bools) all_bools) all_bools) all_tri) all_tri) all_tri.
Definition all_worlds : list world :=
  flat_map (fun hv => flat_map (fun rm => flat_map (fun d => flat_map (fun te => flat_map (fun nf =>
    map (fun fl => mkworld hv rm d te nf fl) (None :: map Some all_evs)) [1%nat; 2%nat]) all_bools) [0; 1; 2; 3]) all_bools) all_bools.

Example enumeration_sizes : (length all_cfgs, length all_opts, length all_worlds) = (45%nat, 432%nat, 768%nat).
Proof. vm_compute. reflexivity. Qed.

Lemma in_all_bools : forall b, In b all_bools. Proof. intros [|]; cbn; auto. Qed.
Lemma in_all_tri : forall b, In b all_tri. Proof. intros [[|]|]; cbn; auto. Qed.
Lemma in_all_hooks : forall h, In h all_hooks. Proof. intros []; cbn; auto. Qed.
Lemma in_all_evs : forall e, In e all_evs. Proof. intros []; cbn; auto 12. Qed.

Theorem all_opts_complete : forall o, In o all_opts.
Proof.
  intros [oc ot op dry ad fe ig]. unfold all_opts.
  apply in_flat_map; exists oc; split; [apply in_all_tri|].
  apply in_flat_map; exists ot; split; [apply in_all_tri|].
  apply in_flat_map; exists op; split; [apply in_all_tri|].
  apply in_flat_map; exists dry; split; [apply in_all_bools|].
  apply in_flat_map; exists ad; split; [apply in_all_bools|].
  apply in_flat_map; exists fe; split; [apply in_all_bools|].
  apply in_map, in_all_bools.
Qed.

Theorem all_cfgs_complete : forall c, (c_tag c = true -> c_commit c = true) -> (c_push c = true -> c_commit c = true) -> In c all_cfgs.
Proof.
  intros [c t p pre post] H1 H2. cbn [c_tag c_commit c_push] in *. unfold all_cfgs.
  apply in_flat_map; exists (c, t, p); split.
  - destruct c, t, p; cbn; auto 6; try (specialize (H1 eq_refl); discriminate H1); specialize (H2 eq_refl); discriminate H2.
  - apply in_flat_map; exists pre; split; [apply in_all_hooks|]. apply in_map, in_all_hooks.
Qed.

Theorem all_worlds_complete : forall w, (w_dirty w < 4)%N -> (w_nfiles w = 1 \/ w_nfiles w = 2)%nat -> In w all_worlds.
Proof.
  intros [hv rm d te nf fl] H1 H2. cbn [w_dirty w_nfiles] in *. unfold all_worlds.
  apply in_flat_map; exists hv; split; [apply in_all_bools|].
  apply in_flat_map; exists rm; split; [apply in_all_bools|].
  apply in_flat_map; exists d; split.
  { assert (d = 0 \/ d = 1 \/ d = 2 \/ d = 3) as [ -> | [ -> | [ -> | -> ] ] ] by lia; cbn; auto. }
  apply in_flat_map; exists te; split; [apply in_all_bools|].
  apply in_flat_map; exists nf; split; [destruct H2 as [ -> | -> ]; cbn; auto|].
  apply in_map. destruct fl as [e|]; [right; apply in_map, in_all_evs|left; reflexivity].
Qed.

(* ---- the properties, as boolean functions of the result of update_trace *)
(* event classes *)
Definition is_ev (a b : ev) : bool :=
  match a, b with
  | EFetch, EFetch | EStatus, EStatus | EWrite, EWrite | EHookPre, EHookPre | EAdd, EAdd | ECommit, ECommit
  | EHookPost, EHookPost | ETagAnnotated, ETagAnnotated | ETagLight, ETagLight | EPushTag, EPushTag | EPush, EPush => true
  | _, _ => false
  end.
Definition is_tag_ev (e : ev) : bool := match e with ETagAnnotated | ETagLight => true | _ => false end.
Definition is_push_ev (e : ev) : bool := match e with EPushTag | EPush => true | _ => false end.
Definition is_commit_ev (e : ev) : bool :=       (* everything that only happens when a commit is made *)
  match e with EHookPre | EAdd | ECommit | EHookPost | ETagAnnotated | ETagLight | EPushTag | EPush => true | _ => false end.
Definition is_vcs_write_ev (e : ev) : bool := match e with EHookPre | EAdd | ECommit => true | _ => false end.
Definition impb (a b : bool) : bool := if a then b else true.

(* the two kinds of tag, and the two kinds of push, share a rank *)
Definition ev_rank (e : ev) : N := match e with ETagLight => 7 | EPush => 9 | _ => ev_code e end.
(* [before a b]: b may directly follow a, i.e. rank a < rank b, or both are EAdd *)
Definition before (a b : ev) : bool :=
  match a, b with
  | EFetch, EFetch => false | EFetch, _ => true
  | EStatus, (EFetch | EStatus) => false | EStatus, _ => true
  | EWrite, (EFetch | EStatus | EWrite) => false | EWrite, _ => true
  | EHookPre, (EFetch | EStatus | EWrite | EHookPre) => false | EHookPre, _ => true
  | EAdd, (EFetch | EStatus | EWrite | EHookPre) => false | EAdd, _ => true
  | ECommit, (EHookPost | ETagAnnotated | ETagLight | EPushTag | EPush) => true | ECommit, _ => false
  | EHookPost, (ETagAnnotated | ETagLight | EPushTag | EPush) => true | EHookPost, _ => false
  | (ETagAnnotated | ETagLight), (EPushTag | EPush) => true
  | _, _ => false
  end.
Lemma before_spec : forall a b, before a b = (ev_rank a <? ev_rank b) || (is_ev a EAdd && is_ev b EAdd).
Proof. intros [] []; reflexivity. Qed.
Lemma is_ev_spec : forall a b, is_ev a b = ev_eqb a b.
Proof. intros [] []; reflexivity. Qed.

(* canonical order: ranks strictly increase, except that EAdd may repeat *)
Fixpoint sorted_rank (l : list ev) : bool :=
  match l with
  | a :: ((b :: _) as t) => before a b && sorted_rank t
  | _ => true
  end.
(* no VCS-writing step occurs before the first EWrite, nor without one *)
Fixpoint write_first (l : list ev) : bool :=
  match l with
  | [] => true
  | e :: t => match e with EWrite => true | _ => if is_vcs_write_ev e then false else write_first t end
  end.
Fixpoint last_is (e : ev) (l : list ev) : bool :=
  match l with [] => false | [x] => is_ev x e | _ :: t => last_is e t end.

Definition pc_commit (pc : option ucfg) : bool := match pc with Some c' => c_commit c' | None => false end.
Definition pc_tag (pc : option ucfg) : bool := match pc with Some c' => c_tag c' | None => false end.
Definition pc_push (pc : option ucfg) : bool := match pc with Some c' => c_push c' | None => false end.
(* the flags in force after the command line has been merged into the configuration *)
Definition eff_commit (c : ucfg) (o : uopts) : bool := pc_commit (parse_vcs_options c o).
Definition eff_tag (c : ucfg) (o : uopts) : bool := pc_tag (parse_vcs_options c o).
Definition eff_push (c : ucfg) (o : uopts) : bool := pc_push (parse_vcs_options c o).
Definition hook_present (h : hookst) : bool := match h with HookAbsent => false | _ => true end.
Definition is_nil {A} (l : list A) : bool := match l with [] => true | _ => false end.

(* the properties as functions of pc = parse_vcs_options c o and r = update_trace c o w *)
Definition order_p (r : list ev * bool) : bool := sorted_rank (fst r).
Definition gating_p (pc : option ucfg) (r : list ev * bool) : bool :=
  impb (existsb (fun e => is_tag_ev e || is_push_ev e) (fst r)) (existsb (is_ev ECommit) (fst r)) &&
  impb (negb (pc_commit pc)) (negb (existsb is_commit_ev (fst r))).
Definition enabled_p (pc : option ucfg) (c : ucfg) (w : world) (r : list ev * bool) : bool :=
  impb (existsb is_tag_ev (fst r)) (pc_tag pc) &&
  impb (existsb is_push_ev (fst r)) (pc_push pc && w_remote w) &&
  impb (existsb (is_ev EHookPre) (fst r)) (hook_present (c_pre c)) &&
  impb (existsb (is_ev EHookPost) (fst r)) (hook_present (c_post c)).
Definition stop_p (w : world) (r : list ev * bool) : bool :=
  match w_fail w with
  | Some e => impb (existsb (is_ev e) (fst r)) (last_is e (fst r) && negb (snd r))
  | None => true
  end.
Definition dry_p (o : uopts) (r : list ev * bool) : bool := impb (o_dry o) (forallb (is_ev EFetch) (fst r)).
Definition nofetch_p (o : uopts) (r : list ev * bool) : bool := impb (negb (o_fetch o)) (negb (existsb (is_ev EFetch) (fst r))).
Definition contradiction_p (pc : option ucfg) (r : list ev * bool) : bool :=
  match pc with None => is_nil (fst r) && negb (snd r) | Some _ => true end.
Definition dirty_p (pc : option ucfg) (o : uopts) (w : world) (r : list ev * bool) : bool :=
  impb (pc_commit pc && w_has_vcs w && ((w_dirty w =? 2) || ((w_dirty w =? 1) && negb (o_allow_dirty o))) && negb (o_dry o))
       (negb (existsb (is_ev EWrite) (fst r)) && negb (snd r)).
Definition write_p (r : list ev * bool) : bool := write_first (fst r).

Definition order_okb (c : ucfg) (o : uopts) (w : world) : bool := order_p (update_trace c o w).
Definition gating_okb (c : ucfg) (o : uopts) (w : world) : bool := gating_p (parse_vcs_options c o) (update_trace c o w).
Definition enabled_okb (c : ucfg) (o : uopts) (w : world) : bool := enabled_p (parse_vcs_options c o) c w (update_trace c o w).
Definition stop_okb (c : ucfg) (o : uopts) (w : world) : bool := stop_p w (update_trace c o w).
Definition dry_okb (c : ucfg) (o : uopts) (w : world) : bool := dry_p o (update_trace c o w).
Definition nofetch_okb (c : ucfg) (o : uopts) (w : world) : bool := nofetch_p o (update_trace c o w).
Definition contradiction_okb (c : ucfg) (o : uopts) (w : world) : bool := contradiction_p (parse_vcs_options c o) (update_trace c o w).
Definition dirty_okb (c : ucfg) (o : uopts) (w : world) : bool := dirty_p (parse_vcs_options c o) o w (update_trace c o w).
Definition write_before_vcsb (c : ucfg) (o : uopts) (w : world) : bool := write_p (update_trace c o w).

(* all nine in one pass: the options are merged once per (c, o), the trace is computed once per point *)
Definition all_q (pc : option ucfg) (c : ucfg) (o : uopts) (w : world) : bool :=
  let r := update_trace c o w in
  order_p r && gating_p pc r && enabled_p pc c w r && stop_p w r && dry_p o r && nofetch_p o r &&
  contradiction_p pc r && dirty_p pc o w r && write_p r.

(* the whole product in one pass (about 15 million points) *)
Lemma product_check :
  forallb (fun c => forallb (fun o => (fun pc => forallb (fun w => all_q pc c o w) all_worlds) (parse_vcs_options c o)) all_opts) all_cfgs = true.
Proof. vm_cast_no_check (eq_refl true). Qed.

Lemma product_point : forall c o w, In c all_cfgs -> In o all_opts -> In w all_worlds ->
  all_q (parse_vcs_options c o) c o w = true.
Proof.
  intros c o w Hc Ho Hw.
  pose proof (proj1 (forallb_forall _ all_cfgs) product_check c Hc) as H1. cbv beta in H1.
  pose proof (proj1 (forallb_forall _ all_opts) H1 o Ho) as H2. cbv beta in H2.
  exact (proj1 (forallb_forall _ all_worlds) H2 w Hw).
Qed.

Lemma product_point_all : forall c o w, In c all_cfgs -> In o all_opts -> In w all_worlds ->
  order_okb c o w = true /\ gating_okb c o w = true /\ enabled_okb c o w = true /\ stop_okb c o w = true /\
  dry_okb c o w = true /\ nofetch_okb c o w = true /\ contradiction_okb c o w = true /\ dirty_okb c o w = true /\
  write_before_vcsb c o w = true.
Proof.
  intros c o w Hc Ho Hw. pose proof (product_point c o w Hc Ho Hw) as H. unfold all_q in H. cbv zeta in H.
  repeat (apply andb_true_iff in H; let H' := fresh "H" in destruct H as [H H']).
  unfold order_okb, gating_okb, enabled_okb, stop_okb, dry_okb, nofetch_okb, contradiction_okb, dirty_okb, write_before_vcsb.
  repeat split; assumption.
Qed.

(* ---- boolean form *)
Section Bool_form.
Variables (c : ucfg) (o : uopts) (w : world).
Hypotheses (Hc : In c all_cfgs) (Ho : In o all_opts) (Hw : In w all_worlds).
Theorem order_ok_b : order_okb c o w = true. Proof. apply (product_point_all c o w Hc Ho Hw). Qed.
Theorem gating_ok_b : gating_okb c o w = true. Proof. apply (product_point_all c o w Hc Ho Hw). Qed.
Theorem enabled_ok_b : enabled_okb c o w = true. Proof. apply (product_point_all c o w Hc Ho Hw). Qed.
Theorem stop_ok_b : stop_okb c o w = true. Proof. apply (product_point_all c o w Hc Ho Hw). Qed.
Theorem dry_ok_b : dry_okb c o w = true. Proof. apply (product_point_all c o w Hc Ho Hw). Qed.
Theorem nofetch_ok_b : nofetch_okb c o w = true. Proof. apply (product_point_all c o w Hc Ho Hw). Qed.
Theorem contradiction_ok_b : contradiction_okb c o w = true. Proof. apply (product_point_all c o w Hc Ho Hw). Qed.
Theorem dirty_ok_b : dirty_okb c o w = true. Proof. apply (product_point_all c o w Hc Ho Hw). Qed.
Theorem write_before_vcs_b : write_before_vcsb c o w = true. Proof. apply (product_point_all c o w Hc Ho Hw). Qed.
End Bool_form.

(* ---- reading the booleans *)
Lemma is_ev_true : forall a b, is_ev a b = true <-> a = b.
Proof. intros [] []; split; intros H; try reflexivity; try discriminate H. Qed.
Lemma existsb_is_ev : forall e l, existsb (is_ev e) l = true <-> In e l.
Proof.
  intros e l. rewrite existsb_exists. split.
  - intros (x & Hx & E). apply is_ev_true in E. subst. assumption.
  - intros H. exists e. split; [assumption|apply is_ev_true; reflexivity].
Qed.
Lemma existsb_false_all : forall (f : ev -> bool) l, existsb f l = false -> forall e, In e l -> f e = false.
Proof.
  intros f l H e He. destruct (f e) eqn:E; [|reflexivity].
  assert (existsb f l = true) as H' by (apply existsb_exists; exists e; auto). rewrite H in H'. discriminate H'.
Qed.
Lemma impb_true : forall a b, impb a b = true -> a = true -> b = true.
Proof. intros a b H ->. exact H. Qed.
Lemma last_is_spec : forall e l, last_is e l = true -> exists pre, l = pre ++ [e].
Proof.
  induction l as [|x l IH]; intros H; [discriminate H|].
  destruct l as [|y l].
  - cbn in H. apply is_ev_true in H. subst. exists []. reflexivity.
  - change (last_is e (x :: y :: l)) with (last_is e (y :: l)) in H. destruct (IH H) as [pre E].
    exists (x :: pre). cbn [app]. rewrite <- E. reflexivity.
Qed.
Lemma write_first_spec : forall l, write_first l = true ->
  forall pre e post, l = pre ++ e :: post -> is_vcs_write_ev e = true -> In EWrite pre.
Proof.
  induction l as [|x l IH]; intros H pre e post E He.
  - destruct pre; discriminate E.
  - destruct pre as [|p pre]; cbn [app] in E; injection E as -> ->.
    + destruct e; try discriminate He; discriminate H.
    + destruct p; try (left; reflexivity); cbn [write_first is_vcs_write_ev] in H; try discriminate H;
        right; apply (IH H pre e post eq_refl He).
Qed.

(* ---- the properties as statements about the trace *)
Section Prop_form.
Variables (c : ucfg) (o : uopts) (w : world).
Hypotheses (Hc : In c all_cfgs) (Ho : In o all_opts) (Hw : In w all_worlds).
Let tr := fst (update_trace c o w).
Let exit_ok := snd (update_trace c o w).

(* fetch, status, write, pre-hook, add*, commit, post-hook, tag, push *)
Theorem order_ok : sorted_rank tr = true.
Proof. exact (order_ok_b c o w Hc Ho Hw). Qed.

Theorem gating_ok :
  (forall e, In e tr -> is_tag_ev e = true \/ is_push_ev e = true -> In ECommit tr) /\
  (eff_commit c o = false -> forall e, In e tr -> is_commit_ev e = false).
Proof.
  pose proof (gating_ok_b c o w Hc Ho Hw) as H. unfold gating_okb, gating_p in H. fold tr in H.
  apply andb_true_iff in H. destruct H as [H1 H2]. split.
  - intros e He Hcls. apply existsb_is_ev. apply (impb_true _ _ H1). apply existsb_exists. exists e. split; [assumption|].
    destruct Hcls as [-> | ->]; [reflexivity|apply orb_true_r].
  - intros Hcm. unfold eff_commit in Hcm. rewrite Hcm in H2. cbn [negb impb] in H2. apply negb_true_iff in H2.
    apply existsb_false_all. exact H2.
Qed.

Theorem enabled_ok :
  (forall e, In e tr -> is_tag_ev e = true -> eff_tag c o = true) /\
  (forall e, In e tr -> is_push_ev e = true -> eff_push c o = true /\ w_remote w = true) /\
  (In EHookPre tr -> c_pre c <> HookAbsent) /\
  (In EHookPost tr -> c_post c <> HookAbsent).
Proof.
  pose proof (enabled_ok_b c o w Hc Ho Hw) as H. unfold enabled_okb, enabled_p in H. fold tr in H.
  apply andb_true_iff in H. destruct H as [H H4]. apply andb_true_iff in H. destruct H as [H H3].
  apply andb_true_iff in H. destruct H as [H1 H2]. split; [|split; [|split]].
  - intros e He Hcls. apply (impb_true _ _ H1). apply existsb_exists. exists e. auto.
  - intros e He Hcls. apply andb_true_iff. apply (impb_true _ _ H2). apply existsb_exists. exists e. auto.
  - intros He E. apply existsb_is_ev in He. pose proof (impb_true _ _ H3 He) as X. rewrite E in X. discriminate X.
  - intros He E. apply existsb_is_ev in He. pose proof (impb_true _ _ H4 He) as X. rewrite E in X. discriminate X.
Qed.

Theorem stop_ok : forall e, w_fail w = Some e -> In e tr -> (exists pre, tr = pre ++ [e]) /\ exit_ok = false.
Proof.
  intros e Hf He. pose proof (stop_ok_b c o w Hc Ho Hw) as H. unfold stop_okb, stop_p in H. fold tr exit_ok in H.
  rewrite Hf in H. apply existsb_is_ev in He. pose proof (impb_true _ _ H He) as X.
  apply andb_true_iff in X. destruct X as [X1 X2]. split; [apply last_is_spec; assumption|].
  apply negb_true_iff in X2. exact X2.
Qed.

Theorem dry_ok : o_dry o = true -> forall e, In e tr -> e = EFetch.
Proof.
  intros Hd e He. pose proof (dry_ok_b c o w Hc Ho Hw) as H. unfold dry_okb, dry_p in H. fold tr in H.
  rewrite Hd in H. cbn [impb] in H. rewrite forallb_forall in H. specialize (H e He). apply is_ev_true in H. auto.
Qed.

Theorem nofetch_ok : o_fetch o = false -> ~ In EFetch tr.
Proof.
  intros Hf He. pose proof (nofetch_ok_b c o w Hc Ho Hw) as H. unfold nofetch_okb, nofetch_p in H. fold tr in H.
  rewrite Hf in H. cbn [negb impb] in H. apply existsb_is_ev in He. rewrite He in H. discriminate H.
Qed.

Theorem dirty_ok :
  eff_commit c o = true -> w_has_vcs w = true -> (w_dirty w = 2 \/ (w_dirty w = 1 /\ o_allow_dirty o = false)) ->
  o_dry o = false -> ~ In EWrite tr /\ exit_ok = false.
Proof.
  intros H1 H2 H3 H4. pose proof (dirty_ok_b c o w Hc Ho Hw) as H. unfold dirty_okb, dirty_p in H. fold tr exit_ok in H.
  unfold eff_commit in H1. rewrite H1, H2, H4 in H.
  assert (E : (w_dirty w =? 2) || ((w_dirty w =? 1) && negb (o_allow_dirty o)) = true).
  { destruct H3 as [-> | [-> ->]]; reflexivity. }
  rewrite E in H. cbn [andb negb impb] in H. apply andb_true_iff in H. destruct H as [X1 X2].
  apply negb_true_iff in X1, X2. split; [|exact X2]. intros He. apply existsb_is_ev in He. rewrite He in X1. discriminate X1.
Qed.

(* every one of pre-hook / add / commit comes after the write *)
Theorem write_before_vcs : forall pre e post, tr = pre ++ e :: post -> is_vcs_write_ev e = true -> In EWrite pre.
Proof. apply write_first_spec. exact (write_before_vcs_b c o w Hc Ho Hw). Qed.
End Prop_form.

(* contradictory flags are reported before anything happens: true of every configuration, not only the enumerated ones *)
Theorem contradiction_ok : forall c o w, parse_vcs_options c o = None -> update_trace c o w = ([], false).
Proof. intros c o w H. unfold update_trace. rewrite H. reflexivity. Qed.
(* ================================================================== C09 *)
Local Opaque version_key is_valid v1_is_valid.

Notation vk := version_key (only parsing).

(* ---- order facts in the form used below *)
Lemma key_lt_le : forall a b, key_lt a b = true -> key_le a b = true.
Proof.
  intros a b H. rewrite key_lt_not_le in H. apply negb_true_iff in H.
  destruct (key_le_total a b) as [E|E]; [assumption|]. rewrite E in H. discriminate H.
Qed.
Lemma key_nlt_le : forall a b, key_lt a b = false -> key_le b a = true.
Proof. intros a b H. rewrite key_lt_not_le in H. apply negb_false_iff in H. assumption. Qed.
Lemma key_le_lt_trans : forall a b c, key_le a b = true -> key_lt b c = true -> key_lt a c = true.
Proof.
  intros a b c H1 H2. rewrite key_lt_not_le in *. apply negb_true_iff in H2. apply negb_true_iff.
  destruct (key_le c a) eqn:E; [|reflexivity]. rewrite (key_le_trans c a b E H1) in H2. discriminate H2.
Qed.
Lemma key_lt_trans : forall a b c, key_lt a b = true -> key_lt b c = true -> key_lt a c = true.
Proof. intros a b c H1 H2. apply (key_le_lt_trans a b c); [apply key_lt_le|]; assumption. Qed.
Lemma key_lt_irrefl : forall a, key_lt a a = false.
Proof. intros a. rewrite key_lt_not_le, key_le_refl. reflexivity. Qed.

(* ---- the sort *)
Lemma insert_desc_perm : forall x l, Permutation (insert_desc x l) (x :: l).
Proof.
  induction l as [|y t IH]; [apply Permutation_refl|]. cbn [insert_desc].
  destruct (key_lt (vk y) (vk x)); [apply Permutation_refl|].
  apply perm_trans with (y :: x :: t); [apply perm_skip, IH|apply perm_swap].
Qed.

Lemma fold_insert_perm : forall l acc, Permutation (fold_left (fun a x => insert_desc x a) l acc) (acc ++ l).
Proof.
  induction l as [|x l IH]; intros acc; cbn [fold_left].
  - rewrite app_nil_r. apply Permutation_refl.
  - eapply perm_trans; [apply IH|]. eapply perm_trans; [apply Permutation_app_tail, insert_desc_perm|].
    cbn [app]. apply Permutation_middle.
Qed.

Theorem sort_tags_desc_perm : forall l, Permutation (sort_tags_desc l) l.
Proof. intros l. unfold sort_tags_desc. apply (fold_insert_perm l []). Qed.

Lemma sort_tags_desc_snoc : forall l a, sort_tags_desc (l ++ [a]) = insert_desc a (sort_tags_desc l).
Proof. intros l a. unfold sort_tags_desc. rewrite fold_left_app. reflexivity. Qed.

Lemma sort_tags_desc_nil_inv : forall l, sort_tags_desc l = [] -> l = [].
Proof.
  intros l H. pose proof (sort_tags_desc_perm l) as P. rewrite H in P. apply Permutation_nil in P. assumption.
Qed.

(* the head of the sorted list is the first element of the input whose key is maximal:
   everything before it is strictly smaller, everything after it is not greater *)
Theorem sort_tags_desc_head_spec : forall l x, hd_error (sort_tags_desc l) = Some x ->
  exists pre post, l = pre ++ x :: post /\
    (forall y, In y pre -> key_lt (vk y) (vk x) = true) /\
    (forall y, In y post -> key_le (vk y) (vk x) = true).
Proof.
  induction l as [|a l IH] using rev_ind; intros x H; [discriminate H|].
  rewrite sort_tags_desc_snoc in H.
  destruct (sort_tags_desc l) as [|b s] eqn:E.
  - apply sort_tags_desc_nil_inv in E. subst l. cbn in H. injection H as <-.
    exists [], []. repeat split; intros y [].
  - destruct (IH b eq_refl) as (pre & post & El & Hpre & Hpost).
    cbn [insert_desc] in H. destruct (key_lt (vk b) (vk a)) eqn:Hba; cbn [hd_error] in H; injection H as <-.
    + exists l, []. split; [reflexivity|]. split; [|intros y []].
      intros y Hy. rewrite El in Hy. apply in_app_or in Hy. destruct Hy as [Hy|[<-|Hy]].
      * apply (key_lt_trans _ (vk b)); [apply Hpre; assumption|assumption].
      * assumption.
      * apply (key_le_lt_trans _ (vk b)); [apply Hpost; assumption|assumption].
    + exists pre, (post ++ [a]). split; [rewrite El, <- app_assoc; reflexivity|]. split; [assumption|].
      intros y Hy. apply in_app_or in Hy. destruct Hy as [Hy|[<-|[]]]; [apply Hpost; assumption|].
      apply key_nlt_le. assumption.
Qed.

Theorem sort_tags_desc_head_max : forall l x, hd_error (sort_tags_desc l) = Some x ->
  In x l /\ forall y, In y l -> key_le (vk y) (vk x) = true.
Proof.
  intros l x H. destruct (sort_tags_desc_head_spec l x H) as (pre & post & -> & Hpre & Hpost). split.
  - apply in_or_app. right. left. reflexivity.
  - intros y Hy. apply in_app_or in Hy. destruct Hy as [Hy|[<-|Hy]].
    + apply key_lt_le, Hpre, Hy.
    + apply key_le_refl.
    + apply Hpost, Hy.
Qed.

(* stability: the winner occurs no later than any tag with the same key *)
Theorem sort_tags_desc_first_among_equals : forall l x, hd_error (sort_tags_desc l) = Some x ->
  forall pre y post, l = pre ++ y :: post -> vk y = vk x ->
  exists pre' post', l = pre' ++ x :: post' /\ (length pre' <= length pre)%nat.
Proof.
  intros l x H pre y post El Ek.
  destruct (sort_tags_desc_head_spec l x H) as (pre' & post' & El' & Hpre & _).
  exists pre', post'. split; [assumption|].
  destruct (Nat.le_gt_cases (length pre') (length pre)) as [L|L]; [assumption|exfalso].
  assert (Hy : In y pre').
  { assert (N1 : nth_error l (length pre) = Some y).
    { rewrite El. rewrite nth_error_app2 by lia. rewrite Nat.sub_diag. reflexivity. }
    rewrite El' in N1. rewrite nth_error_app1 in N1 by lia. apply nth_error_In in N1. assumption. }
  specialize (Hpre y Hy). rewrite Ek, key_lt_irrefl in Hpre. discriminate Hpre.
Qed.

(* ---- valid tags *)
Definition tag_valid (today : Z) (isnew : bool) (pat t : list N) : option bool :=
  if isnew then is_valid today t pat else v1_is_valid t pat.

Lemma valid_tags_cons : forall today isnew pat t r,
  valid_tags today isnew pat (t :: r) =
  match tag_valid today isnew pat t, valid_tags today isnew pat r with
  | Some true, Some l => Some (t :: l)
  | Some false, Some l => Some l
  | _, _ => None
  end.
Proof. reflexivity. Qed.

Lemma valid_tags_sound : forall today isnew pat tags l, valid_tags today isnew pat tags = Some l ->
  forall t, In t l -> In t tags /\ tag_valid today isnew pat t = Some true.
Proof.
  induction tags as [|a r IH]; intros l H t Ht.
  - injection H as <-. destruct Ht.
  - rewrite valid_tags_cons in H.
    destruct (tag_valid today isnew pat a) as [[|]|] eqn:Ea; [| |discriminate H];
      destruct (valid_tags today isnew pat r) as [l'|]; try discriminate H; injection H as <-.
    + destruct Ht as [<-|Ht]; [split; [left; reflexivity|assumption]|].
      destruct (IH l' eq_refl t Ht) as [A B]. split; [right; assumption|assumption].
    + destruct (IH l' eq_refl t Ht) as [A B]. split; [right; assumption|assumption].
Qed.

Lemma valid_tags_drop_invalid : forall today isnew pat junk, tag_valid today isnew pat junk = Some false ->
  forall pre post, valid_tags today isnew pat (pre ++ junk :: post) = valid_tags today isnew pat (pre ++ post).
Proof.
  intros today isnew pat junk Hj. induction pre as [|a pre IH]; intros post; cbn [app].
  - rewrite valid_tags_cons, Hj. destruct (valid_tags today isnew pat post); reflexivity.
  - rewrite !valid_tags_cons, IH. reflexivity.
Qed.

Theorem latest_is_valid : forall today isnew pat tags t, latest_tag today isnew pat tags = Some (Some t) ->
  In t tags /\ (if isnew then is_valid today t pat else v1_is_valid t pat) = Some true.
Proof.
  intros today isnew pat tags t H. unfold latest_tag in H.
  destruct (valid_tags today isnew pat tags) as [l|] eqn:E; [|discriminate H]. injection H as H.
  apply sort_tags_desc_head_max in H. destruct H as [H _].
  exact (valid_tags_sound today isnew pat tags l E t H).
Qed.

Theorem invalid_tags_inert : forall today (isnew : bool) pat (tags : list (list N)) junk,
  (if isnew then is_valid today junk pat else v1_is_valid junk pat) = Some false ->
  forall pre post, latest_tag today isnew pat (pre ++ junk :: post) = latest_tag today isnew pat (pre ++ post).
Proof.
  intros today isnew pat tags junk Hj pre post. unfold latest_tag.
  rewrite (valid_tags_drop_invalid today isnew pat junk Hj). reflexivity.
Qed.

(* the latest tag is maximal among the valid tags, and the first such *)
Theorem latest_is_greatest : forall today isnew pat tags t, latest_tag today isnew pat tags = Some (Some t) ->
  forall u, In u tags -> (if isnew then is_valid today u pat else v1_is_valid u pat) = Some true -> ver_le u t = true.
Proof.
  intros today isnew pat tags t H u Hu Hv. unfold latest_tag in H.
  destruct (valid_tags today isnew pat tags) as [l|] eqn:E; [|discriminate H]. injection H as H.
  apply sort_tags_desc_head_max in H. destruct H as [_ H]. unfold ver_le. apply H.
  clear H t. revert l E. induction tags as [|a r IH]; intros l E; [destruct Hu|].
  rewrite valid_tags_cons in E. destruct Hu as [->|Hu].
  - fold (tag_valid today isnew pat u) in Hv. rewrite Hv in E.
    destruct (valid_tags today isnew pat r); [|discriminate E]. injection E as <-. left. reflexivity.
  - destruct (tag_valid today isnew pat a) as [[|]|]; [| |discriminate E];
      destruct (valid_tags today isnew pat r) as [l'|]; try discriminate E; injection E as <-.
    + right. apply (IH Hu l' eq_refl).
    + apply (IH Hu l' eq_refl).
Qed.

Theorem no_valid_tag_keeps_config : forall today isnew pat cfgv sc tags,
  latest_tag today isnew pat tags = Some None -> resolve_current today isnew pat cfgv sc tags = Some cfgv.
Proof. intros today isnew pat cfgv sc tags H. unfold resolve_current. rewrite H. reflexivity. Qed.

Theorem default_scope_takes_greater : forall today isnew pat cfgv tags t,
  latest_tag today isnew pat tags = Some (Some t) ->
  resolve_current today isnew pat cfgv ScopeDefault tags = Some (if ver_le t cfgv then cfgv else t).
Proof.
  intros today isnew pat cfgv tags t H. unfold resolve_current. rewrite H.
  destruct (ver_le t cfgv); reflexivity.
Qed.

Theorem other_scopes_take_tag : forall today isnew pat cfgv tags t sc, sc <> ScopeDefault ->
  latest_tag today isnew pat tags = Some (Some t) -> resolve_current today isnew pat cfgv sc tags = Some t.
Proof.
  intros today isnew pat cfgv tags t sc Hs H. unfold resolve_current. rewrite H.
  destruct sc; [contradiction Hs; reflexivity|reflexivity|reflexivity].
Qed.
