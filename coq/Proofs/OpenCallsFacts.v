(* C04: the keyword arguments of the six open() calls extracted from the source by T1 are transparent
   (newline='' and encoding='utf-8'): reading then writing is the identity on text, for every locale and os.linesep. *)
From Coq Require Import List Bool NArith Arith Lia.
From BV Require Import Lib.PyStr Gen.Tables Lib.Regex Proofs.RegexFacts Model.V2 Model.Rewrite Model.Files Proofs.RewriteFacts.
Import ListNotations.

Theorem repo_open_calls_transparent : forallb call_transparent OPEN_CALLS = true.
Proof. vm_compute. reflexivity. Qed.

Lemma transparent_call : forall c, call_transparent c = true ->
  call_newline c = NlEmpty /\ call_encoding c = Some s_utf8.
Proof.
  intros c H. unfold call_transparent in H. apply andb_true_iff in H as [H1 H2].
  split.
  - destruct (call_newline c); auto; discriminate.
  - destruct (call_encoding c) as [e|]; [|discriminate]. apply eqb_str_eq in H2. congruence.
Qed.

Theorem repo_io_identity : forall c_r c_w locale linesep s, In c_r OPEN_CALLS -> In c_w OPEN_CALLS ->
   write_translate (call_newline c_w) linesep (read_translate (call_newline c_r) s) = s
   /\ effective_encoding (call_encoding c_r) locale = s_utf8 /\ effective_encoding (call_encoding c_w) locale = s_utf8.
Proof.
  intros c_r c_w locale linesep s Hr Hw.
  pose proof repo_open_calls_transparent as H. rewrite forallb_forall in H.
  destruct (transparent_call _ (H _ Hr)) as [R1 R2].
  destruct (transparent_call _ (H _ Hw)) as [W1 W2].
  rewrite R1, R2, W1, W2. repeat split.
Qed.
