(* Facts about the rewrite model (Model/Rewrite.v) and text-mode I/O (Model/Files.v):
   C03 / C04 (matches, splicing, line separators, newline translation), C06 / C13 (file level). *)
From Coq Require Import List Bool NArith Arith Lia Permutation Sorted.
From BV Require Import Lib.PyStr Gen.Tables Lib.Regex Proofs.RegexFacts Model.V2 Model.Rewrite Model.Files.
Import ListNotations.

(* ================================================================== A. strings *)

Lemma eqb_str_eq : forall a b, eqb_str a b = true -> a = b.
Proof.
  induction a as [|x a IH]; destruct b as [|y b]; simpl; intros H; try discriminate; auto.
  apply andb_true_iff in H as [H1 H2]. apply N.eqb_eq in H1. subst. f_equal. auto.
Qed.

Lemma prefixb_split : forall p s, prefixb p s = true -> s = p ++ skipn (length p) s.
Proof.
  induction p as [|x p IH]; intros s H; simpl in *; auto.
  destruct s as [|y s]; [discriminate|].
  apply andb_true_iff in H as [H1 H2]. apply N.eqb_eq in H1. subst.
  simpl. f_equal. auto.
Qed.

Lemma split_go_nonempty : forall sep s k, split_go sep k s <> [].
Proof.
  induction s as [|c t IH]; intros k; simpl; [discriminate|].
  destruct k; [|apply IH].
  destruct (prefixb sep (c :: t)); [discriminate|].
  destruct (split_go sep 0 t); discriminate.
Qed.

Lemma join_cons_nonempty : forall sep p l, l <> [] -> join sep (p :: l) = p ++ sep ++ join sep l.
Proof. intros sep p [|h r] H; [congruence|reflexivity]. Qed.

Lemma join_split_go : forall sep s k, sep <> [] -> join sep (split_go sep k s) = skipn k s.
Proof.
  intros sep s k Hsep. revert k.
  induction s as [|c t IH]; intros k.
  - simpl. destruct k; reflexivity.
  - simpl. destruct k as [|k]; [|apply IH].
    destruct (prefixb sep (c :: t)) eqn:Hp.
    + rewrite join_cons_nonempty by apply split_go_nonempty.
      rewrite IH. simpl.
      destruct sep as [|x sep']; [congruence|].
      apply prefixb_split in Hp. simpl in Hp.
      replace (length (x :: sep') - 1)%nat with (length sep') by (simpl; lia).
      injection Hp as Hx Ht. subst x.
      simpl. f_equal. symmetry. exact Ht.
    + pose proof (split_go_nonempty sep t 0) as Hne.
      specialize (IH 0%nat). simpl in IH.
      destruct (split_go sep 0 t) as [|h r]; [congruence|].
      rewrite <- IH. destruct r; reflexivity.
Qed.

Lemma join_ssplit : forall sep s, sep <> [] -> join sep (ssplit sep s) = s.
Proof.
  intros sep s H. unfold ssplit. destruct sep as [|x sep']; [congruence|].
  rewrite join_split_go by discriminate. reflexivity.
Qed.

Theorem detect_line_sep_cases : forall c,
  detect_line_sep c = s_CRLF \/ detect_line_sep c = s_CR \/ detect_line_sep c = s_LF.
Proof.
  intros c. unfold detect_line_sep.
  destruct (str_in s_CRLF c); auto. destruct (str_in s_CR c); auto.
Qed.

Theorem detect_split_join : forall content,
  join (detect_line_sep content) (ssplit (detect_line_sep content) content) = content.
Proof.
  intros c. apply join_ssplit.
  destruct (detect_line_sep_cases c) as [H|[H|H]]; rewrite H; discriminate.
Qed.

(* ================================================================== B. matches *)

Definition span_ok (p : cpat) : Prop :=
  forall line a b, cp_search p line = Some (a, b) -> (a <= b <= length line)%nat.

Definition separated (m1 m2 : pmatch) : Prop :=
  pm_line m1 <> pm_line m2 \/ (pm_end m1 < pm_start m2)%nat \/ (pm_end m2 < pm_start m1)%nat.

Lemma ifp_in : forall p lines n m, In m (iter_for_pattern p lines n) ->
  pm_pat m = p /\ (n <= pm_line m)%nat /\ (pm_line m < n + length lines)%nat /\
  cp_search p (nth (pm_line m - n) lines []) = Some (pm_start m, pm_end m) /\
  (pm_start m < pm_end m)%nat.
Proof.
  intros p lines. induction lines as [|l t IH]; intros n m H; simpl in H; [contradiction|].
  assert (Hrec : In m (iter_for_pattern p t (S n)) ->
    pm_pat m = p /\ (n <= pm_line m)%nat /\ (pm_line m < n + length (l :: t))%nat /\
    cp_search p (nth (pm_line m - n) (l :: t) []) = Some (pm_start m, pm_end m) /\
    (pm_start m < pm_end m)%nat).
  { intros H'. apply IH in H' as (H1 & H2 & H3 & H4 & H5).
    repeat split; auto; try (simpl; lia).
    replace (pm_line m - n)%nat with (S (pm_line m - S n)) by lia. simpl. exact H4. }
  destruct (cp_search p l) as [[a b]|] eqn:Hs; auto.
  destruct (Nat.ltb_spec a b) as [Hab|Hab]; auto.
  destruct H as [H|H]; auto.
  subst m. simpl. rewrite Nat.sub_diag. simpl. repeat split; auto; lia.
Qed.

Lemma has_overlap_app : forall m s1 s2, has_overlap m (s1 ++ s2) = has_overlap m s1 || has_overlap m s2.
Proof. intros. unfold has_overlap. apply existsb_app. Qed.

Lemma filter_overlaps_in : forall cands spans m, In m (filter_overlaps cands spans) ->
  In m cands /\ has_overlap m spans = false.
Proof.
  induction cands as [|c t IH]; intros spans m H; simpl in H; [contradiction|].
  destruct (has_overlap c spans) eqn:Ho.
  - apply IH in H as [H1 H2]. rewrite has_overlap_app in H2.
    apply orb_false_iff in H2 as [H2 _]. split; [right|]; auto.
  - destruct H as [H|H].
    + subst. split; [left|]; auto.
    + apply IH in H as [H1 H2]. rewrite has_overlap_app in H2.
      apply orb_false_iff in H2 as [H2 _]. split; [right|]; auto.
Qed.

Lemma no_overlap_separated : forall a m,
  has_overlap m [(pm_line a, pm_start a, pm_end a)] = false -> separated a m.
Proof.
  intros a m H. unfold has_overlap in H. simpl in H. rewrite orb_false_r in H.
  unfold separated.
  destruct (Nat.eqb_spec (pm_line a) (pm_line m)); [|auto].
  destruct (Nat.leb_spec (pm_start m) (pm_end a)); [|right; left; lia].
  destruct (Nat.leb_spec (pm_start a) (pm_end m)); [discriminate|right; right; lia].
Qed.

Lemma filter_overlaps_separated : forall cands spans, ForallOrdPairs separated (filter_overlaps cands spans).
Proof.
  induction cands as [|c t IH]; intros spans; simpl; [constructor|].
  destruct (has_overlap c spans); [apply IH|].
  constructor; [|apply IH].
  apply Forall_forall. intros m Hm. apply filter_overlaps_in in Hm as [_ Hm].
  rewrite has_overlap_app in Hm. apply orb_false_iff in Hm as [_ Hm].
  apply no_overlap_separated. exact Hm.
Qed.

Lemma iter_matches_cand : forall lines pats m, In m (iter_matches lines pats) ->
  exists p, In p pats /\ In m (iter_for_pattern p lines 0).
Proof.
  intros lines pats m H. unfold iter_matches in H.
  apply filter_overlaps_in in H as [H _]. apply in_flat_map in H. exact H.
Qed.

Theorem iter_matches_nonempty : forall lines pats m, In m (iter_matches lines pats) -> (pm_start m < pm_end m)%nat.
Proof.
  intros lines pats m H. apply iter_matches_cand in H as (p & _ & H).
  apply ifp_in in H. tauto.
Qed.

Theorem iter_matches_separated : forall lines pats, ForallOrdPairs separated (iter_matches lines pats).
Proof. intros. apply filter_overlaps_separated. Qed.

Theorem iter_matches_in_line : forall lines pats m, (forall p, In p pats -> span_ok p) -> In m (iter_matches lines pats) ->
   (pm_line m < length lines)%nat /\ (pm_end m <= length (nth (pm_line m) lines []))%nat /\ In (pm_pat m) pats /\
   cp_search (pm_pat m) (nth (pm_line m) lines []) = Some (pm_start m, pm_end m).
Proof.
  intros lines pats m Hok H. apply iter_matches_cand in H as (p & Hp & H).
  apply ifp_in in H as (H1 & H2 & H3 & H4 & H5). rewrite Nat.sub_0_r in H4. subst p.
  repeat split; auto.
  apply (Hok _ Hp) in H4. lia.
Qed.

(* the v2 matcher satisfies span_ok, so the hypothesis of iter_matches_in_line holds for every compiled pattern *)
Lemma hd_error_in : forall A (l : list A) x, hd_error l = Some x -> In x l.
Proof. intros A [|y l] x H; simpl in *; [discriminate|]. injection H as ->. left; auto. Qed.

Lemma search_go_bounds : forall fuel n0 r s off o e rest, search_go fuel n0 r off s = Some (o, e, rest) ->
  (off <= o)%nat /\ (o - off + length rest <= length s)%nat.
Proof.
  intros fuel n0 r. induction s as [|c t IH]; intros off o e rest H.
  - simpl in H. destruct (first_match fuel n0 r []) as [[e' s']|] eqn:F; [|discriminate].
    injection H as <- <- <-. apply hd_error_in, rems_len in F. lia.
  - simpl in H. destruct (first_match fuel n0 r (c :: t)) as [[e' s']|] eqn:F.
    + injection H as <- <- <-. apply hd_error_in, rems_len in F. lia.
    + apply IH in H. simpl. lia.
Qed.

Lemma search_of_span_ok : forall r line a b, search_of r line = Some (a, b) -> (a <= b <= length line)%nat.
Proof.
  intros [rx|] line a b H; simpl in H; [|discriminate].
  unfold search_span, re_search in H.
  destruct (search_go (S (length line)) (length line) rx 0 line) as [[[o e] rest]|] eqn:S; [|discriminate].
  injection H as <- <-. apply search_go_bounds in S. lia.
Qed.

Theorem v2_cpat_span_ok : forall vp raw nv p, v2_cpat vp raw nv = Some p -> span_ok p.
Proof.
  intros vp raw nv p H. unfold v2_cpat in H.
  destruct (compile_pattern_re (normalize_pattern vp raw)) as [rx|]; [|discriminate].
  destruct (format_version nv (normalize_pattern vp raw)); [|discriminate].
  injection H as <-. intros line a b Hs. cbn [cp_search] in Hs. eapply search_of_span_ok; exact Hs.
Qed.

Theorem v2_cpats_span_ok : forall vp raws nv pats, v2_cpats vp raws nv = Some pats -> forall p, In p pats -> span_ok p.
Proof.
  intros vp raws nv. induction raws as [|r t IH]; intros pats H p Hp; cbn [v2_cpats] in H.
  - injection H as <-. contradiction.
  - destruct (v2_cpat vp r nv) as [c|] eqn:C; [|discriminate].
    destruct (v2_cpats vp t nv) as [l|]; [|discriminate].
    injection H as <-. destruct Hp as [<-|Hp]; [eapply v2_cpat_span_ok; eauto|eapply IH; eauto].
Qed.

(* ------------------------------------------------------------------ list helpers *)
Lemma set_nth_length : forall A n (x : A) l, length (set_nth n x l) = length l.
Proof. intros A n x l. revert n. induction l; intros [|n]; simpl; auto. Qed.

Lemma nth_set_nth_eq : forall A n (x d : A) l, (n < length l)%nat -> nth n (set_nth n x l) d = x.
Proof. intros A n x d l. revert n. induction l; intros [|n] H; simpl in *; try lia; auto. apply IHl. lia. Qed.

Lemma nth_set_nth_neq : forall A i n (x d : A) l, i <> n -> nth i (set_nth n x l) d = nth i l d.
Proof.
  intros A i n x d l. revert i n. induction l; intros [|i] [|n] H; simpl; auto; try congruence.
Qed.

Lemma skipn_skipn' : forall A x y (l : list A), skipn x (skipn y l) = skipn (x + y) l.
Proof.
  intros A x y. revert x. induction y; intros x l.
  - rewrite Nat.add_0_r. reflexivity.
  - destruct l; simpl.
    + rewrite !skipn_nil. reflexivity.
    + rewrite Nat.add_succ_r. simpl. apply IHy.
Qed.

Lemma SS_snoc : forall A (R : A -> A -> Prop) l x,
  StronglySorted R l -> Forall (fun y => R y x) l -> StronglySorted R (l ++ [x]).
Proof.
  induction l as [|a l IH]; intros x Hs Hf; simpl.
  - constructor; constructor.
  - inversion Hs; subst. inversion Hf; subst. constructor; auto.
    apply Forall_app. split; auto.
Qed.

Lemma Permutation_filter' : forall A (f : A -> bool) l l', Permutation l l' -> Permutation (filter f l) (filter f l').
Proof.
  intros A f l l' H. induction H; simpl.
  - constructor.
  - destruct (f x); auto.
  - destruct (f x), (f y); auto. constructor.
  - eapply perm_trans; eauto.
Qed.

(* ------------------------------------------------------------------ ascending sort of spans by start *)
Definition span := (nat * nat * list N)%type.
Definition sp_start (s : span) : nat := fst (fst s).
Fixpoint sp_insert (x : span) (l : list span) : list span :=
  match l with
  | [] => [x]
  | y :: t => if Nat.leb (sp_start x) (sp_start y) then x :: l else y :: sp_insert x t
  end.
Definition sort_asc (l : list span) : list span := fold_right sp_insert [] l.

Definition to_span (m : pmatch) : span := (pm_start m, pm_end m, cp_repl (pm_pat m)).
Definition on_line (i : nat) (m : pmatch) : bool := Nat.eqb (pm_line m) i.

(* the matches of ms on line i, ascending by start, as (start, end, replacement) *)
Definition spans_on (ms : list pmatch) (i : nat) : list (nat * nat * list N) :=
  sort_asc (map to_span (filter (on_line i) ms)).

Lemma sp_insert_perm : forall x l, Permutation (sp_insert x l) (x :: l).
Proof.
  induction l as [|y t IH]; simpl; auto.
  destruct (Nat.leb (sp_start x) (sp_start y)); auto.
  eapply perm_trans; [apply perm_skip, IH|apply perm_swap].
Qed.

Lemma sort_asc_perm : forall l, Permutation (sort_asc l) l.
Proof.
  induction l; simpl; auto.
  eapply perm_trans; [apply sp_insert_perm|]. auto.
Qed.

Definition sp_le (a b : span) : Prop := (sp_start a <= sp_start b)%nat.
Definition sp_lt (a b : span) : Prop := (sp_start a < sp_start b)%nat.

Lemma sp_insert_sorted : forall x l, StronglySorted sp_le l -> StronglySorted sp_le (sp_insert x l).
Proof.
  induction l as [|y t IH]; intros Hs; simpl.
  - constructor; constructor.
  - inversion Hs; subst.
    destruct (Nat.leb_spec (sp_start x) (sp_start y)).
    + constructor; auto. constructor; [exact H|].
      eapply Forall_impl; [|exact H2]. unfold sp_le. intros; lia.
    + constructor; auto.
      eapply Permutation_Forall; [apply Permutation_sym, sp_insert_perm|].
      constructor; auto. unfold sp_le. lia.
Qed.

Lemma sort_asc_sorted : forall l, StronglySorted sp_le (sort_asc l).
Proof. induction l; simpl; [constructor|apply sp_insert_sorted; auto]. Qed.

Lemma sorted_unique : forall l1 l2, Permutation l1 l2 ->
  StronglySorted sp_le l1 -> StronglySorted sp_lt l2 -> l1 = l2.
Proof.
  induction l1 as [|a l1 IH]; intros l2 Hp H1 H2.
  - apply Permutation_nil in Hp. auto.
  - destruct l2 as [|b l2].
    + apply Permutation_sym, Permutation_nil in Hp. discriminate.
    + inversion H1; subst. inversion H2; subst.
      assert (Hab : a = b).
      { assert (Ha : In a (b :: l2)) by (eapply Permutation_in; [exact Hp|left; auto]).
        assert (Hb : In b (a :: l1)) by (eapply Permutation_in; [apply Permutation_sym; exact Hp|left; auto]).
        destruct Ha as [Ha|Ha]; auto.
        destruct Hb as [Hb|Hb]; auto.
        rewrite Forall_forall in H4, H6.
        apply H4 in Hb. apply H6 in Ha. unfold sp_le, sp_lt in *. lia. }
      subst b. f_equal. apply IH; auto.
      eapply Permutation_cons_inv; eauto.
Qed.

(* ------------------------------------------------------------------ sort_desc *)
Lemma pm_insert_perm : forall x l, Permutation (pm_insert x l) (x :: l).
Proof.
  induction l as [|y t IH]; simpl; auto.
  destruct (pm_after y x); auto.
  eapply perm_trans; [apply perm_skip, IH|apply perm_swap].
Qed.

Lemma sort_desc_perm : forall l, Permutation (sort_desc l) l.
Proof.
  induction l; simpl; auto.
  eapply perm_trans; [apply pm_insert_perm|]. auto.
Qed.

Lemma pm_after_spec : forall a b, pm_after a b = true <->
  ((pm_line b < pm_line a)%nat \/
   (pm_line a = pm_line b /\ ((pm_start b < pm_start a)%nat \/ (pm_start a = pm_start b /\ (pm_end b < pm_end a)%nat)))).
Proof.
  intros a b. unfold pm_after.
  rewrite !orb_true_iff, !andb_true_iff, !orb_true_iff, !andb_true_iff, !Nat.ltb_lt, !Nat.eqb_eq. tauto.
Qed.

(* strictly after, with a gap: what sortedness + separation give for a before b in sort_desc *)
Definition gt_sep (a b : pmatch) : Prop :=
  (pm_line b < pm_line a)%nat \/ (pm_line a = pm_line b /\ (pm_end b < pm_start a)%nat).

Lemma pm_insert_ss : forall x l, StronglySorted gt_sep l -> (pm_start x <= pm_end x)%nat ->
  Forall (fun y => separated x y /\ (pm_start y <= pm_end y)%nat) l ->
  StronglySorted gt_sep (pm_insert x l).
Proof.
  induction l as [|y t IH]; intros Hs Hx Hf; simpl.
  - constructor; constructor.
  - inversion Hs; subst. inversion Hf; subst. destruct H3 as [Hsep Hy].
    destruct (pm_after y x) eqn:E.
    + apply pm_after_spec in E.
      constructor; auto.
      eapply Permutation_Forall; [apply Permutation_sym, pm_insert_perm|].
      constructor; auto. unfold gt_sep, separated in *. lia.
    + assert (E' : ~ ((pm_line x < pm_line y)%nat \/
        (pm_line y = pm_line x /\ ((pm_start x < pm_start y)%nat \/ (pm_start y = pm_start x /\ (pm_end x < pm_end y)%nat))))).
      { intro H. apply pm_after_spec in H. congruence. }
      assert (Hxy : gt_sep x y) by (unfold gt_sep, separated in *; lia).
      constructor; auto. constructor; auto.
      eapply Forall_impl; [|exact H2]. intros z Hz. unfold gt_sep in *. lia.
Qed.

Lemma sort_desc_ss : forall ms, ForallOrdPairs separated ms ->
  (forall m, In m ms -> (pm_start m <= pm_end m)%nat) -> StronglySorted gt_sep (sort_desc ms).
Proof.
  induction 1 as [|a l Hf Hp IH]; intros Hw; simpl.
  - constructor.
  - apply pm_insert_ss.
    + apply IH. intros; apply Hw; right; auto.
    + apply Hw; left; auto.
    + eapply Permutation_Forall; [apply Permutation_sym, sort_desc_perm|].
      apply Forall_forall. intros y Hy. split.
      * rewrite Forall_forall in Hf. auto.
      * apply Hw; right; auto.
Qed.

(* ------------------------------------------------------------------ replace_spans and right-to-left splicing *)
Fixpoint chain (off : nat) (S : list span) (a : nat) : Prop :=
  match S with
  | [] => (off <= a)%nat
  | (s, e, _) :: T => (off <= s)%nat /\ (s <= e)%nat /\ chain e T a
  end.

Lemma chain_le : forall S off a, chain off S a -> (off <= a)%nat.
Proof.
  induction S as [|[[s e] r] T IH]; intros off a H; simpl in H; auto.
  destruct H as (H1 & H2 & H3). apply IH in H3. lia.
Qed.

Lemma chain_snoc : forall S off s e r a, chain off S s -> (s <= e)%nat -> (e <= a)%nat -> chain off (S ++ [(s, e, r)]) a.
Proof.
  induction S as [|[[s' e'] r'] T IH]; intros off s e r a H H1 H2; simpl in *.
  - auto.
  - destruct H as (Ha & Hb & Hc). repeat split; auto.
Qed.

Lemma replace_spans_snoc : forall S line off a b r,
  chain off S a -> (a <= b)%nat -> (a - off <= length line)%nat ->
  replace_spans (firstn (a - off) line ++ r ++ skipn (b - off) line) off S
  = replace_spans line off (S ++ [(a, b, r)]).
Proof.
  induction S as [|[[s e] r'] T IH]; intros line off a b r Hc Hab Hlen.
  - simpl. reflexivity.
  - simpl in Hc. destruct Hc as (H1 & H2 & H3).
    pose proof (chain_le _ _ _ H3) as Hea.
    simpl.
    rewrite firstn_app, firstn_firstn.
    rewrite (firstn_length_le line) by exact Hlen.
    replace (s - off - (a - off))%nat with 0%nat by lia.
    replace (Nat.min (s - off) (a - off)) with (s - off)%nat by lia.
    simpl firstn at 2. rewrite app_nil_r.
    f_equal. f_equal.
    rewrite skipn_app.
    rewrite (firstn_length_le line) by exact Hlen.
    replace (e - off - (a - off))%nat with 0%nat by lia.
    rewrite skipn_firstn_comm. simpl skipn at 2.
    replace (a - off - (e - off))%nat with (a - e)%nat by lia.
    replace (skipn (b - off) line) with (skipn (b - e) (skipn (e - off) line))
      by (rewrite skipn_skipn'; f_equal; lia).
    apply IH; auto.
    rewrite skipn_length. lia.
Qed.

Lemma replace_spans_splice : forall S line a b r,
  chain 0 S a -> (a <= b)%nat -> (a <= length line)%nat ->
  replace_spans (splice line a b r) 0 S = replace_spans line 0 (S ++ [(a, b, r)]).
Proof.
  intros. unfold splice.
  rewrite <- replace_spans_snoc; auto; rewrite ?Nat.sub_0_r; auto.
Qed.

(* on one line, sorted descending with gaps *)
Definition gtl (a b : pmatch) : Prop := (pm_end b < pm_start a)%nat.

Lemma filter_line_ss : forall i L, StronglySorted gt_sep L -> StronglySorted gtl (filter (on_line i) L).
Proof.
  induction L as [|a L IH]; intros Hs; simpl; [constructor|].
  inversion Hs; subst.
  destruct (on_line i a) eqn:Ea; auto.
  constructor; auto.
  apply Forall_forall. intros x Hx. apply filter_In in Hx as [Hx Ex].
  rewrite Forall_forall in H2. apply H2 in Hx.
  unfold on_line in *. apply Nat.eqb_eq in Ea, Ex. unfold gt_sep, gtl in *. lia.
Qed.

Lemma chain_rev : forall F a, StronglySorted gtl F ->
  (forall f, In f F -> (pm_start f <= pm_end f)%nat /\ (pm_end f <= a)%nat) ->
  chain 0 (rev (map to_span F)) a.
Proof.
  induction F as [|f F IH]; intros a Hs Hb; simpl.
  - lia.
  - inversion Hs; subst.
    destruct (Hb f (or_introl eq_refl)) as [Hf1 Hf2].
    unfold to_span at 2. apply chain_snoc; auto.
    apply IH; auto.
    intros g Hg. split; [apply Hb; right; auto|].
    rewrite Forall_forall in H2. apply H2 in Hg. unfold gtl in Hg. lia.
Qed.

Lemma sorted_rev_spans : forall F, StronglySorted gtl F ->
  (forall f, In f F -> (pm_start f <= pm_end f)%nat) ->
  StronglySorted sp_lt (rev (map to_span F)).
Proof.
  induction F as [|f F IH]; intros Hs Hb; simpl.
  - constructor.
  - inversion Hs; subst.
    apply SS_snoc.
    + apply IH; auto. intros; apply Hb; right; auto.
    + apply Forall_forall. intros y Hy. apply in_rev, in_map_iff in Hy as (g & <- & Hg).
      rewrite Forall_forall in H2. pose proof (H2 _ Hg) as Hfg.
      pose proof (Hb g (or_intror Hg)). unfold gtl, sp_lt, sp_start, to_span in *. simpl. lia.
Qed.

Definition rw_step (ls : list (list N)) (m : pmatch) : list (list N) :=
  set_nth (pm_line m) (splice (nth (pm_line m) ls []) (pm_start m) (pm_end m) (cp_repl (pm_pat m))) ls.

Definition wf_on (lines : list (list N)) (m : pmatch) : Prop :=
  (pm_start m <= pm_end m)%nat /\ (pm_line m < length lines)%nat /\ (pm_end m <= length (nth (pm_line m) lines []))%nat.

Lemma fold_spec : forall L lines, StronglySorted gt_sep L -> (forall m, In m L -> wf_on lines m) ->
  length (fold_left rw_step L lines) = length lines /\
  forall i, (i < length lines)%nat ->
    nth i (fold_left rw_step L lines) [] = replace_spans (nth i lines []) 0 (rev (map to_span (filter (on_line i) L))).
Proof.
  induction L as [|m L IH]; intros lines Hs Hw.
  - simpl. split; auto.
  - inversion Hs; subst. rename H1 into HsL, H2 into Hgt.
    destruct (Hw m (or_introl eq_refl)) as (Hm1 & Hm2 & Hm3).
    simpl fold_left.
    assert (Hlen : length (rw_step lines m) = length lines) by (unfold rw_step; apply set_nth_length).
    assert (Hw' : forall m', In m' L -> wf_on (rw_step lines m) m').
    { intros m' Hin. destruct (Hw m' (or_intror Hin)) as (H1 & H2 & H3).
      unfold wf_on. rewrite Hlen. repeat split; auto.
      rewrite Forall_forall in Hgt. apply Hgt in Hin.
      unfold rw_step.
      destruct (Nat.eq_dec (pm_line m') (pm_line m)) as [E|E].
      - rewrite E. rewrite nth_set_nth_eq by auto.
        unfold splice. rewrite app_length, firstn_length_le by lia.
        unfold gt_sep in Hin. lia.
      - rewrite nth_set_nth_neq by auto. auto. }
    destruct (IH (rw_step lines m) HsL Hw') as [IH1 IH2].
    split; [congruence|].
    intros i Hi. rewrite IH2 by lia.
    simpl filter. unfold on_line at 2.
    destruct (Nat.eqb_spec (pm_line m) i) as [E|E].
    + subst i. unfold rw_step at 1. rewrite nth_set_nth_eq by auto.
      simpl map. simpl rev. unfold to_span at 2.
      apply replace_spans_splice; [|lia|lia].
      apply chain_rev.
      * apply filter_line_ss; auto.
      * intros f Hf. apply filter_In in Hf as [Hf Ef].
        destruct (Hw f (or_intror Hf)) as (H1 & _).
        rewrite Forall_forall in Hgt. apply Hgt in Hf.
        unfold on_line in Ef. apply Nat.eqb_eq in Ef. unfold gt_sep in Hf. lia.
    + unfold rw_step at 1. rewrite nth_set_nth_neq by auto. reflexivity.
Qed.

Lemma spans_on_sort_desc : forall ms i, ForallOrdPairs separated ms ->
  (forall m, In m ms -> (pm_start m <= pm_end m)%nat) ->
  spans_on ms i = rev (map to_span (filter (on_line i) (sort_desc ms))).
Proof.
  intros ms i Hsep Hw. unfold spans_on.
  apply sorted_unique.
  - eapply perm_trans; [apply sort_asc_perm|].
    eapply perm_trans; [|apply Permutation_rev].
    apply Permutation_map, Permutation_filter', Permutation_sym, sort_desc_perm.
  - apply sort_asc_sorted.
  - apply sorted_rev_spans.
    + apply filter_line_ss, sort_desc_ss; auto.
    + intros f Hf. apply filter_In in Hf as [Hf _]. apply Hw.
      eapply Permutation_in; [apply sort_desc_perm|exact Hf].
Qed.

(* every yielded match is replaced by its pattern's rendering and nothing else changes *)
Theorem apply_matches_spec : forall ms lines, ForallOrdPairs separated ms ->
  (forall m, In m ms -> (pm_start m <= pm_end m)%nat /\ (pm_line m < length lines)%nat /\
                        (pm_end m <= length (nth (pm_line m) lines []))%nat) ->
  length (apply_matches ms lines) = length lines /\
  forall i, (i < length lines)%nat ->
    nth i (apply_matches ms lines) [] = replace_spans (nth i lines []) 0 (spans_on ms i).
Proof.
  intros ms lines Hsep Hw.
  assert (Hw1 : forall m, In m ms -> (pm_start m <= pm_end m)%nat) by (intros m Hm; apply Hw in Hm; tauto).
  change (apply_matches ms lines) with (fold_left rw_step (sort_desc ms) lines).
  destruct (fold_spec (sort_desc ms) lines) as [H1 H2].
  - apply sort_desc_ss; auto.
  - intros m Hm. apply Hw. eapply Permutation_in; [apply sort_desc_perm|exact Hm].
  - split; auto. intros i Hi. rewrite spans_on_sort_desc by auto. auto.
Qed.

Corollary untouched_lines_unchanged : forall ms lines, ForallOrdPairs separated ms ->
  (forall m, In m ms -> (pm_start m <= pm_end m)%nat /\ (pm_line m < length lines)%nat /\
                        (pm_end m <= length (nth (pm_line m) lines []))%nat) ->
  forall i, (forall m, In m ms -> pm_line m <> i) -> nth i (apply_matches ms lines) [] = nth i lines [].
Proof.
  intros ms lines Hsep Hw i Hi.
  destruct (apply_matches_spec ms lines Hsep Hw) as [H1 H2].
  destruct (Nat.lt_ge_cases i (length lines)) as [Hlt|Hge].
  - rewrite H2 by auto. unfold spans_on.
    replace (filter (on_line i) ms) with (@nil pmatch); [reflexivity|].
    symmetry. clear -Hi. induction ms as [|m ms IH]; simpl; auto.
    unfold on_line at 1. destruct (Nat.eqb_spec (pm_line m) i) as [E|E].
    + exfalso. apply (Hi m); [left|]; auto.
    + apply IH. intros; apply Hi; right; auto.
  - rewrite !nth_overflow; auto; lia.
Qed.

Theorem rewrite_lines_ok_iff : forall pats lines,
  (exists nl, rewrite_lines pats lines = RwOk nl) <-> forallb (pat_found (iter_matches lines pats)) pats = true.
Proof.
  intros pats lines. unfold rewrite_lines.
  destruct (forallb (pat_found (iter_matches lines pats)) pats).
  - split; auto. intros _. eexists; reflexivity.
  - split; [|discriminate]. intros [nl H].
    destruct (existsb (pat_found (iter_matches lines pats)) pats); discriminate.
Qed.

(* the matches that rewrite_lines applies satisfy the hypotheses of apply_matches_spec *)
Theorem rewrite_lines_spec : forall pats lines nl, (forall p, In p pats -> span_ok p) ->
  rewrite_lines pats lines = RwOk nl ->
  length nl = length lines /\
  forall i, (i < length lines)%nat -> nth i nl [] = replace_spans (nth i lines []) 0 (spans_on (iter_matches lines pats) i).
Proof.
  intros pats lines nl Hok H. unfold rewrite_lines in H.
  destruct (forallb (pat_found (iter_matches lines pats)) pats).
  - injection H as <-. apply apply_matches_spec.
    + apply iter_matches_separated.
    + intros m Hm. pose proof (iter_matches_nonempty _ _ _ Hm).
      apply iter_matches_in_line in Hm; auto. intuition lia.
  - destruct (existsb (pat_found (iter_matches lines pats)) pats); discriminate.
Qed.

(* two different patterns on one line: both replacements survive.
   A literal-needle matcher: search = first occurrence of the needle. *)
Definition lit_pat (needle repl : list N) : cpat :=
  mkcpat needle
         (fun line => match sfind needle line with Some i => Some (i, i + length needle)%nat | None => None end)
         repl.
(* "x=AAA;y=BB"  with AAA -> "CCCCC" and BB -> "D" gives "x=CCCCC;y=D" *)
Definition ex_pA : cpat := lit_pat [65;65;65]%N [67;67;67;67;67]%N.
Definition ex_pB : cpat := lit_pat [66;66]%N [68]%N.
Definition ex_line : list N := [120;61;65;65;65;59;121;61;66;66]%N.
Definition ex_new_line : list N := [120;61;67;67;67;67;67;59;121;61;68]%N.

Example two_patterns_one_line :
  rewrite_lines [ex_pA; ex_pB] [ex_line] = RwOk [ex_new_line] /\
  rewrite_lines [ex_pB; ex_pA] [ex_line] = RwOk [ex_new_line] /\
  str_in (cp_repl ex_pA) ex_new_line = true /\ str_in (cp_repl ex_pB) ex_new_line = true.
Proof. vm_compute. repeat split; reflexivity. Qed.

(* ================================================================== C. files *)

Lemma writes_app : forall a b, writes (a ++ b) = writes a ++ writes b.
Proof. intros. apply flat_map_app. Qed.

Lemma writes_map_write : forall ws, writes (map (fun '(p, c) => EWrite p c) ws) = ws.
Proof. induction ws as [|[p c] ws IH]; simpl; auto. f_equal. exact IH. Qed.

(* the content rewrite_files would write for an item; None = file missing or NoPatternMatch *)
Definition nc_of (fs : fsys) (it : list N * list cpat) : option (list N) :=
  match fs (fst it) with Some c => new_content (snd it) c | None => None end.

Definition targets (fs : fsys) (items : list (list N * list cpat)) : list (list N * list N) :=
  flat_map (fun it => match nc_of fs it with Some nc => [(fst it, nc)] | None => [] end) items.

Lemma targets_fst : forall fs items, Forall (fun it => nc_of fs it <> None) items ->
  map fst (targets fs items) = map fst items.
Proof.
  induction 1 as [|it t H Hf IH]; simpl; auto.
  destruct (nc_of fs it); [|congruence]. simpl. f_equal. exact IH.
Qed.

Lemma validate_all_spec : forall fs items,
  writes (snd (fst (validate_all fs items))) = [] /\
  ((Forall (fun it => nc_of fs it <> None) items /\ exists e, validate_all fs items = (FilesOk, e, targets fs items)) \/
   (Exists (fun it => nc_of fs it = None) items /\ exists r e ws, validate_all fs items = (r, e, ws) /\ r <> FilesOk)).
Proof.
  intros fs. induction items as [|[path pats] t IH].
  - simpl. split; auto. left. split; [constructor|]. eexists; reflexivity.
  - cbn [validate_all]. unfold rewritten_one.
    destruct (fs path) as [c|] eqn:Hfs.
    + destruct (new_content pats c) as [nc|] eqn:Hnc.
      * destruct (validate_all fs t) as [[r e'] ws] eqn:V.
        destruct IH as [IHw IH]. simpl in IHw.
        assert (Hn : nc_of fs (path, pats) = Some nc) by (unfold nc_of; simpl; rewrite Hfs; exact Hnc).
        split; [simpl; exact IHw|].
        destruct IH as [[Hf [e0 He]]|[Hex (r0 & e0 & ws0 & He & Hr)]].
        -- left. split; [constructor; auto; congruence|].
           injection He as -> -> ->. eexists. unfold targets at 2. simpl. rewrite Hn. reflexivity.
        -- right. split; [apply Exists_cons_tl; auto|].
           injection He as -> -> ->. do 3 eexists. split; [reflexivity|auto].
      * split; [reflexivity|]. right. split.
        -- apply Exists_cons_hd. unfold nc_of; simpl; rewrite Hfs; exact Hnc.
        -- do 3 eexists. split; [reflexivity|discriminate].
    + split; [reflexivity|]. right. split.
      * apply Exists_cons_hd. unfold nc_of; simpl; rewrite Hfs; reflexivity.
      * do 3 eexists. split; [reflexivity|discriminate].
Qed.

Lemma good_bad_absurd : forall fs items,
  Forall (fun it => nc_of fs it <> None) items -> Exists (fun it => nc_of fs it = None) items -> False.
Proof.
  intros fs items Hf He. apply Exists_exists in He as (it & Hin & Hn).
  rewrite Forall_forall in Hf. exact (Hf it Hin Hn).
Qed.

Lemma eager_good : forall fs items, Forall (fun it => nc_of fs it <> None) items ->
  exists es, rewrite_files_eager fs items = (FilesOk, es) /\ writes es = targets fs items.
Proof.
  intros fs items Hf. unfold rewrite_files_eager.
  destruct (validate_all_spec fs items) as [Hw [[_ [e He]]|[Hex _]]].
  - rewrite He in *. simpl in Hw. eexists. split; [reflexivity|].
    rewrite writes_app, Hw, writes_map_write. reflexivity.
  - exfalso. eapply good_bad_absurd; eauto.
Qed.

Lemma eager_bad : forall fs items, Exists (fun it => nc_of fs it = None) items ->
  exists r es, rewrite_files_eager fs items = (r, es) /\ r <> FilesOk /\ writes es = [].
Proof.
  intros fs items Hex. unfold rewrite_files_eager.
  destruct (validate_all_spec fs items) as [Hw [[Hf _]|[_ (r & e & ws & He & Hr)]]].
  - exfalso. eapply good_bad_absurd; eauto.
  - rewrite He in *. simpl in Hw. exists r, e.
    destruct r; try congruence; auto.
Qed.

Theorem eager_atomic : forall fs items r es, rewrite_files_eager fs items = (r, es) -> r <> FilesOk -> writes es = [].
Proof.
  intros fs items r es H Hr. unfold rewrite_files_eager in H.
  destruct (validate_all_spec fs items) as [Hw _].
  destruct (validate_all fs items) as [[r0 e] ws]. simpl in Hw.
  destruct r0; injection H as <- <-; congruence.
Qed.

Theorem eager_ok_writes_all : forall fs items es, rewrite_files_eager fs items = (FilesOk, es) -> map fst (writes es) = map fst items.
Proof.
  intros fs items es H.
  destruct (validate_all_spec fs items) as [_ [[Hf _]|[Hex _]]].
  - destruct (eager_good fs items Hf) as (es' & H1 & H2).
    rewrite H in H1. injection H1 as <-. rewrite H2. apply targets_fst. exact Hf.
  - destruct (eager_bad fs items Hex) as (r & es' & H1 & H2 & _).
    rewrite H in H1. injection H1 as <- <-. congruence.
Qed.

(* concrete two-file project: the first file is fine, the second does not exist *)
Definition ex_fs : fsys := fun p => if eqb_str p [102;49]%N then Some ex_line else None.
Definition ex_items : list (list N * list cpat) := [([102;49]%N, [ex_pA; ex_pB]); ([102;50]%N, [ex_pA])].

Theorem lazy_not_atomic : exists fs items r es, rewrite_files_lazy fs items = (r, es) /\ r <> FilesOk /\ writes es <> [].
Proof.
  exists ex_fs, ex_items. eexists. eexists. split; [vm_compute; reflexivity|].
  split; discriminate.
Qed.

(* on the same project the eager variant reports the same error and writes nothing *)
Example eager_on_lazy_counterexample :
  fst (rewrite_files_lazy ex_fs ex_items) = FilesIOError /\
  writes (snd (rewrite_files_lazy ex_fs ex_items)) = [([102;49]%N, ex_new_line)] /\
  fst (rewrite_files_eager ex_fs ex_items) = FilesIOError /\
  writes (snd (rewrite_files_eager ex_fs ex_items)) = [].
Proof. vm_compute. repeat split; reflexivity. Qed.


(* ------------------------------------------------------------------ dry run *)
Lemma diff_each_ok : forall fs changed items l, diff_each fs changed items = (FilesOk, l) ->
  Forall (fun it => nc_of fs it <> None) items /\ l = targets fs items.
Proof.
  intros fs changed. induction items as [|[path pats] t IH]; intros l H.
  - simpl in H. injection H as <-. split; [constructor|reflexivity].
  - cbn [diff_each] in H.
    destruct (fs path) as [c|] eqn:Hfs; [|discriminate].
    destruct (new_content pats c) as [nc|] eqn:Hnc; [|discriminate].
    destruct (eqb_str nc c && existsb changed pats); [discriminate|].
    destruct (diff_each fs changed t) as [r l'] eqn:D.
    injection H as -> <-.
    destruct (IH l' eq_refl) as [Hf ->].
    assert (Hn : nc_of fs (path, pats) = Some nc) by (unfold nc_of; simpl; rewrite Hfs; exact Hnc).
    split; [constructor; auto; congruence|].
    unfold targets at 2. simpl. rewrite Hn. reflexivity.
Qed.

Lemma diff_each_error : forall fs changed items r l, diff_each fs changed items = (r, l) -> r <> FilesOk ->
  (forall it c nc, In it items -> fs (fst it) = Some c -> new_content (snd it) c = Some nc ->
                   eqb_str nc c && existsb changed (snd it) = false) ->
  Exists (fun it => nc_of fs it = None) items.
Proof.
  intros fs changed. induction items as [|[path pats] t IH]; intros r l H Hr Hx.
  - simpl in H. injection H as <- <-. congruence.
  - cbn [diff_each] in H.
    destruct (fs path) as [c|] eqn:Hfs;
      [|apply Exists_cons_hd; unfold nc_of; simpl; rewrite Hfs; reflexivity].
    destruct (new_content pats c) as [nc|] eqn:Hnc;
      [|apply Exists_cons_hd; unfold nc_of; simpl; rewrite Hfs; exact Hnc].
    pose proof (Hx (path, pats) c nc (or_introl eq_refl) Hfs Hnc) as Hx0. simpl in Hx0. rewrite Hx0 in H.
    destruct (diff_each fs changed t) as [r' l'] eqn:D.
    injection H as -> <-.
    apply Exists_cons_tl. eapply IH; eauto.
    intros; eapply Hx; eauto. right; auto.
Qed.

Lemma all_exist_false : forall fs items, all_exist fs items = false -> Exists (fun it => nc_of fs it = None) items.
Proof.
  intros fs. induction items as [|[path pats] t IH]; simpl; intros H; [discriminate|].
  destruct (fs path) eqn:Hfs.
  - apply Exists_cons_tl; auto.
  - apply Exists_cons_hd. unfold nc_of; simpl; rewrite Hfs; reflexivity.
Qed.

Lemma Exists_perm : forall A (P : A -> Prop) l l', Permutation l l' -> Exists P l -> Exists P l'.
Proof.
  intros A P l l' Hp He. apply Exists_exists in He as (x & Hin & Hx).
  apply Exists_exists. exists x. split; auto. eapply Permutation_in; eauto.
Qed.

(* the hypothesis NoDup is not needed *)
Theorem dry_ok_real_ok_strong : forall fs changed items sorted_items l, Permutation items sorted_items ->
   diff_files fs changed sorted_items = (FilesOk, l) ->
   exists es, rewrite_files_eager fs items = (FilesOk, es) /\ Permutation (writes es) l.
Proof.
  intros fs changed items sorted l Hp H. unfold diff_files in H.
  destruct (all_exist fs sorted); [|discriminate].
  apply diff_each_ok in H as [Hf ->].
  assert (Hf' : Forall (fun it => nc_of fs it <> None) items)
    by (eapply Permutation_Forall; [apply Permutation_sym; exact Hp|exact Hf]).
  destruct (eager_good fs items Hf') as (es & H1 & H2).
  exists es. split; auto. rewrite H2. unfold targets. apply Permutation_flat_map. exact Hp.
Qed.

Theorem dry_ok_real_ok : forall fs changed items sorted_items l, Permutation items sorted_items -> NoDup (map fst items) ->
   diff_files fs changed sorted_items = (FilesOk, l) ->
   exists es, rewrite_files_eager fs items = (FilesOk, es) /\ Permutation (writes es) l.
Proof. intros fs changed items sorted l Hp _ H. eapply dry_ok_real_ok_strong; eauto. Qed.

(* a missing file or a file whose patterns do not all match makes the real run fail without writing, in every order *)
Theorem bad_item_real_noop : forall fs items,
  (exists it, In it items /\ (fs (fst it) = None \/ exists c, fs (fst it) = Some c /\ new_content (snd it) c = None)) ->
  exists r es, rewrite_files_eager fs items = (r, es) /\ r <> FilesOk /\ writes es = [].
Proof.
  intros fs items (it & Hin & Hbad). apply eager_bad.
  apply Exists_exists. exists it. split; auto.
  unfold nc_of. destruct Hbad as [H|(c & H1 & H2)]; [rewrite H|rewrite H1]; auto.
Qed.

(* a failing dry run, when the failure is not the dry-only "no diff lines" rule, means the real run
   fails too (in every order of the files) and writes nothing *)
Theorem dry_error_real_noop : forall fs changed items sorted_items r l, Permutation items sorted_items ->
  diff_files fs changed sorted_items = (r, l) -> r <> FilesOk ->
  (forall it c nc, In it sorted_items -> fs (fst it) = Some c -> new_content (snd it) c = Some nc ->
                   eqb_str nc c && existsb changed (snd it) = false) ->
  exists r' es, rewrite_files_eager fs items = (r', es) /\ r' <> FilesOk /\ writes es = [].
Proof.
  intros fs changed items sorted r l Hp H Hr Hx. apply eager_bad.
  apply (Exists_perm _ _ sorted items); [apply Permutation_sym; exact Hp|].
  unfold diff_files in H. destruct (all_exist fs sorted) eqn:Ha.
  - eapply diff_each_error; eauto.
  - apply all_exist_false. exact Ha.
Qed.

(* the extra rule is a real difference: the dry run can fail where the real run succeeds *)
Definition ex_same : cpat := lit_pat [65]%N [65]%N.
Theorem dry_stricter_than_real : exists fs changed items l es,
  diff_files fs changed items = (FilesNoMatch, l) /\ rewrite_files_eager fs items = (FilesOk, es).
Proof.
  exists (fun _ => Some [65]%N), (fun _ => true), [([102]%N, [ex_same])]. eexists. eexists.
  vm_compute. split; reflexivity.
Qed.

(* ================================================================== D. text-mode I/O *)

Theorem newline_empty_transparent : forall linesep s, write_translate NlEmpty linesep (read_translate NlEmpty s) = s.
Proof. reflexivity. Qed.

Theorem universal_newlines_not_transparent : exists linesep s, write_translate NlUniversal linesep (read_translate NlUniversal s) <> s.
Proof. exists [10%N], [13%N]. vm_compute. discriminate. Qed.

